(* Proofs about Model/ConnLoop.v: with the write raced against the close request and the shutdown signal, a connection
   ends at the very step the request arrives, whatever its peer does; without the race, a connection whose write never
   completes outlives every close request. *)
From NW Require Import Model.ConnLoop.
From Coq Require Import List Bool.
Import ListNotations.

Lemma ended_stays : forall raced is_ s, ph s = LEnded -> ph (lrun raced s is_) = LEnded.
Proof.
  induction is_ as [|i r IH]; intros s H; simpl; [exact H|].
  apply IH. unfold lstep. rewrite H. exact H.
Qed.

(* raced: a close request or the shutdown ends the connection at once, in every state, whatever follows *)
Theorem raced_close_ends_now : forall s i rest, is_close i = true -> ph (lrun true s (i :: rest)) = LEnded.
Proof.
  intros s i rest H. simpl. apply ended_stays.
  unfold lstep. destruct (ph s) eqn:P; destruct i; try discriminate; simpl; try reflexivity; exact P.
Qed.

Corollary raced_after_any_history : forall pre i rest, is_close i = true -> ph (lrun true linit (pre ++ i :: rest)) = LEnded.
Proof.
  intros pre i rest H. unfold lrun. rewrite fold_left_app. apply (raced_close_ends_now _ i rest H).
Qed.

(* not raced: while the write is pending and never completes, no input ends the connection *)
Lemma unraced_writing_stays : forall is_ s,
  ph s = LWriting -> forallb (fun i => negb (is_write_done i)) is_ = true -> ph (lrun false s is_) = LWriting.
Proof.
  induction is_ as [|i r IH]; intros s P H; simpl; [exact P|].
  simpl in H. apply andb_prop in H. destruct H as [Hi Hr].
  apply IH; [|exact Hr].
  unfold lstep. rewrite P. destruct i; simpl; try reflexivity; try exact P. discriminate.
Qed.

Theorem unraced_stalled_peer_is_never_closed_refuted : forall rest,
  forallb (fun i => negb (is_write_done i)) rest = true ->
  ph (lrun false linit (IEnqueue :: IClose :: rest)) = LWriting.
Proof.
  intros rest H. change (ph (lrun false (lstep false (lstep false linit IEnqueue) IClose) rest) = LWriting).
  apply unraced_writing_stays; [reflexivity|exact H].
Qed.

(* both protocols agree when every write completes: the race changes nothing for a peer that reads *)
Theorem unraced_closes_after_the_write : forall s, ph s = LWriting -> ph (lrun false s [IClose; IWriteDone]) = LEnded.
Proof. intros s P. simpl. unfold lstep at 2. rewrite P. simpl. unfold lstep. simpl. reflexivity. Qed.

Print Assumptions raced_after_any_history.
Print Assumptions unraced_stalled_peer_is_never_closed_refuted.
Print Assumptions unraced_closes_after_the_write.
