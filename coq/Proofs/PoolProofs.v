(* Proofs about the buffer-pool ownership protocol model (Model/PoolTok.v). *)
From Coq Require Import Permutation.
From NW Require Import Base.Bytes Model.PoolTok.
Local Open Scope nat_scope.

Ltac psimpl := cbn [upd cap avail permits held acquiring returning contents] in *.

(* ------------------------------------------------------------------------------------------ *)
(* hlookup / hremove / hset agree with membership                                              *)
(* ------------------------------------------------------------------------------------------ *)

Lemma hlookup_In : forall i l h, hlookup i l = Some h -> In i (map fst l).
Proof.
  induction l as [|[j h'] r IH]; simpl; intros h H; [discriminate|].
  destruct (Nat.eqb_spec i j); [left; auto | right; eauto].
Qed.

Lemma hlookup_In_pair : forall i l h, hlookup i l = Some h -> In (i, h) l.
Proof.
  induction l as [|[j h'] r IH]; simpl; intros h H; [discriminate|].
  destruct (Nat.eqb_spec i j); [left; congruence | right; eauto].
Qed.

Lemma hlookup_None : forall i l, hlookup i l = None <-> ~ In i (map fst l).
Proof.
  induction l as [|[j h'] r IH]; simpl.
  - split; auto.
  - destruct (Nat.eqb_spec i j).
    + split; [discriminate | intros H; exfalso; apply H; left; auto].
    + rewrite IH. split; intros H; [intros [E|E]; [congruence | auto] | auto].
Qed.

Lemma In_hlookup : forall i l, In i (map fst l) -> exists h, hlookup i l = Some h.
Proof.
  intros i l H. destruct (hlookup i l) eqn:E; eauto.
  apply hlookup_None in E. contradiction.
Qed.

Lemma NoDup_In_hlookup : forall l i h, NoDup (map fst l) -> In (i, h) l -> hlookup i l = Some h.
Proof.
  induction l as [|[j h'] r IH]; simpl; intros i h ND H; [contradiction|].
  inversion ND as [|x xs Hnin ND']; subst.
  destruct H as [H|H].
  - inversion H; subst. rewrite Nat.eqb_refl. reflexivity.
  - destruct (Nat.eqb_spec i j).
    + subst. exfalso. apply Hnin. change j with (fst (j, h)). apply in_map. exact H.
    + apply IH; auto.
Qed.

Lemma hremove_cons : forall i j h r,
  hremove i ((j, h) :: r) = if i =? j then hremove i r else (j, h) :: hremove i r.
Proof. intros. unfold hremove. simpl. destruct (i =? j); reflexivity. Qed.

Lemma hremove_notin : forall i l, ~ In i (map fst l) -> hremove i l = l.
Proof.
  induction l as [|[j h] r IH]; intros H; [reflexivity|].
  rewrite hremove_cons. simpl in H.
  destruct (Nat.eqb_spec i j); [exfalso; apply H; auto|].
  f_equal. apply IH. tauto.
Qed.

Lemma hlookup_hremove : forall i j l,
  hlookup j (hremove i l) = if j =? i then None else hlookup j l.
Proof.
  induction l as [|[k h] r IH]; [simpl; destruct (j =? i); reflexivity|].
  rewrite hremove_cons.
  destruct (Nat.eqb_spec i k); simpl; rewrite ?IH;
    destruct (Nat.eqb_spec j i); destruct (Nat.eqb_spec j k); subst; try congruence; auto.
Qed.

Lemma hlookup_hset : forall i h j l,
  hlookup j (hset i h l) = if j =? i then Some h else hlookup j l.
Proof.
  intros. unfold hset. simpl. destruct (j =? i) eqn:E; auto.
  rewrite hlookup_hremove, E. reflexivity.
Qed.

Lemma hremove_perm : forall i l h, NoDup (map fst l) -> hlookup i l = Some h ->
  Permutation (map fst l) (i :: map fst (hremove i l)).
Proof.
  induction l as [|[j h'] r IH]; intros h ND H; [discriminate|].
  rewrite hremove_cons. simpl in ND, H |- *.
  inversion ND as [|x xs Hnin ND']; subst.
  destruct (Nat.eqb_spec i j).
  - subst. rewrite hremove_notin by assumption. apply Permutation_refl.
  - simpl. eapply perm_trans; [apply perm_skip; eapply IH; eauto | apply perm_swap].
Qed.

Lemma hremove_length : forall i l h, NoDup (map fst l) -> hlookup i l = Some h ->
  length l = S (length (hremove i l)).
Proof.
  intros i l h ND H. pose proof (Permutation_length (hremove_perm i l h ND H)) as P.
  simpl in P. rewrite !map_length in P. exact P.
Qed.

(* contents lookup *)
Fixpoint clookup (i : bufid) (l : list (bufid * list N)) : option (list N) :=
  match l with [] => None | (j, b) :: r => if i =? j then Some b else clookup i r end.

Lemma clookup_set_contents_other : forall i j b l, i <> j ->
  clookup i (set_contents j b l) = clookup i l.
Proof.
  intros i j b l Hne. unfold set_contents. simpl.
  destruct (Nat.eqb_spec i j); [contradiction|].
  induction l as [|[k c] r IH]; simpl; auto.
  destruct (Nat.eqb_spec j k); simpl.
  - subst. destruct (Nat.eqb_spec i k); [contradiction | exact IH].
  - destruct (i =? k); auto.
Qed.

Lemma clookup_set_contents_same : forall i b l, clookup i (set_contents i b l) = Some b.
Proof. intros. unfold set_contents. simpl. rewrite Nat.eqb_refl. reflexivity. Qed.

(* ------------------------------------------------------------------------------------------ *)
(* The invariant                                                                               *)
(* ------------------------------------------------------------------------------------------ *)

Record PInv (p : pool) : Prop := {
  pi_conserve : length (avail p) + length (held p) = cap p;
  pi_permits  : permits p + acquiring p + length (held p) + returning p = cap p;
  pi_nodup    : NoDup (avail p ++ map fst (held p));
  pi_refs     : forall i n, hlookup i (held p) = Some (HFrozen n) -> 1 <= n;
  (* added: the buffer ids in circulation are exactly 0 .. cap-1 *)
  pi_ids      : Permutation (avail p ++ map fst (held p)) (seq 0 (cap p))
}.

Lemma PInv_intro : forall p,
  Permutation (avail p ++ map fst (held p)) (seq 0 (cap p)) ->
  permits p + acquiring p + length (held p) + returning p = cap p ->
  (forall i n, hlookup i (held p) = Some (HFrozen n) -> 1 <= n) ->
  PInv p.
Proof.
  intros p HP Hper Hrefs. constructor; auto.
  - apply Permutation_length in HP.
    rewrite app_length, map_length, seq_length in HP. exact HP.
  - eapply Permutation_NoDup; [apply Permutation_sym; exact HP | apply seq_NoDup].
Qed.

Lemma nodup_app_r : forall (A : Type) (l1 l2 : list A), NoDup (l1 ++ l2) -> NoDup l2.
Proof. induction l1; simpl; intros l2 H; auto. inversion H; auto. Qed.

Lemma nodup_app_l : forall (A : Type) (l1 l2 : list A), NoDup (l1 ++ l2) -> NoDup l1.
Proof.
  induction l1; simpl; intros l2 H; [constructor|]. inversion H; subst. constructor; eauto.
  intros Hi. apply H2. apply in_or_app. auto.
Qed.

Lemma pinv_held_nodup : forall p, PInv p -> NoDup (map fst (held p)).
Proof. intros p I. eapply nodup_app_r. apply (pi_nodup p I). Qed.

Lemma pinv_avail_nodup : forall p, PInv p -> NoDup (avail p).
Proof. intros p I. eapply nodup_app_l. apply (pi_nodup p I). Qed.

Lemma pinv_disjoint : forall p i, PInv p -> In i (avail p) -> In i (map fst (held p)) -> False.
Proof.
  intros p i I Ha Hh. pose proof (pi_nodup p I) as ND.
  induction (avail p) as [|a r IH]; simpl in *; [contradiction|].
  inversion ND; subst. destruct Ha as [->|Ha]; auto.
  apply H1. apply in_or_app. auto.
Qed.

Lemma pinv_avail_length : forall p, PInv p ->
  length (avail p) = permits p + acquiring p + returning p.
Proof. intros p I. pose proof (pi_conserve p I). pose proof (pi_permits p I). lia. Qed.

Lemma pinv_contents_irrelevant : forall p co, PInv p ->
  PInv (upd p (avail p) (permits p) (held p) (acquiring p) (returning p) co).
Proof. intros p co [A B C D E]. constructor; simpl; auto. Qed.

Lemma pinv_hset : forall p i h h0, PInv p -> hlookup i (held p) = Some h0 ->
  (forall n, h = HFrozen n -> 1 <= n) ->
  PInv (upd p (avail p) (permits p) (hset i h (held p)) (acquiring p) (returning p) (contents p)).
Proof.
  intros p i h h0 I Hl Hh. pose proof (pinv_held_nodup p I) as ND.
  apply PInv_intro; psimpl.
  - eapply perm_trans; [|apply (pi_ids p I)]. unfold hset. simpl.
    apply Permutation_app_head. apply Permutation_sym. eapply hremove_perm; eauto.
  - unfold hset. simpl. pose proof (hremove_length i (held p) h0 ND Hl). pose proof (pi_permits p I) as H0. rewrite H in H0. exact H0.
  - intros j n. rewrite (hlookup_hset i h j (held p)).
    destruct (j =? i).
    + intros E. inversion E. auto.
    + apply (pi_refs p I).
Qed.

Lemma pinv_push : forall p i h0, PInv p -> hlookup i (held p) = Some h0 ->
  PInv (upd p (avail p ++ [i]) (permits p) (hremove i (held p)) (acquiring p) (S (returning p)) (contents p)).
Proof.
  intros p i h0 I Hl. pose proof (pinv_held_nodup p I) as ND.
  apply PInv_intro; psimpl.
  - eapply perm_trans; [|apply (pi_ids p I)].
    rewrite <- app_assoc. simpl. apply Permutation_app_head.
    apply Permutation_sym. eapply hremove_perm; eauto.
  - pose proof (hremove_length i (held p) h0 ND Hl). pose proof (pi_permits p I). unfold bufid in *. lia.
  - intros j n. rewrite hlookup_hremove. destruct (j =? i); [discriminate|]. apply (pi_refs p I).
Qed.

(* ------------------------------------------------------------------------------------------ *)
(* 1. The invariant holds initially and is preserved by every micro-step / every schedule      *)
(* ------------------------------------------------------------------------------------------ *)

Theorem pinv_init : forall n, PInv (init_pool n).
Proof.
  intros n. apply PInv_intro; simpl.
  - rewrite app_nil_r. apply Permutation_refl.
  - lia.
  - intros; discriminate.
Qed.

Theorem pinv_step : forall p s p', PInv p -> step p s = SOk p' -> PInv p'.
Proof.
  intros p s p' I H. destruct s; simpl in H.
  - (* AcqPermit *)
    destruct (permits p) eqn:E; [discriminate|]. inversion H; subst; clear H.
    apply PInv_intro; psimpl; try apply I.
    pose proof (pi_permits p I). lia.
  - (* Pop *)
    destruct (acquiring p) eqn:Ea; [discriminate|].
    destruct (avail p) as [|i r] eqn:Ev; [discriminate|]. inversion H; subst; clear H.
    pose proof (pi_nodup p I) as ND. rewrite Ev in ND. simpl in ND.
    inversion ND as [|x xs Hnin ND']; subst.
    assert (Hh : ~ In i (map fst (held p))) by (intros Hi; apply Hnin; apply in_or_app; auto).
    apply PInv_intro; psimpl.
    + unfold hset. rewrite hremove_notin by assumption. simpl map.
      eapply perm_trans; [|apply (pi_ids p I)]. rewrite Ev. simpl.
      apply Permutation_sym. apply Permutation_middle.
    + unfold hset. rewrite hremove_notin by assumption. simpl length.
      pose proof (pi_permits p I). unfold bufid in *. lia.
    + intros j m. rewrite (hlookup_hset i HMut j (held p)).
      destruct (j =? i); [discriminate|]. apply (pi_refs p I).
  - (* Write *)
    destruct (hlookup i (held p)) as [[|m]|] eqn:E; try discriminate.
    inversion H; subst; clear H. apply pinv_contents_irrelevant; auto.
  - (* Freeze *)
    destruct (hlookup i (held p)) as [[|m]|] eqn:E; try discriminate.
    inversion H; subst; clear H. eapply pinv_hset; eauto.
    intros m E'; inversion E'; lia.
  - (* Clone *)
    destruct (hlookup i (held p)) as [[|m]|] eqn:E; try discriminate.
    inversion H; subst; clear H. eapply pinv_hset; eauto.
    intros m' E'; inversion E'; lia.
  - (* DropRef *)
    destruct (hlookup i (held p)) as [[|[|[|m]]]|] eqn:E; try discriminate.
    inversion H; subst; clear H. eapply pinv_hset; eauto.
    intros m' E'; inversion E'; lia.
  - (* PushBack *)
    destruct (hlookup i (held p)) as [[|[|[|m]]]|] eqn:E; try discriminate;
      inversion H; subst; clear H; eapply pinv_push; eauto.
  - (* RetPermit *)
    destruct (returning p) eqn:E; [discriminate|]. inversion H; subst; clear H.
    apply PInv_intro; psimpl; try apply I.
    pose proof (pi_permits p I). lia.
  - (* BatchUnwrap *)
    destruct (hlookup i (held p)) as [[|[|[|m]]]|] eqn:E; try discriminate;
      inversion H; subst; clear H; eapply pinv_push; eauto.
  - (* BatchAddPermit *)
    destruct (returning p) eqn:E; [discriminate|]. inversion H; subst; clear H.
    apply PInv_intro; psimpl; try apply I.
    pose proof (pi_permits p I). lia.
Qed.

Theorem pinv_run : forall sched p p', PInv p -> run p sched = Some p' -> PInv p'.
Proof.
  induction sched as [|s r IH]; simpl; intros p p' I H.
  - inversion H; subst; auto.
  - destruct (step p s) eqn:E; [| eauto | discriminate].
    eapply IH; [|exact H]. eapply pinv_step; eauto.
Qed.

Lemma step_cap : forall p s p', step p s = SOk p' -> cap p' = cap p.
Proof.
  intros p s p' H. destruct s; simpl in H;
  repeat match type of H with
         | context [match ?x with _ => _ end] => destruct x; try discriminate
         end; inversion H; reflexivity.
Qed.

Lemma run_cap : forall sched p p', run p sched = Some p' -> cap p' = cap p.
Proof.
  induction sched as [|s r IH]; simpl; intros p p' H.
  - inversion H; auto.
  - destruct (step p s) eqn:E; [| eauto | discriminate].
    rewrite (IH _ _ H). eapply step_cap; eauto.
Qed.

(* ------------------------------------------------------------------------------------------ *)
(* 2. available.pop().unwrap() never panics, in any interleaving                               *)
(* ------------------------------------------------------------------------------------------ *)

Theorem permit_holder_sees_nonempty_queue : forall p, PInv p -> 1 <= acquiring p -> avail p <> [].
Proof.
  intros p I Ha Hn. pose proof (pinv_avail_length p I) as L. rewrite Hn in L. simpl in L. lia.
Qed.

Theorem pop_never_panics : forall p s, PInv p -> step p s <> SPanic.
Proof.
  intros p s I. destruct s; simpl;
    try (repeat match goal with
                | |- context [match ?x with _ => _ end] => destruct x
                end; discriminate).
  destruct (acquiring p) eqn:Ea; [discriminate|].
  destruct (avail p) eqn:Ev; [|discriminate].
  exfalso. apply (permit_holder_sees_nonempty_queue p I); [lia | assumption].
Qed.

Theorem run_never_panics_from : forall sched p, PInv p -> run p sched <> None.
Proof.
  induction sched as [|s r IH]; simpl; intros p I; [discriminate|].
  destruct (step p s) eqn:E.
  - apply IH. eapply pinv_step; eauto.
  - apply IH; auto.
  - exfalso. eapply pop_never_panics; eauto.
Qed.

Theorem run_never_panics : forall n sched, run (init_pool n) sched <> None.
Proof. intros. apply run_never_panics_from. apply pinv_init. Qed.

(* ------------------------------------------------------------------------------------------ *)
(* 3. Conservation and counters                                                                *)
(* ------------------------------------------------------------------------------------------ *)

Theorem available_plus_in_use : forall p, PInv p -> available_count p + in_use_count p = cap p.
Proof. intros p I. unfold available_count, in_use_count. pose proof (pi_conserve p I). lia. Qed.

Theorem in_use_is_held : forall p, PInv p -> in_use_count p = length (held p).
Proof. intros p I. unfold in_use_count. pose proof (pi_conserve p I). lia. Qed.

(* ------------------------------------------------------------------------------------------ *)
(* 4. Exclusivity                                                                              *)
(* ------------------------------------------------------------------------------------------ *)

Theorem exclusive_handout : forall p p', PInv p -> step p Pop = SOk p' ->
  exists i, hlookup i (held p') = Some HMut /\ hlookup i (held p) = None /\ ~ In i (avail p')
            /\ avail p = i :: avail p'.
Proof.
  intros p p' I H. pose proof (pinv_step _ _ _ I H) as I'. simpl in H.
  destruct (acquiring p) eqn:Ea; [discriminate|].
  destruct (avail p) as [|i r] eqn:Ev; [discriminate|]. inversion H; subst; clear H.
  exists i. simpl. rewrite Nat.eqb_refl.
  pose proof (pi_nodup p I) as ND. rewrite Ev in ND. simpl in ND.
  inversion ND as [|x xs Hnin ND']; subst.
  repeat split; auto.
  - apply hlookup_None. intros Hi. apply Hnin. apply in_or_app. auto.
  - intros Hi. apply Hnin. apply in_or_app. auto.
Qed.

Theorem mut_is_unshared : forall p i, PInv p -> hlookup i (held p) = Some HMut ->
  (forall h, In (i, h) (held p) -> h = HMut) /\
  count_occ Nat.eq_dec (map fst (held p)) i = 1 /\
  ~ In i (avail p).
Proof.
  intros p i I H. pose proof (pinv_held_nodup p I) as ND. repeat split.
  - intros h Hin. apply (NoDup_In_hlookup _ _ _ ND) in Hin. congruence.
  - apply (proj1 (NoDup_count_occ' Nat.eq_dec _) ND). eapply hlookup_In; eauto.
  - intros Ha. eapply pinv_disjoint; eauto. eapply hlookup_In; eauto.
Qed.

(* every handle state is the unique entry of its buffer, whatever the state *)
Theorem held_entry_unique : forall p i h h', PInv p ->
  In (i, h) (held p) -> In (i, h') (held p) -> h = h'.
Proof.
  intros p i h h' I H1 H2. pose proof (pinv_held_nodup p I) as ND.
  apply (NoDup_In_hlookup _ _ _ ND) in H1. apply (NoDup_In_hlookup _ _ _ ND) in H2. congruence.
Qed.

(* ------------------------------------------------------------------------------------------ *)
(* 5. Frozen bytes never change                                                                *)
(* ------------------------------------------------------------------------------------------ *)

Definition frozen (i : bufid) (p : pool) : Prop := exists n, hlookup i (held p) = Some (HFrozen n).

Theorem frozen_bytes_step : forall p s p' i n,
  step p s = SOk p' -> hlookup i (held p) = Some (HFrozen n) ->
  clookup i (contents p') = clookup i (contents p).
Proof.
  intros p s p' i n H Hf. destruct s; simpl in H;
  try (repeat match type of H with
              | context [match ?x with _ => _ end] => destruct x; try discriminate
              end; inversion H; reflexivity).
  (* Write *)
  destruct (hlookup i0 (held p)) as [[|m]|] eqn:E; try discriminate.
  inversion H; subst; clear H. simpl.
  apply clookup_set_contents_other. intros ->. congruence.
Qed.

(* a write is only ever enabled on an exclusive handle *)
Theorem write_needs_mut : forall p i b p', step p (Write i b) = SOk p' -> hlookup i (held p) = Some HMut.
Proof.
  intros p i b p' H. simpl in H. destruct (hlookup i (held p)) as [[|m]|]; try discriminate. reflexivity.
Qed.

(* "as long as i stays frozen": every prefix state of the run has i frozen *)
Theorem frozen_bytes_constant : forall sched p p' i,
  run p sched = Some p' ->
  (forall k q, run p (firstn k sched) = Some q -> frozen i q) ->
  clookup i (contents p') = clookup i (contents p).
Proof.
  induction sched as [|s r IH]; simpl; intros p p' i H Hall.
  - inversion H; reflexivity.
  - destruct (step p s) eqn:E; [| | discriminate].
    + destruct (Hall 0 p eq_refl) as [n Hn].
      rewrite (IH _ _ i H).
      * eapply frozen_bytes_step; eauto.
      * intros k q Hq. apply (Hall (S k)). simpl. rewrite E. exact Hq.
    + apply (IH _ _ i H). intros k q Hq. apply (Hall (S k)). simpl. rewrite E. exact Hq.
Qed.

(* a frozen buffer can only leave the frozen state by being returned to the pool *)
Theorem frozen_stays_frozen_step : forall p s p' i,
  PInv p -> step p s = SOk p' -> frozen i p -> s <> PushBack i -> s <> BatchUnwrap i -> frozen i p'.
Proof.
  intros p s p' i I H [n Hn] N1 N2. unfold frozen. destruct s; simpl in H.
  - destruct (permits p); [discriminate|]. inversion H; subst; psimpl; eauto.
  - destruct (acquiring p); [discriminate|]. destruct (avail p) as [|j r] eqn:Ev; [discriminate|].
    inversion H; subst; psimpl. rewrite hlookup_hset.
    destruct (Nat.eqb_spec i j); [|eauto].
    subst j. exfalso. apply (pinv_disjoint p i I); [rewrite Ev; left; auto | eapply hlookup_In; eauto].
  - destruct (hlookup i0 (held p)) as [[|m]|]; try discriminate. inversion H; subst; psimpl; eauto.
  - destruct (hlookup i0 (held p)) as [[|m]|] eqn:E; try discriminate. inversion H; subst; psimpl.
    rewrite hlookup_hset. destruct (i =? i0); eauto.
  - destruct (hlookup i0 (held p)) as [[|m]|] eqn:E; try discriminate. inversion H; subst; psimpl.
    rewrite hlookup_hset. destruct (i =? i0); eauto.
  - destruct (hlookup i0 (held p)) as [[|[|[|m]]]|] eqn:E; try discriminate. inversion H; subst; psimpl.
    rewrite hlookup_hset. destruct (i =? i0); eauto.
  - assert (i <> i0) by congruence.
    destruct (hlookup i0 (held p)) as [[|[|[|m]]]|] eqn:E; try discriminate; inversion H; subst; psimpl;
      rewrite hlookup_hremove; destruct (Nat.eqb_spec i i0); try contradiction; eauto.
  - destruct (returning p); [discriminate|]. inversion H; subst; psimpl; eauto.
  - assert (i <> i0) by congruence.
    destruct (hlookup i0 (held p)) as [[|[|[|m]]]|] eqn:E; try discriminate; inversion H; subst; psimpl;
      rewrite hlookup_hremove; destruct (Nat.eqb_spec i i0); try contradiction; eauto.
  - destruct (returning p); [discriminate|]. inversion H; subst; psimpl; eauto.
Qed.

(* ... hence: until its last owner returns it, a frozen buffer stays frozen and keeps its bytes *)
Theorem frozen_bytes_constant_until_returned : forall sched p p' i,
  PInv p -> frozen i p -> ~ In (PushBack i) sched -> ~ In (BatchUnwrap i) sched ->
  run p sched = Some p' ->
  frozen i p' /\ clookup i (contents p') = clookup i (contents p).
Proof.
  induction sched as [|s r IH]; simpl; intros p p' i I F N1 N2 H.
  - inversion H; subst; auto.
  - destruct (step p s) eqn:E; [| | discriminate].
    + destruct F as [n Hn].
      assert (F1 : frozen i p0).
      { eapply frozen_stays_frozen_step; eauto; try (exists n; exact Hn); intros ->; tauto. }
      destruct (IH p0 p' i) as [A B]; auto; [eapply pinv_step; eauto|].
      split; auto. rewrite B. eapply frozen_bytes_step; eauto.
    + apply IH; auto.
Qed.

(* ------------------------------------------------------------------------------------------ *)
(* 6. All returned                                                                             *)
(* ------------------------------------------------------------------------------------------ *)

Theorem all_returned : forall p, PInv p -> held p = [] -> acquiring p = 0 -> returning p = 0 ->
  length (avail p) = cap p /\ permits p = cap p /\ Permutation (avail p) (seq 0 (cap p)).
Proof.
  intros p I Hh Ha Hr.
  pose proof (pi_conserve p I) as C. pose proof (pi_permits p I) as P. pose proof (pi_ids p I) as D.
  rewrite Hh in *. simpl in *. rewrite app_nil_r in D. repeat split; auto; lia.
Qed.

Theorem all_returned_reachable : forall n sched p,
  run (init_pool n) sched = Some p -> held p = [] -> acquiring p = 0 -> returning p = 0 ->
  length (avail p) = n /\ permits p = n /\ Permutation (avail p) (seq 0 n).
Proof.
  intros n sched p H Hh Ha Hr.
  pose proof (pinv_run _ _ _ (pinv_init n) H) as I.
  pose proof (run_cap _ _ _ H) as C. simpl in C. rewrite <- C.
  apply all_returned; auto.
Qed.

(* ------------------------------------------------------------------------------------------ *)
(* 7. Blocking only when empty (single pool)                                                   *)
(* ------------------------------------------------------------------------------------------ *)

Theorem acquire_blocks_only_if_no_permit : forall p, step p AcqPermit = SDisabled <-> permits p = 0.
Proof.
  intros p. simpl. destruct (permits p); split; intros H; try reflexivity; discriminate.
Qed.

Theorem quiescent_no_permit_iff_empty : forall p, PInv p -> acquiring p = 0 -> returning p = 0 ->
  (permits p = 0 <-> avail p = []).
Proof.
  intros p I Ha Hr. pose proof (pinv_avail_length p I) as L. rewrite Ha, Hr in L.
  split; intros H.
  - destruct (avail p); auto. simpl in L. lia.
  - rewrite H in L. simpl in L. lia.
Qed.

Theorem quiescent_acquire_blocks_iff_empty : forall p, PInv p -> acquiring p = 0 -> returning p = 0 ->
  (step p AcqPermit = SDisabled <-> avail p = []).
Proof.
  intros p I Ha Hr. rewrite acquire_blocks_only_if_no_permit. apply quiescent_no_permit_iff_empty; auto.
Qed.

(* ------------------------------------------------------------------------------------------ *)
(* 8. Op-level semantics agree with micro-steps                                                *)
(* ------------------------------------------------------------------------------------------ *)

Theorem acquire_now_spec : forall p, PInv p -> acquiring p = 0 -> returning p = 0 ->
  (acquire_now p = None <-> avail p = []).
Proof.
  intros p I Ha Hr. pose proof (quiescent_no_permit_iff_empty p I Ha Hr) as Q.
  unfold acquire_now. simpl. destruct (permits p) eqn:Ep.
  - split; auto. intros _. apply Q. reflexivity.
  - psimpl. destruct (avail p) as [|i r] eqn:Ev.
    + split; auto.
    + simpl. split; [discriminate|]. intros H. apply Q in H. discriminate.
Qed.

Theorem acquire_now_some : forall p i p', PInv p -> acquire_now p = Some (i, p') ->
  (exists r, avail p = i :: r /\ avail p' = r) /\
  PInv p' /\
  in_use_count p' = S (in_use_count p) /\
  hlookup i (held p') = Some HMut /\ hlookup i (held p) = None /\
  acquiring p' = acquiring p /\ returning p' = returning p /\ permits p' = pred (permits p).
Proof.
  intros p i p' I H. unfold acquire_now in H.
  destruct (step p AcqPermit) as [p1| |] eqn:E1; try discriminate.
  pose proof (pinv_step _ _ _ I E1) as I1.
  destruct (avail p1) as [|j r] eqn:Ev; [discriminate|].
  destruct (step p1 Pop) as [p2| |] eqn:E2; try discriminate.
  inversion H; subst j p2; clear H.
  pose proof (pinv_step _ _ _ I1 E2) as I2.
  destruct (exclusive_handout _ _ I1 E2) as (k & K1 & K2 & K3 & K4).
  rewrite Ev in K4. inversion K4; subst k.
  simpl in E1. destruct (permits p) eqn:Ep; [discriminate|]. inversion E1; subst p1; clear E1.
  psimpl. simpl in E2. destruct (avail p) as [|j r'] eqn:Ev'; [discriminate|].
  inversion Ev; subst j r'. inversion E2; subst p'; clear E2. psimpl.
  split; [eauto|]. split; [exact I2|]. split; [|repeat split; auto].
  unfold in_use_count. psimpl. rewrite Ev'. simpl.
  pose proof (pi_conserve p I) as C. rewrite Ev' in C. simpl in C. lia.
Qed.

Theorem drop_last_pinv : forall p i, PInv p -> PInv (drop_last p i).
Proof.
  intros p i I. unfold drop_last.
  destruct (step p (PushBack i)) as [p1| |] eqn:E1; auto.
  pose proof (pinv_step _ _ _ I E1) as I1.
  destruct (step p1 RetPermit) as [p2| |] eqn:E2; auto.
  eapply pinv_step; eauto.
Qed.

Theorem drop_shared_pinv : forall p i, PInv p -> PInv (drop_shared p i).
Proof.
  intros p i I. unfold drop_shared.
  destruct (hlookup i (held p)) as [[|[|[|m]]]|]; auto.
  - destruct (step p (DropRef i)) eqn:E; auto. eapply pinv_step; eauto.
  - apply drop_last_pinv; auto.
  - destruct (step p (DropRef i)) eqn:E; auto. eapply pinv_step; eauto.
Qed.

Lemma release_batch_cons : forall p i r,
  release_batch p (i :: r) =
  match hlookup i (held p) with
  | Some (HFrozen 1) =>
      match step p (BatchUnwrap i) with
      | SOk p1 => match step (release_batch p1 r) BatchAddPermit with SOk p2 => p2 | _ => release_batch p1 r end
      | _ => release_batch p r
      end
  | Some (HFrozen _) => release_batch (drop_shared p i) r
  | _ => release_batch p r
  end.
Proof. reflexivity. Qed.

Definition unwrap1 (p : pool) (i : bufid) : pool :=
  upd p (avail p ++ [i]) (permits p) (hremove i (held p)) (acquiring p) (S (returning p)) (contents p).

Lemma step_unwrap1 : forall p i, hlookup i (held p) = Some (HFrozen 1) ->
  step p (BatchUnwrap i) = SOk (unwrap1 p i).
Proof. intros p i H. simpl. rewrite H. reflexivity. Qed.

Lemma drop_shared_SS : forall p i m, hlookup i (held p) = Some (HFrozen (S (S m))) ->
  drop_shared p i =
  upd p (avail p) (permits p) (hset i (HFrozen (S m)) (held p)) (acquiring p) (returning p) (contents p).
Proof. intros p i m H. unfold drop_shared. simpl. rewrite H. reflexivity. Qed.

Lemma drop_shared_0 : forall p i, hlookup i (held p) = Some (HFrozen 0) -> drop_shared p i = p.
Proof. intros p i H. unfold drop_shared. simpl. rewrite H. reflexivity. Qed.

Theorem release_batch_pinv : forall ids p, PInv p -> PInv (release_batch p ids).
Proof.
  induction ids as [|i r IH]; intros p I; [exact I|].
  rewrite release_batch_cons.
  destruct (hlookup i (held p)) as [[|[|[|m]]]|] eqn:E; auto.
  - apply IH. apply drop_shared_pinv; auto.
  - rewrite (step_unwrap1 p i E).
    assert (I1 : PInv (release_batch (unwrap1 p i) r)).
    { apply IH. eapply pinv_step; [exact I | apply step_unwrap1; exact E]. }
    destruct (step (release_batch (unwrap1 p i) r) BatchAddPermit) eqn:E2; auto.
    eapply pinv_step; eauto.
  - apply IH. apply drop_shared_pinv; auto.
Qed.

Lemma step_addpermit : forall q r, returning q = S r ->
  step q BatchAddPermit = SOk (upd q (avail q) (S (permits q)) (held q) (acquiring q) r (contents q)).
Proof. intros q r H. simpl. rewrite H. reflexivity. Qed.

(* every unwrap inside release_batch is matched by its add_permits: the in-flight counters are restored *)
Theorem release_batch_counters : forall ids p,
  acquiring (release_batch p ids) = acquiring p /\
  returning (release_batch p ids) = returning p /\
  cap (release_batch p ids) = cap p.
Proof.
  induction ids as [|i r IH]; intros p; [auto|].
  rewrite release_batch_cons.
  destruct (hlookup i (held p)) as [[|[|[|m]]]|] eqn:E; auto.
  - rewrite (drop_shared_0 _ _ E). auto.
  - rewrite (step_unwrap1 p i E).
    destruct (IH (unwrap1 p i)) as (A & B & C).
    rewrite (step_addpermit _ (returning p)) by exact B.
    unfold unwrap1 in *. psimpl. auto.
  - rewrite (drop_shared_SS _ _ _ E). exact (IH _).
Qed.

(* state of a handle after a batch containing c handles of that buffer has been released *)
Definition after_release (o : option hstate) (c : nat) : option hstate :=
  match o with
  | Some (HFrozen n) => if n <=? c then None else Some (HFrozen (n - c))
  | o => o
  end.

(* General specification of release_batch: the ids pushed back to the queue (in order, each once) are
   exactly the buffers all of whose n outstanding references are in the batch. *)
Theorem release_batch_spec : forall ids p, PInv p ->
  exists ret,
    avail (release_batch p ids) = avail p ++ ret /\
    permits (release_batch p ids) = permits p + length ret /\
    NoDup ret /\
    (forall i, In i ret <->
       exists n, hlookup i (held p) = Some (HFrozen n) /\ 1 <= n <= count_occ Nat.eq_dec ids i) /\
    (forall i, hlookup i (held (release_batch p ids)) =
               after_release (hlookup i (held p)) (count_occ Nat.eq_dec ids i)).
Proof.
  induction ids as [|i0 r IH]; intros p I.
  - exists []. simpl. rewrite app_nil_r. repeat split; auto; try constructor.
    + intros [].
    + intros (n & _ & Hn). lia.
    + intros i. destruct (hlookup i (held p)) as [[|n]|] eqn:E; simpl; auto.
      apply (pi_refs p I) in E. destruct n; [lia|]. simpl. reflexivity.
  - rewrite release_batch_cons.
    destruct (hlookup i0 (held p)) as [[|[|[|m]]]|] eqn:E.
    + (* HMut: skipped *)
      destruct (IH p I) as (ret & A & B & C & D & F). exists ret. repeat split; auto.
      * intros Hi. apply D in Hi. destruct Hi as (n & Hn & Hc). exists n. split; auto.
        simpl. destruct (Nat.eq_dec i0 i); subst; try congruence; lia.
      * intros (n & Hn & Hc). apply D. exists n. split; auto.
        simpl in Hc. destruct (Nat.eq_dec i0 i); subst; try congruence; lia.
      * intros i. rewrite F. simpl. destruct (Nat.eq_dec i0 i); subst; auto. rewrite E. reflexivity.
    + (* HFrozen 0: excluded by the invariant *)
      apply (pi_refs p I) in E. lia.
    + (* HFrozen 1: unwrapped, pushed, permit added afterwards *)
      rewrite (step_unwrap1 p i0 E).
      assert (I1 : PInv (unwrap1 p i0)) by (eapply pinv_step; [exact I | apply step_unwrap1; exact E]).
      destruct (IH _ I1) as (ret & A & B & C & D & F).
      destruct (release_batch_counters r (unwrap1 p i0)) as (_ & R & _).
      rewrite (step_addpermit _ (returning p)) by exact R.
      unfold unwrap1 in *. psimpl.
      assert (Hnin : ~ In i0 ret).
      { intros Hi. apply D in Hi. destruct Hi as (n & Hn & _).
        rewrite hlookup_hremove, Nat.eqb_refl in Hn. discriminate. }
      exists (i0 :: ret). split; [|split; [|split; [|split]]].
      * rewrite A, <- app_assoc. reflexivity.
      * rewrite B. simpl. lia.
      * constructor; auto.
      * intros i. simpl. destruct (Nat.eq_dec i0 i) as [->|Hne].
        -- split; [|auto]. intros _. exists 1. split; auto. lia.
        -- rewrite D, hlookup_hremove. destruct (Nat.eqb_spec i i0); [congruence|].
           split; [intros [Hi|Hi]; [contradiction | exact Hi] | auto].
      * intros i. rewrite F, hlookup_hremove. simpl.
        destruct (Nat.eq_dec i0 i) as [->|Hne].
        -- rewrite Nat.eqb_refl, E. reflexivity.
        -- destruct (Nat.eqb_spec i i0); [congruence|]. reflexivity.
    + (* HFrozen (S (S m)): this handle is just dropped *)
      rewrite (drop_shared_SS _ _ _ E).
      assert (I1 : PInv (upd p (avail p) (permits p) (hset i0 (HFrozen (S m)) (held p))
                             (acquiring p) (returning p) (contents p))).
      { rewrite <- (drop_shared_SS _ _ _ E). apply drop_shared_pinv; auto. }
      destruct (IH _ I1) as (ret & A & B & C & D & F). psimpl.
      exists ret. repeat split; auto.
      * intros Hi. apply D in Hi. destruct Hi as (n & Hn & Hc). rewrite hlookup_hset in Hn.
        simpl. destruct (Nat.eq_dec i0 i) as [->|Hne].
        -- rewrite Nat.eqb_refl in Hn. inversion Hn; subst n. exists (S (S m)). split; auto. lia.
        -- destruct (Nat.eqb_spec i i0); [congruence|]. exists n. auto.
      * intros (n & Hn & Hc). apply D. rewrite hlookup_hset.
        simpl in Hc. destruct (Nat.eq_dec i0 i) as [->|Hne].
        -- rewrite Nat.eqb_refl. rewrite E in Hn. inversion Hn; subst n. exists (S m). split; auto. lia.
        -- destruct (Nat.eqb_spec i i0); [congruence|]. exists n. auto.
      * intros i. rewrite F, hlookup_hset. simpl.
        destruct (Nat.eq_dec i0 i) as [->|Hne].
        -- rewrite Nat.eqb_refl, E. reflexivity.
        -- destruct (Nat.eqb_spec i i0); [congruence|]. reflexivity.
    + (* not held: skipped *)
      destruct (IH p I) as (ret & A & B & C & D & F). exists ret. repeat split; auto.
      * intros Hi. apply D in Hi. destruct Hi as (n & Hn & Hc). exists n. split; auto.
        simpl. destruct (Nat.eq_dec i0 i); subst; try congruence; lia.
      * intros (n & Hn & Hc). apply D. exists n. split; auto.
        simpl in Hc. destruct (Nat.eq_dec i0 i); subst; try congruence; lia.
      * intros i. rewrite F. simpl. destruct (Nat.eq_dec i0 i); subst; auto. rewrite E. reflexivity.
Qed.

(* The claim as stated (exactly the ids whose state is HFrozen 1) holds when the batch has no duplicates. *)
Theorem release_batch_returns_frozen1 : forall ids p, PInv p -> NoDup ids ->
  acquiring p = 0 -> returning p = 0 ->
  PInv (release_batch p ids) /\
  acquiring (release_batch p ids) = 0 /\ returning (release_batch p ids) = 0 /\
  exists ret,
    avail (release_batch p ids) = avail p ++ ret /\
    permits (release_batch p ids) = permits p + length ret /\
    NoDup ret /\
    (forall i, In i ret <-> In i ids /\ hlookup i (held p) = Some (HFrozen 1)) /\
    (forall i, In i ret -> hlookup i (held (release_batch p ids)) = None).
Proof.
  intros ids p I ND Ha Hr.
  destruct (release_batch_counters ids p) as (A & R & _).
  split; [apply release_batch_pinv; auto|]. split; [congruence|]. split; [congruence|].
  destruct (release_batch_spec ids p I) as (ret & Hav & Hpe & Hnd & Hin & Hh).
  exists ret. repeat split; auto.
  - apply Hin in H. destruct H as (n & Hn & Hc).
    apply (count_occ_In Nat.eq_dec). lia.
  - apply Hin in H. destruct H as (n & Hn & Hc).
    pose proof (proj1 (NoDup_count_occ Nat.eq_dec ids) ND i) as Hle.
    assert (n = 1) by lia. subst n. exact Hn.
  - intros [Hi Hf]. apply Hin. exists 1. split; auto.
    apply (count_occ_In Nat.eq_dec) in Hi. lia.
  - intros i Hi. rewrite Hh. apply Hin in Hi. destruct Hi as (n & Hn & Hc).
    rewrite Hn. simpl. destruct (Nat.leb_spec n (count_occ Nat.eq_dec ids i)); [reflexivity | lia].
Qed.

(* REFUTED as literally stated (without NoDup ids): a batch holding BOTH clones of a buffer in state
   HFrozen 2 returns that buffer, although its state at the start was not HFrozen 1. *)
Definition dup_sched : list mstep := [AcqPermit; Pop; Freeze 0; Clone 0].
Definition dup_pool : pool :=
  match run (init_pool 1) dup_sched with Some p => p | None => init_pool 1 end.

Theorem release_batch_only_frozen1_refuted_for_duplicate_handles :
  run (init_pool 1) dup_sched = Some dup_pool /\
  acquiring dup_pool = 0 /\ returning dup_pool = 0 /\
  hlookup 0 (held dup_pool) = Some (HFrozen 2) /\
  avail dup_pool = [] /\
  avail (release_batch dup_pool [0; 0]) = [0] /\
  held (release_batch dup_pool [0; 0]) = [] /\
  acquiring (release_batch dup_pool [0; 0]) = 0 /\ returning (release_batch dup_pool [0; 0]) = 0.
Proof. vm_compute. repeat split; reflexivity. Qed.

(* drop_last / drop_shared: counters and effect *)
Theorem drop_last_counters : forall p i,
  acquiring (drop_last p i) = acquiring p /\ returning (drop_last p i) = returning p.
Proof.
  intros p i. unfold drop_last. simpl.
  destruct (hlookup i (held p)) as [[|[|[|m]]]|]; auto.
Qed.

Theorem drop_last_spec : forall p i h, hlookup i (held p) = Some h -> (h = HMut \/ h = HFrozen 1) ->
  avail (drop_last p i) = avail p ++ [i] /\ held (drop_last p i) = hremove i (held p) /\
  permits (drop_last p i) = S (permits p) /\ contents (drop_last p i) = contents p.
Proof.
  intros p i h H [-> | ->]; unfold drop_last; simpl; rewrite H; simpl; auto.
Qed.

Theorem drop_shared_counters : forall p i,
  acquiring (drop_shared p i) = acquiring p /\ returning (drop_shared p i) = returning p.
Proof.
  intros p i. unfold drop_shared.
  destruct (hlookup i (held p)) as [[|[|[|m]]]|] eqn:E; auto.
  - simpl. rewrite E. auto.
  - apply drop_last_counters.
  - simpl. rewrite E. auto.
Qed.

Theorem drop_shared_spec : forall p i n, PInv p -> hlookup i (held p) = Some (HFrozen n) ->
  (n = 1 -> avail (drop_shared p i) = avail p ++ [i] /\ hlookup i (held (drop_shared p i)) = None
            /\ permits (drop_shared p i) = S (permits p)) /\
  (2 <= n -> avail (drop_shared p i) = avail p /\ permits (drop_shared p i) = permits p /\
             hlookup i (held (drop_shared p i)) = Some (HFrozen (n - 1))).
Proof.
  intros p i n I H. split; intros Hn.
  - subst n. unfold drop_shared. rewrite H.
    destruct (drop_last_spec p i _ H (or_intror eq_refl)) as (A & B & C & _).
    rewrite A, B, C, hlookup_hremove, Nat.eqb_refl. auto.
  - destruct n as [|[|m]]; try lia. rewrite (drop_shared_SS _ _ _ H). psimpl.
    rewrite hlookup_hset, Nat.eqb_refl. simpl. rewrite ?Nat.sub_0_r. auto.
Qed.

(* ------------------------------------------------------------------------------------------ *)
(* 9. BucketedPool bucket choice                                                               *)
(* ------------------------------------------------------------------------------------------ *)

Definition bkt (bs : list (N * nat)) (i : nat) : N * nat := nth i bs (0%N, 0).
Definition fits (size : N) (b : N * nat) : Prop := (size <= fst b)%N.
Definition has_free (b : N * nat) : Prop := 0 < snd b.

Lemma cb_false_fwd : forall bs idx size fb k,
  choose_bucket bs idx size fb = Some (k, false) ->
  exists i, k = idx + i /\ i < length bs /\ fits size (bkt bs i) /\ has_free (bkt bs i) /\
            forall j, j < i -> ~ (fits size (bkt bs j) /\ has_free (bkt bs j)).
Proof.
  induction bs as [|[sz fr] r IH]; intros idx size fb k H; simpl in H.
  - destruct fb; discriminate.
  - destruct (N.leb_spec size sz).
    + destruct fr.
      * apply IH in H. destruct H as (i & -> & Hi & Hf & Hh & Hj).
        exists (S i). repeat split; simpl; auto; try lia.
        intros j Hlt [Hf' Hh']. destruct j.
        -- unfold bkt, has_free in Hh'. simpl in Hh'. lia.
        -- apply (Hj j); [lia|]. split; auto.
      * inversion H; subst. exists 0. unfold bkt, fits, has_free. simpl.
        repeat split; auto; try lia.
    + apply IH in H. destruct H as (i & -> & Hi & Hf & Hh & Hj).
      exists (S i). repeat split; simpl; auto; try lia.
      intros j Hlt [Hf' Hh']. destruct j.
      * unfold bkt, fits in Hf'. simpl in Hf'. lia.
      * apply (Hj j); [lia|]. split; auto.
Qed.

Lemma cb_true_fwd : forall bs idx size fb k,
  choose_bucket bs idx size fb = Some (k, true) ->
  (forall j, j < length bs -> fits size (bkt bs j) -> snd (bkt bs j) = 0) /\
  ((exists i, k = idx + i /\ i < length bs /\ fits size (bkt bs i) /\
              forall j, i < j < length bs -> ~ fits size (bkt bs j))
   \/ (fb = Some k /\ forall j, j < length bs -> ~ fits size (bkt bs j))).
Proof.
  induction bs as [|[sz fr] r IH]; intros idx size fb k H; simpl in H.
  - destruct fb; inversion H; subst. split; [simpl; intros; lia|].
    right. split; auto. simpl; intros; lia.
  - destruct (N.leb_spec size sz).
    + destruct fr; [|discriminate].
      apply IH in H. destruct H as (Hz & Hl). split.
      * intros j Hj Hf. destruct j; [reflexivity|]. apply Hz; [simpl in Hj; lia | exact Hf].
      * left. destruct Hl as [(i & -> & Hi & Hf & Hlast) | (Hfb & Hno)].
        -- exists (S i). repeat split; simpl; auto; try lia.
           intros j Hj. destruct j; [lia|]. apply Hlast. simpl in Hj. lia.
        -- inversion Hfb; subst k. exists 0. repeat split; simpl; auto; try lia.
           intros j Hj. destruct j; [lia|]. apply Hno. simpl in Hj. lia.
    + apply IH in H. destruct H as (Hz & Hl). split.
      * intros j Hj Hf. destruct j.
        -- unfold fits, bkt in Hf. simpl in Hf. lia.
        -- apply Hz; [simpl in Hj; lia | exact Hf].
      * destruct Hl as [(i & -> & Hi & Hf & Hlast) | (Hfb & Hno)].
        -- left. exists (S i). repeat split; simpl; auto; try lia.
           intros j Hj. destruct j; [lia|]. apply Hlast. simpl in Hj. lia.
        -- right. split; auto. intros j Hj. destruct j.
           ++ unfold fits, bkt. simpl. lia.
           ++ apply Hno. simpl in Hj. lia.
Qed.

Lemma cb_none_fwd : forall bs idx size fb,
  choose_bucket bs idx size fb = None ->
  fb = None /\ forall j, j < length bs -> ~ fits size (bkt bs j).
Proof.
  induction bs as [|[sz fr] r IH]; intros idx size fb H; simpl in H.
  - destruct fb; [discriminate|]. split; auto. simpl; intros; lia.
  - destruct (N.leb_spec size sz).
    + destruct fr; [|discriminate]. apply IH in H. destruct H; discriminate.
    + apply IH in H. destruct H as (Hfb & Hno). split; auto.
      intros j Hj. destruct j.
      * unfold fits, bkt. simpl. lia.
      * apply Hno. simpl in Hj. lia.
Qed.

(* i is the first bucket that is large enough and has a free buffer *)
Definition first_free_fit (bs : list (N * nat)) (size : N) (i : nat) : Prop :=
  i < length bs /\ fits size (bkt bs i) /\ has_free (bkt bs i) /\
  forall j, j < i -> ~ (fits size (bkt bs j) /\ has_free (bkt bs j)).
(* no large-enough bucket has a free buffer *)
Definition no_free_fit (bs : list (N * nat)) (size : N) : Prop :=
  forall j, j < length bs -> fits size (bkt bs j) -> snd (bkt bs j) = 0.
(* i is the last large-enough bucket *)
Definition last_fit (bs : list (N * nat)) (size : N) (i : nat) : Prop :=
  i < length bs /\ fits size (bkt bs i) /\ forall j, i < j < length bs -> ~ fits size (bkt bs j).
(* no bucket is large enough *)
Definition none_fit (bs : list (N * nat)) (size : N) : Prop :=
  forall j, j < length bs -> ~ fits size (bkt bs j).

Theorem choose_bucket_spec : forall bs size,
  (forall i, choose_bucket bs 0 size None = Some (i, false) <-> first_free_fit bs size i) /\
  (forall i, choose_bucket bs 0 size None = Some (i, true) <-> no_free_fit bs size /\ last_fit bs size i) /\
  (choose_bucket bs 0 size None = None <-> none_fit bs size).
Proof.
  intros bs size.
  assert (FA : forall i, choose_bucket bs 0 size None = Some (i, false) -> first_free_fit bs size i).
  { intros i H. apply cb_false_fwd in H. destruct H as (i' & -> & H). exact H. }
  assert (FB : forall i, choose_bucket bs 0 size None = Some (i, true) ->
                         no_free_fit bs size /\ last_fit bs size i).
  { intros i H. apply cb_true_fwd in H. destruct H as (Hz & [(i' & -> & H) | (Hfb & _)]).
    - split; [exact Hz | exact H].
    - discriminate. }
  assert (FC : choose_bucket bs 0 size None = None -> none_fit bs size).
  { intros H. apply cb_none_fwd in H. exact (proj2 H). }
  split; [|split].
  - intros i. split; [apply FA|]. intros (Hi & Hf & Hh & Hfirst).
    destruct (choose_bucket bs 0 size None) as [[k [|]]|] eqn:E.
    + destruct (FB k eq_refl) as (Hz & _). specialize (Hz i Hi Hf). unfold has_free in Hh. lia.
    + destruct (FA k eq_refl) as (Hk & Hkf & Hkh & Hkfirst).
      destruct (Nat.lt_trichotomy i k) as [L|[->|L]]; [|reflexivity|].
      * exfalso. apply (Hkfirst i L). split; auto.
      * exfalso. apply (Hfirst k L). split; auto.
    + exfalso. apply (FC eq_refl i Hi Hf).
  - intros i. split; [apply FB|]. intros (Hz & Hi & Hf & Hlast).
    destruct (choose_bucket bs 0 size None) as [[k [|]]|] eqn:E.
    + destruct (FB k eq_refl) as (_ & Hk & Hkf & Hklast).
      destruct (Nat.lt_trichotomy i k) as [L|[->|L]]; [|reflexivity|].
      * exfalso. apply (Hlast k); [lia | exact Hkf].
      * exfalso. apply (Hklast i); [lia | exact Hf].
    + destruct (FA k eq_refl) as (Hk & Hkf & Hkh & _).
      specialize (Hz k Hk Hkf). unfold has_free in Hkh. lia.
    + exfalso. apply (FC eq_refl i Hi Hf).
  - split; [apply FC|]. intros Hno.
    destruct (choose_bucket bs 0 size None) as [[k [|]]|] eqn:E; [| |reflexivity].
    + destruct (FB k eq_refl) as (_ & Hk & Hkf & _). exfalso. apply (Hno k Hk Hkf).
    + destruct (FA k eq_refl) as (Hk & Hkf & _). exfalso. apply (Hno k Hk Hkf).
Qed.

(* REFUTED claim: "a task waits only while no suitable buffer is available".  A task that parked on
   the last suitable bucket keeps waiting there although a buffer has meanwhile been returned to a
   smaller suitable bucket (which a fresh task would get immediately). *)
Theorem bucketed_waits_although_buffer_available_refuted :
  exists (bs bs' : list (N * nat)) (size : N) (i j : nat),
    choose_bucket bs 0 size None = Some (i, true) /\        (* the task parks on bucket i *)
    length bs' = length bs /\ map fst bs' = map fst bs /\   (* same buckets later *)
    snd (bkt bs' i) = 0 /\                                  (* its bucket is still empty: it keeps waiting *)
    j <> i /\ fits size (bkt bs' j) /\ has_free (bkt bs' j) /\   (* another suitable bucket has a free buffer *)
    choose_bucket bs' 0 size None = Some (j, false).        (* a fresh task gets it at once *)
Proof.
  exists [(100%N, 0); (200%N, 0)], [(100%N, 1); (200%N, 0)], 100%N, 1, 0.
  vm_compute. repeat split; try reflexivity; try discriminate; try lia.
Qed.

(* ------------------------------------------------------------------------------------------ *)
Print Assumptions pinv_init.
Print Assumptions pinv_step.
Print Assumptions pinv_run.
Print Assumptions pop_never_panics.
Print Assumptions run_never_panics.
Print Assumptions available_plus_in_use.
Print Assumptions in_use_is_held.
Print Assumptions exclusive_handout.
Print Assumptions mut_is_unshared.
Print Assumptions held_entry_unique.
Print Assumptions frozen_bytes_step.
Print Assumptions frozen_bytes_constant.
Print Assumptions frozen_stays_frozen_step.
Print Assumptions frozen_bytes_constant_until_returned.
Print Assumptions all_returned.
Print Assumptions all_returned_reachable.
Print Assumptions acquire_blocks_only_if_no_permit.
Print Assumptions quiescent_no_permit_iff_empty.
Print Assumptions quiescent_acquire_blocks_iff_empty.
Print Assumptions acquire_now_spec.
Print Assumptions acquire_now_some.
Print Assumptions drop_last_pinv.
Print Assumptions drop_shared_pinv.
Print Assumptions release_batch_pinv.
Print Assumptions release_batch_counters.
Print Assumptions release_batch_spec.
Print Assumptions release_batch_returns_frozen1.
Print Assumptions release_batch_only_frozen1_refuted_for_duplicate_handles.
Print Assumptions drop_last_counters.
Print Assumptions drop_last_spec.
Print Assumptions drop_shared_counters.
Print Assumptions drop_shared_spec.
Print Assumptions choose_bucket_spec.
Print Assumptions bucketed_waits_although_buffer_available_refuted.
