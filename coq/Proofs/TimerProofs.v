(* C20: deadlines and keep-alive of one connection -- proofs about Model/Timers.v.
   Everything is universally quantified over the configuration, the times and the
   requested heartbeat; no bounds on the numbers. *)
From NW Require Import Base.Bytes Model.Timers.
Require Import Lia ZifyN.

Local Open Scope N_scope.

(* ------------------------------------------------------------------ *)
(* 1. Heartbeat clamping                                               *)
(* ------------------------------------------------------------------ *)

Lemma negotiate_cases c req :
  negotiate c req =
    if req =? 0 then hb_max c
    else if req <? hb_min c then hb_min c
    else if hb_max c <? req then hb_max c else req.
Proof. reflexivity. Qed.

Ltac neg_cases c req :=
  unfold negotiate;
  destruct (N.eqb_spec req 0); [| destruct (N.ltb_spec req (hb_min c)); [| destruct (N.ltb_spec (hb_max c) req)]].

Theorem C20_heartbeat_clamped :
  forall c req, hb_min c <= hb_max c -> hb_min c <= negotiate c req <= hb_max c.
Proof. intros c req H. neg_cases c req; lia. Qed.

Theorem C20_heartbeat_default : forall c, negotiate c 0 = hb_max c.
Proof. reflexivity. Qed.

Theorem C20_heartbeat_in_range :
  forall c req, hb_min c <= req <= hb_max c -> req <> 0 -> negotiate c req = req.
Proof. intros c req H H0. neg_cases c req; lia. Qed.

(* below the minimum -> the minimum; above the maximum -> the maximum (well-configured) *)
Theorem C20_heartbeat_low :
  forall c req, req <> 0 -> req < hb_min c -> negotiate c req = hb_min c.
Proof. intros c req H0 H. neg_cases c req; lia. Qed.

Theorem C20_heartbeat_high :
  forall c req, hb_min c <= req -> hb_max c < req -> negotiate c req = hb_max c.
Proof. intros c req H0 H. neg_cases c req; lia. Qed.

(* misconfiguration hb_min > hb_max: the result is hb_min for 0 < req < hb_min (so it
   EXCEEDS hb_max), and hb_max otherwise; the requested value itself is never used. *)
Theorem C20_heartbeat_misconfigured :
  forall c req, hb_max c < hb_min c ->
    negotiate c req = if (req =? 0) || (hb_min c <=? req) then hb_max c else hb_min c.
Proof.
  intros c req H. neg_cases c req; destruct (N.leb_spec (hb_min c) req); cbn [orb]; try reflexivity; lia.
Qed.

(* unconditional envelope, used by the well-formedness predicate below *)
Definition hb_ok (c : tcfg) (hb : N) : Prop :=
  N.min (hb_min c) (hb_max c) <= hb <= N.max (hb_min c) (hb_max c).

Theorem C20_heartbeat_envelope : forall c req, hb_ok c (negotiate c req).
Proof. intros c req. unfold hb_ok. neg_cases c req; lia. Qed.

Lemma hb_ok_clamped c hb : hb_min c <= hb_max c -> hb_ok c hb -> hb_min c <= hb <= hb_max c.
Proof. unfold hb_ok. lia. Qed.

(* ------------------------------------------------------------------ *)
(* 2. Fuel adequacy                                                    *)
(* ------------------------------------------------------------------ *)

(* what happens when the ping task wakes at [w] with no activity since the last check *)
Definition ping_fire (w hb cnt : N) (mb : bool) (now : N) : tstate * list tout :=
  if mb then (TClosed, [EPing w; EBadPong w])
  else if w + 3 * hb <=? now then (TClosed, [EPing w; ETimeout (w + 3 * hb)])
  else (TPingWait (w + 3 * hb) hb cnt, [EPing w]).

(* closed form of [advance]: no recursion, no fuel *)
Definition advance_spec (s : tstate) (now : N) : tstate * list tout :=
  match s with
  | TConnecting d => if d <=? now then (TClosed, [ETimeout d]) else (s, [])
  | TConnected d _ => if d <=? now then (TClosed, [ETimeout d]) else (s, [])
  | TPingWait d _ _ => if d <=? now then (TClosed, [ETimeout d]) else (s, [])
  | TClosed => (s, [])
  | TIdle w hb last cnt mb =>
      if w <=? now then
        if cnt =? last then ping_fire w hb cnt mb now
        else if w + hb <=? now then ping_fire (w + hb) hb cnt mb now
        else (TIdle (w + hb) hb cnt cnt mb, [])
      else (s, [])
  end.

(* The ping task never loops: a wake-up with activity re-arms with last := cnt, so the NEXT
   wake-up pings, and after a PING the state is TPingWait, which either times out or stays.
   Hence at most three timer firings per [advance], whatever hb (even hb = 0) and however
   far the clock runs. *)
Theorem advance_fuel_3 : forall f s now, advance (S (S (S f))) s now = advance_spec s now.
Proof.
  intros f s now. destruct s as [d | d hb | w hb last cnt mb | d hb cnt |];
    cbn [advance advance_spec]; try reflexivity.
  rewrite N.eqb_refl. cbn [negb]. unfold ping_fire.
  destruct (w <=? now); [| reflexivity].
  destruct (cnt =? last); cbn [negb].
  - destruct mb; [reflexivity|]. destruct (w + 3 * hb <=? now); reflexivity.
  - destruct (w + hb <=? now); [| reflexivity].
    destruct mb; [reflexivity|]. destruct (w + hb + 3 * hb <=? now); reflexivity.
Qed.

Theorem C20_fuel_adequate :
  forall f1 f2 s now, (3 <= f1)%nat -> (3 <= f2)%nat -> advance f1 s now = advance f2 s now.
Proof.
  intros f1 f2 s now H1 H2.
  do 3 (destruct f1 as [|f1]; [exfalso; lia|]). do 3 (destruct f2 as [|f2]; [exfalso; lia|]).
  now rewrite !advance_fuel_3.
Qed.

Corollary advance_ge3 : forall f s now, (3 <= f)%nat -> advance f s now = advance_spec s now.
Proof. intros f s now H. rewrite <- (advance_fuel_3 0). apply C20_fuel_adequate; lia. Qed.

(* the bound 3 is tight *)
Example fuel_2_not_enough :
  advance 2 (TIdle 10 5 0 1 false) 100 = (TPingWait 30 5 1, [EPing 15]) /\
  advance 3 (TIdle 10 5 0 1 false) 100 = (TClosed, [EPing 15; ETimeout 30]).
Proof. split; vm_compute; reflexivity. Qed.

(* [fuel_for] is adequate UNCONDITIONALLY (it is always >= 4): no hypothesis on hb_min, on
   the stored heartbeat or on t0 is needed. *)
Lemma fuel_for_ge : forall c span, (3 <= fuel_for c span)%nat.
Proof. intros. unfold fuel_for. generalize (N.to_nat (span / N.max (hb_min c) 1)). intro n. lia. Qed.

(* the input part of [tstep] *)
Definition apply_in (c : tcfg) (now : N) (s1 : tstate) (i : tin) : tstate * list tout :=
  match s1, i with
  | TConnecting _, IConnect req => (TConnected (now + auth_to c) (negotiate c req), [])
  | TConnected _ hb, IIdentify => (TIdle (now + hb) hb 0 0 false, [])
  | TIdle w hb last cnt mb, IRequest => (TIdle w hb last (cnt + 1) mb, [])
  | TPingWait d hb cnt, IRequest => (TPingWait d hb (cnt + 1), [])
  | TPingWait d hb cnt, IPongOk => (TIdle (now + hb) hb cnt cnt false, [])
  | TPingWait d hb cnt, IPongBad => (TClosed, [EBadPong now])
  | TIdle w hb last cnt _, (IPongOk | IPongBad) => (TIdle w hb last cnt true, [])
  | _, _ => (s1, [])
  end.

Theorem C20_tstep_fuel_adequate :
  forall c t0 s now i,
    tstep c t0 s now i =
      (let '(s1, o1) := advance_spec s now in
       let '(s2, o2) := apply_in c now s1 i in (s2, o1 ++ o2)).
Proof.
  intros. unfold tstep. rewrite (advance_ge3 _ _ _ (fuel_for_ge c (now - t0))). reflexivity.
Qed.

(* in particular tstep does not depend on t0 at all *)
Corollary tstep_t0_irrelevant : forall c t0 t0' s now i, tstep c t0 s now i = tstep c t0' s now i.
Proof. intros. now rewrite !C20_tstep_fuel_adequate. Qed.

(* Well-formedness: deadlines are not before the connection was opened, the stored heartbeat
   is within the configured envelope, the activity snapshot never exceeds the counter, and a
   ping deadline is 3*hb after a time >= t0. *)
Definition twf (c : tcfg) (t0 : N) (s : tstate) : Prop :=
  match s with
  | TConnecting d => t0 <= d
  | TConnected d hb => t0 <= d /\ hb_ok c hb
  | TIdle w hb last cnt _ => t0 <= w /\ hb_ok c hb /\ last <= cnt
  | TPingWait d hb _ => t0 + 3 * hb <= d /\ hb_ok c hb
  | TClosed => True
  end.

Lemma twf_topen : forall c t0, twf c t0 (topen c t0).
Proof. intros. unfold topen, twf. lia. Qed.

Lemma twf_advance_spec : forall c t0 s now, twf c t0 s -> twf c t0 (fst (advance_spec s now)).
Proof.
  intros c t0 s now H. destruct s as [d | d hb | w hb last cnt mb | d hb cnt |];
    cbn [advance_spec twf] in *; unfold ping_fire;
    repeat match goal with |- context [if ?b then _ else _] => destruct b end;
    cbn [fst twf]; try exact I; try (intuition lia).
Qed.

Lemma twf_advance : forall c t0 f s now, twf c t0 s -> twf c t0 (fst (advance f s now)).
Proof.
  intros c t0 f. induction f as [|f IH]; intros s now H; [exact H|].
  destruct s as [d | d hb | w hb last cnt mb | d hb cnt |]; cbn [advance];
    try (destruct (_ <=? now); cbn [fst twf]; auto).
  - destruct (cnt =? last); cbn [negb].
    + destruct mb; [exact I|].
      specialize (IH (TPingWait (w + 3 * hb) hb cnt) now).
      destruct (advance f (TPingWait (w + 3 * hb) hb cnt) now) as [s' o]. cbn [fst] in *.
      apply IH. cbn [twf] in *. intuition lia.
    + apply IH. cbn [twf] in *. intuition lia.
  - exact H.
Qed.

Lemma twf_apply_in :
  forall c t0 s now i, t0 <= now -> twf c t0 s -> twf c t0 (fst (apply_in c now s i)).
Proof.
  intros c t0 s now i Hn H.
  destruct s as [d | d hb | w hb last cnt mb | d hb cnt |]; destruct i; cbn [apply_in fst twf] in *;
    try exact I; try (intuition lia); try (pose proof (C20_heartbeat_envelope c hb_req); intuition lia).
Qed.

Theorem C20_twf_tstep :
  forall c t0 s now i, t0 <= now -> twf c t0 s -> twf c t0 (fst (tstep c t0 s now i)).
Proof.
  intros c t0 s now i Hn H. rewrite C20_tstep_fuel_adequate.
  pose proof (twf_advance_spec c t0 s now H) as H1.
  destruct (advance_spec s now) as [s1 o1]. cbn [fst] in H1.
  pose proof (twf_apply_in c t0 s1 now i Hn H1) as H2.
  destruct (apply_in c now s1 i) as [s2 o2]. exact H2.
Qed.

Theorem C20_twf_trun :
  forall c t0 evs s, Forall (fun e => t0 <= fst e) evs -> twf c t0 s -> twf c t0 (fst (trun c t0 s evs)).
Proof.
  intros c t0 evs. induction evs as [|[now i] r IH]; intros s Hf H; [exact H|].
  inversion Hf as [|? ? Hn Hr]; subst. cbn [trun].
  pose proof (C20_twf_tstep c t0 s now i Hn H) as H1.
  destruct (tstep c t0 s now i) as [s1 o1]. cbn [fst] in H1.
  specialize (IH s1 Hr H1). destruct (trun c t0 s1 r) as [s2 o2]. exact IH.
Qed.

Corollary C20_twf_reachable :
  forall c t0 evs, Forall (fun e => t0 <= fst e) evs -> twf c t0 (fst (trun c t0 (topen c t0) evs)).
Proof. intros. apply C20_twf_trun; [assumption | apply twf_topen]. Qed.

(* with a sane configuration every stored heartbeat of a reachable state is clamped *)
Definition state_hb (s : tstate) : option N :=
  match s with
  | TConnected _ hb | TIdle _ hb _ _ _ | TPingWait _ hb _ => Some hb
  | _ => None
  end.

Corollary C20_reachable_heartbeat_clamped :
  forall c t0 evs hb, hb_min c <= hb_max c -> Forall (fun e => t0 <= fst e) evs ->
    state_hb (fst (trun c t0 (topen c t0) evs)) = Some hb -> hb_min c <= hb <= hb_max c.
Proof.
  intros c t0 evs hb Hc Hf E. pose proof (C20_twf_reachable c t0 evs Hf) as W.
  destruct (fst (trun c t0 (topen c t0) evs)); cbn [state_hb twf] in *; try discriminate;
    injection E as <-; apply hb_ok_clamped; tauto.
Qed.

(* ------------------------------------------------------------------ *)
(* helpers                                                             *)
(* ------------------------------------------------------------------ *)

Ltac break_ifs :=
  repeat match goal with
         | |- context [if ?a <=? ?b then _ else _] => destruct (N.leb_spec a b)
         | |- context [if ?b then _ else _] => destruct b
         end.
Ltac leb_true H := let E := fresh in assert (E := proj2 (N.leb_le _ _) H); rewrite E; clear E.
Ltac leb_false H := let E := fresh in assert (E := proj2 (N.leb_gt _ _) H); rewrite E; clear E.

(* ------------------------------------------------------------------ *)
(* 3. Deadlines exact                                                  *)
(* ------------------------------------------------------------------ *)

Theorem C20_connect_deadline_advance :
  forall f d now,
    advance (S f) (TConnecting d) now =
      if d <=? now then (TClosed, [ETimeout d]) else (TConnecting d, []).
Proof. reflexivity. Qed.

Theorem C20_connect_deadline_in_time :
  forall c t0 d now req, now < d ->
    tstep c t0 (TConnecting d) now (IConnect req) =
      (TConnected (now + auth_to c) (negotiate c req), []).
Proof.
  intros. rewrite C20_tstep_fuel_adequate. cbn [advance_spec]. leb_false H. reflexivity.
Qed.

Theorem C20_connect_deadline_late :
  forall c t0 d now i, d <= now -> tstep c t0 (TConnecting d) now i = (TClosed, [ETimeout d]).
Proof.
  intros. rewrite C20_tstep_fuel_adequate. cbn [advance_spec]. leb_true H. destruct i; reflexivity.
Qed.

(* before the deadline, anything but CONNECT leaves the timer armed and says nothing *)
Theorem C20_connect_deadline_pending :
  forall c t0 d now i, now < d -> (forall req, i <> IConnect req) ->
    tstep c t0 (TConnecting d) now i = (TConnecting d, []).
Proof.
  intros c t0 d now i H Hi. rewrite C20_tstep_fuel_adequate. cbn [advance_spec]. leb_false H.
  destruct i; try reflexivity. exfalso; eapply Hi; reflexivity.
Qed.

(* the connect timer is replaced: the rest of the run does not depend on d *)
Theorem C20_connect_timer_replaced :
  forall c t0 d d' now req evs, now < d -> now < d' ->
    trun c t0 (TConnecting d) ((now, IConnect req) :: evs) =
    trun c t0 (TConnecting d') ((now, IConnect req) :: evs).
Proof.
  intros. cbn [trun]. rewrite !C20_connect_deadline_in_time by assumption. reflexivity.
Qed.

Theorem C20_connect_deadline :
  forall c t0 d now req f,
    advance (S f) (TConnecting d) now =
      (if d <=? now then (TClosed, [ETimeout d]) else (TConnecting d, [])) /\
    (now < d -> tstep c t0 (TConnecting d) now (IConnect req) =
                  (TConnected (now + auth_to c) (negotiate c req), [])) /\
    (d <= now -> tstep c t0 (TConnecting d) now (IConnect req) = (TClosed, [ETimeout d])).
Proof.
  intros. split; [reflexivity|]. split; intro.
  - now apply C20_connect_deadline_in_time.
  - now apply C20_connect_deadline_late.
Qed.

Theorem C20_auth_deadline_advance :
  forall f d hb now,
    advance (S f) (TConnected d hb) now =
      if d <=? now then (TClosed, [ETimeout d]) else (TConnected d hb, []).
Proof. reflexivity. Qed.

Theorem C20_auth_deadline_in_time :
  forall c t0 d hb now, now < d ->
    tstep c t0 (TConnected d hb) now IIdentify = (TIdle (now + hb) hb 0 0 false, []).
Proof.
  intros. rewrite C20_tstep_fuel_adequate. cbn [advance_spec]. leb_false H. reflexivity.
Qed.

Theorem C20_auth_deadline_late :
  forall c t0 d hb now i, d <= now -> tstep c t0 (TConnected d hb) now i = (TClosed, [ETimeout d]).
Proof.
  intros. rewrite C20_tstep_fuel_adequate. cbn [advance_spec]. leb_true H. destruct i; reflexivity.
Qed.

Theorem C20_auth_deadline_pending :
  forall c t0 d hb now i, now < d -> i <> IIdentify ->
    tstep c t0 (TConnected d hb) now i = (TConnected d hb, []).
Proof.
  intros c t0 d hb now i H Hi. rewrite C20_tstep_fuel_adequate. cbn [advance_spec]. leb_false H.
  destruct i; try reflexivity. congruence.
Qed.

Theorem C20_auth_timer_replaced :
  forall c t0 d d' hb now evs, now < d -> now < d' ->
    trun c t0 (TConnected d hb) ((now, IIdentify) :: evs) =
    trun c t0 (TConnected d' hb) ((now, IIdentify) :: evs).
Proof.
  intros. cbn [trun]. rewrite !C20_auth_deadline_in_time by assumption. reflexivity.
Qed.

Theorem C20_auth_deadline :
  forall c t0 d hb now f,
    advance (S f) (TConnected d hb) now =
      (if d <=? now then (TClosed, [ETimeout d]) else (TConnected d hb, [])) /\
    (now < d -> tstep c t0 (TConnected d hb) now IIdentify = (TIdle (now + hb) hb 0 0 false, [])) /\
    (d <= now -> tstep c t0 (TConnected d hb) now IIdentify = (TClosed, [ETimeout d])).
Proof.
  intros. split; [reflexivity|]. split; intro.
  - now apply C20_auth_deadline_in_time.
  - now apply C20_auth_deadline_late.
Qed.

(* end to end from the open: CONNECT at t1 < t0 + connect_to, IDENTIFY at t2 < t1 + auth_to *)
Theorem C20_handshake_in_time :
  forall c t0 t1 t2 req, t1 < t0 + connect_to c -> t2 < t1 + auth_to c ->
    trun c t0 (topen c t0) [(t1, IConnect req); (t2, IIdentify)] =
      (TIdle (t2 + negotiate c req) (negotiate c req) 0 0 false, []).
Proof.
  intros. unfold topen. cbn [trun].
  rewrite C20_connect_deadline_in_time by assumption.
  rewrite C20_auth_deadline_in_time by assumption. reflexivity.
Qed.

(* ------------------------------------------------------------------ *)
(* 4. An idle connection is pinged within two intervals                *)
(* ------------------------------------------------------------------ *)

(* nothing happens before the wake-up *)
Theorem C20_idle_before_wake :
  forall f w hb last cnt mb now, now < w ->
    advance f (TIdle w hb last cnt mb) now = (TIdle w hb last cnt mb, []).
Proof. intros. destruct f; [reflexivity|]. cbn [advance]. leb_false H. reflexivity. Qed.

(* no activity since the last check: PING exactly at the wake-up *)
Theorem C20_idle_pinged_quiet :
  forall f w hb cnt now, w <= now ->
    advance (S (S f)) (TIdle w hb cnt cnt false) now =
      if w + 3 * hb <=? now then (TClosed, [EPing w; ETimeout (w + 3 * hb)])
      else (TPingWait (w + 3 * hb) hb cnt, [EPing w]).
Proof.
  intros. cbn [advance]. leb_true H. rewrite N.eqb_refl. cbn [negb].
  destruct (w + 3 * hb <=? now); reflexivity.
Qed.

(* activity since the last check: the first wake-up only re-arms; PING exactly one interval later *)
Theorem C20_idle_pinged_active :
  forall f w hb last cnt now, cnt <> last -> w + hb <= now ->
    advance (S (S (S f))) (TIdle w hb last cnt false) now =
      if w + hb + 3 * hb <=? now then (TClosed, [EPing (w + hb); ETimeout (w + hb + 3 * hb)])
      else (TPingWait (w + hb + 3 * hb) hb cnt, [EPing (w + hb)]).
Proof.
  intros f w hb last cnt now Hc H. rewrite advance_fuel_3. cbn [advance_spec]. unfold ping_fire.
  assert (Hw : w <= now) by lia. leb_true Hw. leb_true H.
  rewrite (proj2 (N.eqb_neq _ _) Hc). reflexivity.
Qed.

Theorem C20_idle_pinged_within_two :
  forall f w hb last cnt now, (3 <= f)%nat -> w + hb <= now ->
    exists t s' o,
      advance f (TIdle w hb last cnt false) now = (s', EPing t :: o) /\
      w <= t <= w + hb /\
      (cnt = last -> t = w) /\ (cnt <> last -> t = w + hb).
Proof.
  intros f w hb last cnt now Hf H.
  do 3 (destruct f as [|f]; [exfalso; lia|]).
  destruct (N.eq_dec cnt last) as [-> | Hne].
  - rewrite C20_idle_pinged_quiet by lia.
    destruct (w + 3 * hb <=? now); eexists w, _, _; (split; [reflexivity|]); (split; [lia|]);
      split; intro; [reflexivity | congruence | reflexivity | congruence].
  - rewrite C20_idle_pinged_active by assumption.
    destruct (w + hb + 3 * hb <=? now); eexists (w + hb), _, _; (split; [reflexivity|]); (split; [lia|]);
      split; intro; [congruence | reflexivity | congruence | reflexivity].
Qed.

(* the same seen through tstep (clock observation) *)
Corollary C20_idle_pinged_within_two_tstep :
  forall c t0 w hb last cnt now, w + hb <= now ->
    exists t s' o,
      tstep c t0 (TIdle w hb last cnt false) now IObserve = (s', EPing t :: o) /\
      w <= t <= w + hb /\ (cnt = last -> t = w) /\ (cnt <> last -> t = w + hb).
Proof.
  intros c t0 w hb last cnt now H.
  destruct (C20_idle_pinged_within_two 3 w hb last cnt now (le_n _) H) as (t & s' & o & E & B).
  rewrite advance_ge3 in E by lia.
  rewrite C20_tstep_fuel_adequate, E.
  exists t. destruct s'; cbn [apply_in]; eexists _, _; (split; [rewrite app_nil_r; reflexivity | exact B]).
Qed.

(* ------------------------------------------------------------------ *)
(* 5. Ping timeout                                                     *)
(* ------------------------------------------------------------------ *)

Theorem C20_ping_timeout_advance :
  forall f d hb cnt now,
    advance (S f) (TPingWait d hb cnt) now =
      if d <=? now then (TClosed, [ETimeout d]) else (TPingWait d hb cnt, []).
Proof. reflexivity. Qed.

Theorem C20_ping_timeout_iff :
  forall f d hb cnt now,
    advance (S f) (TPingWait d hb cnt) now = (TClosed, [ETimeout d]) <-> d <= now.
Proof.
  intros. rewrite C20_ping_timeout_advance. destruct (N.leb_spec d now); split; intro; try lia;
    try reflexivity; discriminate.
Qed.

(* the deadline is ping time + 3*hb by construction: whenever advance emits EPing t, either it
   ends in TPingWait (t + 3*hb) (and that deadline is still in the future), or it closed, and
   then because of a stale PONG at t or the timeout at exactly t + 3*hb <= now *)
Theorem C20_ping_creates_wait :
  forall f w hb last cnt mb now s' o t, (3 <= f)%nat ->
    advance f (TIdle w hb last cnt mb) now = (s', o) -> In (EPing t) o ->
    (t = w \/ t = w + hb) /\ t <= now /\
    ( (s' = TPingWait (t + 3 * hb) hb cnt /\ o = [EPing t] /\ now < t + 3 * hb /\ mb = false)
   \/ (s' = TClosed /\ o = [EPing t; ETimeout (t + 3 * hb)] /\ t + 3 * hb <= now /\ mb = false)
   \/ (s' = TClosed /\ o = [EPing t; EBadPong t] /\ mb = true) ).
Proof.
  intros f w hb last cnt mb now s' o t Hf E Hin.
  rewrite advance_ge3 in E by assumption. cbn [advance_spec] in E. unfold ping_fire in E.
  assert (K : forall u, u = w \/ u = w + hb -> u <= now ->
            (if mb then (TClosed, [EPing u; EBadPong u])
             else if u + 3 * hb <=? now then (TClosed, [EPing u; ETimeout (u + 3 * hb)])
             else (TPingWait (u + 3 * hb) hb cnt, [EPing u])) = (s', o) ->
            (t = w \/ t = w + hb) /\ t <= now /\
            ( (s' = TPingWait (t + 3 * hb) hb cnt /\ o = [EPing t] /\ now < t + 3 * hb /\ mb = false)
           \/ (s' = TClosed /\ o = [EPing t; ETimeout (t + 3 * hb)] /\ t + 3 * hb <= now /\ mb = false)
           \/ (s' = TClosed /\ o = [EPing t; EBadPong t] /\ mb = true) )).
  { intros u Hu Hun EE. destruct mb.
    - injection EE as <- <-. destruct Hin as [Hi|[Hi|[]]]; inversion Hi; subst t.
      split; [exact Hu|]. split; [exact Hun|]. right; right. auto.
    - destruct (N.leb_spec (u + 3 * hb) now); injection EE as <- <-.
      + destruct Hin as [Hi|[Hi|[]]]; inversion Hi; subst t.
        split; [exact Hu|]. split; [exact Hun|]. right; left. auto.
      + destruct Hin as [Hi|[]]; inversion Hi; subst t.
        split; [exact Hu|]. split; [exact Hun|]. left. auto. }
  destruct (N.leb_spec w now); [| injection E as <- <-; destruct Hin].
  destruct (cnt =? last).
  - apply (K w); auto.
  - destruct (N.leb_spec (w + hb) now); [| injection E as <- <-; destruct Hin].
    apply (K (w + hb)); auto.
Qed.

Theorem C20_pong_ok_in_time :
  forall c t0 d hb cnt now, now < d ->
    tstep c t0 (TPingWait d hb cnt) now IPongOk = (TIdle (now + hb) hb cnt cnt false, []).
Proof.
  intros. rewrite C20_tstep_fuel_adequate. cbn [advance_spec]. leb_false H. reflexivity.
Qed.

Theorem C20_pong_bad_in_time :
  forall c t0 d hb cnt now, now < d ->
    tstep c t0 (TPingWait d hb cnt) now IPongBad = (TClosed, [EBadPong now]).
Proof.
  intros. rewrite C20_tstep_fuel_adequate. cbn [advance_spec]. leb_false H. reflexivity.
Qed.

Theorem C20_pong_too_late :
  forall c t0 d hb cnt now i, d <= now ->
    tstep c t0 (TPingWait d hb cnt) now i = (TClosed, [ETimeout d]).
Proof.
  intros. rewrite C20_tstep_fuel_adequate. cbn [advance_spec]. leb_true H. destruct i; reflexivity.
Qed.

(* requests while waiting for the PONG do not stop the timeout: only the PONG does *)
Theorem C20_request_does_not_answer_ping :
  forall c t0 d hb cnt now, now < d ->
    tstep c t0 (TPingWait d hb cnt) now IRequest = (TPingWait d hb (cnt + 1), []).
Proof.
  intros. rewrite C20_tstep_fuel_adequate. cbn [advance_spec]. leb_false H. reflexivity.
Qed.

Theorem C20_ping_timeout :
  forall c t0 d hb cnt now f,
    (advance (S f) (TPingWait d hb cnt) now = (TClosed, [ETimeout d]) <-> d <= now) /\
    (now < d -> advance (S f) (TPingWait d hb cnt) now = (TPingWait d hb cnt, [])) /\
    (now < d -> tstep c t0 (TPingWait d hb cnt) now IPongOk = (TIdle (now + hb) hb cnt cnt false, [])) /\
    (now < d -> tstep c t0 (TPingWait d hb cnt) now IPongBad = (TClosed, [EBadPong now])) /\
    (d <= now -> forall i, tstep c t0 (TPingWait d hb cnt) now i = (TClosed, [ETimeout d])).
Proof.
  intros. split; [apply C20_ping_timeout_iff|]. split; [|split; [|split]]; intro H.
  - rewrite C20_ping_timeout_advance. leb_false H. reflexivity.
  - now apply C20_pong_ok_in_time.
  - now apply C20_pong_bad_in_time.
  - intro i. now apply C20_pong_too_late.
Qed.

(* full idle cycle: PING at w, correct PONG at p < w + 3*hb, next wake-up at p + hb *)
Theorem C20_ping_pong_cycle :
  forall c t0 w hb cnt p, w <= p -> p < w + 3 * hb ->
    tstep c t0 (TIdle w hb cnt cnt false) p IPongOk = (TIdle (p + hb) hb cnt cnt false, [EPing w]).
Proof.
  intros c t0 w hb cnt p H1 H2. rewrite C20_tstep_fuel_adequate. cbn [advance_spec]. unfold ping_fire.
  leb_true H1. rewrite N.eqb_refl. leb_false H2. reflexivity.
Qed.

(* ------------------------------------------------------------------ *)
(* 6. Active connections are not pinged                                *)
(* ------------------------------------------------------------------ *)

Theorem C20_active_not_pinged :
  forall f w hb last cnt mb now, (2 <= f)%nat -> cnt <> last -> w <= now -> now < w + hb ->
    advance f (TIdle w hb last cnt mb) now = (TIdle (w + hb) hb cnt cnt mb, []).
Proof.
  intros f w hb last cnt mb now Hf Hc H1 H2.
  do 2 (destruct f as [|f]; [exfalso; lia|]). cbn [advance].
  leb_true H1. rewrite (proj2 (N.eqb_neq _ _) Hc). cbn [negb]. leb_false H2. reflexivity.
Qed.

(* whatever the position of the clock before w + hb: no output, still idle, same heartbeat *)
Corollary C20_active_not_pinged_any :
  forall f w hb last cnt mb now, (2 <= f)%nat -> cnt <> last -> now < w + hb ->
    exists w' last',
      advance f (TIdle w hb last cnt mb) now = (TIdle w' hb last' cnt mb, []) /\ now < w'.
Proof.
  intros f w hb last cnt mb now Hf Hc H.
  destruct (N.lt_ge_cases now w) as [Hlt | Hge].
  - exists w, last. now rewrite C20_idle_before_wake.
  - exists (w + hb), cnt. now rewrite C20_active_not_pinged.
Qed.

(* one request at time t < w + hb on an active connection, or t < w on any connection *)
Lemma request_step :
  forall c t0 w hb last cnt mb t, last <= cnt -> (t < w \/ (last < cnt /\ t < w + hb)) ->
    exists w' last',
      tstep c t0 (TIdle w hb last cnt mb) t IRequest = (TIdle w' hb last' (cnt + 1) mb, []) /\
      last' < cnt + 1 /\ t < w' /\ w' <= N.max w (t + hb).
Proof.
  intros c t0 w hb last cnt mb t Hle H. rewrite C20_tstep_fuel_adequate. cbn [advance_spec].
  destruct (N.leb_spec w t).
  - destruct H as [H | [Hlt H]]; [lia|].
    rewrite (proj2 (N.eqb_neq cnt last)) by lia. leb_false H.
    exists (w + hb), cnt. cbn [apply_in app]. repeat split; lia.
  - exists w, last. cbn [apply_in app]. repeat split; lia.
Qed.

(* requests at times t1 <= t2 <= ... with every gap < hb, starting from reference time t *)
Fixpoint gaps_ok (hb t : N) (ts : list N) : Prop :=
  match ts with
  | [] => True
  | t' :: r => t <= t' /\ t' < t + hb /\ gaps_ok hb t' r
  end.

Definition reqs (ts : list N) : list (N * tin) := map (fun t => (t, IRequest)) ts.

Lemma trun_app : forall c t0 e1 e2 s,
  trun c t0 s (e1 ++ e2) =
    (let '(s1, o1) := trun c t0 s e1 in let '(s2, o2) := trun c t0 s1 e2 in (s2, o1 ++ o2)).
Proof.
  intros c t0 e1 e2. induction e1 as [|[now i] r IH]; intro s; cbn [trun app].
  - destruct (trun c t0 s e2); reflexivity.
  - destruct (tstep c t0 s now i) as [s1 o1]. rewrite IH.
    destruct (trun c t0 s1 r) as [s2 o2]. destruct (trun c t0 s2 e2) as [s3 o3].
    now rewrite app_assoc.
Qed.

Lemma last_cons_default : forall (l : list N) a d d', List.last (a :: l) d = List.last (a :: l) d'.
Proof.
  induction l as [|b l IH]; intros a d d'; [reflexivity|].
  change (List.last (b :: l) d = List.last (b :: l) d'). apply IH.
Qed.

(* invariant form: an active idle state whose wake-up is after the last request stays so *)
Lemma active_run_inv :
  forall c t0 hb mb ts t w last cnt, last < cnt -> t < w -> gaps_ok hb t ts ->
    exists w' last' cnt',
      trun c t0 (TIdle w hb last cnt mb) (reqs ts) = (TIdle w' hb last' cnt' mb, []) /\
      last' < cnt' /\ List.last ts t < w' /\ cnt' = cnt + N.of_nat (length ts).
Proof.
  intros c t0 hb mb ts. induction ts as [|t1 r IH]; intros t w last cnt Hl Hw Hg.
  - exists w, last, cnt. cbn. repeat split; try assumption; lia.
  - destruct Hg as (G1 & G2 & G3).
    destruct (request_step c t0 w hb last cnt mb t1) as (w1 & l1 & E & L1 & W1 & _); [lia | right; lia |].
    destruct (IH t1 w1 l1 (cnt + 1) L1 W1 G3) as (w' & last' & cnt' & E' & L' & W' & C').
    exists w', last', cnt'. cbn [reqs map trun]. fold (reqs r). rewrite E, E'. cbn [app].
    repeat split; try assumption.
    + destruct r as [|t2 r]; [exact W'|].
      change (List.last (t1 :: t2 :: r) t) with (List.last (t2 :: r) t).
      rewrite (last_cons_default r t2 t t1). exact W'.
    + cbn [length]. lia.
Qed.

(* Main run theorem.  From an idle state (last <= cnt, e.g. just after IDENTIFY), if the first
   request comes before the first wake-up, every later request comes less than hb after the
   previous one, and we finally look at the clock less than hb after the last request, then
   NOTHING is ever emitted (no PING, no TIMEOUT, no BAD PONG), the connection is still idle with
   the same heartbeat, and every request was counted. *)
Theorem C20_active_run_not_pinged :
  forall c t0 w hb last cnt mb t1 ts now i,
    last <= cnt -> t1 < w -> gaps_ok hb t1 ts -> now < List.last ts t1 + hb ->
    i = IObserve \/ i = IRequest ->
    exists w' last' cnt',
      trun c t0 (TIdle w hb last cnt mb) (reqs (t1 :: ts) ++ [(now, i)]) = (TIdle w' hb last' cnt' mb, []) /\
      now < w' /\ cnt + N.of_nat (length (t1 :: ts)) <= cnt'.
Proof.
  intros c t0 w hb last cnt mb t1 ts now i Hle H1 Hg Hn Hi.
  rewrite trun_app. cbn [reqs map trun]. fold (reqs ts).
  destruct (request_step c t0 w hb last cnt mb t1 Hle (or_introl H1)) as (w1 & l1 & E & L1 & W1 & _).
  rewrite E.
  destruct (active_run_inv c t0 hb mb ts t1 w1 l1 (cnt + 1) L1 W1 Hg) as (w2 & l2 & c2 & E2 & L2 & W2 & C2).
  rewrite E2. cbn [app].
  destruct Hi as [-> | ->].
  - rewrite C20_tstep_fuel_adequate.
    destruct (C20_active_not_pinged_any 3 w2 hb l2 c2 mb now) as (w3 & l3 & E3 & W3); [lia | lia | lia |].
    rewrite advance_ge3 in E3 by lia. rewrite E3. cbn [apply_in app].
    exists w3, l3, c2. repeat split; try assumption. cbn [length]. lia.
  - destruct (request_step c t0 w2 hb l2 c2 mb now) as (w3 & l3 & E3 & L3 & W3 & _); [lia | right; lia |].
    rewrite E3. cbn [app]. exists w3, l3, (c2 + 1). repeat split; try assumption. cbn [length]. lia.
Qed.

(* the same from the very beginning of the connection *)
Theorem C20_active_connection_never_pinged :
  forall c t0 tc ti req t1 ts now,
    tc < t0 + connect_to c -> ti < tc + auth_to c ->
    t1 < ti + negotiate c req -> gaps_ok (negotiate c req) t1 ts ->
    now < List.last ts t1 + negotiate c req ->
    exists w' last' cnt',
      trun c t0 (topen c t0)
           ((tc, IConnect req) :: (ti, IIdentify) :: reqs (t1 :: ts) ++ [(now, IObserve)]) =
        (TIdle w' (negotiate c req) last' cnt' false, []) /\ now < w'.
Proof.
  intros c t0 tc ti req t1 ts now Hc Hi H1 Hg Hn.
  change ((tc, IConnect req) :: (ti, IIdentify) :: reqs (t1 :: ts) ++ [(now, IObserve)])
    with ([(tc, IConnect req); (ti, IIdentify)] ++ (reqs (t1 :: ts) ++ [(now, IObserve)])).
  rewrite trun_app, C20_handshake_in_time by assumption.
  destruct (C20_active_run_not_pinged c t0 (ti + negotiate c req) (negotiate c req) 0 0 false t1 ts now IObserve)
    as (w' & l' & c' & E & W & _); try assumption; [lia | now left |].
  rewrite E. cbn [app]. now exists w', l', c'.
Qed.

(* ------------------------------------------------------------------ *)
(* 7. Unsolicited PONG                                                 *)
(* ------------------------------------------------------------------ *)

Theorem C20_stale_pong_closes :
  forall f w hb cnt now, w <= now ->
    advance (S f) (TIdle w hb cnt cnt true) now = (TClosed, [EPing w; EBadPong w]).
Proof. intros. cbn [advance]. leb_true H. rewrite N.eqb_refl. reflexivity. Qed.

(* with activity the close is only postponed by one interval *)
Theorem C20_stale_pong_closes_active :
  forall f w hb last cnt now, cnt <> last -> w + hb <= now ->
    advance (S (S f)) (TIdle w hb last cnt true) now = (TClosed, [EPing (w + hb); EBadPong (w + hb)]).
Proof.
  intros f w hb last cnt now Hc H. cbn [advance]. assert (Hw : w <= now) by lia.
  leb_true Hw. rewrite (proj2 (N.eqb_neq _ _) Hc). cbn [negb]. leb_true H. rewrite N.eqb_refl. reflexivity.
Qed.

(* how the mailbox gets filled: any PONG while no PING is outstanding *)
Theorem C20_unsolicited_pong_queued :
  forall c t0 w hb last cnt mb now i, now < w -> i = IPongOk \/ i = IPongBad ->
    tstep c t0 (TIdle w hb last cnt mb) now i = (TIdle w hb last cnt true, []).
Proof.
  intros c t0 w hb last cnt mb now i H Hi. rewrite C20_tstep_fuel_adequate. cbn [advance_spec].
  leb_false H. destruct Hi as [-> | ->]; reflexivity.
Qed.

(* end to end: unsolicited PONG at p < w on a quiet connection, clock reaches w *)
Theorem C20_unsolicited_pong_then_close :
  forall c t0 w hb cnt p now, p < w -> w <= now ->
    trun c t0 (TIdle w hb cnt cnt false) [(p, IPongOk); (now, IObserve)] =
      (TClosed, [EPing w; EBadPong w]).
Proof.
  intros c t0 w hb cnt p now Hp Hn. cbn [trun].
  rewrite C20_unsolicited_pong_queued by (auto). rewrite C20_tstep_fuel_adequate.
  rewrite <- (advance_fuel_3 0), C20_stale_pong_closes by assumption. reflexivity.
Qed.

(* ------------------------------------------------------------------ *)
(* 8. Closed is final; output times                                    *)
(* ------------------------------------------------------------------ *)

Theorem C20_closed_final_advance : forall f now, advance f TClosed now = (TClosed, []).
Proof. intros [|f] now; reflexivity. Qed.

Theorem C20_closed_final_tstep : forall c t0 now i, tstep c t0 TClosed now i = (TClosed, []).
Proof. intros. rewrite C20_tstep_fuel_adequate. destruct i; reflexivity. Qed.

Theorem C20_closed_final_trun : forall c t0 evs, trun c t0 TClosed evs = (TClosed, []).
Proof.
  intros c t0 evs. induction evs as [|[now i] r IH]; [reflexivity|].
  cbn [trun]. rewrite C20_closed_final_tstep, IH. reflexivity.
Qed.

Definition tout_time (e : tout) : N :=
  match e with EPing t | ETimeout t | EBadPong t => t end.

(* the next timer of a state *)
Definition due (s : tstate) : option N :=
  match s with
  | TConnecting d | TConnected d _ | TPingWait d _ _ => Some d
  | TIdle w _ _ _ _ => Some w
  | TClosed => None
  end.

Definition due_le (s : tstate) (t : N) : Prop :=
  match due s with Some d => d <= t | None => True end.

Lemma advance_spec_times :
  forall s now e, In e (snd (advance_spec s now)) -> due_le s (tout_time e) /\ tout_time e <= now.
Proof.
  intros s now e. destruct s as [d | d hb | w hb last cnt mb | d hb cnt |];
    cbn [advance_spec]; unfold ping_fire, due_le; cbn [due];
    break_ifs;
    cbn [snd In]; intro Hin; repeat (destruct Hin as [Hin | Hin]; [subst e; cbn [tout_time]; lia|]);
    try destruct Hin.
Qed.

(* timer-driven outputs: between the timer that was due and the clock *)
Theorem C20_advance_output_times :
  forall f s now e, In e (snd (advance f s now)) -> due_le s (tout_time e) /\ tout_time e <= now.
Proof.
  intros f s now e H.
  destruct (Nat.le_gt_cases 3 f) as [Hf | Hf].
  - rewrite advance_ge3 in H by assumption. now apply advance_spec_times.
  - (* less fuel only truncates *)
    revert s H. induction f as [|f IH]; intros s H; [destruct H|].
    destruct s as [d | d hb | w hb last cnt mb | d hb cnt |]; cbn [advance] in H; unfold due_le; cbn [due].
    1,2,4: destruct (N.leb_spec d now); cbn [snd In] in H; [destruct H as [<-|[]]; cbn; lia | destruct H].
    2: destruct H.
    destruct (N.leb_spec w now); [| destruct H].
    destruct (cnt =? last); cbn [negb] in H.
    + destruct mb.
      * cbn [snd In] in H. destruct H as [<-|[<-|[]]]; cbn; lia.
      * specialize (IH ltac:(lia) (TPingWait (w + 3 * hb) hb cnt)).
        destruct (advance f (TPingWait (w + 3 * hb) hb cnt) now) as [s' o]. cbn [snd In] in H, IH.
        destruct H as [<- | H]; [cbn; lia|]. destruct (IH H) as [I1 I2]. unfold due_le in I1. cbn [due] in I1. lia.
    + specialize (IH ltac:(lia) (TIdle (w + hb) hb cnt cnt mb) H). unfold due_le in IH. cbn [due] in IH. lia.
Qed.

(* The conjectured ">= the previous wake/deadline" is FALSE for the input-driven output:
   a wrong PONG before the ping deadline is reported at the time of the PONG. *)
Example bad_pong_before_deadline :
  tstep {| connect_to := 5000; auth_to := 3000; hb_min := 1000; hb_max := 60000 |} 0
        (TPingWait 100 10 0) 50 IPongBad = (TClosed, [EBadPong 50])
  /\ due (TPingWait 100 10 0) = Some 100 /\ 50 < 100.
Proof. vm_compute. repeat split. Qed.

Lemma apply_in_times :
  forall c now s i e, In e (snd (apply_in c now s i)) -> e = EBadPong now /\ i = IPongBad /\ exists d hb cnt, s = TPingWait d hb cnt.
Proof.
  intros c now s i e. destruct s as [d | d hb | w hb last cnt mb | d hb cnt |]; destruct i;
    cbn [apply_in snd In]; intro H; try destruct H as [H|H]; try destruct H.
  repeat split; eauto.
Qed.

(* corrected statement: every output of a step is stamped <= now; it is stamped >= the timer
   that was due, except the EBadPong of a wrong PONG which is stamped exactly now *)
Theorem C20_tstep_output_times :
  forall c t0 s now i e, In e (snd (tstep c t0 s now i)) ->
    tout_time e <= now /\ (due_le s (tout_time e) \/ (e = EBadPong now /\ i = IPongBad)).
Proof.
  intros c t0 s now i e. rewrite C20_tstep_fuel_adequate.
  pose proof (advance_spec_times s now e) as HA.
  destruct (advance_spec s now) as [s1 o1]. cbn [snd] in HA.
  pose proof (apply_in_times c now s1 i e) as HB.
  destruct (apply_in c now s1 i) as [s2 o2]. cbn [snd] in *.
  intro H. apply in_app_or in H as [H | H].
  - destruct (HA H). auto.
  - destruct (HB H) as (-> & -> & _). cbn [tout_time]. split; [lia | auto].
Qed.

(* after a step every remaining timer is strictly in the future, unless it was just armed
   with a zero interval by the input itself *)
Theorem C20_advance_leaves_future_timers :
  forall f s now, (3 <= f)%nat ->
    match due (fst (advance f s now)) with Some d => now < d | None => True end.
Proof.
  intros f s now Hf. rewrite advance_ge3 by assumption.
  destruct s as [d | d hb | w hb last cnt mb | d hb cnt |]; cbn [advance_spec]; unfold ping_fire;
    break_ifs;
    cbn [fst due]; try exact I; lia.
Qed.

(* ------------------------------------------------------------------ *)
(* 9. Non-vacuity                                                      *)
(* ------------------------------------------------------------------ *)

Definition cfg0 : tcfg := {| connect_to := 5000; auth_to := 3000; hb_min := 1000; hb_max := 60000 |}.

(* 1 *)
Example ex_negotiate :
  (negotiate cfg0 0, negotiate cfg0 10, negotiate cfg0 1000, negotiate cfg0 30000, negotiate cfg0 60000, negotiate cfg0 99999)
  = (60000, 1000, 1000, 30000, 60000, 60000).
Proof. vm_compute. reflexivity. Qed.

Example ex_negotiate_misconfigured :
  let bad := {| connect_to := 1; auth_to := 1; hb_min := 500; hb_max := 100 |} in
  (negotiate bad 0, negotiate bad 50, negotiate bad 300, negotiate bad 500, negotiate bad 9999)
  = (100, 500, 500, 100, 100).
Proof. vm_compute. reflexivity. Qed.

(* 3 *)
Example ex_connect_deadline :
  tstep cfg0 100 (topen cfg0 100) 5099 IObserve = (TConnecting 5100, []) /\
  tstep cfg0 100 (topen cfg0 100) 5100 IObserve = (TClosed, [ETimeout 5100]) /\
  tstep cfg0 100 (topen cfg0 100) 5099 (IConnect 2000) = (TConnected 8099 2000, []) /\
  tstep cfg0 100 (topen cfg0 100) 5100 (IConnect 2000) = (TClosed, [ETimeout 5100]) /\
  trun cfg0 100 (topen cfg0 100) [(200, IConnect 2000); (99999, IObserve)] = (TClosed, [ETimeout 3200]).
Proof. repeat split; vm_compute; reflexivity. Qed.

Example ex_auth_deadline :
  tstep cfg0 100 (TConnected 3200 2000) 3199 IIdentify = (TIdle 5199 2000 0 0 false, []) /\
  tstep cfg0 100 (TConnected 3200 2000) 3200 IIdentify = (TClosed, [ETimeout 3200]) /\
  tstep cfg0 100 (TConnected 3200 2000) 3199 IObserve = (TConnected 3200 2000, []).
Proof. repeat split; vm_compute; reflexivity. Qed.

(* 4 *)
Example ex_idle_pinged :
  (* quiet: ping at the wake-up *)
  tstep cfg0 0 (TIdle 5000 2000 7 7 false) 7000 IObserve = (TPingWait 11000 2000 7, [EPing 5000]) /\
  (* active in the last interval: re-arm at 5000, ping at 7000 *)
  tstep cfg0 0 (TIdle 5000 2000 6 7 false) 7000 IObserve = (TPingWait 13000 2000 7, [EPing 7000]) /\
  tstep cfg0 0 (TIdle 5000 2000 6 7 false) 6999 IObserve = (TIdle 7000 2000 7 7 false, []) /\
  tstep cfg0 0 (TIdle 5000 2000 7 7 false) 4999 IObserve = (TIdle 5000 2000 7 7 false, []).
Proof. repeat split; vm_compute; reflexivity. Qed.

(* 5 *)
Example ex_ping_timeout :
  tstep cfg0 0 (TPingWait 11000 2000 7) 10999 IObserve = (TPingWait 11000 2000 7, []) /\
  tstep cfg0 0 (TPingWait 11000 2000 7) 11000 IObserve = (TClosed, [ETimeout 11000]) /\
  tstep cfg0 0 (TPingWait 11000 2000 7) 10999 IPongOk = (TIdle 12999 2000 7 7 false, []) /\
  tstep cfg0 0 (TPingWait 11000 2000 7) 10999 IPongBad = (TClosed, [EBadPong 10999]) /\
  tstep cfg0 0 (TPingWait 11000 2000 7) 11000 IPongOk = (TClosed, [ETimeout 11000]) /\
  (* silence from the idle state: ping at 5000, timeout at 5000 + 3*2000 *)
  tstep cfg0 0 (TIdle 5000 2000 7 7 false) 999999 IObserve = (TClosed, [EPing 5000; ETimeout 11000]) /\
  tstep cfg0 0 (TIdle 5000 2000 6 7 false) 999999 IObserve = (TClosed, [EPing 7000; ETimeout 13000]).
Proof. repeat split; vm_compute; reflexivity. Qed.

(* 6 *)
Example ex_active_not_pinged :
  tstep cfg0 0 (TIdle 5000 2000 6 7 false) 5000 IObserve = (TIdle 7000 2000 7 7 false, []) /\
  (* IDENTIFY at 3000 (hb 2000), then a request every 1999 ms for a long time: never pinged *)
  trun cfg0 0 (topen cfg0 0)
       ((100, IConnect 2000) :: (3000, IIdentify) ::
        reqs [4999; 6998; 8997; 10996; 12995; 14994; 16993; 18992; 20991] ++ [(22990, IObserve)])
    = (TIdle 23000 2000 9 9 false, []) /\
  (* ... whereas a gap of exactly hb + 1 after a wake-up boundary can be pinged *)
  snd (trun cfg0 0 (topen cfg0 0)
       [(100, IConnect 2000); (3000, IIdentify); (4999, IRequest); (7000, IRequest)]) = [EPing 7000].
Proof. repeat split; vm_compute; reflexivity. Qed.

Example ex_gaps_ok : gaps_ok 2000 4999 [6998; 8997; 10996; 12995; 14994; 16993; 18992; 20991].
Proof. cbn [gaps_ok]. repeat split; lia. Qed.

(* 7 *)
Example ex_stale_pong :
  tstep cfg0 0 (TIdle 5000 2000 7 7 true) 5000 IObserve = (TClosed, [EPing 5000; EBadPong 5000]) /\
  trun cfg0 0 (TIdle 5000 2000 7 7 false) [(4000, IPongOk); (4999, IObserve)] = (TIdle 5000 2000 7 7 true, []) /\
  trun cfg0 0 (TIdle 5000 2000 7 7 false) [(4000, IPongOk); (5000, IObserve)] = (TClosed, [EPing 5000; EBadPong 5000]) /\
  trun cfg0 0 (TIdle 5000 2000 6 7 false) [(4000, IPongBad); (99999, IObserve)] = (TClosed, [EPing 7000; EBadPong 7000]).
Proof. repeat split; vm_compute; reflexivity. Qed.

(* 8 *)
Example ex_closed : trun cfg0 0 TClosed [(1, IConnect 5); (2, IIdentify); (3, IRequest); (4, IPongOk)] = (TClosed, []).
Proof. vm_compute. reflexivity. Qed.

(* A pre-authentication frame that is answered without a phase change leaves the authentication deadline
   where it was: the connection is still closed with TIMEOUT at exactly d. *)
Lemma C20_refused_keeps_deadline :
  forall (c : tcfg) (t0 d hb t1 t2 : N),
    t1 < d -> d <= t2 ->
    tstep c t0 (TConnected d hb) t1 IRefused = (TConnected d hb, []) /\
    trun c t0 (TConnected d hb) [(t1, IRefused); (t2, IObserve)] = (TClosed, [ETimeout d]).
Proof.
  intros c t0 d hb t1 t2 H1 H2.
  assert (A1 : forall f, advance (S f) (TConnected d hb) t1 = (TConnected d hb, [])).
  { intros f. cbn [advance]. destruct (d <=? t1) eqn:E; [apply N.leb_le in E; lia | reflexivity]. }
  assert (A2 : forall f, advance (S f) (TConnected d hb) t2 = (TClosed, [ETimeout d])).
  { intros f. cbn [advance]. destruct (d <=? t2) eqn:E; [reflexivity | apply N.leb_gt in E; lia]. }
  assert (F : forall span, exists f, fuel_for c span = S f).
  { intros span. unfold fuel_for. exists (N.to_nat (span / N.max (hb_min c) 1) + 3)%nat. lia. }
  assert (S1 : tstep c t0 (TConnected d hb) t1 IRefused = (TConnected d hb, [])).
  { unfold tstep. destruct (F (t1 - t0)) as [f Hf]. rewrite Hf, A1. reflexivity. }
  split; [exact S1 |].
  cbn [trun]. rewrite S1.
  unfold tstep. destruct (F (t2 - t0)) as [f Hf]. rewrite Hf, A2. reflexivity.
Qed.

Example C20_refused_keeps_deadline_example :
  trun {| connect_to := 1000; auth_to := 2000; hb_min := 1000; hb_max := 4000 |} 0
       (TConnected 2050 4000) [(300, IRefused); (900, IRefused); (2060, IObserve)] = (TClosed, [ETimeout 2050]).
Proof. vm_compute. reflexivity. Qed.
