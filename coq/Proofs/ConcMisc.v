(* Interleaved model: one segment of a other task preserves the invariant. *)
From Coq Require Import List NArith Bool Lia.
From NW Require Import Model.Conc Proofs.ConcDefs.
Import ListNotations.
Open Scope N_scope.

(* ---------- the task list ---------- *)
Lemma tlookup_In t k l : tlookup t l = Some k -> In (t, k) l.
Proof.
  induction l as [|[a v] r IH]; cbn [tlookup]; [discriminate|].
  destruct (N.eqb_spec t a) as [->|ne]; intros H.
  - injection H as ->. left; reflexivity.
  - right; auto.
Qed.

Lemma In_map_fst (t : tid) (k : task) l : In (t, k) l -> In t (map fst l).
Proof. intros H. change t with (fst (t, k)). apply in_map; exact H. Qed.

Lemma In_tlookup t k l : NoDup (map fst l) -> In (t, k) l -> tlookup t l = Some k.
Proof.
  induction l as [|[a v] r IH]; cbn [tlookup map fst]; intros nd H; [destruct H|].
  inversion nd as [|x y nin nd' e]; subst.
  destruct H as [H|H].
  - injection H as -> ->. rewrite N.eqb_refl. reflexivity.
  - destruct (N.eqb_spec t a) as [->|ne]; [|auto].
    exfalso. apply nin. eapply In_map_fst; exact H.
Qed.

Lemma In_unique t k k' l : NoDup (map fst l) -> tlookup t l = Some k -> In (t, k') l -> k' = k.
Proof.
  intros nd H1 H2. apply (In_tlookup _ _ _ nd) in H2. rewrite H1 in H2. injection H2 as ->. reflexivity.
Qed.

Lemma In_tset t v t' k' l : In (t', k') (tset t v l) -> (t' = t /\ k' = v) \/ In (t', k') l.
Proof.
  induction l as [|[a x] r IH]; cbn [tset]; [intros []|].
  destruct (N.eqb_spec t a) as [->|ne]; intros [H|H].
  - injection H as <- <-. left; split; reflexivity.
  - right; right; exact H.
  - right; left; exact H.
  - destruct (IH H) as [H'|H']; [left; exact H'|right; right; exact H'].
Qed.

Lemma In_tset_other t v t' k' l : In (t', k') l -> t' <> t -> In (t', k') (tset t v l).
Proof.
  induction l as [|[a x] r IH]; cbn [tset]; [intros []|].
  intros H ne. destruct (N.eqb_spec t a) as [->|ne'].
  - destruct H as [H|H]; [injection H as <- <-; congruence|right; exact H].
  - destruct H as [H|H]; [left; exact H|right; auto].
Qed.

Lemma map_fst_tset t v l : map fst (tset t v l) = map fst l.
Proof.
  induction l as [|[a x] r IH]; cbn [tset]; [reflexivity|].
  destruct (N.eqb_spec t a) as [->|ne]; cbn [map fst]; [reflexivity|rewrite IH; reflexivity].
Qed.

Lemma In_tremove t t' k' l : In (t', k') (tremove t l) <-> In (t', k') l /\ t' <> t.
Proof.
  unfold tremove. rewrite filter_In. cbn [fst].
  destruct (N.eqb_spec t' t); cbn [negb]; intuition congruence.
Qed.

Lemma NoDup_map_fst_tremove t l : NoDup (map fst l) -> NoDup (map fst (tremove t l)).
Proof.
  unfold tremove. induction l as [|[a x] r IH]; cbn [filter map fst]; intros nd; [constructor|].
  inversion nd as [|y z nin nd' e]; subst.
  destruct (negb (a =? t)); cbn [map fst]; [|auto].
  constructor; [|auto].
  intros H. apply nin. apply in_map_iff in H. destruct H as [[b w] [e H]]. cbn [fst] in e. subst b.
  apply filter_In in H. destruct H as [H _]. eapply In_map_fst; exact H.
Qed.

(* ---------- a request task that holds no lock changes its pc, or goes away ---------- *)
(* the clean-up tasks, and so [covered], are the same when request tasks come, go or move *)
Definition same_cleanups (l l' : list (tid * task)) : Prop :=
  forall t k, t_conn k = None -> In (t, k) l -> In (t, k) l'.

Lemma covered_mono s s' u ch o :
  same_cleanups (tasks s) (tasks s') -> covered s u ch o -> covered s' u ch o.
Proof.
  intros sc (t & k & Hin & Hc & Hme & H). exists t, k. repeat split; auto.
Qed.

(* two global states that differ at most in the allow-lists of channel objects (and the delivery lists cached from
   them, which are up to date in the second) *)
Definition same_but_acl (g g' : gst) : Prop :=
  next_oid g' = next_oid g /\ cmap g' = cmap g /\ idx g' = idx g /\ reg g' = reg g /\ wl g' = wl g /\ cuser g' = cuser g /\
  (forall o, members (objs g' o) = members (objs g o)) /\
  (forall o, owner (objs g' o) = owner (objs g o)) /\
  (forall o, targets (objs g' o) = filter (allowed (racl (objs g' o))) (members (objs g' o))).

Lemma same_but_acl_refl g :
  (forall o, targets (objs g o) = filter (allowed (racl (objs g o))) (members (objs g o))) -> same_but_acl g g.
Proof. intros H. repeat split; auto. Qed.

(* an object is replaced by one with the same members and owner and an up-to-date delivery list *)
Lemma same_but_acl_put_obj g o b :
  (forall o, targets (objs g o) = filter (allowed (racl (objs g o))) (members (objs g o))) ->
  members b = members (objs g o) -> owner b = owner (objs g o) ->
  targets b = filter (allowed (racl b)) (members b) ->
  same_but_acl g (put_obj g o b).
Proof.
  intros Ht Hm Ho Hb. unfold same_but_acl, put_obj, set_objs.
  cbn [objs next_oid cmap idx reg wl cuser]. unfold upd.
  repeat split; try reflexivity; intros o0; destruct (N.eqb_spec o0 o) as [->|ne]; auto.
Qed.

Lemma same_but_acl_set_acl g o ty a :
  (forall o, targets (objs g o) = filter (allowed (racl (objs g o))) (members (objs g o))) ->
  same_but_acl g (put_obj g o (obj_set_acl (objs g o) ty a)).
Proof. intros Ht. apply same_but_acl_put_obj; auto. Qed.

(* the task-local obligation of a pc (the second part of [task_ok]) *)
Definition pc_ok (g : gst) (t : tid) (p : pc) : Prop :=
  match p with
  | PJoinNotify ch o created n _ =>
      cmap g ch = Some o /\ In n (members (objs g o)) /\ wl g o = Some t /\ (created = true -> members (objs g o) = [n])
  | PLeaveN1 ch o n w _ =>
      cmap g ch = Some o /\ In n (members (objs g o)) /\ wl g o = Some t /\ w = is_owner (objs g o) n
  | PLeaveN2 ch o _ _ => cmap g ch = Some o /\ wl g o = Some t
  | PLeaveWait ch o _ _ | PJoinWait ch o _ _ | PBcastWait ch o _ _ | PMembersWait ch o _
  | PSetAclWait ch o _ _ _ _ | PGetAclWait ch o _ _ => o < next_oid g /\ forall ch', cmap g ch' = Some o -> ch' = ch
  | PDone => False
  | _ => True
  end.

Lemma task_ok_pc_ok g t k : task_ok g t k -> pc_ok g t (t_pc k).
Proof. intros [_ H]. exact H. Qed.

Lemma pc_ok_not_done g t p : pc_ok g t p -> p <> PDone.
Proof. intros H ->. exact H. Qed.

Lemma pc_ok_frame g g' t p : same_but_acl g g' -> pc_ok g t p -> pc_ok g' t p.
Proof.
  intros (Hn & Hc & Hi & Hr & Hw & Hu & Hm & Ho & Ht) H2. unfold pc_ok.
  destruct p; auto; unfold is_owner; rewrite ?Hc, ?Hm, ?Hw, ?Hn, ?Ho; exact H2.
Qed.

Lemma task_ok_frame g g' t k : same_but_acl g g' -> task_ok g t k -> task_ok g' t k.
Proof.
  intros F [H1 H2]. pose proof F as (Hn & Hc & Hi & Hr & Hw & Hu & Hm & Ho & Ht). unfold task_ok.
  rewrite Hu. split; [exact H1|]. exact (pc_ok_frame _ _ _ _ F H2).
Qed.

(* a task that finds the object o under the name ch and waits for it: the obligation of its waiting pc *)
Lemma wait_ok s ch o :
  CInv s -> cmap (cg s) ch = Some o ->
  o < next_oid (cg s) /\ forall ch', cmap (cg s) ch' = Some o -> ch' = ch.
Proof.
  intros I H. split.
  - destruct (N.lt_ge_cases o (next_oid (cg s))) as [L|L]; [exact L|].
    exfalso. destruct (i_fresh _ I o L) as (_ & _ & F). exact (F ch H).
  - intros ch' H'. exact (i_inj _ I ch' ch o H' H).
Qed.

(* the global state changes at most in allow-lists; clean-up tasks stay *)
Lemma CInv_frame s s' :
  same_but_acl (cg s) (cg s') ->
  same_cleanups (tasks s) (tasks s') ->
  (NoDup (map fst (tasks s')) /\ forall t k, In (t, k) (tasks s') -> t < next_tid s') ->
  (forall o t, wl (cg s) o = Some t -> exists k, In (t, k) (tasks s') /\ holds (t_pc k) = Some o) ->
  (forall t k, In (t, k) (tasks s') -> task_ok (cg s) t k) ->
  (forall t k ch o n id, In (t, k) (tasks s') -> t_pc k = PJoinNotify ch o false n id ->
                         is_owner (objs (cg s) o) n = false) ->
  CInv s -> CInv s'.
Proof.
  intros F sc Htids Hlock Htasks Hguest I.
  pose proof F as (Hn & Hc & Hi & Hr & Hw & Hu & Hm & Ho & Ht).
  destruct I.
  constructor; unfold is_listed, is_member in *.
  - intros o. rewrite Hn, Hm, Hw, Hc. auto.
  - rewrite Hc. exact i_inj.
  - intros o. rewrite Hm, Hc. auto.
  - intros ch o. rewrite Hm, Hc. eauto.
  - intros ch o. rewrite Hm, Ho, Hc. eauto.
  - intros o. rewrite Hm. auto.
  - exact Ht.
  - rewrite Hi. exact i_nodup_idx.
  - rewrite Hr. exact i_nodup_reg.
  - rewrite Hr, Hu. exact i_reg_cuser.
  - intros u ch. rewrite Hi, Hc. intros H. destruct (i_listed_member u ch H) as (o & H1 & H2).
    exists o. rewrite Hm. auto.
  - intros u ch o. rewrite Hm, Hi, Hc. intros H1 H2.
    destruct (i_member_listed u ch o H1 H2) as [H|H]; [left; exact H|right]. eapply covered_mono; eauto.
  - intros u ch o. rewrite Hm, Hr, Hc. intros H1 H2.
    destruct (i_member_connected u ch o H1 H2) as [H|H]; [left; exact H|right]. eapply covered_mono; eauto.
  - exact Htids.
  - rewrite Hw. exact Hlock.
  - intros t k Hin. eapply task_ok_frame; eauto.
  - intros t k ch o n id Hin Hpc. unfold is_owner. rewrite Ho. eapply Hguest; eauto.
Qed.

(* every clause of the invariant that does not speak about the task list *)
Lemma CInv_same_global s s' :
  cg s' = cg s ->
  same_cleanups (tasks s) (tasks s') ->
  (NoDup (map fst (tasks s')) /\ forall t k, In (t, k) (tasks s') -> t < next_tid s') ->
  (forall o t, wl (cg s) o = Some t -> exists k, In (t, k) (tasks s') /\ holds (t_pc k) = Some o) ->
  (forall t k, In (t, k) (tasks s') -> task_ok (cg s) t k) ->
  (forall t k ch o n id, In (t, k) (tasks s') -> t_pc k = PJoinNotify ch o false n id ->
                         is_owner (objs (cg s) o) n = false) ->
  CInv s -> CInv s'.
Proof.
  intros eg sc Htids Hlock Htasks Hguest I.
  apply (CInv_frame s); auto. rewrite eg. apply same_but_acl_refl. apply (i_targets _ I).
Qed.

(* a pc without a lock and without a task-local obligation in [task_ok] *)
Definition plain_pc (p : pc) : Prop :=
  match p with
  | PJoinNotify _ _ _ _ _ | PLeaveN1 _ _ _ _ _ | PLeaveN2 _ _ _ _ | PDone => False
  | PLeaveWait _ _ _ _ | PJoinWait _ _ _ _ | PBcastWait _ _ _ _ | PMembersWait _ _ _
  | PSetAclWait _ _ _ _ _ _ | PGetAclWait _ _ _ _ => False
  | _ => True
  end.

Lemma plain_pc_ok g t p : plain_pc p -> pc_ok g t p.
Proof. destruct p; cbn [plain_pc pc_ok]; intros H; try exact I; destruct H. Qed.

Lemma plain_pc_holds p : plain_pc p -> holds p = None.
Proof. destruct p; cbn [plain_pc holds]; intros H; try reflexivity; destruct H. Qed.

Lemma plain_pc_not_done p : plain_pc p -> p <> PDone.
Proof. intros H ->. exact H. Qed.

Lemma plain_pc_not_notify p ch o c n id : plain_pc p -> p <> PJoinNotify ch o c n id.
Proof. intros H ->. exact H. Qed.

Lemma task_ok_with_pc g t k c p :
  t_conn k = Some c -> pc_ok g t p -> task_ok g t k -> task_ok g t (with_pc k p).
Proof.
  intros Hc Hp [H1 _]. unfold task_ok in *. cbn [with_pc t_conn t_me t_rest t_pc].
  rewrite Hc in *. split; [exact H1|exact Hp].
Qed.

(* a request task whose old and new pc hold no lock moves to the new pc, whose obligation holds
   (and at most allow-lists change) *)
Lemma CInv_frame_set_pc_ok s g' t k c p :
  CInv s -> same_but_acl (cg s) g' ->
  tlookup t (tasks s) = Some k -> t_conn k = Some c -> holds (t_pc k) = None ->
  holds p = None -> pc_ok (cg s) t p ->
  CInv {| cg := g'; tasks := tset t (with_pc k p) (tasks s); next_tid := next_tid s |}.
Proof.
  intros I F Hl Hc Hh Hhp Hp.
  pose proof (i_tids _ I) as [nd lt].
  apply (CInv_frame s); cbn [cg tasks next_tid]; auto.
  - intros t' k' Hn Hin. apply In_tset_other; [exact Hin|].
    intros ->. rewrite (In_unique _ _ _ _ nd Hl Hin) in Hn. congruence.
  - split; [rewrite map_fst_tset; exact nd|].
    intros t' k' Hin. apply In_tset in Hin. destruct Hin as [[-> _]|Hin]; [|eauto].
    apply tlookup_In in Hl. eauto.
  - intros o t' Hw. destruct (i_lock_holder _ I o t' Hw) as (k' & Hin & Hk).
    exists k'. split; [|exact Hk]. apply In_tset_other; [exact Hin|].
    intros ->. rewrite (In_unique _ _ _ _ nd Hl Hin) in Hk. congruence.
  - intros t' k' Hin. apply In_tset in Hin. destruct Hin as [[-> ->]|Hin].
    + eapply task_ok_with_pc; eauto. apply (i_tasks _ I). apply tlookup_In; exact Hl.
    + apply (i_tasks _ I); exact Hin.
  - intros t' k' ch o n id Hin Hpc. apply In_tset in Hin. destruct Hin as [[-> ->]|Hin].
    + cbn [with_pc t_pc] in Hpc. rewrite Hpc in Hhp. discriminate Hhp.
    + eapply (i_join_guest _ I); eauto.
Qed.

Lemma CInv_frame_set_pc s g' t k c p :
  CInv s -> same_but_acl (cg s) g' ->
  tlookup t (tasks s) = Some k -> t_conn k = Some c -> holds (t_pc k) = None -> plain_pc p ->
  CInv {| cg := g'; tasks := tset t (with_pc k p) (tasks s); next_tid := next_tid s |}.
Proof.
  intros I F Hl Hc Hh Hp. eapply CInv_frame_set_pc_ok; eauto using plain_pc_holds, plain_pc_ok.
Qed.

Lemma CInv_set_pc_ok s t k c p :
  CInv s -> tlookup t (tasks s) = Some k -> t_conn k = Some c -> holds (t_pc k) = None ->
  holds p = None -> pc_ok (cg s) t p ->
  CInv {| cg := cg s; tasks := tset t (with_pc k p) (tasks s); next_tid := next_tid s |}.
Proof.
  intros I. eapply CInv_frame_set_pc_ok; eauto. apply same_but_acl_refl. apply (i_targets _ I).
Qed.

Lemma CInv_set_pc s t k c p :
  CInv s -> tlookup t (tasks s) = Some k -> t_conn k = Some c -> holds (t_pc k) = None -> plain_pc p ->
  CInv {| cg := cg s; tasks := tset t (with_pc k p) (tasks s); next_tid := next_tid s |}.
Proof.
  intros I. eapply CInv_frame_set_pc; eauto. apply same_but_acl_refl. apply (i_targets _ I).
Qed.

(* a request task that holds no lock goes away (and at most allow-lists change) *)
Lemma CInv_frame_remove s g' t k c :
  CInv s -> same_but_acl (cg s) g' ->
  tlookup t (tasks s) = Some k -> t_conn k = Some c -> holds (t_pc k) = None ->
  CInv {| cg := g'; tasks := tremove t (tasks s); next_tid := next_tid s |}.
Proof.
  intros I F Hl Hc Hh.
  pose proof (i_tids _ I) as [nd lt].
  apply (CInv_frame s); cbn [cg tasks next_tid]; auto.
  - intros t' k' Hn Hin. apply In_tremove. split; [exact Hin|].
    intros ->. rewrite (In_unique _ _ _ _ nd Hl Hin) in Hn. congruence.
  - split; [apply NoDup_map_fst_tremove; exact nd|].
    intros t' k' Hin. apply In_tremove in Hin. destruct Hin as [Hin _]. eauto.
  - intros o t' Hw. destruct (i_lock_holder _ I o t' Hw) as (k' & Hin & Hk).
    exists k'. split; [|exact Hk]. apply In_tremove. split; [exact Hin|].
    intros ->. rewrite (In_unique _ _ _ _ nd Hl Hin) in Hk. congruence.
  - intros t' k' Hin. apply In_tremove in Hin. destruct Hin as [Hin _].
    apply (i_tasks _ I); exact Hin.
  - intros t' k' ch o n id Hin Hpc. apply In_tremove in Hin. destruct Hin as [Hin _].
    eapply (i_join_guest _ I); eauto.
Qed.

Lemma CInv_remove s t k c :
  CInv s -> tlookup t (tasks s) = Some k -> t_conn k = Some c -> holds (t_pc k) = None ->
  CInv {| cg := cg s; tasks := tremove t (tasks s); next_tid := next_tid s |}.
Proof.
  intros I. eapply CInv_frame_remove; eauto. apply same_but_acl_refl. apply (i_targets _ I).
Qed.

(* a request task runs a segment that changes at most allow-lists and ends in PDone or at a pc without a lock *)
Lemma CInv_after_seg_frame s g' t k c p os hint :
  CInv s -> same_but_acl (cg s) g' ->
  tlookup t (tasks s) = Some k -> t_conn k = Some c -> holds (t_pc k) = None ->
  p = PDone \/ (holds p = None /\ pc_ok (cg s) t p) ->
  CInv (after_seg s t k (g', p, os) hint).
Proof.
  intros I F Hl Hc Hh [->|[Hhp Hp]]; unfold after_seg.
  - unfold settle. rewrite Hc. eapply CInv_frame_remove; eauto.
  - replace (settle t k p hint (tasks s)) with (tset t (with_pc k p) (tasks s)).
    + eapply CInv_frame_set_pc_ok; eauto.
    + destruct p; try reflexivity. destruct Hp.
Qed.

(* ... that leaves the global state alone *)
Lemma CInv_after_seg_same s t k c p os hint :
  CInv s -> tlookup t (tasks s) = Some k -> t_conn k = Some c -> holds (t_pc k) = None ->
  p = PDone \/ (holds p = None /\ pc_ok (cg s) t p) ->
  CInv (after_seg s t k (cg s, p, os) hint).
Proof.
  intros I. eapply CInv_after_seg_frame; eauto. apply same_but_acl_refl. apply (i_targets _ I).
Qed.

(* ---------- broadcast and the listings ---------- *)
(* what a segment that does not end leaves behind: a pc without a lock whose obligation holds *)
Definition next_ok (g : gst) (t : tid) (p : pc) : Prop := p = PDone \/ (holds p = None /\ pc_ok g t p).

Definition wait_fact (g : gst) : Prop :=
  forall ch o, cmap g ch = Some o -> o < next_oid g /\ forall ch', cmap g ch' = Some o -> ch' = ch.

(* these segments leave the global state alone *)
Lemma seg_other_shape cf t tc me g p ok hint :
  wait_fact g -> pc_ok g t p -> other_pc p ->
  exists p' os, seg cf t tc me g p ok hint = (g, p', os) /\ next_ok g t p'.
Proof.
  intros W.
  assert (BR : forall ch o pl id, exists p' os, bcast_read tc me g ch o pl id = (g, p', os) /\ next_ok g t p').
  { intros. unfold bcast_read. destruct (negb _); [|destruct (negb _)];
      eexists _, _; (split; [reflexivity|left; reflexivity]). }
  assert (BL : forall ch pl id, exists p' os, bcast_lookup tc me g ch pl id = (g, p', os) /\ next_ok g t p').
  { intros. unfold bcast_lookup. destruct (cmap g ch) as [o|] eqn:E.
    - destruct (lock_free g o); [apply BR|].
      eexists _, _; split; [reflexivity|right; split; [reflexivity|exact (W _ _ E)]].
    - eexists _, _; split; [reflexivity|left; reflexivity]. }
  assert (MR : forall o id, exists p' os, members_read tc me g o id = (g, p', os) /\ next_ok g t p').
  { intros. unfold members_read. destruct (negb _); eexists _, _; (split; [reflexivity|left; reflexivity]). }
  assert (GR : forall o ty id, exists p' os, get_acl_read tc me g o ty id = (g, p', os) /\ next_ok g t p').
  { intros. unfold get_acl_read. destruct (negb _); eexists _, _; (split; [reflexivity|left; reflexivity]). }
  intros Hp Ho. destruct p as [r| | | | | | | | | | |]; try destruct r; cbn [other_pc] in Ho; try destruct Ho; cbn [seg].
  - destruct (fwd_payload cf); [|apply BL].
    eexists _, _; split; [reflexivity|right; split; [reflexivity|exact I]].
  - destruct (cmap g ch) as [o|] eqn:E.
    + destruct (lock_free g o); [apply MR|].
      eexists _, _; split; [reflexivity|right; split; [reflexivity|exact (W _ _ E)]].
    + eexists _, _; split; [reflexivity|left; reflexivity].
  - eexists _, _; split; [reflexivity|left; reflexivity].
  - destruct (cmap g ch) as [o|] eqn:E.
    + destruct (lock_free g o); [apply GR|].
      eexists _, _; split; [reflexivity|right; split; [reflexivity|exact (W _ _ E)]].
    + eexists _, _; split; [reflexivity|left; reflexivity].
  - destruct ok; [apply BL|]. eexists _, _; split; [reflexivity|left; reflexivity].
  - destruct (lock_free g o); [apply BR|].
    eexists _, _; split; [reflexivity|right; split; [reflexivity|exact Hp]].
  - destruct (lock_free g o); [apply MR|].
    eexists _, _; split; [reflexivity|right; split; [reflexivity|exact Hp]].
  - destruct (lock_free g o); [apply GR|].
    eexists _, _; split; [reflexivity|right; split; [reflexivity|exact Hp]].
  - destruct Hp.
Qed.

(* a task at one of these pcs is a request and holds no lock *)
Lemma other_pc_request g t k :
  task_ok g t k -> other_pc (t_pc k) -> (exists c, t_conn k = Some c) /\ holds (t_pc k) = None.
Proof.
  unfold task_ok. intros [H1 H2] Ho.
  destruct (t_pc k) as [r| | | | | | | | | | |]; try destruct r; cbn [other_pc] in Ho; try destruct Ho;
    (split; [|reflexivity]);
    (destruct (t_conn k) as [c|]; [exists c; reflexivity|destruct H1 as [_ []]]).
Qed.

Theorem seg_other_preserves cf s t k ok hint :
  fixed cf -> CInv s -> tlookup t (tasks s) = Some k -> other_pc (t_pc k) ->
  CInv (after_seg s t k (seg cf t (t_conn k) (t_me k) (cg s) (t_pc k) ok hint) hint).
Proof.
  intros _ I Hl Ho.
  pose proof (i_tasks _ I t k (tlookup_In _ _ _ Hl)) as Hok.
  destruct (other_pc_request _ _ _ Hok Ho) as ((c & Hc) & Hh).
  destruct (seg_other_shape cf t (t_conn k) (t_me k) (cg s) (t_pc k) ok hint
              (fun ch o => wait_ok s ch o I) (task_ok_pc_ok _ _ _ Hok) Ho) as (p' & os & -> & Hp).
  eapply CInv_after_seg_same; eauto.
Qed.

Print Assumptions seg_other_preserves.

(* ---------- allow-list updates ---------- *)
(* the segment changes at most one allow-list (and the delivery list cached from it) *)
Lemma seg_acl_shape cf t tc me g p ok hint :
  (forall o, targets (objs g o) = filter (allowed (racl (objs g o))) (members (objs g o))) ->
  wait_fact g -> pc_ok g t p -> acl_pc p ->
  exists g' p' os, seg cf t tc me g p ok hint = (g', p', os) /\ same_but_acl g g' /\ next_ok g t p'.
Proof.
  intros Ht W.
  pose proof (same_but_acl_refl g Ht) as R.
  assert (SL : forall o ty adding us id, exists g' p' os,
             set_acl_locked cf tc me g o ty adding us id = (g', p', os) /\ same_but_acl g g' /\ next_ok g t p').
  { intros. unfold set_acl_locked. destruct (negb _); [|destruct (_ <? _)];
      eexists _, _, _; (split; [reflexivity|split; [|left; reflexivity]]); auto.
    apply same_but_acl_set_acl; exact Ht. }
  intros Hp Ha. destruct p as [r| | | | | | | | | | |]; try destruct r; cbn [acl_pc] in Ha; try destruct Ha; cbn [seg].
  - destruct (cmap g ch) as [o|] eqn:E.
    + destruct (lock_free g o); [apply SL|].
      eexists _, _, _; split; [reflexivity|split; [exact R|right; split; [reflexivity|exact (W _ _ E)]]].
    + eexists _, _, _; split; [reflexivity|split; [exact R|left; reflexivity]].
  - destruct (lock_free g o); [apply SL|].
    eexists _, _, _; split; [reflexivity|split; [exact R|right; split; [reflexivity|exact Hp]]].
Qed.

(* a task at one of these pcs is a request and holds no lock *)
Lemma acl_pc_request g t k :
  task_ok g t k -> acl_pc (t_pc k) -> (exists c, t_conn k = Some c) /\ holds (t_pc k) = None.
Proof.
  unfold task_ok. intros [H1 H2] Ha.
  destruct (t_pc k) as [r| | | | | | | | | | |]; try destruct r; cbn [acl_pc] in Ha; try destruct Ha;
    (split; [|reflexivity]);
    (destruct (t_conn k) as [c|]; [exists c; reflexivity|destruct H1 as [_ []]]).
Qed.

(* an allow-list update (SET_CHAN_ACL) changes one list of one channel object and its cached targets, nothing else *)
Theorem seg_acl_preserves cf s t k ok hint :
  fixed cf -> CInv s -> tlookup t (tasks s) = Some k -> acl_pc (t_pc k) ->
  CInv (after_seg s t k (seg cf t (t_conn k) (t_me k) (cg s) (t_pc k) ok hint) hint).
Proof.
  intros _ I Hl Ha.
  pose proof (i_tasks _ I t k (tlookup_In _ _ _ Hl)) as Hok.
  destruct (acl_pc_request _ _ _ Hok Ha) as ((c & Hc) & Hh).
  destruct (seg_acl_shape cf t (t_conn k) (t_me k) (cg s) (t_pc k) ok hint (i_targets _ I)
              (fun ch o => wait_ok s ch o I) (task_ok_pc_ok _ _ _ Hok) Ha)
    as (g' & p' & os & -> & F & Hp).
  eapply CInv_after_seg_frame; eauto.
Qed.

Print Assumptions seg_acl_preserves.
