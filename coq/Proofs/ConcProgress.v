(* Interleaved model: progress.  Whatever was interleaved, the system can always drain: no wedge, no deadlock on the
   channel locks; and the reply discipline of one segment. *)
From Coq Require Import List NArith Bool Lia.
From NW Require Import Model.Conc Proofs.ConcDefs.
From NW Require Proofs.ConcInv.
Import ListNotations.
Open Scope N_scope.

(* local copies of small invariant-free lemmas (Proofs/ConcEv.v: mem_In, tlookup_In, keys_inj; Proofs/ConcInv.v:
   cstep_run, crun_fst_cons), so that this file stands on Model/Conc.v and Proofs/ConcDefs.v alone *)
Lemma pg_mem_In u l : mem u l = true <-> In u l.
Proof.
  unfold mem. rewrite existsb_exists. split.
  - intros (x & Hin & E). apply N.eqb_eq in E. subst x. exact Hin.
  - intros Hin. exists u. split; [exact Hin|apply N.eqb_refl].
Qed.

Lemma pg_tlookup_In t l k : tlookup t l = Some k -> In (t, k) l.
Proof.
  induction l as [|[a v] r IH]; cbn [tlookup]; [discriminate|].
  destruct (N.eqb_spec t a) as [->|ne]; intros H.
  - injection H as ->. left; reflexivity.
  - right; auto.
Qed.

Lemma pg_In_tlookup t k l : NoDup (map fst l) -> In (t, k) l -> tlookup t l = Some k.
Proof.
  induction l as [|[a v] r IH]; cbn [tlookup map fst]; intros nd H; [destruct H|].
  inversion nd as [|x y nin nd' e]; subst.
  destruct H as [H|H].
  - injection H as -> ->. rewrite N.eqb_refl. reflexivity.
  - destruct (N.eqb_spec t a) as [->|ne]; [|auto].
    exfalso. apply nin. change a with (fst (a, k)). apply in_map; exact H.
Qed.

Lemma pg_cstep_run cf s t ok hint k :
  tlookup t (tasks s) = Some k ->
  fst (cstep cf s (ERun t ok hint)) = after_seg s t k (seg cf t (t_conn k) (t_me k) (cg s) (t_pc k) ok hint) hint.
Proof.
  intros Hl. unfold cstep, after_seg. rewrite Hl.
  destruct (seg cf t (t_conn k) (t_me k) (cg s) (t_pc k) ok hint) as [[g' p] os]. reflexivity.
Qed.

Lemma pg_crun_fst_cons cf s e es : fst (crun cf s (e :: es)) = fst (crun cf (fst (cstep cf s e)) es).
Proof.
  cbn [crun]. destruct (cstep cf s e) as [s1 o1]. cbn [fst]. destruct (crun cf s1 es) as [s2 o2]. reflexivity.
Qed.

(* schedules that only run tasks, every modulator call answered positively *)
Definition runs_only (es : list ev) : Prop := Forall (fun e => match e with ERun _ true _ => True | _ => False end) es.

(* ---------- a measure that every useful segment decreases ---------- *)
Definition rank (p : pc) : nat :=
  match p with
  | PStart (RJoin _ _ _) => 3 | PJoinWait _ _ _ _ => 2 | PJoinNotify _ _ _ _ _ => 1
  | PStart (RLeave _ _ _) => 4 | PLeaveWait _ _ _ _ => 3 | PLeaveN1 _ _ _ _ _ => 2 | PLeaveN2 _ _ _ _ => 1
  | PStart (RBcast _ _ _) => 3 | PBcastGate _ _ _ => 2 | PBcastWait _ _ _ _ => 1
  | PStart (RMembers _ _) => 2 | PMembersWait _ _ _ => 1
  | PStart (RChannels _) => 1
  | PStart (RSetAcl _ _ _ _ _) => 2 | PSetAclWait _ _ _ _ _ _ => 1
  | PStart (RGetAcl _ _ _) => 2 | PGetAclWait _ _ _ _ => 1
  | PDone => 0
  end%nat.
Definition wt (k : task) : nat := (rank (t_pc k) + 5 * length (t_rest k))%nat.
Fixpoint msr (l : list (tid * task)) : nat :=
  match l with [] => 0%nat | (_, k) :: r => (wt k + msr r)%nat end.

Lemma msr_tset t k v l : tlookup t l = Some k -> (msr (tset t v l) + wt k = msr l + wt v)%nat.
Proof.
  induction l as [|[a x] r IH]; cbn [tlookup tset]; [discriminate|].
  destruct (t =? a); intros H.
  - injection H as ->. cbn [msr]. lia.
  - cbn [msr]. specialize (IH H). lia.
Qed.

Lemma msr_tremove_le t l : (msr (tremove t l) <= msr l)%nat.
Proof.
  unfold tremove. induction l as [|[a x] r IH]; cbn [filter fst msr]; [lia|].
  destruct (negb (a =? t)); cbn [msr]; lia.
Qed.

Lemma msr_tremove t k l : tlookup t l = Some k -> (msr (tremove t l) + wt k <= msr l)%nat.
Proof.
  induction l as [|[a x] r IH]; cbn [tlookup]; [discriminate|].
  unfold tremove in *. cbn [filter fst]. rewrite (N.eqb_sym a t).
  destruct (t =? a); cbn [negb msr]; intros H.
  - injection H as ->. pose proof (msr_tremove_le t r) as L. unfold tremove in L. lia.
  - specialize (IH H). lia.
Qed.

Lemma del_length_le h l : (length (del h l) <= length l)%nat.
Proof.
  unfold del. induction l as [|a r IH]; cbn [filter length]; [lia|].
  destruct (negb (a =? h)); cbn [length]; lia.
Qed.

Lemma del_length_lt h l : In h l -> (length (del h l) < length l)%nat.
Proof.
  induction l as [|a r IH]; [intros []|].
  intros H. unfold del in *. cbn [filter length].
  destruct (N.eqb_spec a h) as [->|ne]; cbn [negb length].
  - pose proof (del_length_le h r) as L. unfold del in L. lia.
  - destruct H as [H|H]; [congruence|]. specialize (IH H). lia.
Qed.

Lemma pick_next_shorter h l : l <> [] -> (length (snd (pick_next h l)) < length l)%nat.
Proof.
  intros ne. unfold pick_next. destruct (mem h l) eqn:Hm.
  - cbn [snd]. apply del_length_lt. apply pg_mem_In; exact Hm.
  - destruct l as [|a r]; [congruence|]. cbn [snd length]. lia.
Qed.

Lemma settle_msr t k p hint l :
  tlookup t l = Some k -> (rank p < rank (t_pc k))%nat -> (msr (settle t k p hint l) < msr l)%nat.
Proof.
  intros Hl Hr.
  assert (Hset : forall p', (rank p' < rank (t_pc k))%nat -> (msr (tset t (with_pc k p') l) < msr l)%nat).
  { intros p' Hr'. pose proof (msr_tset t k (with_pc k p') l Hl) as E.
    unfold wt in E. cbn [with_pc t_pc t_rest] in E. lia. }
  destruct p; try (apply Hset; exact Hr).
  unfold settle.
  assert (Hrem : (msr (tremove t l) < msr l)%nat).
  { pose proof (msr_tremove t k l Hl) as E. unfold wt in E. lia. }
  destruct (t_conn k); [exact Hrem|].
  destruct (t_rest k) as [|a r] eqn:Hrest; [exact Hrem|].
  pose proof (pick_next_shorter hint (a :: r) ltac:(discriminate)) as Hs.
  destruct (pick_next hint (a :: r)) as [ch r']. cbn [snd] in Hs.
  match goal with |- (msr (tset t ?v l) < _)%nat => pose proof (msr_tset t k v l Hl) as E end.
  unfold wt in E. cbn [t_pc t_rest rank] in E. rewrite Hrest in E. lia.
Qed.

(* where a segment leaves its task *)
Definition rk (r : step_res) : nat := rank (snd (fst r)).

Section Rank.
  Variable cf : ccfg.
  Variable t : tid.
  Variable tc : option conn.
  Variable me : user.

  Lemma rk_pre (r : step_res) (os1 : list cout) : rk (let '(g', p, os) := r in (g', p, os1 ++ os)) = rk r.
  Proof. destruct r as [[g' p] os]. reflexivity. Qed.

  Lemma rk_join_finish g ch o cr n id ok : rk (join_finish cf tc g ch o cr n id ok) = 0%nat.
  Proof. unfold join_finish. destruct ok; reflexivity. Qed.

  Lemma rk_join_locked g ch o cr ob id : (rk (join_locked cf t tc me g ch o cr ob id) <= 1)%nat.
  Proof.
    unfold join_locked.
    destruct (negb _); [unfold rk; cbn [fst snd rank]; lia|].
    destruct (match ob with Some n => _ | None => _ end) as [e|n]; [unfold rk; cbn [fst snd rank]; lia|].
    destruct (negb _); [unfold rk; cbn [fst snd rank]; lia|].
    destruct (mem _ _); [unfold rk; cbn [fst snd rank]; lia|].
    destruct (_ <=? _); [unfold rk; cbn [fst snd rank]; lia|].
    destruct (_ <=? _); [unfold rk; cbn [fst snd rank]; lia|].
    destruct (fwd_event cf); [unfold rk; cbn [fst snd rank]; lia|].
    rewrite rk_join_finish. lia.
  Qed.

  Lemma rk_leave_end g o id ok1 ok2 : rk (leave_end tc g o id ok1 ok2) = 0%nat.
  Proof. reflexivity. Qed.

  Lemma rk_leave_after_n2 g ch o id ok1 ok2 : rk (leave_after_n2 tc g ch o id ok1 ok2) = 0%nat.
  Proof. reflexivity. Qed.

  Lemma rk_leave_after_n1 g ch o n w id ok1 hint : (rk (leave_after_n1 cf t tc g ch o n w id ok1 hint) <= 1)%nat.
  Proof.
    unfold leave_after_n1.
    destruct (isnil _); [rewrite rk_pre, rk_leave_end; lia|].
    destruct w; [|rewrite rk_pre, rk_leave_end; lia].
    destruct (fwd_event cf); [unfold rk; cbn [fst snd rank]; lia|].
    rewrite rk_pre, rk_leave_after_n2; lia.
  Qed.

  Lemma rk_leave_locked g ch o ob id hint : (rk (leave_locked cf t tc me g ch o ob id hint) <= 2)%nat.
  Proof.
    unfold leave_locked.
    destruct (cmap g ch); [|unfold rk; cbn [fst snd rank]; lia].
    destruct (match ob with Some z => _ | None => _ end) as [e|n]; [unfold rk; cbn [fst snd rank]; lia|].
    destruct (negb _); [unfold rk; cbn [fst snd rank]; lia|].
    destruct (fwd_event cf); [unfold rk; cbn [fst snd rank]; lia|].
    pose proof (rk_leave_after_n1 g ch o n (is_owner (objs g o) n) id true hint). lia.
  Qed.

  Lemma rk_bcast_read g ch o pl id : rk (bcast_read tc me g ch o pl id) = 0%nat.
  Proof. unfold bcast_read. destruct (negb _); [reflexivity|]. destruct (negb _); reflexivity. Qed.

  Lemma rk_bcast_lookup g ch pl id : (rk (bcast_lookup tc me g ch pl id) <= 1)%nat.
  Proof.
    unfold bcast_lookup. destruct (cmap g ch) as [o|]; [|unfold rk; cbn [fst snd rank]; lia].
    destruct (lock_free g o); [rewrite rk_bcast_read; lia|unfold rk; cbn [fst snd rank]; lia].
  Qed.

  Lemma rk_members_read g o id : rk (members_read tc me g o id) = 0%nat.
  Proof. unfold members_read. destruct (negb _); reflexivity. Qed.

  Lemma rk_set_acl_locked g o ty ad us id : rk (set_acl_locked cf tc me g o ty ad us id) = 0%nat.
  Proof. unfold set_acl_locked. destruct (negb _); [reflexivity|]. destruct (_ <? _); reflexivity. Qed.

  Lemma rk_get_acl_read g o ty id : rk (get_acl_read tc me g o ty id) = 0%nat.
  Proof. unfold get_acl_read. destruct (negb _); reflexivity. Qed.

  (* a task that holds a lock, or finds every lock free, moves forward *)
  Lemma seg_rank g p hint :
    p <> PDone -> (holds p = None -> forall o, lock_free g o = true) ->
    (rk (seg cf t tc me g p true hint) < rank p)%nat.
  Proof.
    intros Hd Hf.
    destruct p as [[ch ob id|ch ob id|ch pl id|ch id|id|ch ty ad us id|ch ty id]
                   |ch o ob id|ch o cr n id|ch o ob id|ch o n w id|ch o ok1 id
                   |ch pl id|ch o pl id|ch o id|ch o ty ad us id|ch o ty id|]; cbn [seg rank]; cbn [holds] in Hf;
      try rewrite (Hf eq_refl o).
    - unfold join_start. destruct (cmap g ch) as [o|].
      + destruct (lock_free g o); [|unfold rk; cbn [fst snd rank]; lia].
        pose proof (rk_join_locked g ch o false ob id). lia.
      + match goal with |- (rk (join_locked _ _ _ _ ?g1 _ ?o _ _ _) < _)%nat =>
          pose proof (rk_join_locked g1 ch o true ob id) end. lia.
    - unfold leave_start. destruct (cmap g ch) as [o|]; [|unfold rk; cbn [fst snd rank]; lia].
      destruct (lock_free g o); [|unfold rk; cbn [fst snd rank]; lia].
      pose proof (rk_leave_locked g ch o ob id hint). lia.
    - destruct (fwd_payload cf); [unfold rk; cbn [fst snd rank]; lia|].
      pose proof (rk_bcast_lookup g ch pl id). lia.
    - destruct (cmap g ch) as [o|]; [|unfold rk; cbn [fst snd rank]; lia].
      destruct (lock_free g o); [rewrite rk_members_read; lia|unfold rk; cbn [fst snd rank]; lia].
    - unfold rk; cbn [fst snd rank]; lia.
    - destruct (cmap g ch) as [o|]; [|unfold rk; cbn [fst snd rank]; lia].
      destruct (lock_free g o); [rewrite rk_set_acl_locked; lia|unfold rk; cbn [fst snd rank]; lia].
    - destruct (cmap g ch) as [o|]; [|unfold rk; cbn [fst snd rank]; lia].
      destruct (lock_free g o); [rewrite rk_get_acl_read; lia|unfold rk; cbn [fst snd rank]; lia].
    - pose proof (rk_join_locked g ch o false ob id). lia.
    - rewrite rk_join_finish. lia.
    - pose proof (rk_leave_locked g ch o ob id hint). lia.
    - pose proof (rk_leave_after_n1 g ch o n w id true hint). lia.
    - rewrite rk_leave_after_n2. lia.
    - pose proof (rk_bcast_lookup g ch pl id). lia.
    - rewrite rk_bcast_read. lia.
    - rewrite rk_members_read. lia.
    - rewrite rk_set_acl_locked. lia.
    - rewrite rk_get_acl_read. lia.
    - congruence.
  Qed.
End Rank.

(* some task holds a lock, or none does *)
Lemma holder_or_none (l : list (tid * task)) :
  (exists t k, In (t, k) l /\ holds (t_pc k) <> None) \/ (forall t k, In (t, k) l -> holds (t_pc k) = None).
Proof.
  induction l as [|[a x] r IH].
  - right. intros t k [].
  - destruct (holds (t_pc x)) as [o|] eqn:Hh.
    + left. exists a, x. split; [left; reflexivity|congruence].
    + destruct IH as [(t & k & Hin & H)|H].
      * left. exists t, k. split; [right; exact Hin|exact H].
      * right. intros t k [E|Hin]; [injection E as <- <-; exact Hh|eauto].
Qed.

(* the key step: some task can run and the measure goes down *)
Lemma drain_step cf s :
  fixed cf -> CInv s -> tasks s <> [] ->
  exists t, (msr (tasks (fst (cstep cf s (ERun t true 0%N)))) < msr (tasks s))%nat.
Proof.
  intros F I ne.
  pose proof (i_tids _ I) as [nd _].
  assert (Hrun : forall t k, In (t, k) (tasks s) -> (holds (t_pc k) = None -> forall o, lock_free (cg s) o = true) ->
                 (msr (tasks (fst (cstep cf s (ERun t true 0%N)))) < msr (tasks s))%nat).
  { intros t k Hin Hf.
    pose proof (pg_In_tlookup _ _ _ nd Hin) as Hl.
    rewrite (pg_cstep_run cf s t true 0 k Hl). unfold after_seg.
    assert (Hd : t_pc k <> PDone).
    { pose proof (i_tasks _ I t k Hin) as [_ H]. intros E. rewrite E in H. exact H. }
    pose proof (seg_rank cf t (t_conn k) (t_me k) (cg s) (t_pc k) 0 Hd Hf) as Hr. unfold rk in Hr.
    destruct (seg cf t (t_conn k) (t_me k) (cg s) (t_pc k) true 0) as [[g' p] os]. cbn [fst snd] in Hr.
    cbn [tasks]. apply settle_msr; assumption. }
  destruct (holder_or_none (tasks s)) as [(t & k & Hin & Hh)|Hnone].
  - exists t. apply (Hrun t k Hin). intros E. congruence.
  - destruct (tasks s) as [|[t k] r] eqn:Ht; [congruence|].
    exists t. apply (Hrun t k); [left; reflexivity|].
    intros _ o. unfold lock_free. destruct (wl (cg s) o) as [t'|] eqn:Hw; [|reflexivity].
    exfalso. destruct (i_lock_holder _ I o t' Hw) as (k' & Hin & Hk).
    rewrite Ht in Hin. rewrite (Hnone t' k' Hin) in Hk. discriminate.
Qed.

(* the invariant's two theorems (Proofs/ConcInv.v), assumed here until the files are linked again *)
Section Drains.
Let cinv_step := ConcInv.cinv_step.
Let cinv_reachable := ConcInv.cinv_reachable.

Lemma drains_from cf : fixed cf -> forall n s, CInv s -> (msr (tasks s) < n)%nat ->
  exists es', runs_only es' /\ quiescent (fst (crun cf s es')).
Proof.
  intros F. induction n as [|n IH]; intros s I Hn; [lia|].
  destruct (tasks s) as [|e r] eqn:Ht.
  - exists []. split; [constructor|]. cbn [crun fst]. exact Ht.
  - destruct (drain_step cf s F I) as (t & Hlt); [rewrite Ht; discriminate|].
    destruct (IH (fst (cstep cf s (ERun t true 0)))) as (es' & Hr & Hq).
    + apply cinv_step; assumption.
    + rewrite Ht in Hlt. lia.
    + exists (ERun t true 0 :: es'). split; [constructor; [exact Logic.I|exact Hr]|].
      rewrite pg_crun_fst_cons. exact Hq.
Qed.

(* C13: from EVERY reachable state (any schedule of requests, answers, failures, hang-ups, time-outs so far) there is a
   continuation that only runs tasks and ends with no task alive: every lock is given back, every clean-up finishes *)
Theorem conc_always_drains cf es :
  fixed cf -> exists es', runs_only es' /\ quiescent (fst (crun cf (cstate_after cf es) es')).
Proof.
  intros F. apply (drains_from cf F (S (msr (tasks (cstate_after cf es))))); [|lia].
  apply cinv_reachable; exact F.
Qed.
End Drains.

(* the frames a segment sends to its requester in answer to its request: replies bearing the request's id, or a closing error *)
Definition answers (c : conn) (id : N) (os : list cout) : list cout :=
  filter (fun o => match o with
                   | OAck c' i _ | OErr c' i _ | OMembers c' i _ | OChannels c' i _ | OAcl c' i _ => (c' =? c) && (i =? id)
                   | OClose c' _ => c' =? c
                   | _ => false
                   end) os.
Definition pc_id (p : pc) : N :=
  match p with
  | PStart (RJoin _ _ id) | PStart (RLeave _ _ id) | PStart (RBcast _ _ id) | PStart (RMembers _ id) | PStart (RChannels id)
  | PJoinWait _ _ _ id | PJoinNotify _ _ _ _ id | PLeaveWait _ _ _ id | PLeaveN1 _ _ _ _ id | PLeaveN2 _ _ _ id
  | PBcastGate _ _ id | PBcastWait _ _ _ id | PMembersWait _ _ id
  | PStart (RSetAcl _ _ _ _ id) | PStart (RGetAcl _ _ id) | PSetAclWait _ _ _ _ _ id | PGetAclWait _ _ _ id => id
  | PDone => 0
  end.

(* ---------- what the frames of a segment answer ---------- *)
Lemma answers_app c id a b : answers c id (a ++ b) = answers c id a ++ answers c id b.
Proof. unfold answers. apply filter_app. Qed.

Lemma answers_events c id g l e kind ch n own : answers c id (events g l e kind ch n own) = [].
Proof. unfold events. induction (conns_of g l e) as [|a r IH]; [reflexivity|exact IH]. Qed.

Lemma answers_msgs c id ch me pl (l : list conn) : answers c id (map (fun c' => OMsg c' ch me pl) l) = [].
Proof. induction l as [|a r IH]; [reflexivity|exact IH]. Qed.

Lemma answers_err c id e : exists o, err_out (Some c) id e = [o] /\ answers c id [o] = [o].
Proof.
  unfold err_out. destruct (closing_reason e); eexists; (split; [reflexivity|]);
    unfold answers; cbn [filter]; rewrite ?N.eqb_refl; reflexivity.
Qed.

Definition good (c : conn) (id : N) (r : step_res) : Prop :=
  (snd (fst r) <> PDone -> answers c id (snd r) = []) /\
  (snd (fst r) = PDone -> (exists o, answers c id (snd r) = [o]) \/
                          answers c id (snd r) = [OAck c id A_LEAVE; OClose c E_INTERNAL]).

Lemma good_one c id g os o : answers c id os = [o] -> good c id (g, PDone, os).
Proof. intros H. split; cbn [fst snd]; [congruence|]. intros _. left. exists o. exact H. Qed.

Lemma good_err c id g e : good c id (g, PDone, err_out (Some c) id e).
Proof. destruct (answers_err c id e) as (o & -> & H). eapply good_one; exact H. Qed.

Lemma good_cont c id g p os : p <> PDone -> answers c id os = [] -> good c id (g, p, os).
Proof. intros Hp H. split; cbn [fst snd]; [intros _; exact H|congruence]. Qed.

Lemma good_pre c id (r : step_res) os1 :
  answers c id os1 = [] -> good c id r -> good c id (let '(g', p, os) := r in (g', p, os1 ++ os)).
Proof.
  destruct r as [[g' p] os]. unfold good. cbn [fst snd]. rewrite answers_app. intros ->. cbn [app]. auto.
Qed.

Lemma good_pre' c id g p os os1 : answers c id os1 = [] -> good c id (g, p, os) -> good c id (g, p, os1 ++ os).
Proof. intros H G. exact (good_pre c id (g, p, os) os1 H G). Qed.

Lemma answers_ack c id kind : answers c id [OAck c id kind] = [OAck c id kind].
Proof. unfold answers. cbn [filter]. rewrite !N.eqb_refl. reflexivity. Qed.

Section Reply.
  Variable cf : ccfg.
  Variable t : tid.
  Variable c : conn.
  Variable me : user.

  Lemma good_join_finish g ch o cr n id ok : good c id (join_finish cf (Some c) g ch o cr n id ok).
  Proof.
    unfold join_finish. destruct ok; [|apply good_err].
    apply good_pre'; [apply answers_events|]. eapply good_one. apply answers_ack.
  Qed.

  Lemma good_join_locked g ch o cr ob id : good c id (join_locked cf t (Some c) me g ch o cr ob id).
  Proof.
    unfold join_locked.
    destruct (negb _); [apply good_err|].
    destruct (match ob with Some n => _ | None => _ end) as [e|n]; [apply good_err|].
    destruct (negb _); [apply good_err|].
    destruct (mem _ _); [apply good_err|].
    destruct (_ <=? _); [apply good_err|].
    destruct (_ <=? _); [apply good_err|].
    destruct (fwd_event cf); [apply good_cont; [discriminate|reflexivity]|].
    apply good_join_finish.
  Qed.

  Lemma good_leave_end g o id ok1 ok2 : good c id (leave_end (Some c) g o id ok1 ok2).
  Proof.
    unfold leave_end. destruct ok1; cbn [negb]; [|apply good_err].
    destruct ok2; cbn [negb].
    - eapply good_one. rewrite app_nil_r. apply answers_ack.
    - split; cbn [fst snd]; [congruence|]. intros _. right.
      unfold answers. cbn. rewrite !N.eqb_refl. reflexivity.
  Qed.

  Lemma good_leave_after_n2 g ch o id ok1 ok2 : good c id (leave_after_n2 (Some c) g ch o id ok1 ok2).
  Proof.
    unfold leave_after_n2. apply good_pre; [|apply good_leave_end].
    destruct ok2; [|reflexivity]. destruct (owner _); [apply answers_events|reflexivity].
  Qed.

  Lemma good_leave_after_n1 g ch o n w id ok1 hint : good c id (leave_after_n1 cf t (Some c) g ch o n w id ok1 hint).
  Proof.
    unfold leave_after_n1.
    assert (H1 : answers c id (if ok1 then events g (members (objs g o)) (Some c) K_LEFT ch n w else []) = []).
    { destruct ok1; [apply answers_events|reflexivity]. }
    destruct (isnil _); [apply good_pre; [exact H1|apply good_leave_end]|].
    destruct w; [|apply good_pre; [exact H1|apply good_leave_end]].
    destruct (fwd_event cf).
    - apply good_cont; [discriminate|]. rewrite answers_app, H1. reflexivity.
    - apply good_pre; [exact H1|apply good_leave_after_n2].
  Qed.

  Lemma good_leave_locked g ch o ob id hint : good c id (leave_locked cf t (Some c) me g ch o ob id hint).
  Proof.
    unfold leave_locked.
    destruct (cmap g ch); [|apply good_err].
    destruct (match ob with Some z => _ | None => _ end) as [e|n]; [apply good_err|].
    destruct (negb _); [apply good_err|].
    destruct (fwd_event cf); [apply good_cont; [discriminate|reflexivity]|].
    apply good_leave_after_n1.
  Qed.

  Lemma good_bcast_read g ch o pl id : good c id (bcast_read (Some c) me g ch o pl id).
  Proof.
    unfold bcast_read. destruct (negb _); [apply good_err|]. destruct (negb _); [apply good_err|].
    apply good_pre'; [apply answers_msgs|]. eapply good_one. apply answers_ack.
  Qed.

  Lemma good_bcast_lookup g ch pl id : good c id (bcast_lookup (Some c) me g ch pl id).
  Proof.
    unfold bcast_lookup. destruct (cmap g ch) as [o|]; [|apply good_err].
    destruct (lock_free g o); [apply good_bcast_read|apply good_cont; [discriminate|reflexivity]].
  Qed.

  Lemma good_members_read g o id : good c id (members_read (Some c) me g o id).
  Proof.
    unfold members_read. destruct (negb _); [apply good_err|].
    eapply good_one. unfold answers. cbn [filter]. rewrite !N.eqb_refl. reflexivity.
  Qed.

  Lemma good_set_acl_locked g o ty ad us id : good c id (set_acl_locked cf (Some c) me g o ty ad us id).
  Proof.
    unfold set_acl_locked. destruct (negb _); [apply good_err|]. destruct (_ <? _); [apply good_err|].
    eapply good_one. apply answers_ack.
  Qed.

  Lemma good_get_acl_read g o ty id : good c id (get_acl_read (Some c) me g o ty id).
  Proof.
    unfold get_acl_read. destruct (negb _); [apply good_err|].
    eapply good_one. unfold answers. cbn [filter]. rewrite !N.eqb_refl. reflexivity.
  Qed.

  Lemma good_seg g p ok hint : p <> PDone -> good c (pc_id p) (seg cf t (Some c) me g p ok hint).
  Proof.
    intros Hd.
    destruct p as [[ch ob id|ch ob id|ch pl id|ch id|id|ch ty ad us id|ch ty id]
                   |ch o ob id|ch o cr n id|ch o ob id|ch o n w id|ch o ok1 id
                   |ch pl id|ch o pl id|ch o id|ch o ty ad us id|ch o ty id|]; cbn [seg pc_id].
    - unfold join_start. destruct (cmap g ch) as [o|]; [|apply good_join_locked].
      destruct (lock_free g o); [apply good_join_locked|apply good_cont; [discriminate|reflexivity]].
    - unfold leave_start. destruct (cmap g ch) as [o|]; [|apply good_err].
      destruct (lock_free g o); [apply good_leave_locked|apply good_cont; [discriminate|reflexivity]].
    - destruct (fwd_payload cf); [apply good_cont; [discriminate|reflexivity]|apply good_bcast_lookup].
    - destruct (cmap g ch) as [o|]; [|apply good_err].
      destruct (lock_free g o); [apply good_members_read|apply good_cont; [discriminate|reflexivity]].
    - eapply good_one. unfold answers. cbn [filter]. rewrite !N.eqb_refl. reflexivity.
    - destruct (cmap g ch) as [o|]; [|apply good_err].
      destruct (lock_free g o); [apply good_set_acl_locked|apply good_cont; [discriminate|reflexivity]].
    - destruct (cmap g ch) as [o|]; [|apply good_err].
      destruct (lock_free g o); [apply good_get_acl_read|apply good_cont; [discriminate|reflexivity]].
    - destruct (lock_free g o); [apply good_join_locked|apply good_cont; [discriminate|reflexivity]].
    - apply good_join_finish.
    - destruct (lock_free g o); [apply good_leave_locked|apply good_cont; [discriminate|reflexivity]].
    - apply good_leave_after_n1.
    - apply good_leave_after_n2.
    - destruct ok; [apply good_bcast_lookup|apply good_err].
    - destruct (lock_free g o); [apply good_bcast_read|apply good_cont; [discriminate|reflexivity]].
    - destruct (lock_free g o); [apply good_members_read|apply good_cont; [discriminate|reflexivity]].
    - destruct (lock_free g o); [apply good_set_acl_locked|apply good_cont; [discriminate|reflexivity]].
    - destruct (lock_free g o); [apply good_get_acl_read|apply good_cont; [discriminate|reflexivity]].
    - congruence.
  Qed.
End Reply.

(* C12 under interleaving: a request is answered in the segment in which it ends and in no other; the answer is one reply,
   or one closing error, or (a LEAVE whose hand-over announcement failed) the acknowledgement followed by the closing error *)
Theorem conc_reply_discipline cf t c me g p ok hint g' p' os :
  p <> PDone ->
  seg cf t (Some c) me g p ok hint = (g', p', os) ->
  (p' <> PDone -> answers c (pc_id p) os = []) /\
  (p' = PDone -> (exists o, answers c (pc_id p) os = [o]) \/
                 answers c (pc_id p) os = [OAck c (pc_id p) A_LEAVE; OClose c E_INTERNAL]).
Proof.
  intros Hd H. pose proof (good_seg cf t c me g p ok hint Hd) as G. rewrite H in G. exact G.
Qed.

Print Assumptions conc_always_drains.
Print Assumptions conc_reply_discipline.
