(* Scanner/printer round trip for a single value in context:
   read_escaped_string applied to  pre ++ fmt v ++ post  at position |pre| returns v. *)
From NW Require Import Base.Bytes Model.SchemaTypes Gen.Consts Model.Codec Model.CodecWf.

Definition sep (b : N) : bool := (b =? 0) || is_space b.
Definition all_nonsep (t : list N) : bool := forallb (fun b => negb (sep b)) t.

(* the generated scanner / printer tables agree *)
Lemma spaces_agree : de_space_chars = ser_space_chars.
Proof. reflexivity. Qed.
Lemma escapes_agree : de_escape_chars = ser_escape_chars.
Proof. reflexivity. Qed.
Lemma backslash_nonsep : sep BACKSLASH = false.
Proof. vm_compute. reflexivity. Qed.

(* what follows a value written without escaping: nothing, or a separator *)
Definition post_ok (post : list N) : Prop := post = [] \/ exists c r, post = c :: r /\ sep c = true.
Definition post_len (post : list N) : nat := match post with [] => 0 | _ => 1 end.

(* ---------------------------------------------------------------- list helpers *)

Lemma skipn_app_exact {A} (a b : list A) : skipn (length a) (a ++ b) = b.
Proof. induction a as [|x a IH]; [reflexivity | exact IH]. Qed.

Lemma firstn_app_exact {A} (a b : list A) : firstn (length a) (a ++ b) = a.
Proof. induction a as [|x a IH]; [destruct b; reflexivity | cbn [length app firstn]; rewrite IH; reflexivity]. Qed.

Lemma nth_error_app_exact {A} (a : list A) x b : nth_error (a ++ x :: b) (length a) = Some x.
Proof. induction a as [|y a IH]; [reflexivity | exact IH]. Qed.

Lemma slice_app_exact (pre t post : list N) :
  slice (pre ++ t ++ post) (length pre) (length pre + length t) = t.
Proof.
  unfold slice. rewrite skipn_app_exact.
  replace (length pre + length t - length pre)%nat with (length t) by lia.
  apply firstn_app_exact.
Qed.

(* ---------------------------------------------------------------- unescaped values *)

Lemma seek_char_at pre b rest :
  sep b = false -> seek_char (pre ++ b :: rest) (length pre) = (Some (length pre), length pre).
Proof.
  intro Hs. unfold seek_char. rewrite skipn_app_exact. cbn [seek_aux].
  unfold sep in Hs. apply orb_false_iff in Hs as [Hz Hsp]. rewrite Hz, Hsp. reflexivity.
Qed.

Lemma rs_aux_nonsep t : forall post p to,
  all_nonsep t = true -> rs_aux (t ++ post) p to = rs_aux post (p + length t) (to + length t).
Proof.
  induction t as [|b t IH]; intros post p to H.
  - cbn [app length]. rewrite !Nat.add_0_r. reflexivity.
  - cbn [all_nonsep forallb] in H. apply andb_true_iff in H as [Hb Ht].
    apply negb_true_iff in Hb. unfold sep in Hb.
    cbn [app rs_aux length]. rewrite Hb. rewrite (IH post (S p) (S to) Ht).
    f_equal; lia.
Qed.

Lemma rs_aux_post post p to :
  post_ok post -> rs_aux post p to = (to, (p + post_len post)%nat).
Proof.
  intros [-> | (c & r & -> & Hc)]; cbn [rs_aux post_len].
  - rewrite Nat.add_0_r. reflexivity.
  - unfold sep in Hc. rewrite Hc. f_equal. lia.
Qed.

Lemma read_string_plain pre t post :
  t <> [] -> all_nonsep t = true -> post_ok post ->
  read_string (pre ++ t ++ post) (length pre)
  = (Some t, (length pre + length t + post_len post)%nat).
Proof.
  intros Hne Hall Hpost. destruct t as [|b t']; [congruence|].
  assert (Hb : sep b = false).
  { cbn [all_nonsep forallb] in Hall. apply andb_true_iff in Hall as [Hb _].
    apply negb_true_iff in Hb. exact Hb. }
  unfold read_string.
  change (pre ++ (b :: t') ++ post) with (pre ++ b :: (t' ++ post)) at 1.
  rewrite (seek_char_at pre b (t' ++ post) Hb).
  rewrite skipn_app_exact.
  rewrite (rs_aux_nonsep (b :: t') post _ _ Hall).
  rewrite (rs_aux_post _ _ _ Hpost).
  rewrite slice_app_exact. reflexivity.
Qed.

(* t is written as is and read back as is *)
Definition plain (t : list N) : Prop :=
  t <> [] /\ all_nonsep t = true /\ starts_esc t = false /\ t <> [BACKSLASH].

Lemma read_escaped_plain pre t post :
  plain t -> post_ok post ->
  read_escaped_string (pre ++ t ++ post) (length pre)
  = Ok (Some t, (length pre + length t + post_len post)%nat).
Proof.
  intros (Hne & Hall & Hesc & Hlone) Hpost.
  pose proof (read_string_plain pre t post Hne Hall Hpost) as Hrs.
  destruct t as [|b t']; [congruence|].
  assert (Hb : sep b = false).
  { cbn [all_nonsep forallb] in Hall. apply andb_true_iff in Hall as [Hb _].
    apply negb_true_iff in Hb. exact Hb. }
  unfold read_escaped_string.
  change (pre ++ (b :: t') ++ post) with (pre ++ b :: (t' ++ post)) at 1 2.
  rewrite (seek_char_at pre b (t' ++ post) Hb).
  unfold read_byte at 1. rewrite nth_error_app_exact.
  change (pre ++ b :: (t' ++ post)) with (pre ++ (b :: t') ++ post).
  replace (S (length pre) - 1)%nat with (length pre) by lia.
  destruct (b =? BACKSLASH) eqn:Ebs; cbn [negb]; [|rewrite Hrs; reflexivity].
  apply N.eqb_eq in Ebs. subst b.
  destruct t' as [|e t'']; [congruence|].
  cbn [starts_esc] in Hesc. rewrite N.eqb_refl in Hesc. cbn [andb] in Hesc.
  unfold read_byte.
  replace (nth_error (pre ++ (BACKSLASH :: e :: t'') ++ post) (S (length pre))) with (Some e).
  2:{ change (pre ++ (BACKSLASH :: e :: t'') ++ post) with (pre ++ [BACKSLASH] ++ e :: (t'' ++ post)).
      rewrite app_assoc.
      replace (S (length pre)) with (length (pre ++ [BACKSLASH])) by (rewrite app_length; cbn [length]; lia).
      rewrite nth_error_app_exact. reflexivity. }
  rewrite Hesc. cbn [negb].
  replace (S (S (length pre)) <? 2)%nat with false by (symmetry; apply Nat.ltb_ge; lia).
  replace (S (S (length pre)) - 2)%nat with (length pre) by lia.
  rewrite Hrs. reflexivity.
Qed.

(* ---------------------------------------------------------------- escaped values *)

Lemma esc_loop_scan e s : forall rest p from to,
  (from <= p)%nat -> (from <= to)%nat -> mem e s = false -> mem 0 s = false ->
  exists to', (from <= to')%nat /\
    esc_loop (s ++ rest) p from to e = esc_loop rest (p + length s) from to' e /\
    (to' =? from)%nat = negb (armed_after (p =? from)%nat (negb (to =? from)%nat) s).
Proof.
  induction s as [|b r IH]; intros rest p from to Hp Hto He Hz.
  - exists to. cbn [app length armed_after]. rewrite Nat.add_0_r, negb_involutive.
    repeat split; try reflexivity; exact Hto.
  - cbn [mem existsb] in He, Hz. apply orb_false_iff in He as [Heb He], Hz as [Hzb Hz].
    assert (Hbe : (b =? e) = false) by (rewrite N.eqb_sym; exact Heb).
    assert (Hb0 : (b =? 0) = false) by (rewrite N.eqb_sym; exact Hzb).
    assert (Hnf : (S p =? from)%nat = false) by (apply Nat.eqb_neq; lia).
    cbn [app esc_loop length armed_after]. rewrite Hbe, Hb0. cbn [andb].
    replace (p + S (length r))%nat with (S p + length r)%nat by lia.
    destruct (to =? from)%nat eqn:Etf; cbn [negb]; rewrite ?andb_true_r, ?andb_false_r.
    + destruct (b =? BACKSLASH).
      * destruct (IH rest (S p) from p) as (to' & H1 & H2 & H3); try assumption; try lia.
        exists to'. rewrite Hnf in H3. repeat split; assumption.
      * destruct (IH rest (S p) from to) as (to' & H1 & H2 & H3); try assumption; try lia.
        exists to'. rewrite Hnf, Etf in H3. repeat split; assumption.
    + destruct (IH rest (S p) from from) as (to' & H1 & H2 & H3); try assumption; try lia.
      exists to'. rewrite Hnf, Nat.eqb_refl in H3. repeat split; assumption.
Qed.

Lemma esc_loop_close e post p from to :
  (from < p)%nat -> (to =? from)%nat = true ->
  esc_loop ([BACKSLASH; e] ++ post) p from to e = Ok (p, S (S p)).
Proof.
  intros Hp Hto. cbn [app esc_loop]. rewrite N.eqb_refl, Hto. cbn [andb].
  assert (Hpf : (p =? from)%nat = false) by (apply Nat.eqb_neq; lia).
  rewrite Hpf, N.eqb_refl. rewrite andb_false_r. reflexivity.
Qed.

Lemma read_escaped_quoted pre s e post :
  s <> [] -> mem 0 s = false -> mem e s = false -> is_escape_char e = true ->
  armed_after true false s = false ->
  read_escaped_string (pre ++ ([BACKSLASH; e] ++ s ++ [BACKSLASH; e]) ++ post) (length pre)
  = Ok (Some s, (length pre + length ([BACKSLASH; e] ++ s ++ [BACKSLASH; e]))%nat).
Proof.
  intros Hne Hz He Hesc Harm.
  set (tail := s ++ [BACKSLASH; e] ++ post).
  assert (Ebuf : pre ++ ([BACKSLASH; e] ++ s ++ [BACKSLASH; e]) ++ post
                 = pre ++ BACKSLASH :: e :: tail).
  { unfold tail. cbn [app]. rewrite <- !app_assoc. reflexivity. }
  rewrite Ebuf. unfold read_escaped_string.
  rewrite (seek_char_at pre BACKSLASH (e :: tail) backslash_nonsep).
  unfold read_byte at 1. rewrite nth_error_app_exact.
  rewrite N.eqb_refl. cbn [negb].
  assert (Ebuf2 : pre ++ BACKSLASH :: e :: tail = (pre ++ [BACKSLASH]) ++ e :: tail)
    by (rewrite <- app_assoc; reflexivity).
  assert (Ebuf3 : pre ++ BACKSLASH :: e :: tail = (pre ++ [BACKSLASH; e]) ++ tail)
    by (rewrite <- app_assoc; reflexivity).
  assert (L1 : S (length pre) = length (pre ++ [BACKSLASH])) by (rewrite app_length; cbn [length]; lia).
  assert (L2 : S (S (length pre)) = length (pre ++ [BACKSLASH; e])) by (rewrite app_length; cbn [length]; lia).
  unfold read_byte.
  replace (nth_error (pre ++ BACKSLASH :: e :: tail) (S (length pre))) with (Some e)
    by (rewrite Ebuf2, L1, nth_error_app_exact; reflexivity).
  rewrite Hesc. cbn [negb].
  replace (skipn (S (S (length pre))) (pre ++ BACKSLASH :: e :: tail)) with tail
    by (rewrite Ebuf3, L2, skipn_app_exact; reflexivity).
  set (p2 := S (S (length pre))).
  unfold tail at 1.
  destruct (esc_loop_scan e s ([BACKSLASH; e] ++ post) p2 p2 p2) as (to' & Hle & Hscan & Hto');
    try assumption; try lia.
  rewrite Hscan. rewrite !Nat.eqb_refl in Hto'. cbn [negb] in Hto'. rewrite Harm in Hto'. cbn [negb] in Hto'.
  assert (Hlen : (0 < length s)%nat) by (destruct s; [congruence | cbn [length]; lia]).
  rewrite esc_loop_close; [|lia|exact Hto'].
  cbn [bind]. f_equal. f_equal.
  - f_equal. rewrite Ebuf3. unfold p2. rewrite L2.
    rewrite <- (slice_app_exact (pre ++ [BACKSLASH; e]) s ([BACKSLASH; e] ++ post)) at 2.
    reflexivity.
  - unfold p2. rewrite !app_length. cbn [length]. lia.
Qed.

(* ---------------------------------------------------------------- strings *)

Lemma has_space_sep s : mem 0 s = false -> has_space s = false -> all_nonsep s = true.
Proof.
  induction s as [|b r IH]; intros Hz Hs; [reflexivity|].
  cbn [mem existsb] in Hz. apply orb_false_iff in Hz as [Hzb Hz].
  cbn [has_space existsb] in Hs. apply orb_false_iff in Hs as [Hsb Hs].
  cbn [all_nonsep forallb]. apply andb_true_iff. split; [|apply (IH Hz Hs)].
  apply negb_true_iff. unfold sep, is_space. rewrite spaces_agree, Hsb, N.eqb_sym, Hzb. reflexivity.
Qed.

Lemma first_free_esc_spec cands s : forall e,
  first_free_esc cands s = Some e -> In e cands /\ mem e s = false.
Proof.
  induction cands as [|c r IH]; intros e H; cbn [first_free_esc] in H; [discriminate|].
  destruct (mem c s) eqn:E.
  - destruct (IH e H) as [H1 H2]. split; [right; exact H1 | exact H2].
  - injection H as <-. split; [left; reflexivity | exact E].
Qed.

(* str_class s = 0, unfolded *)
Lemma str_class_0 s :
  str_class s = 0 ->
  s <> [] /\ mem 0 s = false /\ mem NL s = false /\ utf8_valid s = true /\
  ((has_space s = false /\ starts_esc s = false /\ s <> [BACKSLASH]) \/
   (has_space s = true /\ exists e, first_free_esc ser_escape_chars s = Some e /\
                                    armed_after true false s = false)).
Proof.
  unfold str_class. destruct s as [|b r]; [discriminate|]. set (s := b :: r).
  destruct (mem 0 s); [discriminate|].
  destruct (mem NL s); [discriminate|].
  destruct (utf8_valid s); [|discriminate]. cbn [negb].
  intro H. repeat split; try discriminate.
  destruct (has_space s); cbn [negb] in H.
  - right. split; [reflexivity|].
    destruct (first_free_esc ser_escape_chars s) as [e|]; [|discriminate].
    exists e. split; [reflexivity|]. destruct (armed_after true false s); [discriminate | reflexivity].
  - left. split; [reflexivity|].
    destruct (starts_esc s); [discriminate|]. split; [reflexivity|].
    destruct (list_eqb s [BACKSLASH]) eqn:E; [discriminate|].
    intro Heq. rewrite Heq, list_eqb_refl in E. discriminate.
Qed.

(* The statement requested in the task has the position
     length pre + length enc + match post with [] => 0 | _ => 1 end
   which is FALSE when s contains a space (the escaped form): after the closing \e the scanner
   does not consume the following separator.  Counterexample (checked below):
     pre = "x=", s = "a b", enc = \"a b\", post = " y=1":  position 9, not 10.
   Corrected: the separator is consumed only for the unescaped form.  The hypothesis
   pre <> [] is not needed (the lone backslash, the only value that would seek before 0,
   is class 4). *)
Example value_roundtrip_as_stated_is_false :
  let pre := [120; 61] in let s := [97; 32; 98] in let post := [32; 121; 61; 49] in
  exists enc, str_class s = 0 /\ fmt_str s = Some enc /\ post = SP :: [121; 61; 49] /\ pre <> [] /\
    read_escaped_string (pre ++ enc ++ post) (length pre) = Ok (Some s, 9%nat) /\
    (length pre + length enc + match post with [] => 0 | _ => 1 end = 10)%nat.
Proof.
  eexists. repeat split; try (vm_compute; reflexivity). discriminate.
Qed.

Theorem value_roundtrip : forall pre s enc post,
  str_class s = 0 -> fmt_str s = Some enc ->
  (post = [] \/ exists r, post = SP :: r) ->
  read_escaped_string (pre ++ enc ++ post) (length pre)
  = Ok (Some s, (length pre + length enc +
                 if has_space s then 0 else match post with [] => 0 | _ => 1 end)%nat).
Proof.
  intros pre s enc post Hc Hf Hpost.
  apply str_class_0 in Hc.
  destruct Hc as (Hne & Hz & _ & _ & [(Hsp & Hse & Hlone) | (Hsp & e & He & Harm)]).
  - unfold fmt_str in Hf. destruct s as [|b r]; [congruence|].
    rewrite Hsp in Hf. cbn [negb] in Hf. injection Hf as <-. rewrite Hsp.
    apply read_escaped_plain.
    + repeat split; try assumption. apply has_space_sep; assumption.
    + destruct Hpost as [-> | (r' & ->)]; [left; reflexivity|].
      right. exists SP, r'. split; reflexivity.
  - unfold fmt_str in Hf. destruct s as [|b r]; [congruence|].
    rewrite Hsp, He in Hf. cbn [negb] in Hf. injection Hf as <-. rewrite Hsp, Nat.add_0_r.
    apply first_free_esc_spec in He as [Hin Hmem].
    apply (read_escaped_quoted pre (b :: r) e post); try assumption.
    unfold is_escape_char. rewrite escapes_agree. apply mem_In. exact Hin.
Qed.

(* the statement exactly as requested holds for the unescaped form (with its pre <> [] hypothesis,
   which is not used) *)
Corollary value_roundtrip_unescaped : forall pre s enc post,
  str_class s = 0 -> has_space s = false -> fmt_str s = Some enc ->
  (post = [] \/ exists r, post = SP :: r) -> pre <> [] ->
  read_escaped_string (pre ++ enc ++ post) (length pre)
  = Ok (Some s, (length pre + length enc + match post with [] => 0 | _ => 1 end)%nat).
Proof.
  intros pre s enc post Hc Hsp Hf Hpost _.
  rewrite (value_roundtrip pre s enc post Hc Hf Hpost), Hsp. reflexivity.
Qed.

(* the escaped form does not care about what follows *)
Theorem value_roundtrip_escaped : forall pre s enc post,
  str_class s = 0 -> has_space s = true -> fmt_str s = Some enc ->
  read_escaped_string (pre ++ enc ++ post) (length pre) = Ok (Some s, (length pre + length enc)%nat).
Proof.
  intros pre s enc post Hc Hsp Hf.
  apply str_class_0 in Hc.
  destruct Hc as (Hne & Hz & _ & _ & [(Hsp' & _) | (_ & e & He & Harm)]); [congruence|].
  unfold fmt_str in Hf. destruct s as [|b r]; [congruence|].
  rewrite Hsp, He in Hf. cbn [negb] in Hf. injection Hf as <-.
  apply first_free_esc_spec in He as [Hin Hmem].
  apply (read_escaped_quoted pre (b :: r) e post); try assumption.
  unfold is_escape_char. rewrite escapes_agree. apply mem_In. exact Hin.
Qed.

(* ---------------------------------------------------------------- numbers *)

Lemma sep_small d : sep d = true -> d <= 32.
Proof.
  unfold sep, is_space, de_space_chars, mem. cbn [existsb].
  rewrite !orb_true_iff, !N.eqb_eq. intros H. lia.
Qed.

Lemma digit_nonsep d : is_digit d = true -> sep d = false.
Proof.
  unfold is_digit. intro H. apply andb_true_iff in H as [H1 H2].
  apply N.leb_le in H1. destruct (sep d) eqn:E; [|reflexivity].
  apply sep_small in E. lia.
Qed.

Lemma mod10_digit n : is_digit (48 + n mod 10) = true.
Proof.
  pose proof (N.mod_lt n 10 ltac:(lia)) as H. revert H. generalize (n mod 10). intros d H.
  unfold is_digit. apply andb_true_iff. split; apply N.leb_le; lia.
Qed.

Lemma dec_digits_app fuel : forall n acc, dec_digits fuel n acc = dec_digits fuel n [] ++ acc.
Proof.
  induction fuel as [|f IH]; intros n acc; cbn [dec_digits]; [reflexivity|].
  destruct (n / 10 =? 0); [reflexivity|].
  rewrite (IH (n / 10) (_ :: acc)), (IH (n / 10) [_]). rewrite <- app_assoc. reflexivity.
Qed.

Lemma dec_digits_all_digits fuel : forall n acc,
  forallb is_digit acc = true -> forallb is_digit (dec_digits fuel n acc) = true.
Proof.
  induction fuel as [|f IH]; intros n acc H; cbn [dec_digits]; [exact H|].
  assert (H' : forallb is_digit ((48 + n mod 10) :: acc) = true)
    by (cbn [forallb]; rewrite mod10_digit, H; reflexivity).
  destruct (n / 10 =? 0); [exact H' | apply IH; exact H'].
Qed.

Lemma dec_digits_length fuel : forall n acc, (length acc < length (dec_digits (S fuel) n acc))%nat.
Proof.
  induction fuel as [|f IH]; intros n acc.
  - cbn [dec_digits]. destruct (n / 10 =? 0); cbn [length]; lia.
  - cbn [dec_digits] in IH |- *. destruct (n / 10 =? 0); [cbn [length]; lia|].
    specialize (IH (n / 10) ((48 + n mod 10) :: acc)). cbn [length] in IH. lia.
Qed.

Lemma fmt_num_shape n : exists d r, fmt_num n = d :: r /\ is_digit d = true /\ forallb is_digit r = true.
Proof.
  pose proof (dec_digits_all_digits 40 n [] eq_refl) as Hall.
  pose proof (dec_digits_length 39 n []) as Hlen.
  unfold fmt_num. destruct (dec_digits 40 n []) as [|d r]; [cbn [length] in Hlen; lia|].
  cbn [forallb] in Hall. apply andb_true_iff in Hall as [H1 H2]. eauto.
Qed.

Lemma digits_nonsep l : forallb is_digit l = true -> all_nonsep l = true.
Proof.
  induction l as [|d r IH]; intro H; [reflexivity|].
  cbn [forallb] in H. apply andb_true_iff in H as [H1 H2].
  cbn [all_nonsep forallb]. rewrite (digit_nonsep d H1). cbn [negb andb]. apply IH. exact H2.
Qed.

Lemma digit_not_backslash d : is_digit d = true -> (d =? BACKSLASH) = false.
Proof.
  unfold is_digit, BACKSLASH. intro H. apply andb_true_iff in H as [H1 H2].
  apply N.leb_le in H2. apply N.eqb_neq. lia.
Qed.

Lemma fmt_num_plain n : plain (fmt_num n).
Proof.
  destruct (fmt_num_shape n) as (d & r & E & Hd & Hr). rewrite E.
  pose proof (digit_not_backslash d Hd) as Hnb.
  repeat split.
  - discriminate.
  - apply digits_nonsep. cbn [forallb]. rewrite Hd, Hr. reflexivity.
  - cbn [starts_esc]. destruct r; [reflexivity|]. rewrite Hnb. reflexivity.
  - intro H. injection H as H _. rewrite H, N.eqb_refl in Hnb. discriminate.
Qed.

Theorem num_value_roundtrip : forall pre n post,
  (post = [] \/ exists r, post = SP :: r) ->
  read_escaped_string (pre ++ fmt_num n ++ post) (length pre)
  = Ok (Some (fmt_num n), (length pre + length (fmt_num n) + match post with [] => 0 | _ => 1 end)%nat).
Proof.
  intros pre n post Hpost. apply read_escaped_plain; [apply fmt_num_plain|].
  destruct Hpost as [-> | (r' & ->)]; [left; reflexivity|].
  right. exists SP, r'. split; reflexivity.
Qed.

Lemma fmt_bool_plain b : plain (fmt_bool b).
Proof. destruct b; repeat split; try discriminate; vm_compute; reflexivity. Qed.

Theorem bool_value_roundtrip : forall pre b post,
  (post = [] \/ exists r, post = SP :: r) ->
  read_escaped_string (pre ++ fmt_bool b ++ post) (length pre)
  = Ok (Some (fmt_bool b), (length pre + length (fmt_bool b) + match post with [] => 0 | _ => 1 end)%nat).
Proof.
  intros pre b post Hpost. apply read_escaped_plain; [apply fmt_bool_plain|].
  destruct Hpost as [-> | (r' & ->)]; [left; reflexivity|].
  right. exists SP, r'. split; reflexivity.
Qed.

(* decimal round trip *)

Lemma digits_val_app l1 : forall a l2,
  digits_val a (l1 ++ l2) = match digits_val a l1 with Some v => digits_val v l2 | None => None end.
Proof.
  induction l1 as [|d r IH]; intros a l2; cbn [app digits_val]; [reflexivity|].
  destruct (is_digit d); [apply IH | reflexivity].
Qed.

Lemma dec_digits_val fuel : forall n, n < 10 ^ N.of_nat fuel ->
  exists k, forall a, digits_val a (dec_digits fuel n []) = Some (a * 10 ^ k + n).
Proof.
  induction fuel as [|f IH]; intros n Hn.
  - exists 0. intro a. cbn [dec_digits digits_val]. change (10 ^ N.of_nat 0) with 1 in Hn.
    f_equal. change (10 ^ 0) with 1. lia.
  - cbn [dec_digits].
    pose proof (N.div_mod n 10 ltac:(lia)) as Hdm.
    pose proof (N.mod_lt n 10 ltac:(lia)) as Hml.
    pose proof (mod10_digit n) as Hd.
    assert (Hq : n / 10 < 10 ^ N.of_nat f).
    { apply N.div_lt_upper_bound; [lia|].
      rewrite Nat2N.inj_succ, N.pow_succ_r' in Hn. exact Hn. }
    revert Hdm Hml Hd Hq. generalize (n mod 10) (n / 10). intros m q Hdm Hml Hd Hq.
    assert (Hsub : 48 + m - 48 = m) by lia.
    destruct (q =? 0) eqn:Eq.
    + apply N.eqb_eq in Eq. exists 1. intro a. cbn [digits_val]. rewrite Hd, Hsub.
      f_equal. change (10 ^ 1) with 10. lia.
    + destruct (IH q Hq) as (k & Hk).
      exists (N.succ k). intro a.
      rewrite dec_digits_app, digits_val_app, Hk. cbn [digits_val]. rewrite Hd, Hsub.
      f_equal. rewrite N.pow_succ_r'. lia.
Qed.

Lemma plus_strip d r : d <> 43 -> match d :: r with 43 :: r' => r' | _ => d :: r end = d :: r.
Proof.
  intro H. destruct d as [|p]; [reflexivity|].
  do 6 (try destruct p as [p|p|]); try reflexivity. congruence.
Qed.

Theorem parse_fmt_num : forall max n, n <= max -> n < 10 ^ 40 -> parse_uint max (fmt_num n) = Some n.
Proof.
  intros max n Hmax Hn.
  destruct (fmt_num_shape n) as (d & r & E & Hd & Hr).
  unfold parse_uint. rewrite E.
  rewrite plus_strip.
  2:{ unfold is_digit in Hd. apply andb_true_iff in Hd as [H1 _]. apply N.leb_le in H1. lia. }
  rewrite <- E. unfold fmt_num.
  destruct (dec_digits_val 40 n Hn) as (k & Hk). rewrite Hk.
  replace (0 * 10 ^ k + n) with n by lia.
  apply N.leb_le in Hmax. rewrite Hmax. reflexivity.
Qed.

Theorem parse_fmt_bool : forall b, parse_value TBool (fmt_bool b) = Some (PBool b).
Proof. intros [|]; reflexivity. Qed.

Print Assumptions value_roundtrip.
Print Assumptions value_roundtrip_unescaped.
Print Assumptions value_roundtrip_escaped.
Print Assumptions value_roundtrip_as_stated_is_false.
Print Assumptions num_value_roundtrip.
Print Assumptions bool_value_roundtrip.
Print Assumptions parse_fmt_num.
Print Assumptions parse_fmt_bool.
