(* Concurrency on the S2M link changes nothing for any single request, and the gate stays fail-closed
   (Model/LinkConc.v on top of Model/Link.v and Proofs/LinkProofs.v). *)
From NW Require Import Base.Bytes Model.SchemaTypes Gen.Schema Gen.Errors Model.Codec Model.MsgInfo Model.Pool Model.Framing
     Model.Ids Model.Server Model.Link Model.LinkConc Proofs.LinkProofs.

(* ------------------------------------------------------------------ a: the frames of one request's handling *)
Definition okid (id : N) (o : option N) : Prop := o = Some id \/ o = None.

Definition okframe (id : N) (x : lout) : Prop :=
  match x with
  | LSend m _ | LClose m => correlation_id schema m = Some id \/ correlation_id schema m = None
  | _ => True
  end.

(* the context is only extended, and only by frames that carry `id` or no id at all *)
Definition okext (id : N) (c c' : lctx) : Prop := exists os, louts c' = louts c ++ os /\ Forall (okframe id) os.

Lemma okext_refl id c : okext id c c.
Proof. exists []. split; [symmetry; apply app_nil_r | constructor]. Qed.

Lemma okext_trans id a b c : okext id a b -> okext id b c -> okext id a c.
Proof.
  intros (o1 & H1 & Q1) (o2 & H2 & Q2). exists (o1 ++ o2). rewrite H2, H1, app_assoc. split; [reflexivity|].
  apply Forall_app. split; assumption.
Qed.

Lemma okext_lemit id o c : okframe id o -> okext id c (lemit o c).
Proof. intro H. exists [o]. split; [reflexivity|]. constructor; [exact H | constructor]. Qed.

Lemma okext_lclose id e c : okid id (correlation_id schema e) -> okext id c (lclose e c).
Proof.
  intro H. unfold lclose. destruct (lclosed c); [apply okext_refl|].
  exists [LClose e]. split; [reflexivity|]. constructor; [exact H | constructor].
Qed.

Lemma okext_ldrop id c : okext id c (ldrop c).
Proof.
  unfold ldrop. destruct (lclosed c); [apply okext_refl|].
  exists [LDrop]. split; [reflexivity|]. constructor; [exact I | constructor].
Qed.

Lemma okext_lnotify_err id oid r c : okid id oid -> okext id c (lnotify_error (PErr oid r) c).
Proof.
  intro H. unfold lnotify_error. destruct (is_recoverable r).
  - apply okext_lemit. cbn [okframe]. rewrite corr_err_msg. exact H.
  - apply okext_lclose. rewrite corr_err_msg. exact H.
Qed.

Lemma okext_lnotify_int id c : okext id c (lnotify_error PInternal c).
Proof. unfold lnotify_error. apply okext_lclose. rewrite corr_err_msg. right. reflexivity. Qed.

Lemma okext_lreply id cfg m p c : okid id (correlation_id schema m) -> okext id c (lreply cfg m p c).
Proof.
  intro H. destruct (lreply_cases cfg m p c) as [E|[(i & Hi & E)|E]]; rewrite E.
  - apply okext_lemit. exact H.
  - apply okext_lemit. cbn [okframe]. rewrite corr_err_msg. rewrite Hi in H. exact H.
  - apply okext_ldrop.
Qed.

(* the call reaches the Modulator implementation and its outcome is taken off the script *)
Lemma okext_mod id x c : okext id c (snd (lnext (lemit (LMod x) c))).
Proof.
  exists [LMod x]. rewrite louts_lnext. split; [reflexivity|]. constructor; [exact I | constructor].
Qed.

Lemma okext_mod_then id x c c' : okext id (snd (lnext (lemit (LMod x) c))) c' -> okext id c c'.
Proof. intro H. eapply okext_trans; [apply okext_mod | exact H]. Qed.

Section AckChars.
  Variables (i : N) (b : bool).
  Lemma spp_ack_corr : correlation_id schema (build "S2M_MOD_DIRECT_ACK" [(bs "id", VNum i); (bs "valid", VBool b)]) = Some i.
  Proof. reflexivity. Qed.
  Lemma event_ack_corr : correlation_id schema (build "S2M_FORWARD_EVENT_ACK" [(bs "id", VNum i)]) = Some i.
  Proof. reflexivity. Qed.
End AckChars.

Lemma okext_s2m_request cfg m p c : okext (get_num m "id") c (s2m_request cfg m p c).
Proof.
  unfold s2m_request. generalize (get_num m "id"). intro id.
  assert (Hun : okext id c (lnotify_error (PErr None "UNEXPECTED_MESSAGE") c)).
  { apply okext_lnotify_err. right. reflexivity. }
  destruct (is_kind m "S2M_AUTH").
  { destruct (negb (lop_auth cfg)); [exact Hun|].
    split_lnext. eapply okext_mod_then.
    destruct (auth_ack id o) as [a|] eqn:Ha.
    - apply okext_lreply. left. apply (auth_ack_expected id o a Ha).
    - apply okext_lnotify_int. }
  destruct (is_kind m "S2M_MOD_DIRECT").
  { destruct (negb (lop_spp cfg)); [exact Hun|].
    split_lnext. eapply okext_mod_then.
    destruct o; first [apply okext_lnotify_int | apply okext_lreply; left; apply spp_ack_corr]. }
  destruct (is_kind m "S2M_FORWARD_BROADCAST_PAYLOAD").
  { destruct (negb (lop_fbp cfg)); [exact Hun|].
    destruct (nid_parse _); [|apply okext_lnotify_err; left; reflexivity].
    split_lnext. eapply okext_mod_then.
    destruct o; first [apply okext_lnotify_int | apply okext_lreply; left; apply fbp_ack_corr]. }
  destruct (is_kind m "S2M_FORWARD_EVENT").
  { destruct (negb (lop_fev cfg)); [exact Hun|].
    destruct (negb (event_kind_ok _)); [apply okext_lnotify_int|].
    split_lnext. eapply okext_mod_then.
    destruct o; first [apply okext_lnotify_int | apply okext_lreply; left; apply event_ack_corr]. }
  exact Hun.
Qed.

Lemma okext_s2m_frame_auth cfg m p c hb : lph c = LAuth hb -> okext (get_num m "id") c (s2m_frame cfg m p c).
Proof.
  intro Hph. unfold s2m_frame. destruct (lclosed c); [apply okext_refl|]. rewrite Hph.
  destruct (is_kind m "PONG"); [apply okext_refl|].
  destruct (l_max_inflight cfg =? 0); [apply okext_ldrop | apply okext_s2m_request].
Qed.

Lemma req_frame_id id call : get_num (fst (req_frame id call)) "id" = id.
Proof. destruct call; reflexivity. Qed.

Lemma via_link_frames_ok cfg hb id call o : Forall (okframe id) (fst (via_link cfg hb id call o)).
Proof.
  unfold via_link. destruct (negb (declared_for cfg call)); [constructor|].
  pose proof (req_frame_id id call) as Hid.
  destruct (req_frame id call) as [m p]. cbn [fst] in Hid |- *.
  destruct (okext_s2m_frame_auth cfg m p {| lph := LAuth hb; lscript := [o]; louts := []; lclosed := false |} hb eq_refl)
    as (os & E & Q).
  rewrite Hid in Q. rewrite E. exact Q.
Qed.

Theorem frames_carry_own_id_or_none : forall cfg hb id call o x,
  In x (fst (via_link cfg hb id call o)) ->
  match x with
  | LSend m _ | LClose m => correlation_id schema m = Some id \/ correlation_id schema m = None
  | _ => True
  end.
Proof.
  intros cfg hb id call o x Hx.
  pose proof (via_link_frames_ok cfg hb id call o) as H. rewrite Forall_forall in H. exact (H x Hx).
Qed.

(* ------------------------------------------------------------------ b: frames of other requests never answer `id` *)
Lemma reply_for_app id a b :
  reply_for id (a ++ b) = match reply_for id a with CrFail => reply_for id b | r => r end.
Proof.
  induction a as [|x a IH]; cbn [app reply_for]; [reflexivity|].
  destruct x as [m p|m| | |]; try exact IH.
  - destruct (correlation_id schema m) as [i|]; [|exact IH]. destruct (i =? id); [reflexivity | exact IH].
  - destruct (correlation_id schema m) as [i|]; [|exact IH]. destruct (i =? id); [reflexivity | exact IH].
Qed.

Lemma reply_for_foreign id w : (forall x, In x w -> frame_id x <> Some id) -> reply_for id w = CrFail.
Proof.
  induction w as [|x w IH]; intro H; cbn [reply_for]; [reflexivity|].
  assert (IH' : reply_for id w = CrFail) by (apply IH; intros y Hy; apply H; right; exact Hy).
  pose proof (H x (or_introl eq_refl)) as Hx.
  destruct x as [m p|m| | |]; try exact IH'; cbn [frame_id] in Hx.
  - destruct (correlation_id schema m) as [i|]; [|exact IH']. destruct (i =? id) eqn:Ei; [|exact IH'].
    apply N.eqb_eq in Ei. subst i. exfalso. apply Hx. reflexivity.
  - destruct (correlation_id schema m) as [i|]; [|exact IH']. destruct (i =? id) eqn:Ei; [|exact IH'].
    apply N.eqb_eq in Ei. subst i. exfalso. apply Hx. reflexivity.
Qed.

Theorem reply_for_skips_foreign : forall id w1 mid w2,
  (forall x, In x w1 -> frame_id x <> Some id) ->
  reply_for id (w1 ++ mid ++ w2) = match reply_for id mid with CrFail => reply_for id w2 | r => r end.
Proof. intros id w1 mid w2 H. rewrite reply_for_app, (reply_for_foreign id w1 H). apply reply_for_app. Qed.

(* the client only ever looks at frames *)
Lemma reply_for_wire_frames id os : reply_for id (filter is_wire_frame os) = reply_for id os.
Proof.
  induction os as [|x os IH]; [reflexivity|].
  destruct x as [m p|m| | |]; cbn [filter is_wire_frame reply_for]; rewrite ?IH; reflexivity.
Qed.

(* the frames written for request id' never answer another id *)
Lemma via_link_foreign cfg hb id' call o id x :
  id <> id' -> In x (filter is_wire_frame (fst (via_link cfg hb id' call o))) -> frame_id x <> Some id.
Proof.
  intros Hne Hx. apply filter_In in Hx as [Hx _].
  pose proof (frames_carry_own_id_or_none cfg hb id' call o x Hx) as Hok.
  destruct x as [m p|m| | |]; cbn [frame_id]; try discriminate;
    (destruct Hok as [E|E]; rewrite E; [intro H; injection H as H; apply Hne; symmetry; exact H | discriminate]).
Qed.

Lemma via_link_own cfg hb id call o x i :
  In x (filter is_wire_frame (fst (via_link cfg hb id call o))) -> frame_id x = Some i -> i = id.
Proof.
  intros Hx Hi. destruct (N.eq_dec i id) as [E|E]; [exact E|].
  exfalso. exact (via_link_foreign cfg hb id call o i x E Hx Hi).
Qed.

Lemma via_link_snd cfg hb id call o :
  declared_for cfg call = true ->
  snd (via_link cfg hb id call o) = map_reply cfg call (reply_for id (fst (via_link cfg hb id call o))).
Proof. intro Hd. unfold via_link. rewrite Hd. cbn [negb]. destruct (req_frame id call) as [m p]. reflexivity. Qed.

Lemma map_reply_fail cfg call : map_reply cfg call CrFail = RErr.
Proof.
  destruct call; cbn [map_reply]; unfold c_auth, c_fbp, c_event, c_spp;
    match goal with |- (if negb ?b then _ else _) = _ => destruct b; reflexivity end.
Qed.

(* ------------------------------------------------------------------ association lists *)
Lemma nlookup_in {A} k (l : list (N * A)) v : nlookup k l = Some v -> In (k, v) l.
Proof.
  induction l as [|[k' v'] l IH]; cbn [nlookup]; [discriminate|].
  destruct (k =? k') eqn:E.
  - intro H. injection H as ->. apply N.eqb_eq in E. subst k'. left. reflexivity.
  - intro H. right. apply IH. exact H.
Qed.

Lemma in_nremove {A} k (l : list (N * A)) e : In e (nremove k l) <-> In e l /\ fst e <> k.
Proof.
  unfold nremove. rewrite filter_In. split; intros [H1 H2]; (split; [exact H1|]).
  - intro E. rewrite E, N.eqb_refl in H2. discriminate.
  - apply negb_true_iff. apply N.eqb_neq. intro E. apply H2. symmetry. exact E.
Qed.

(* ------------------------------------------------------------------ the invariant of a concurrent run *)
Record lc_inv (cfg : lcfg) (hb : N) (s : lcstate) : Prop := {
  (* a pending id has not been answered *)
  inv_disj : forall id call c o, In (id, call) (lc_pending s) -> ~ In (id, c, o) (lc_answered s);
  (* only declared operations get onto the link *)
  inv_decl : forall id call, In (id, call) (lc_issued s) -> declared_for cfg call = true;
  (* every frame on the wire carries the id of an answered request, or none *)
  inv_wire : forall x i, In x (lc_wire s) -> frame_id x = Some i -> exists call o, In (i, call, o) (lc_answered s);
  (* the frames of an answered request sit contiguously on the wire, among frames that do not carry its id *)
  inv_contig : forall id call o, In (id, call, o) (lc_answered s) ->
      exists w1 w2, lc_wire s = w1 ++ filter is_wire_frame (fst (via_link cfg hb id call o)) ++ w2 /\
                    (forall x, In x w1 -> frame_id x <> Some id) /\ (forall x, In x w2 -> frame_id x <> Some id) }.

Lemma lc_inv_init cfg hb : lc_inv cfg hb lc_init.
Proof. split; cbn [lc_init lc_pending lc_answered lc_wire lc_issued app map]; intros; contradiction. Qed.

Lemma in_answered_ids s id c o : In (id, c, o) (lc_answered s) -> In id (lc_ids s).
Proof.
  intro H. unfold lc_ids, lc_issued. apply (in_map fst (lc_pending s ++ map fst (lc_answered s)) (id, c)).
  apply in_or_app. right. apply (in_map fst (lc_answered s) (id, c, o)). exact H.
Qed.

Lemma lc_inv_step cfg hb s e : lc_inv cfg hb s -> lc_inv cfg hb (lc_step cfg hb s e).
Proof.
  intros [Hdisj Hdecl Hwire Hcont]. destruct e as [id call|id o]; cbn [lc_step].
  - destruct (lc_closed s || mem id (lc_ids s) || negb (declared_for cfg call)) eqn:C; [split; assumption|].
    apply orb_false_iff in C as [C Hd]. apply orb_false_iff in C as [_ Hm]. apply negb_false_iff in Hd.
    assert (Hfresh : ~ In id (lc_ids s)). { intro H. apply mem_In in H. rewrite H in Hm. discriminate. }
    split; unfold lc_issued in *; cbn [lc_pending lc_answered lc_wire].
    + intros i c' c o Hp Ha. apply in_app_or in Hp as [Hp|[Hp|[]]]; [exact (Hdisj i c' c o Hp Ha)|].
      injection Hp as <- <-. apply Hfresh. exact (in_answered_ids s id c o Ha).
    + intros i c' Hi. apply in_app_or in Hi as [Hi|Hi].
      * apply in_app_or in Hi as [Hi|[Hi|[]]]; [apply (Hdecl i c'); apply in_or_app; left; exact Hi|].
        injection Hi as <- <-. exact Hd.
      * apply (Hdecl i c'). apply in_or_app. right. exact Hi.
    + exact Hwire.
    + exact Hcont.
  - destruct (lc_closed s); [split; assumption|].
    destruct (nlookup id (lc_pending s)) as [call|] eqn:Hl; [|split; assumption].
    apply nlookup_in in Hl. cbn zeta.
    split; unfold lc_issued in *; cbn [lc_pending lc_answered lc_wire].
    + intros i c' c o' Hp Ha. apply in_nremove in Hp as [Hp Hne]. cbn [fst] in Hne.
      apply in_app_or in Ha as [Ha|[Ha|[]]]; [exact (Hdisj i c' c o' Hp Ha)|].
      injection Ha as E _ _. apply Hne. symmetry. exact E.
    + intros i c' Hi. apply in_app_or in Hi as [Hi|Hi].
      * apply in_nremove in Hi as [Hi _]. apply (Hdecl i c'). apply in_or_app. left. exact Hi.
      * rewrite map_app in Hi. apply in_app_or in Hi as [Hi|[Hi|[]]].
        -- apply (Hdecl i c'). apply in_or_app. right. exact Hi.
        -- cbn [fst] in Hi. injection Hi as <- <-. apply (Hdecl id call). apply in_or_app. left. exact Hl.
    + intros x i Hx Hi. apply in_app_or in Hx as [Hx|Hx].
      * destruct (Hwire x i Hx Hi) as (c & o' & Ha). exists c, o'. apply in_or_app. left. exact Ha.
      * rewrite (via_link_own cfg hb id call o x i Hx Hi). exists call, o. apply in_or_app. right. left. reflexivity.
    + intros i c o' Ha. apply in_app_or in Ha as [Ha|[Ha|[]]].
      * destruct (Hcont i c o' Ha) as (w1 & w2 & E & H1 & H2).
        assert (Hne : i <> id). { intro Ei. subst i. exact (Hdisj id call c o' Hl Ha). }
        exists w1, (w2 ++ filter is_wire_frame (fst (via_link cfg hb id call o))).
        split; [rewrite E, <- !app_assoc; reflexivity|]. split; [exact H1|].
        intros x Hx. apply in_app_or in Hx as [Hx|Hx]; [exact (H2 x Hx)|].
        exact (via_link_foreign cfg hb id call o i x Hne Hx).
      * injection Ha as <- <- <-. exists (lc_wire s), []. split; [rewrite app_nil_r; reflexivity|].
        split; [|intros x []].
        intros x Hx Hi. destruct (Hwire x id Hx Hi) as (c & o' & Ha). exact (Hdisj id call c o' Hl Ha).
Qed.

Lemma lc_inv_fold cfg hb evs s : lc_inv cfg hb s -> lc_inv cfg hb (fold_left (lc_step cfg hb) evs s).
Proof. revert s. induction evs as [|e evs IH]; intros s H; cbn [fold_left]; [exact H|]. apply IH, lc_inv_step, H. Qed.

Lemma lc_inv_run cfg hb evs : lc_inv cfg hb (lc_run cfg hb evs).
Proof. apply lc_inv_fold, lc_inv_init. Qed.

(* what the client correlates for an answered request is what it would correlate had the request been alone *)
Lemma lc_reply_alone cfg hb s id call o :
  lc_inv cfg hb s -> In (id, call, o) (lc_answered s) ->
  reply_for id (lc_wire s) = reply_for id (fst (via_link cfg hb id call o)).
Proof.
  intros Hinv Ha. destruct (inv_contig cfg hb s Hinv id call o Ha) as (w1 & w2 & E & H1 & H2).
  rewrite E, (reply_for_skips_foreign id w1 _ w2 H1), (reply_for_foreign id w2 H2), reply_for_wire_frames.
  destruct (reply_for id (fst (via_link cfg hb id call o))); reflexivity.
Qed.

(* ------------------------------------------------------------------ c (MAIN) *)
(* No side condition on the events is needed: duplicate ids are refused by lc_step itself, and id = 0 is harmless
   (a built reply carries `Some id` whatever the number). *)
Theorem lc_concurrent_transparent : forall cfg hb evs id call o,
  let s := lc_run cfg hb evs in
  In (id, call, o) (lc_answered s) -> lc_result cfg s id call = snd (via_link cfg hb id call o).
Proof.
  intros cfg hb evs id call o s Ha. pose proof (lc_inv_run cfg hb evs) as Hinv. fold s in Hinv.
  assert (Hd : declared_for cfg call = true).
  { apply (inv_decl cfg hb s Hinv id call). apply in_or_app. right.
    apply (in_map fst (lc_answered s) (id, call, o)). exact Ha. }
  unfold lc_result. rewrite (lc_reply_alone cfg hb s id call o Hinv Ha). symmetry. apply via_link_snd. exact Hd.
Qed.

(* ------------------------------------------------------------------ d *)
Lemma lc_unanswered_no_reply cfg hb s id :
  lc_inv cfg hb s -> (forall c o, ~ In (id, c, o) (lc_answered s)) -> reply_for id (lc_wire s) = CrFail.
Proof.
  intros Hinv Hna. apply reply_for_foreign. intros x Hx Hi.
  destruct (inv_wire cfg hb s Hinv x id Hx Hi) as (c & o & Ha). exact (Hna c o Ha).
Qed.

Theorem lc_unanswered_fails : forall cfg hb evs id call,
  let s := lc_run cfg hb evs in
  (forall c o, ~ In (id, c, o) (lc_answered s)) -> lc_result cfg s id call = RErr.
Proof.
  intros cfg hb evs id call s Hna. unfold lc_result.
  rewrite (lc_unanswered_no_reply cfg hb s id (lc_inv_run cfg hb evs) Hna). apply map_reply_fail.
Qed.

(* ------------------------------------------------------------------ e *)
(* The client maps the reply to `id` with the call it issued under `id`.  That is the side condition
   `In (id, call) (lc_issued s)`: the request was accepted onto the link for exactly this call (lc_issued lists the
   accepted requests, pending or answered; by lc_ids_nodup below an id occurs there once, so the call is THE call
   recorded for id).  Without it the statement is false: with (7, McFbp alice c1 p) answered MOk, mapping the reply
   with McFbp bob c1 p gives RValid although (7, McFbp bob c1 p, _) was never answered. *)
Lemma lc_issued_answered cfg hb s id call :
  lc_inv cfg hb s -> In (id, call) (lc_issued s) -> lc_result cfg s id call <> RErr ->
  exists o, In (id, call, o) (lc_answered s).
Proof.
  intros Hinv Hi Hr. apply in_app_or in Hi as [Hp|Ha].
  - exfalso. apply Hr. unfold lc_result. rewrite (lc_unanswered_no_reply cfg hb s id Hinv); [apply map_reply_fail|].
    intros c o Ha. exact (inv_disj cfg hb s Hinv id call c o Hp Ha).
  - apply in_map_iff in Ha as ([[i c] o] & E & Ha). cbn [fst] in E. injection E as -> ->. exists o. exact Ha.
Qed.

Theorem lc_fail_closed : forall cfg hb evs id,
  let s := lc_run cfg hb evs in
  (forall f ch p, In (id, McFbp f ch p) (lc_issued s) ->
     outcome_of (lc_result cfg s id (McFbp f ch p)) = MOk ->
     exists o, In (id, McFbp f ch p, o) (lc_answered s) /\ o <> MErr /\ o <> MInvalid /\ forall a, o <> MAltered a) /\
  (forall f ch p a, In (id, McFbp f ch p) (lc_issued s) ->
     outcome_of (lc_result cfg s id (McFbp f ch p)) = MAltered a ->
     In (id, McFbp f ch p, MAltered a) (lc_answered s)) /\
  (forall t u, In (id, McAuth t) (lc_issued s) ->
     outcome_of (lc_result cfg s id (McAuth t)) = MAuthSuccess u ->
     In (id, McAuth t, MAuthSuccess u) (lc_answered s)).
Proof.
  intros cfg hb evs id s. pose proof (lc_inv_run cfg hb evs) as Hinv. fold s in Hinv.
  split; [|split].
  - intros f ch p Hi Ho.
    destruct (lc_issued_answered cfg hb s id _ Hinv Hi) as [o Ha]; [intro E; rewrite E in Ho; discriminate|].
    exists o. split; [exact Ha|]. unfold s in Ha, Ho.
    rewrite (lc_concurrent_transparent cfg hb evs id _ o Ha) in Ho.
    destruct (via_link_fail_closed cfg hb id o) as (_ & H & _). exact (H f ch p Ho).
  - intros f ch p a Hi Ho.
    destruct (lc_issued_answered cfg hb s id _ Hinv Hi) as [o Ha]; [intro E; rewrite E in Ho; discriminate|].
    unfold s in Ha, Ho. pose proof Ho as Ho'.
    rewrite (lc_concurrent_transparent cfg hb evs id _ o Ha) in Ho'.
    destruct (via_link_fail_closed cfg hb id o) as (_ & _ & H). rewrite <- (H f ch p a Ho'). exact Ha.
  - intros t u Hi Ho.
    destruct (lc_issued_answered cfg hb s id _ Hinv Hi) as [o Ha]; [intro E; rewrite E in Ho; discriminate|].
    unfold s in Ha, Ho. pose proof Ho as Ho'.
    rewrite (lc_concurrent_transparent cfg hb evs id _ o Ha) in Ho'.
    destruct (via_link_fail_closed cfg hb id o) as (H & _ & _). rewrite <- (H t u Ho'). exact Ha.
Qed.

(* ------------------------------------------------------------------ ids are unique, a closed link stays silent *)
Lemma lc_closed_is_final cfg hb s e : lc_closed s = true -> lc_step cfg hb s e = s.
Proof. intro H. destruct e; cbn [lc_step]; rewrite H; reflexivity. Qed.

Lemma count_nremove {A} k (l : list (N * A)) i :
  count_occ N.eq_dec (map fst (nremove k l)) i = if N.eq_dec i k then 0%nat else count_occ N.eq_dec (map fst l) i.
Proof.
  induction l as [|[k' v] l IH]; cbn [nremove filter map fst count_occ]; [destruct (N.eq_dec i k); reflexivity|].
  fold (nremove k l). destruct (k =? k') eqn:E; cbn [negb map fst count_occ].
  - apply N.eqb_eq in E. subst k'. rewrite IH. destruct (N.eq_dec i k) as [Ei|Ei]; [reflexivity|].
    destruct (N.eq_dec k i) as [Ek|Ek]; [exfalso; apply Ei; symmetry; exact Ek | reflexivity].
  - apply N.eqb_neq in E. rewrite IH. destruct (N.eq_dec i k) as [Ei|Ei]; [|reflexivity].
    destruct (N.eq_dec k' i) as [Ek|Ek]; [exfalso; apply E; congruence | reflexivity].
Qed.

Lemma lc_ids_nodup_step cfg hb s e : NoDup (lc_ids s) -> NoDup (lc_ids (lc_step cfg hb s e)).
Proof.
  intro Hnd. destruct e as [id call|id o]; cbn [lc_step].
  - destruct (lc_closed s || mem id (lc_ids s) || negb (declared_for cfg call)) eqn:C; [exact Hnd|].
    apply orb_false_iff in C as [C _]. apply orb_false_iff in C as [_ Hm].
    assert (Hfresh : ~ In id (lc_ids s)). { intro H. apply mem_In in H. rewrite H in Hm. discriminate. }
    unfold lc_ids, lc_issued in *. cbn [lc_pending lc_answered].
    rewrite <- app_assoc, map_app. cbn [app map fst].
    apply (NoDup_Add (a := id) (l := map fst (lc_pending s ++ map fst (lc_answered s)))).
    + rewrite map_app. apply Add_app.
    + split; assumption.
  - destruct (lc_closed s); [exact Hnd|].
    destruct (nlookup id (lc_pending s)) as [call|] eqn:Hl; [|exact Hnd].
    apply nlookup_in in Hl. cbn zeta. unfold lc_ids, lc_issued in *. cbn [lc_pending lc_answered].
    rewrite (NoDup_count_occ N.eq_dec) in Hnd |- *. intro i. specialize (Hnd i).
    rewrite map_app, count_occ_app in Hnd. rewrite !map_app, !count_occ_app, count_nremove. cbn [map fst count_occ].
    destruct (N.eq_dec i id) as [Ei|Ei].
    + subst i. destruct (N.eq_dec id id) as [_|Ne]; [|exfalso; apply Ne; reflexivity].
      assert (Hc : (count_occ N.eq_dec (map fst (lc_pending s)) id > 0)%nat).
      { apply count_occ_In. apply (in_map fst (lc_pending s) (id, call)). exact Hl. }
      lia.
    + destruct (N.eq_dec id i) as [Ek|_]; [exfalso; apply Ei; symmetry; exact Ek|]. lia.
Qed.

Theorem lc_ids_nodup cfg hb evs : NoDup (lc_ids (lc_run cfg hb evs)).
Proof.
  unfold lc_run. assert (H0 : NoDup (lc_ids lc_init)) by constructor. revert H0. generalize lc_init.
  induction evs as [|e evs IH]; intros s H; cbn [fold_left]; [exact H|]. apply IH, lc_ids_nodup_step, H.
Qed.

(* hence the call recorded for an id is unique *)
Lemma nodup_fst_functional {A} (l : list (N * A)) k v1 v2 :
  NoDup (map fst l) -> In (k, v1) l -> In (k, v2) l -> v1 = v2.
Proof.
  induction l as [|[k' v'] l IH]; cbn [map fst]; intros Hnd H1 H2; [contradiction|].
  inversion Hnd as [|? ? Hni Hnd']; subst.
  destruct H1 as [H1|H1], H2 as [H2|H2].
  - congruence.
  - injection H1 as -> ->. exfalso. apply Hni. apply (in_map fst l (k, v2)). exact H2.
  - injection H2 as -> ->. exfalso. apply Hni. apply (in_map fst l (k, v1)). exact H1.
  - exact (IH Hnd' H1 H2).
Qed.

Theorem lc_issued_functional cfg hb evs id c1 c2 :
  let s := lc_run cfg hb evs in In (id, c1) (lc_issued s) -> In (id, c2) (lc_issued s) -> c1 = c2.
Proof. intros s H1 H2. exact (nodup_fst_functional (lc_issued s) id c1 c2 (lc_ids_nodup cfg hb evs) H1 H2). Qed.

(* ------------------------------------------------------------------ f: a concrete interleaving *)
Module ConcWitness.
  Definition cfg : lcfg :=
    {| l_secret := []; l_keepalive := 30; l_min_keepalive := 5; l_max_message := 1024; l_max_payload := 65536;
       l_max_inflight := 10; l_max_conns := 4; l_budget := 1048576; l_proto := bs "app/1";
       lop_auth := true; lop_fbp := true; lop_fev := true; lop_spp := true; lop_rpp := true |}.
  Definition alice := bs "alice@localhost".
  Definition bob := bs "bob@localhost".
  Definition c1 := bs "!room@localhost".
  Definition tok := bs "tok".
  Definition u := bs "alice".
  Definition evs : list lev :=
    [LReq 7 (McFbp alice c1 [1; 2; 3]); LReq 8 (McAuth tok); LReq 9 (McFbp bob c1 [4]);
     LAns 9 MInvalid; LAns 7 (MAltered [9; 9]); LAns 8 (MAuthSuccess u)].

  (* replies come back in completion order 9, 7, 8; each request resolves as if it had been alone *)
  Example lc_interleaved_example :
    let s := lc_run cfg 10 evs in
    lc_result cfg s 7 (McFbp alice c1 [1; 2; 3]) = RAltered [9; 9] /\
    lc_result cfg s 8 (McAuth tok) = RAuthSuccess u /\
    lc_result cfg s 9 (McFbp bob c1 [4]) = RInvalid /\
    lc_answered s = [(9, McFbp bob c1 [4], MInvalid); (7, McFbp alice c1 [1; 2; 3], MAltered [9; 9]);
                     (8, McAuth tok, MAuthSuccess u)] /\
    lc_pending s = [] /\ lc_closed s = false /\
    map frame_id (lc_wire s) = [Some 9; Some 7; Some 8].
  Proof. vm_compute. repeat split; reflexivity. Qed.

  (* the hypotheses of lc_fail_closed are satisfiable: the three requests were issued, and acceptance does come out *)
  Example lc_issued_example :
    let s := lc_run cfg 10 evs in
    In (7, McFbp alice c1 [1; 2; 3]) (lc_issued s) /\ In (8, McAuth tok) (lc_issued s) /\
    outcome_of (lc_result cfg s 7 (McFbp alice c1 [1; 2; 3])) = MAltered [9; 9] /\
    outcome_of (lc_result cfg s 8 (McAuth tok)) = MAuthSuccess u.
  Proof. vm_compute. repeat split; auto. Qed.

  (* a modulator failure closes the link (ERROR INTERNAL_SERVER_ERROR without id): the answered request and the one
     still pending both fail, a later answer is not written, a later request is not accepted; the request answered
     before the failure keeps its result *)
  Definition evs_close : list lev :=
    [LReq 1 (McFbp alice c1 [1]); LReq 2 (McFbp bob c1 [2]); LReq 3 (McAuth tok);
     LAns 2 MOk; LAns 1 MErr; LAns 3 (MAuthSuccess u); LReq 4 (McAuth tok)].
  Example lc_close_example :
    let s := lc_run cfg 10 evs_close in
    lc_closed s = true /\ lc_pending s = [(3, McAuth tok)] /\
    lc_result cfg s 1 (McFbp alice c1 [1]) = RErr /\
    lc_result cfg s 2 (McFbp bob c1 [2]) = RValid /\
    lc_result cfg s 3 (McAuth tok) = RErr /\
    lc_result cfg s 4 (McAuth tok) = RErr /\
    map frame_id (lc_wire s) = [Some 2; None].
  Proof. vm_compute. repeat split; reflexivity. Qed.

  (* the side condition of lc_fail_closed is needed: mapping the reply to 2 with a call that was not the one issued *)
  Example lc_wrong_call_example :
    let s := lc_run cfg 10 evs_close in
    outcome_of (lc_result cfg s 2 (McFbp alice c1 [1])) = MOk /\
    (forall o, ~ In (2, McFbp alice c1 [1], o) (lc_answered s)).
  Proof.
    vm_compute. split; [reflexivity|]. intros o [H|[H|[]]]; discriminate.
  Qed.
End ConcWitness.

(* ------------------------------------------------------------------ axioms audit *)
Print Assumptions frames_carry_own_id_or_none.
Print Assumptions reply_for_skips_foreign.
Print Assumptions lc_concurrent_transparent.
Print Assumptions lc_unanswered_fails.
Print Assumptions lc_fail_closed.
Print Assumptions ConcWitness.lc_interleaved_example.
Print Assumptions lc_ids_nodup.
Print Assumptions lc_issued_functional.
