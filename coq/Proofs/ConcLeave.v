(* Interleaved model: one segment of a leave task preserves the invariant. *)
From Coq Require Import List NArith Bool Lia.
From NW Require Import Model.Conc Proofs.ConcDefs.
Import ListNotations.
Open Scope N_scope.

(* ---------- small library ---------- *)
Lemma upd_same {A} (m : N -> A) k v : upd m k v k = v.
Proof. unfold upd. now rewrite N.eqb_refl. Qed.
Lemma upd_other {A} (m : N -> A) k v x : x <> k -> upd m k v x = m x.
Proof. unfold upd. intros H. apply N.eqb_neq in H. now rewrite H. Qed.

Lemma mem_In u l : mem u l = true <-> In u l.
Proof.
  unfold mem. rewrite existsb_exists. split.
  - intros (x & Hx & E). apply N.eqb_eq in E. now subst.
  - intros H. exists u. split; auto. apply N.eqb_refl.
Qed.
Lemma mem_false u l : mem u l = false <-> ~ In u l.
Proof. rewrite <- mem_In. destruct (mem u l); split; congruence. Qed.

Lemma In_del x u l : In x (del u l) <-> In x l /\ x <> u.
Proof. unfold del. rewrite filter_In, negb_true_iff, N.eqb_neq. tauto. Qed.
Lemma NoDup_del u l : NoDup l -> NoDup (del u l).
Proof. apply NoDup_filter. Qed.
Lemma not_In_del u l : ~ In u (del u l).
Proof. rewrite In_del. tauto. Qed.

Lemma isnil_true {A} (l : list A) : isnil l = true <-> l = [].
Proof. destruct l; cbn; split; congruence. Qed.
Lemma isnil_false {A} (l : list A) : isnil l = false <-> l <> [].
Proof. destruct l; cbn; split; congruence. Qed.
Lemma In_nonnil {A} (x : A) l : In x l -> l <> [].
Proof. destruct l; cbn; [tauto|congruence]. Qed.

(* ---------- task lists ---------- *)
Lemma tlookup_In t k l : tlookup t l = Some k -> In (t, k) l.
Proof.
  induction l as [|[a b] l IH]; cbn [tlookup]; [discriminate|].
  destruct (N.eqb_spec t a) as [->|Hne].
  - intros [= ->]. now left.
  - intros H. right. auto.
Qed.

Lemma fst_fun (l : list (tid * task)) t k1 k2 :
  NoDup (map fst l) -> In (t, k1) l -> In (t, k2) l -> k1 = k2.
Proof.
  induction l as [|[a b] l IH]; cbn [map fst In]; [tauto|].
  intros ND H1 H2. inversion ND as [|? ? Hna ND']; subst.
  assert (Hx : forall k', In (t, k') l -> a <> t).
  { intros k' Hin ->. apply Hna. change t with (fst (t, k')). now apply in_map. }
  destruct H1 as [E1|H1], H2 as [E2|H2].
  - congruence.
  - inversion E1; subst. exfalso. now apply (Hx _ H2).
  - inversion E2; subst. exfalso. now apply (Hx _ H1).
  - auto.
Qed.

Lemma In_tremove t t' k' l : In (t', k') (tremove t l) <-> In (t', k') l /\ t' <> t.
Proof. unfold tremove. rewrite filter_In. cbn [fst]. rewrite negb_true_iff, N.eqb_neq. tauto. Qed.

Lemma map_fst_tset t v l : map fst (tset t v l) = map fst l.
Proof.
  induction l as [|[a b] l IH]; cbn [tset]; [reflexivity|].
  destruct (t =? a); cbn [map fst]; [reflexivity|]. now rewrite IH.
Qed.

Lemma NoDup_tremove t l : NoDup (map fst l) -> NoDup (map fst (tremove t l)).
Proof.
  induction l as [|[a b] l IH]; cbn [tremove filter map fst]; [auto|].
  intros ND. inversion ND as [|? ? Hna ND']; subst.
  destruct (negb (a =? t)); cbn [map fst]; auto.
  constructor; auto. intros Hin. apply Hna.
  apply in_map_iff in Hin. destruct Hin as ([x y] & E & Hin). cbn in E. subst.
  apply In_tremove in Hin. destruct Hin as [Hin _].
  change a with (fst (a, y)). now apply in_map.
Qed.

Lemma In_tset t v l t' k' : NoDup (map fst l) -> In t (map fst l) ->
  (In (t', k') (tset t v l) <-> (t' = t /\ k' = v) \/ (t' <> t /\ In (t', k') l)).
Proof.
  induction l as [|[a b] l IH]; cbn [tset map fst In]; [tauto|].
  intros ND Hin. inversion ND as [|? ? Hna ND']; subst.
  destruct (N.eqb_spec t a) as [->|Hne].
  - cbn [In]. split.
    + intros [E|H]; [inversion E; subst; now left|].
      right. split; [|now right]. intros ->. apply Hna.
      change a with (fst (a, k')). now apply in_map.
    + intros [[-> ->]|[Hne [E|H]]]; [now left| |now right].
      inversion E; subst. congruence.
  - destruct Hin as [E|Hin]; [congruence|]. cbn [In]. rewrite (IH ND' Hin). split.
    + intros [E|[H|H]]; [inversion E; subst; right; split; auto| now left | right; tauto].
    + intros [H|[H1 [E|H2]]]; [right; now left | now left | right; right; auto].
Qed.

(* ---------- the next clean-up round ---------- *)
Lemma pick_next_spec hint l ch r :
  NoDup l -> l <> [] -> pick_next hint l = (ch, r) ->
  NoDup r /\ forall x, In x l -> x = ch \/ In x r.
Proof.
  unfold pick_next. intros ND Hne. destruct (mem hint l) eqn:E.
  - intros [= <- <-]. split; [now apply NoDup_del|].
    intros x Hx. destruct (N.eq_dec x hint); [now left|right]. apply In_del. auto.
  - destruct l as [|a l]; [congruence|]. intros [= <- <-]. inversion ND; subst. split; auto.
    intros x [->|Hx]; auto.
Qed.

Definition next_round (k : task) (hint : N) : task :=
  let '(ch, r) := pick_next hint (t_rest k) in
  {| t_conn := None; t_me := t_me k; t_rest := r; t_pc := PStart (RLeave ch None 0) |}.

Definition new_task (k : task) (p : pc) (hint : N) : option task :=
  match p with
  | PDone => match t_conn k, t_rest k with
             | None, _ :: _ => Some (next_round k hint)
             | _, _ => None
             end
  | _ => Some (with_pc k p)
  end.

Lemma settle_eq t k p hint l :
  settle t k p hint l = match new_task k p hint with Some v => tset t v l | None => tremove t l end.
Proof.
  unfold settle, new_task. destruct p; try reflexivity.
  destruct (t_conn k); [reflexivity|]. destruct (t_rest k) eqn:E; [reflexivity|].
  unfold next_round. rewrite E. destruct (pick_next hint (c :: l0)). reflexivity.
Qed.

Lemma next_round_spec k hint :
  NoDup (t_rest k) -> t_rest k <> [] ->
  t_conn (next_round k hint) = None /\ t_me (next_round k hint) = t_me k /\
  NoDup (t_rest (next_round k hint)) /\
  (exists ch, t_pc (next_round k hint) = PStart (RLeave ch None 0)) /\
  forall x, In x (t_rest k) ->
    t_pc (next_round k hint) = PStart (RLeave x None 0) \/ In x (t_rest (next_round k hint)).
Proof.
  intros ND Hne. unfold next_round. destruct (pick_next hint (t_rest k)) as [ch r] eqn:E.
  destruct (pick_next_spec _ _ _ _ ND Hne E) as [H1 H2]. cbn.
  repeat split; auto.
  - now exists ch.
  - intros x Hx. destruct (H2 x Hx) as [->|H]; auto.
Qed.

Section Settle.
  Variables (t : tid) (k : task) (p : pc) (hint : N) (l : list (tid * task)).
  Hypothesis ND : NoDup (map fst l).
  Hypothesis Hk : In (t, k) l.

  Lemma key_in : In t (map fst l).
  Proof. change t with (fst (t, k)). now apply in_map. Qed.

  Lemma settle_other t' k' : t' <> t -> (In (t', k') (settle t k p hint l) <-> In (t', k') l).
  Proof.
    intros Hne. rewrite settle_eq. destruct (new_task k p hint).
    - rewrite (In_tset _ _ _ _ _ ND key_in). tauto.
    - rewrite In_tremove. tauto.
  Qed.

  Lemma settle_self k' : In (t, k') (settle t k p hint l) <-> new_task k p hint = Some k'.
  Proof.
    rewrite settle_eq. destruct (new_task k p hint).
    - rewrite (In_tset _ _ _ _ _ ND key_in). split.
      + intros [[_ ->]|[H _]]; [reflexivity|congruence].
      + intros [= ->]. now left.
    - rewrite In_tremove. split; [tauto|discriminate].
  Qed.

  Lemma settle_nodup : NoDup (map fst (settle t k p hint l)).
  Proof.
    rewrite settle_eq. destruct (new_task k p hint).
    - now rewrite map_fst_tset.
    - now apply NoDup_tremove.
  Qed.
End Settle.

Lemma new_task_pc k p hint k'' :
  new_task k p hint = Some k'' -> t_pc k'' = p \/ exists ch, t_pc k'' = PStart (RLeave ch None 0).
Proof.
  unfold new_task. destruct p; try (intros [= <-]; left; reflexivity).
  destruct (t_conn k); [discriminate|]. destruct (t_rest k) eqn:E; [discriminate|].
  intros [= <-]. right. unfold next_round. destruct (pick_next hint (t_rest k)). cbn. eauto.
Qed.

(* the clean-up task keeps covering what it covered, unless its round has just ended *)
Lemma new_task_covers k p hint u ch o :
  t_conn k = None -> t_me k = u -> NoDup (t_rest k) ->
  In ch (t_rest k) \/ round_for (t_pc k) u ch o ->
  (round_for (t_pc k) u ch o -> match p with PDone => False | _ => round_for p u ch o end) ->
  exists k'', new_task k p hint = Some k'' /\ t_conn k'' = None /\ t_me k'' = u /\
              (In ch (t_rest k'') \/ round_for (t_pc k'') u ch o).
Proof.
  intros Hc Hu ND Hcov Hr.
  assert (Hwp : p <> PDone -> (In ch (t_rest k) \/ round_for p u ch o) ->
          exists k'', new_task k p hint = Some k'' /\ t_conn k'' = None /\ t_me k'' = u /\
              (In ch (t_rest k'') \/ round_for (t_pc k'') u ch o)).
  { intros Hp H. exists (with_pc k p). split; [destruct p; try reflexivity; congruence|].
    cbn. auto. }
  destruct Hcov as [Hin|Hround].
  - destruct p; try (apply Hwp; [discriminate|now left]).
    assert (Hne : t_rest k <> []) by (eapply In_nonnil; eauto).
    destruct (next_round_spec k hint ND Hne) as (A & B & _ & _ & D).
    exists (next_round k hint). split.
    { unfold new_task. rewrite Hc. destruct (t_rest k); [congruence|reflexivity]. }
    repeat split; auto; try congruence.
    destruct (D _ Hin) as [H|H]; [right|now left].
    left. eauto.
  - specialize (Hr Hround). destruct p; try (apply Hwp; [discriminate|now right]). destruct Hr.
Qed.

Lemma covered_settle s t k p hint g' u ch o :
  NoDup (map fst (tasks s)) -> In (t, k) (tasks s) ->
  covered s u ch o ->
  (t_conn k = None -> t_me k = u -> In ch (t_rest k) \/ round_for (t_pc k) u ch o ->
   exists k'', new_task k p hint = Some k'' /\ t_conn k'' = None /\ t_me k'' = u /\
               (In ch (t_rest k'') \/ round_for (t_pc k'') u ch o)) ->
  covered {| cg := g'; tasks := settle t k p hint (tasks s); next_tid := next_tid s |} u ch o.
Proof.
  intros ND Hk (t' & k' & Hin & Hc & Hu & Hcov) Hnew. unfold covered. cbn [tasks].
  destruct (N.eq_dec t' t) as [->|Hne].
  - assert (k' = k) by (eapply fst_fun; eauto). subst k'.
    destruct (Hnew Hc Hu Hcov) as (k'' & E & A & B & C).
    exists t, k''. split; [|auto]. now apply settle_self.
  - exists t', k'. split; [|auto]. now apply settle_other.
Qed.

(* ---------- tasks that do not run ---------- *)
Lemma task_ok_first g t k :
  task_ok g t k ->
  match t_conn k with Some c => cuser g c = Some (t_me k) /\ t_rest k = [] | None => NoDup (t_rest k) end.
Proof. unfold task_ok. intros [H _]. destruct (t_conn k); tauto. Qed.

Lemma task_ok_other g g' t' k' :
  task_ok g t' k' ->
  cuser g' = cuser g -> next_oid g' = next_oid g ->
  (forall c o', cmap g' c = Some o' -> cmap g c = Some o') ->
  (forall o', wl g o' = Some t' ->
     objs g' o' = objs g o' /\ wl g' o' = Some t' /\ forall c, cmap g c = Some o' -> cmap g' c = Some o') ->
  task_ok g' t' k'.
Proof.
  unfold task_ok. intros [H1 H2] Hcu Hnx Hcm Hl. split.
  { destruct (t_conn k'); [rewrite Hcu|]; exact H1. }
  destruct (t_pc k'); auto;
    try (rewrite Hnx; destruct H2 as [A B]; split; now auto).
  - destruct H2 as (A & B & C & D). destruct (Hl _ C) as (E1 & E2 & E3). rewrite E1. auto.
  - destruct H2 as (A & B & C & D). destruct (Hl _ C) as (E1 & E2 & E3). rewrite E1. auto.
  - destruct H2 as (A & C). destruct (Hl _ C) as (E1 & E2 & E3). auto.
Qed.

(* ---------- the clauses that speak about the task list ---------- *)
Section TaskPart.
  Variables (s : cstate) (t : tid) (k : task) (g' : gst) (p' : pc) (hint : N).
  Hypothesis HI : CInv s.
  Hypothesis Hk : In (t, k) (tasks s).
  Let s' := {| cg := g'; tasks := settle t k p' hint (tasks s); next_tid := next_tid s |}.

  Hypothesis Hcm : forall c o', cmap g' c = Some o' -> cmap (cg s) c = Some o'.
  Hypothesis Hmem : forall o' u, In u (members (objs g' o')) -> In u (members (objs (cg s) o')).
  Hypothesis Hlisted : forall u ch' o', cmap g' ch' = Some o' -> In u (members (objs g' o')) ->
                                        In ch' (idx (cg s) u) -> In ch' (idx g' u).
  Hypothesis Hreg : reg g' = reg (cg s).
  Hypothesis Hround : forall u ch' o', cmap g' ch' = Some o' -> In u (members (objs g' o')) ->
      t_conn k = None -> t_me k = u -> round_for (t_pc k) u ch' o' ->
      match p' with PDone => False | _ => round_for p' u ch' o' end.
  Hypothesis Hw_other : forall o' t', t' <> t -> wl g' o' = Some t' -> wl (cg s) o' = Some t'.
  Hypothesis Hw_t : forall o', wl g' o' = Some t ->
      exists k'', new_task k p' hint = Some k'' /\ holds (t_pc k'') = Some o'.
  Hypothesis Hobj_other : forall o' t', t' <> t -> wl (cg s) o' = Some t' -> objs g' o' = objs (cg s) o'.
  Hypothesis Hother : forall t' k', t' <> t -> In (t', k') (tasks s) -> task_ok g' t' k'.
  Hypothesis Hnew : forall k'', new_task k p' hint = Some k'' -> task_ok g' t k''.
  Hypothesis Hp' : forall ch o c n id, p' <> PJoinNotify ch o c n id.

  Let ND : NoDup (map fst (tasks s)) := proj1 (i_tids s HI).

  Lemma tp_cover u ch' o' :
    cmap g' ch' = Some o' -> In u (members (objs g' o')) -> covered s u ch' o' -> covered s' u ch' o'.
  Proof.
    intros Hc Hu Hcov. apply covered_settle; auto.
    intros Hconn Hme Hcv. apply new_task_covers; auto.
    - pose proof (task_ok_first _ _ _ (i_tasks s HI _ _ Hk)) as H. now rewrite Hconn in H.
    - intros Hr. eapply Hround; eauto.
  Qed.

  Lemma tp_member_listed u ch' o' :
    cmap g' ch' = Some o' -> In u (members (objs g' o')) -> is_listed g' u ch' \/ covered s' u ch' o'.
  Proof.
    intros Hc Hu. destruct (i_member_listed s HI u ch' o' (Hcm _ _ Hc) (Hmem _ _ Hu)) as [H|H].
    - left. unfold is_listed in *. eauto.
    - right. now apply tp_cover.
  Qed.

  Lemma tp_member_connected u ch' o' :
    cmap g' ch' = Some o' -> In u (members (objs g' o')) -> reg g' u <> [] \/ covered s' u ch' o'.
  Proof.
    intros Hc Hu. destruct (i_member_connected s HI u ch' o' (Hcm _ _ Hc) (Hmem _ _ Hu)) as [H|H].
    - left. now rewrite Hreg.
    - right. now apply tp_cover.
  Qed.

  Lemma tp_in t' k' : In (t', k') (tasks s') ->
    (t' <> t /\ In (t', k') (tasks s)) \/ (t' = t /\ new_task k p' hint = Some k').
  Proof.
    cbn [tasks s']. intros H. destruct (N.eq_dec t' t) as [->|Hne].
    - right. split; auto. now apply (settle_self t k p' hint (tasks s) ND Hk).
    - left. split; auto. now apply (settle_other t k p' hint (tasks s) ND Hk) in H.
  Qed.

  Lemma tp_tids : NoDup (map fst (tasks s')) /\ forall t' k', In (t', k') (tasks s') -> t' < next_tid s'.
  Proof.
    split; [now apply settle_nodup|]. intros t' k' H. cbn [next_tid s'].
    destruct (tp_in _ _ H) as [[_ H1]|[-> _]]; eapply (proj2 (i_tids s HI)); eauto.
  Qed.

  Lemma tp_lock_holder o' t' :
    wl g' o' = Some t' -> exists k', In (t', k') (tasks s') /\ holds (t_pc k') = Some o'.
  Proof.
    intros H. cbn [tasks s']. destruct (N.eq_dec t' t) as [->|Hne].
    - destruct (Hw_t _ H) as (k'' & E & Hh). exists k''. split; auto.
      now apply (settle_self t k p' hint (tasks s) ND Hk).
    - destruct (i_lock_holder s HI _ _ (Hw_other _ _ Hne H)) as (k' & Hin & Hh).
      exists k'. split; auto. now apply (settle_other t k p' hint (tasks s) ND Hk).
  Qed.

  Lemma tp_tasks t' k' : In (t', k') (tasks s') -> task_ok g' t' k'.
  Proof. intros H. destruct (tp_in _ _ H) as [[H1 H2]|[-> H2]]; auto. Qed.

  Lemma tp_join_guest t' k' ch o n id :
    In (t', k') (tasks s') -> t_pc k' = PJoinNotify ch o false n id -> is_owner (objs g' o) n = false.
  Proof.
    intros H Hpc. destruct (tp_in _ _ H) as [[H1 H2]|[-> H2]].
    - pose proof (i_tasks s HI _ _ H2) as Hok. destruct Hok as [_ Hok]. rewrite Hpc in Hok.
      destruct Hok as (_ & _ & Hw & _). rewrite (Hobj_other _ _ H1 Hw).
      eapply (i_join_guest s HI); eauto.
    - exfalso. destruct (new_task_pc _ _ _ _ H2) as [E|[c E]]; rewrite Hpc in E.
      + symmetry in E. now apply Hp' in E.
      + discriminate.
  Qed.
End TaskPart.

(* ---------- a segment that changes nothing but (possibly) the lock table ---------- *)
Section Light.
  Variables (s : cstate) (t : tid) (k : task) (g' : gst) (p' : pc) (hint : N).
  Hypothesis HI : CInv s.
  Hypothesis Hk : In (t, k) (tasks s).
  Hypothesis Hob : objs g' = objs (cg s).
  Hypothesis Hcm : cmap g' = cmap (cg s).
  Hypothesis Hidx : idx g' = idx (cg s).
  Hypothesis Hreg : reg g' = reg (cg s).
  Hypothesis Hcu : cuser g' = cuser (cg s).
  Hypothesis Hnx : next_oid g' = next_oid (cg s).
  Hypothesis Hw_fresh : forall o', next_oid (cg s) <= o' -> wl g' o' = None.
  Hypothesis Hw_other : forall o' t', t' <> t -> (wl g' o' = Some t' <-> wl (cg s) o' = Some t').
  Hypothesis Hw_t : forall o', wl g' o' = Some t ->
      exists k'', new_task k p' hint = Some k'' /\ holds (t_pc k'') = Some o'.
  Hypothesis Hround : forall u ch' o', cmap (cg s) ch' = Some o' -> In u (members (objs (cg s) o')) ->
      t_conn k = None -> t_me k = u -> round_for (t_pc k) u ch' o' ->
      match p' with PDone => False | _ => round_for p' u ch' o' end.
  Hypothesis Hnew : forall k'', new_task k p' hint = Some k'' -> task_ok g' t k''.
  Hypothesis Hp' : forall ch o c n id, p' <> PJoinNotify ch o c n id.

  Lemma light_inv : CInv {| cg := g'; tasks := settle t k p' hint (tasks s); next_tid := next_tid s |}.
  Proof.
    assert (A1 : forall c o', cmap g' c = Some o' -> cmap (cg s) c = Some o') by (now rewrite Hcm).
    assert (A2 : forall o' u, In u (members (objs g' o')) -> In u (members (objs (cg s) o'))) by (now rewrite Hob).
    assert (A3 : forall u ch' o', cmap g' ch' = Some o' -> In u (members (objs g' o')) ->
                                  In ch' (idx (cg s) u) -> In ch' (idx g' u)) by (now rewrite Hidx).
    assert (A4 : forall u ch' o', cmap g' ch' = Some o' -> In u (members (objs g' o')) ->
      t_conn k = None -> t_me k = u -> round_for (t_pc k) u ch' o' ->
      match p' with PDone => False | _ => round_for p' u ch' o' end) by (rewrite Hcm, Hob; exact Hround).
    assert (A5 : forall o' t', t' <> t -> wl g' o' = Some t' -> wl (cg s) o' = Some t')
      by (intros o' t' H; now apply Hw_other).
    assert (A6 : forall o' t', t' <> t -> wl (cg s) o' = Some t' -> objs g' o' = objs (cg s) o')
      by (intros; now rewrite Hob).
    assert (A7 : forall t' k', t' <> t -> In (t', k') (tasks s) -> task_ok g' t' k').
    { intros t' k' Hne Hin. apply (task_ok_other (cg s)); auto.
      - now apply (i_tasks s HI).
      - intros o' Hw. rewrite Hob, Hcm. repeat split; auto. now apply Hw_other. }
    constructor; cbn [cg].
    - intros o' H. rewrite Hnx in H. rewrite Hob, Hcm. destruct (i_fresh s HI o' H) as (A & B & C). auto.
    - rewrite Hcm. apply HI.
    - rewrite Hcm, Hob. apply HI.
    - rewrite Hcm, Hob. apply HI.
    - rewrite Hcm, Hob. apply HI.
    - rewrite Hob. apply HI.
    - rewrite Hob. apply HI.
    - rewrite Hidx. apply HI.
    - rewrite Hreg. apply HI.
    - rewrite Hreg, Hcu. apply HI.
    - unfold is_listed, is_member. rewrite Hidx, Hcm, Hob. apply (i_listed_member s HI).
    - apply tp_member_listed; assumption.
    - apply tp_member_connected; assumption.
    - apply tp_tids; assumption.
    - apply tp_lock_holder; assumption.
    - apply tp_tasks; assumption.
    - apply tp_join_guest; assumption.
  Qed.
End Light.

(* ---------- the segment that takes n out of the object o mapped under ch ---------- *)
Section Heavy.
  Variables (s : cstate) (t : tid) (k : task) (g' : gst) (p' : pc) (hint : N).
  Variables (ch : chan) (o : oid) (n : user) (um : bool) (x : option tid).
  Hypothesis HI : CInv s.
  Hypothesis Hk : In (t, k) (tasks s).
  Hypothesis Hch : cmap (cg s) ch = Some o.
  Hypothesis Hn : In n (members (objs (cg s) o)).
  Hypothesis Hlk : wl (cg s) o = None \/ wl (cg s) o = Some t.
  Hypothesis Hholds : forall o', holds (t_pc k) = Some o' -> o' = o.
  Hypothesis Hme : t_conn k = None -> n = t_me k.
  Hypothesis Hrd : forall u ch' o', round_for (t_pc k) u ch' o' -> ch' = ch.
  Hypothesis Ho1 : members (objs g' o) = del n (members (objs (cg s) o)).
  Hypothesis Ho2 : forall o', o' <> o -> objs g' o' = objs (cg s) o'.
  Hypothesis Htg : targets (objs g' o) = filter (allowed (racl (objs g' o))) (members (objs g' o)).
  Hypothesis Hcm : forall c, cmap g' c = if um then upd (cmap (cg s)) ch None c else cmap (cg s) c.
  Hypothesis Hidx : forall u, idx g' u = upd (idx (cg s)) n (del ch (idx (cg s) n)) u.
  Hypothesis Hreg : reg g' = reg (cg s).
  Hypothesis Hcu : cuser g' = cuser (cg s).
  Hypothesis Hnx : next_oid g' = next_oid (cg s).
  Hypothesis Hwl : forall o', wl g' o' = upd (wl (cg s)) o x o'.
  Hypothesis Hum : um = true -> members (objs g' o) = [].
  Hypothesis Hown : um = false -> exists w, owner (objs g' o) = Some w /\ In w (members (objs g' o)).
  Hypothesis Hx : (x = None /\ p' = PDone) \/
                  (x = Some t /\ um = false /\ exists ok1 id, p' = PLeaveN2 ch o ok1 id).

  Let F1 : forall c o', cmap g' c = Some o' -> cmap (cg s) c = Some o'.
  Proof.
    intros c o'. rewrite Hcm. destruct um; auto.
    destruct (N.eq_dec c ch) as [->|Hne]; [rewrite upd_same; discriminate|now rewrite upd_other].
  Qed.
  Let F2 : forall c o', cmap (cg s) c = Some o' -> o' <> o -> cmap g' c = Some o'.
  Proof.
    intros c o' H Hne. rewrite Hcm. destruct um; auto. rewrite upd_other; auto. congruence.
  Qed.
  Let F3 : um = false -> forall c, cmap g' c = cmap (cg s) c.
  Proof. intros -> c. now rewrite Hcm. Qed.
  Let F4 : forall c, cmap g' c = Some o -> c = ch /\ um = false.
  Proof.
    intros c H. assert (c = ch) by (eapply (i_inj s HI); eauto). subst c. split; auto.
    rewrite Hcm in H. destruct um; auto. rewrite upd_same in H. discriminate.
  Qed.
  Let F5 : forall o' u, In u (members (objs g' o')) -> In u (members (objs (cg s) o')).
  Proof.
    intros o' u. destruct (N.eq_dec o' o) as [->|Hne].
    - rewrite Ho1, In_del. tauto.
    - now rewrite Ho2.
  Qed.
  Let F6 : o < next_oid (cg s).
  Proof.
    destruct (N.lt_ge_cases o (next_oid (cg s))) as [H|H]; auto.
    destruct (i_fresh s HI o H) as (_ & _ & C). now destruct (C ch).
  Qed.
  Let F7 : forall u, In u (members (objs g' o)) -> um = false.
  Proof. intros u H. destruct um; auto. rewrite Hum in H; auto. destruct H. Qed.
  Let F8 : forall o' t', t' <> t -> wl (cg s) o' = Some t' -> o' <> o.
  Proof. intros o' t' Hne H ->. destruct Hlk; congruence. Qed.

  Lemma heavy_inv : CInv {| cg := g'; tasks := settle t k p' hint (tasks s); next_tid := next_tid s |}.
  Proof.
    assert (A3 : forall u ch' o', cmap g' ch' = Some o' -> In u (members (objs g' o')) ->
                                  In ch' (idx (cg s) u) -> In ch' (idx g' u)).
    { intros u ch' o' Hc Hu Hin. rewrite Hidx. destruct (N.eq_dec u n) as [->|Hne].
      - rewrite upd_same. apply In_del. split; auto. intros ->.
        apply F1 in Hc. rewrite Hch in Hc. inversion Hc; subst o'.
        rewrite Ho1 in Hu. now apply not_In_del in Hu.
      - now rewrite upd_other. }
    assert (A4 : forall u ch' o', cmap g' ch' = Some o' -> In u (members (objs g' o')) ->
      t_conn k = None -> t_me k = u -> round_for (t_pc k) u ch' o' ->
      match p' with PDone => False | _ => round_for p' u ch' o' end).
    { intros u ch' o' Hc Hu Hconn Hu' Hr. exfalso.
      apply Hrd in Hr. subst ch'. apply F1 in Hc. rewrite Hch in Hc. inversion Hc; subst o'.
      rewrite <- Hu', <- (Hme Hconn), Ho1 in Hu. now apply not_In_del in Hu. }
    assert (A5 : forall o' t', t' <> t -> wl g' o' = Some t' -> wl (cg s) o' = Some t').
    { intros o' t' Hne. rewrite Hwl. destruct (N.eq_dec o' o) as [->|Hno].
      - rewrite upd_same. destruct Hx as [[-> _]|[-> _]]; congruence.
      - now rewrite upd_other. }
    assert (A6 : forall o' t', t' <> t -> wl (cg s) o' = Some t' -> objs g' o' = objs (cg s) o').
    { intros o' t' Hne H. apply Ho2. eapply F8; eauto. }
    assert (A7 : forall t' k', t' <> t -> In (t', k') (tasks s) -> task_ok g' t' k').
    { intros t' k' Hne Hin. apply (task_ok_other (cg s)); auto.
      - now apply (i_tasks s HI).
      - intros o' Hw. pose proof (F8 _ _ Hne Hw) as Hno. repeat split.
        + now apply Ho2.
        + rewrite Hwl. now rewrite upd_other.
        + intros c Hc. now apply F2. }
    assert (A8 : forall o', wl g' o' = Some t ->
      exists k'', new_task k p' hint = Some k'' /\ holds (t_pc k'') = Some o').
    { intros o'. rewrite Hwl. destruct (N.eq_dec o' o) as [->|Hno].
      - rewrite upd_same. destruct Hx as [[-> _]|(-> & _ & ok1 & id & ->)]; [discriminate|].
        intros _. exists (with_pc k (PLeaveN2 ch o ok1 id)). split; reflexivity.
      - rewrite upd_other by auto. intros H.
        destruct (i_lock_holder s HI _ _ H) as (k'' & Hin & Hh).
        assert (k'' = k) by (eapply fst_fun; eauto; apply (i_tids s HI)). subst k''.
        apply Hholds in Hh. congruence. }
    assert (A9 : forall k'', new_task k p' hint = Some k'' -> task_ok g' t k'').
    { intros k'' E. pose proof (task_ok_first _ _ _ (i_tasks s HI _ _ Hk)) as Hf.
      destruct Hx as [[_ ->]|(-> & Eum & ok1 & id & ->)].
      - unfold new_task in E. destruct (t_conn k) eqn:Ec; [discriminate|].
        destruct (t_rest k) eqn:Er; [discriminate|]. inversion E; subst k''.
        assert (Hne : t_rest k <> []) by (rewrite Er; discriminate).
        rewrite <- Er in Hf.
        destruct (next_round_spec k hint Hf Hne) as (B1 & B2 & B3 & (c' & B4) & _).
        unfold task_ok. rewrite B1, B4. auto.
      - inversion E; subst k''. unfold task_ok. cbn [with_pc t_conn t_me t_rest t_pc].
        split.
        + destruct (t_conn k); [now rewrite Hcu|auto].
        + split; [rewrite F3; auto|]. rewrite Hwl. now rewrite upd_same. }
    assert (A10 : forall c o0 c0 n0 id, p' <> PJoinNotify c o0 c0 n0 id).
    { intros. destruct Hx as [[_ ->]|(_ & _ & ok1 & id' & ->)]; discriminate. }
    constructor; cbn [cg].
    - (* i_fresh *)
      intros o' H. rewrite Hnx in H. assert (o' <> o) by lia.
      destruct (i_fresh s HI o' H) as (A & B & C). rewrite Ho2 by auto. repeat split; auto.
      + rewrite Hwl. now rewrite upd_other.
      + intros c Hc. apply F1 in Hc. now apply (C c).
    - (* i_inj *)
      intros c1 c2 o' H1 H2. apply F1 in H1, H2. eapply (i_inj s HI); eauto.
    - (* i_unmapped_empty *)
      intros o' H. destruct (N.eq_dec o' o) as [->|Hne].
      + destruct um eqn:E; auto. exfalso. apply (H ch). now rewrite F3.
      + rewrite Ho2 by auto. apply (i_unmapped_empty s HI). intros c Hc. apply (H c). now apply F2.
    - (* i_mapped_nonempty *)
      intros c o' Hc. destruct (N.eq_dec o' o) as [->|Hne].
      + apply F4 in Hc. destruct Hc as [_ E]. destruct (Hown E) as (w & _ & Hw).
        eapply In_nonnil; eauto.
      + rewrite Ho2 by auto. apply F1 in Hc. eapply (i_mapped_nonempty s HI); eauto.
    - (* i_owner *)
      intros c o' Hc. destruct (N.eq_dec o' o) as [->|Hne].
      + apply F4 in Hc. destruct Hc as [_ E]. auto.
      + rewrite Ho2 by auto. apply F1 in Hc. eapply (i_owner s HI); eauto.
    - (* i_nodup_members *)
      intros o'. destruct (N.eq_dec o' o) as [->|Hne].
      + rewrite Ho1. apply NoDup_del, (i_nodup_members s HI).
      + rewrite Ho2 by auto. apply (i_nodup_members s HI).
    - (* i_targets *)
      intros o'. destruct (N.eq_dec o' o) as [->|Hne]; auto.
      rewrite Ho2 by auto. apply (i_targets s HI).
    - (* i_nodup_idx *)
      intros u. rewrite Hidx. destruct (N.eq_dec u n) as [->|Hne].
      + rewrite upd_same. apply NoDup_del, (i_nodup_idx s HI).
      + rewrite upd_other by auto. apply (i_nodup_idx s HI).
    - rewrite Hreg. apply HI.
    - rewrite Hreg, Hcu. apply HI.
    - (* i_listed_member *)
      unfold is_listed, is_member. intros u c. rewrite Hidx.
      assert (Hgen : In c (idx (cg s) u) -> (u = n -> c <> ch) ->
                     exists o0, cmap g' c = Some o0 /\ In u (members (objs g' o0))).
      { intros Hin Hc. destruct (i_listed_member s HI u c Hin) as (o' & Hm & Hu).
        destruct (N.eq_dec o' o) as [->|Hne].
        - assert (c = ch) by (eapply (i_inj s HI); eauto). subst c.
          assert (Hu' : In u (members (objs g' o))).
          { rewrite Ho1. apply In_del. split; auto. intros ->. now apply Hc. }
          exists o. split; auto. rewrite F3; eauto.
        - exists o'. split; [now apply F2|]. now rewrite Ho2. }
      destruct (N.eq_dec u n) as [->|Hne].
      + rewrite upd_same, In_del. intros [H1 H2]. apply Hgen; auto.
      + rewrite upd_other by auto. intros H. apply Hgen; auto.
    - apply tp_member_listed; assumption.
    - apply tp_member_connected; assumption.
    - apply tp_tids; assumption.
    - apply tp_lock_holder; assumption.
    - apply tp_tasks; assumption.
    - apply tp_join_guest; assumption.
  Qed.
End Heavy.

(* ---------- instances ---------- *)
Lemma next_round_ok g g' t k hint k'' :
  task_ok g t k -> new_task k PDone hint = Some k'' -> task_ok g' t k''.
Proof.
  intros Hok E. pose proof (task_ok_first _ _ _ Hok) as Hf.
  unfold new_task in E. destruct (t_conn k) eqn:Ec; [discriminate|].
  destruct (t_rest k) eqn:Er; [discriminate|]. inversion E; subst k''.
  assert (Hne : t_rest k <> []) by (rewrite Er; discriminate).
  rewrite <- Er in Hf.
  destruct (next_round_spec k hint Hf Hne) as (B1 & B2 & B3 & (c' & B4) & _).
  unfold task_ok. rewrite B1, B4. auto.
Qed.

Lemma with_pc_first g g' t k p :
  task_ok g t k -> cuser g' = cuser g ->
  (t_conn k = None -> match p with
                      | PStart (RLeave _ None _) | PLeaveWait _ _ None _ | PLeaveN2 _ _ _ _ => True
                      | PLeaveN1 _ _ n _ _ => n = t_me k
                      | _ => False
                      end) ->
  match t_conn (with_pc k p) with
  | Some c => cuser g' c = Some (t_me (with_pc k p)) /\ t_rest (with_pc k p) = []
  | None => NoDup (t_rest (with_pc k p)) /\
            match t_pc (with_pc k p) with
            | PStart (RLeave _ None _) | PLeaveWait _ _ None _ | PLeaveN2 _ _ _ _ => True
            | PLeaveN1 _ _ n _ _ => n = t_me (with_pc k p)
            | _ => False
            end
  end.
Proof.
  intros Hok Hcu Hp. pose proof (task_ok_first _ _ _ Hok) as Hf.
  cbn [with_pc t_conn t_me t_rest t_pc]. destruct (t_conn k) eqn:E.
  - now rewrite Hcu.
  - split; [exact Hf|now apply Hp].
Qed.

(* the state is untouched *)
Lemma same_inv s t k p' hint :
  CInv s -> In (t, k) (tasks s) -> holds (t_pc k) = None ->
  (forall u ch' o', cmap (cg s) ch' = Some o' -> In u (members (objs (cg s) o')) ->
      t_conn k = None -> t_me k = u -> round_for (t_pc k) u ch' o' ->
      match p' with PDone => False | _ => round_for p' u ch' o' end) ->
  (forall k'', new_task k p' hint = Some k'' -> task_ok (cg s) t k'') ->
  (forall ch o c n id, p' <> PJoinNotify ch o c n id) ->
  CInv {| cg := cg s; tasks := settle t k p' hint (tasks s); next_tid := next_tid s |}.
Proof.
  intros HI Hk Hh Hr Hnew Hp. apply light_inv; auto.
  - intros o' H. now destruct (i_fresh s HI o' H) as (_ & B & _).
  - tauto.
  - intros o' H. destruct (i_lock_holder s HI _ _ H) as (k'' & Hin & Hh').
    assert (k'' = k) by (eapply fst_fun; eauto; apply (i_tids s HI)). subst k''. congruence.
Qed.

Lemma fail_inv s t k os hint :
  CInv s -> In (t, k) (tasks s) -> holds (t_pc k) = None ->
  (forall u ch' o', cmap (cg s) ch' = Some o' -> In u (members (objs (cg s) o')) ->
      t_conn k = None -> t_me k = u -> round_for (t_pc k) u ch' o' -> False) ->
  CInv (after_seg s t k (cg s, PDone, os) hint).
Proof.
  intros HI Hk Hh Hr. unfold after_seg. apply same_inv; auto.
  - intros k'' E. eapply next_round_ok; eauto. now apply (i_tasks s HI).
  - discriminate.
Qed.

(* only the lock table changes, at o *)
Lemma wl_inv s t k o x p' hint :
  CInv s -> In (t, k) (tasks s) -> o < next_oid (cg s) ->
  wl (cg s) o = None \/ wl (cg s) o = Some t ->
  (forall o', holds (t_pc k) = Some o' -> o' = o) ->
  x = None \/ (x = Some t /\ exists k'', new_task k p' hint = Some k'' /\ holds (t_pc k'') = Some o) ->
  (forall u ch' o', cmap (cg s) ch' = Some o' -> In u (members (objs (cg s) o')) ->
      t_conn k = None -> t_me k = u -> round_for (t_pc k) u ch' o' ->
      match p' with PDone => False | _ => round_for p' u ch' o' end) ->
  (forall k'', new_task k p' hint = Some k'' -> task_ok (set_wl (cg s) (upd (wl (cg s)) o x)) t k'') ->
  (forall ch o c n id, p' <> PJoinNotify ch o c n id) ->
  CInv {| cg := set_wl (cg s) (upd (wl (cg s)) o x); tasks := settle t k p' hint (tasks s); next_tid := next_tid s |}.
Proof.
  intros HI Hk Ho Hlk Hholds Hx Hr Hnew Hp. apply light_inv; auto; cbn [set_wl wl].
  - intros o' H. rewrite upd_other by lia. now destruct (i_fresh s HI o' H) as (_ & B & _).
  - intros o' t' Hne. destruct (N.eq_dec o' o) as [->|Hno].
    + rewrite upd_same. split; intros H.
      * destruct Hx as [->|[-> _]]; congruence.
      * destruct Hlk; congruence.
    + rewrite upd_other by auto. tauto.
  - intros o'. destruct (N.eq_dec o' o) as [->|Hno].
    + rewrite upd_same. destruct Hx as [->|[-> H]]; [discriminate|auto].
    + rewrite upd_other by auto. intros H.
      destruct (i_lock_holder s HI _ _ H) as (k'' & Hin & Hh').
      assert (k'' = k) by (eapply fst_fun; eauto; apply (i_tids s HI)). subst k''.
      apply Hholds in Hh'. congruence.
Qed.

Ltac simpl_g :=
  unfold lock, unlock, unmap, idx_del, put_obj, set_wl, set_cmap, set_idx, set_objs;
  cbn [objs next_oid cmap idx reg wl cuser].

(* ---------- the member is taken out (leave_after_n1) ---------- *)
Lemma after_n1_inv cf s t k ch o n id ok1 hint :
  CInv s -> In (t, k) (tasks s) ->
  cmap (cg s) ch = Some o -> In n (members (objs (cg s) o)) ->
  wl (cg s) o = None \/ wl (cg s) o = Some t ->
  (forall o', holds (t_pc k) = Some o' -> o' = o) ->
  (t_conn k = None -> n = t_me k) ->
  (forall u ch' o', round_for (t_pc k) u ch' o' -> ch' = ch) ->
  CInv (after_seg s t k
          (leave_after_n1 cf t (t_conn k) (cg s) ch o n (is_owner (objs (cg s) o) n) id ok1 hint) hint).
Proof.
  intros HI Hk Hch Hn Hlk Hholds Hme Hrd. unfold leave_after_n1.
  set (b := objs (cg s) o).
  assert (Hb1 : members (obj_remove b n) = del n (members b)) by reflexivity.
  destruct (isnil (members (obj_remove b n))) eqn:Enil.
  - (* the channel is emptied and unmapped *)
    apply isnil_true in Enil.
    unfold leave_end, after_seg. cbv beta iota zeta.
    apply heavy_inv with (ch := ch) (o := o) (n := n) (um := true) (x := None); auto; simpl_g.
    + now rewrite upd_same.
    + intros o' Hne. now rewrite upd_other.
    + now rewrite upd_same.
    + intros _. now rewrite upd_same.
    + discriminate.
  - apply isnil_false in Enil.
    destruct (is_owner b n) eqn:Eown.
    + (* a new owner is picked *)
      set (pick := if mem hint (members (obj_remove b n)) then hint else hd n (members (obj_remove b n))).
      assert (Hpick : In pick (members (obj_remove b n))).
      { unfold pick. destruct (mem hint (members (obj_remove b n))) eqn:E; [now apply mem_In|].
        destruct (members (obj_remove b n)); [congruence|now left]. }
      destruct (fwd_event cf).
      * unfold after_seg.
        apply heavy_inv with (ch := ch) (o := o) (n := n) (um := false) (x := Some t); auto; simpl_g.
        -- now rewrite upd_same.
        -- intros o' Hne. now rewrite !upd_other.
        -- now rewrite upd_same.
        -- discriminate.
        -- intros _. rewrite upd_same. exists pick. split; auto.
        -- right. repeat split; eauto.
      * unfold leave_after_n2, leave_end, after_seg. cbv beta iota zeta.
        apply heavy_inv with (ch := ch) (o := o) (n := n) (um := false) (x := None); auto; simpl_g.
        -- now rewrite upd_same.
        -- intros o' Hne. now rewrite !upd_other.
        -- now rewrite upd_same.
        -- discriminate.
        -- intros _. rewrite upd_same. exists pick. split; auto.
    + (* the owner stays *)
      unfold leave_end, after_seg. cbv beta iota zeta.
      apply heavy_inv with (ch := ch) (o := o) (n := n) (um := false) (x := None); auto; simpl_g.
      * now rewrite upd_same.
      * intros o' Hne. now rewrite upd_other.
      * now rewrite upd_same.
      * discriminate.
      * intros _. rewrite upd_same. destruct (i_owner s HI ch o Hch) as (w & Hw & Hin).
        fold b in Hw, Hin. exists w. unfold obj_remove. cbn [owner members]. rewrite Eown.
        split; auto. apply In_del. split; auto. intros ->.
        unfold is_owner in Eown. rewrite Hw, N.eqb_refl in Eown. discriminate.
Qed.

(* ---------- the lock is free: leave_locked ---------- *)
Definition at_lock (s : cstate) (k : task) (ch : chan) (o : oid) (ob : option user) (id : N) : Prop :=
  (t_pc k = PStart (RLeave ch ob id) /\ cmap (cg s) ch = Some o) \/ t_pc k = PLeaveWait ch o ob id.

Lemma at_lock_facts s t k ch o ob id :
  CInv s -> In (t, k) (tasks s) -> at_lock s k ch o ob id ->
  holds (t_pc k) = None /\
  (t_conn k = None -> ob = None) /\
  (forall u ch' o', cmap (cg s) ch' = Some o' -> round_for (t_pc k) u ch' o' -> ch' = ch /\ o' = o) /\
  (members (objs (cg s) o) <> [] -> cmap (cg s) ch = Some o).
Proof.
  intros HI Hk Hat. pose proof (i_tasks s HI _ _ Hk) as Hok. unfold task_ok in Hok.
  destruct Hat as [[E Hc]|E]; rewrite E in Hok; destruct Hok as [Hok1 Hok2].
  - repeat split.
    + now rewrite E.
    + intros Hn. rewrite Hn in Hok1. destruct ob; tauto.
    + rewrite E in H0. destruct H0 as [[i H0]|[[i H0]|(w & i & H0)]]; congruence.
    + rewrite E in H0. destruct H0 as [[i H0]|[[i H0]|(w & i & H0)]]; try discriminate.
      inversion H0; subst. congruence.
    + auto.
  - repeat split.
    + now rewrite E.
    + intros Hn. rewrite Hn in Hok1. destruct ob; tauto.
    + rewrite E in H0. destruct H0 as [[i H0]|[[i H0]|(w & i & H0)]]; congruence.
    + rewrite E in H0. destruct H0 as [[i H0]|[[i H0]|(w & i & H0)]]; congruence.
    + intros Hne. destruct Hok2 as [_ HA].
      destruct (cmap (cg s) ch) as [o2|] eqn:Ec.
      * destruct (N.eq_dec o2 o) as [->|Hno]; auto. exfalso. apply Hne.
        apply (i_unmapped_empty s HI). intros c Hc. pose proof (HA _ Hc). subst c. congruence.
      * exfalso. apply Hne.
        apply (i_unmapped_empty s HI). intros c Hc. pose proof (HA _ Hc). subst c. congruence.
Qed.

Lemma locked_common cf s t k ch o ob id hint n :
  CInv s -> In (t, k) (tasks s) -> at_lock s k ch o ob id -> lock_free (cg s) o = true ->
  (t_conn k = None -> n = t_me k) ->
  CInv (after_seg s t k
         (if negb (mem n (members (objs (cg s) o))) then (cg s, PDone, err_out (t_conn k) id E_USER_NOT_IN_CHANNEL)
          else if fwd_event cf
               then (lock (cg s) o t, PLeaveN1 ch o n (is_owner (objs (cg s) o) n) id,
                     [OModEvent K_LEFT ch n (is_owner (objs (cg s) o) n)])
               else leave_after_n1 cf t (t_conn k) (cg s) ch o n (is_owner (objs (cg s) o) n) id true hint) hint).
Proof.
  intros HI Hk Hat Hlf Hme.
  destruct (at_lock_facts s t k ch o ob id HI Hk Hat) as (Hh & Hob & Hrd & Hmap).
  assert (Hwl : wl (cg s) o = None).
  { unfold lock_free in Hlf. destruct (wl (cg s) o); [discriminate|reflexivity]. }
  destruct (mem n (members (objs (cg s) o))) eqn:Em; cbn [negb].
  - apply mem_In in Em. assert (Hch : cmap (cg s) ch = Some o) by (apply Hmap; eapply In_nonnil; eauto).
    assert (Hrd' : forall u ch' o', round_for (t_pc k) u ch' o' -> ch' = ch).
    { intros u ch' o' Hr. destruct Hat as [[E _]|E]; rewrite E in Hr;
        destruct Hr as [[i H0]|[[i H0]|(w & i & H0)]]; congruence. }
    destruct (fwd_event cf).
    + unfold after_seg, lock.
      assert (Ho : o < next_oid (cg s)).
      { destruct (N.lt_ge_cases o (next_oid (cg s))) as [H|H]; auto.
        destruct (i_fresh s HI o H) as (_ & _ & C). now destruct (C ch). }
      apply wl_inv; auto.
      * intros o'. rewrite Hh. discriminate.
      * right. split; auto. eexists. split; reflexivity.
      * intros u ch' o' Hc Hu Hconn Hu' Hr. destruct (Hrd _ _ _ Hc Hr) as [-> ->].
        right. right. rewrite <- Hu', <- (Hme Hconn). eauto.
      * intros k'' E. inversion E; subst k''. unfold task_ok. split.
        -- apply (with_pc_first (cg s) _ t); auto. now apply (i_tasks s HI).
        -- cbn [with_pc t_pc set_wl cmap objs wl]. rewrite upd_same. auto.
      * discriminate.
    + apply after_n1_inv; auto.
      intros o'. rewrite Hh. discriminate.
  - apply mem_false in Em. apply fail_inv; auto.
    intros u ch' o' Hc Hu Hconn Hu' Hr. destruct (Hrd _ _ _ Hc Hr) as [-> ->].
    apply Em. now rewrite (Hme Hconn), Hu'.
Qed.

Lemma locked_inv cf s t k ch o ob id hint :
  CInv s -> In (t, k) (tasks s) -> at_lock s k ch o ob id -> lock_free (cg s) o = true ->
  CInv (after_seg s t k (leave_locked cf t (t_conn k) (t_me k) (cg s) ch o ob id hint) hint).
Proof.
  intros HI Hk Hat Hlf.
  destruct (at_lock_facts s t k ch o ob id HI Hk Hat) as (Hh & Hob & Hrd & Hmap).
  unfold leave_locked. destruct (cmap (cg s) ch) as [o2|] eqn:Ec.
  - destruct ob as [z|].
    + destruct (negb (is_owner (objs (cg s) o) (t_me k))).
      * apply fail_inv; auto. intros u ch' o' _ _ Hconn. apply Hob in Hconn. discriminate.
      * cbv zeta. eapply locked_common; eauto. intros Hconn. apply Hob in Hconn. discriminate.
    + cbv zeta. eapply locked_common; eauto.
  - apply fail_inv; auto.
    intros u ch' o' Hc Hu Hconn Hu' Hr. destruct (Hrd _ _ _ Hc Hr) as [-> ->]. congruence.
Qed.

(* ---------- the theorem ---------- *)
Theorem seg_leave_preserves cf s t k ok hint :
  fixed cf -> CInv s -> tlookup t (tasks s) = Some k -> leave_pc (t_pc k) ->
  CInv (after_seg s t k (seg cf t (t_conn k) (t_me k) (cg s) (t_pc k) ok hint) hint).
Proof.
  intros _ HI Hl Hpc. apply tlookup_In in Hl. rename Hl into Hk.
  pose proof (i_tasks s HI _ _ Hk) as Hok.
  destruct (t_pc k) as [r| | | ch o ob id | ch o n w id | ch o ok1 id | | | | | |] eqn:Epc; try contradiction.
  - (* PStart (RLeave ..) *)
    destruct r as [| ch ob id | | | | |]; try contradiction.
    cbn [seg]. unfold leave_start. destruct (cmap (cg s) ch) as [o|] eqn:Ec.
    + destruct (lock_free (cg s) o) eqn:Elf.
      * apply locked_inv; auto. left. auto.
      * (* the lock is taken: wait *)
        unfold after_seg. apply same_inv; auto.
        -- now rewrite Epc.
        -- intros u ch' o' Hc Hu Hconn Hu' Hr. rewrite Epc in Hr.
           destruct Hr as [[i H0]|[[i H0]|(w & i & H0)]]; try discriminate.
           inversion H0; subst. assert (o' = o) by congruence. subst o'. right. left. eauto.
        -- intros k'' E. inversion E; subst k''. unfold task_ok in *. rewrite Epc in Hok.
           destruct Hok as [Hok1 _]. split.
           ++ apply (with_pc_first (cg s) _ t); auto.
              ** unfold task_ok. rewrite Epc. auto.
              ** intros Hconn. rewrite Hconn in Hok1. destruct ob; tauto.
           ++ cbn [with_pc t_pc]. split.
              ** destruct (N.lt_ge_cases o (next_oid (cg s))) as [H|H]; auto.
                 destruct (i_fresh s HI o H) as (_ & _ & C). now destruct (C ch).
              ** intros ch' Hc. eapply (i_inj s HI); eauto.
        -- discriminate.
    + apply fail_inv; auto.
      * now rewrite Epc.
      * intros u ch' o' Hc Hu Hconn Hu' Hr. rewrite Epc in Hr.
        destruct Hr as [[i H0]|[[i H0]|(w & i & H0)]]; try discriminate.
        inversion H0; subst. congruence.
  - (* PLeaveWait *)
    cbn [seg]. destruct (lock_free (cg s) o) eqn:Elf.
    + apply locked_inv; auto. right. auto.
    + unfold after_seg. apply same_inv; auto.
      * now rewrite Epc.
      * intros u ch' o' Hc Hu Hconn Hu' Hr. now rewrite Epc in Hr.
      * intros k'' E. inversion E; subst k''.
        assert (Ek : with_pc k (PLeaveWait ch o ob id) = k) by (rewrite <- Epc; now destruct k).
        now rewrite Ek.
      * discriminate.
  - (* PLeaveN1 *)
    cbn [seg]. unfold task_ok in Hok. rewrite Epc in Hok.
    destruct Hok as [Hok1 (Hc & Hn & Hw & ->)].
    apply after_n1_inv; auto.
    + rewrite Epc. intros o' [= <-]. reflexivity.
    + intros Hconn. rewrite Hconn in Hok1. tauto.
    + intros u ch' o' Hr. rewrite Epc in Hr.
      destruct Hr as [[i H0]|[[i H0]|(w & i & H0)]]; congruence.
  - (* PLeaveN2 *)
    cbn [seg]. unfold leave_after_n2, leave_end, after_seg, unlock. cbv beta iota zeta.
    unfold task_ok in Hok. rewrite Epc in Hok. destruct Hok as [Hok1 (Hc & Hw)].
    apply wl_inv; auto.
    + destruct (N.lt_ge_cases o (next_oid (cg s))) as [H|H]; auto.
      destruct (i_fresh s HI o H) as (_ & _ & C). now destruct (C ch).
    + rewrite Epc. intros o' [= <-]. reflexivity.
    + intros u ch' o' _ _ _ _ Hr. rewrite Epc in Hr.
      destruct Hr as [[i H0]|[[i H0]|(w & i & H0)]]; discriminate.
    + intros k'' E. eapply next_round_ok; eauto. now apply (i_tasks s HI).
    + discriminate.
Qed.

Print Assumptions seg_leave_preserves.
