(* Connection phases: T2 C06_preauth_inert, T4 C09_only_success_authenticates, T3 C06_monotone. *)
From NW Require Import Base.Bytes Model.SchemaTypes Model.Codec Model.MsgInfo Model.Ids Model.Framing Model.Server Gen.Schema Gen.Errors.
From NW Require Import Proofs.ServerLib Proofs.ServerRoute Proofs.ServerHandlers Proofs.ServerSteps.

(* ---------- association-list updates as used by [register] ---------- *)

Lemma list_eqb_sym a b : list_eqb a b = list_eqb b a.
Proof.
  destruct (list_eqb a b) eqn:E1, (list_eqb b a) eqn:E2; try reflexivity.
  - apply list_eqb_eq in E1. subst. rewrite list_eqb_refl in E2. discriminate.
  - apply list_eqb_eq in E2. subst. rewrite list_eqb_refl in E1. discriminate.
Qed.

Lemma alookup_map_upd {A} (u u' : str) (v : A) (l : list (str * A)) :
  alookup u' (map (fun e => if list_eqb (fst e) u then (u, v) else e) l) =
  if list_eqb u' u then option_map (fun _ => v) (alookup u l) else alookup u' l.
Proof.
  induction l as [|[k x] l IH]; cbn [map alookup fst].
  - destruct (list_eqb u' u); reflexivity.
  - destruct (list_eqb k u) eqn:Eku.
    + apply list_eqb_eq in Eku. subst k. cbn [alookup]. rewrite (list_eqb_refl u).
      destruct (list_eqb u' u); [reflexivity | exact IH].
    + cbn [alookup]. rewrite (list_eqb_sym u k), Eku.
      destruct (list_eqb u' k) eqn:Eu'k.
      * apply list_eqb_eq in Eu'k. subst k. rewrite Eku. reflexivity.
      * exact IH.
Qed.

Lemma alookup_app_new {A} (u u' : str) (v : A) (l : list (str * A)) :
  alookup u l = None ->
  alookup u' (l ++ [(u, v)]) = if list_eqb u' u then Some v else alookup u' l.
Proof.
  induction l as [|[k x] l IH]; cbn [app alookup]; intro H.
  - destruct (list_eqb u' u); reflexivity.
  - destruct (list_eqb u k) eqn:Euk; [discriminate|].
    destruct (list_eqb u' k) eqn:Eu'k.
    + apply list_eqb_eq in Eu'k. subst k. rewrite (list_eqb_sym u' u), Euk. reflexivity.
    + apply IH. exact H.
Qed.

(* [register]: only the router changes, and only the entry of [u], by appending [h] *)
Lemma register_spec u h excl s s2 :
  register u h excl s = Some s2 ->
  conns s2 = conns s /\ chans s2 = chans s /\ inch s2 = inch s /\
  (forall u', alookup u' (router s2) =
              if list_eqb u' u
              then Some (match alookup u (router s) with Some hs => hs | None => [] end ++ [h])
              else alookup u' (router s)) /\
  (excl = true -> match alookup u (router s) with Some (_ :: _) => False | _ => True end).
Proof.
  unfold register. intro H.
  destruct (excl && negb (isempty match alookup u (router s) with Some hs => hs | None => [] end)) eqn:Ex;
    [discriminate|]. inv H. cbn [conns chans inch router set_router].
  repeat split.
  - intro u'. destruct (alookup u (router s)) as [hs|] eqn:E.
    + rewrite alookup_map_upd, E. reflexivity.
    + apply alookup_app_new. exact E.
  - intros ->. cbn [andb] in Ex. destruct (alookup u (router s)) as [[|x hs]|]; try exact I. discriminate.
Qed.

(* ---------- T2 ---------- *)

Definition preauth_out (h : N) (o : out) : Prop :=
  (exists m', o = OSend h m' None) \/ (exists m', o = OClose h m') \/ (exists t, o = OMod (McAuth t)).

Definition expected (ph : phase) (m : msg) : bool :=
  match ph with
  | Connecting => is_kind m "CONNECT"
  | Connected => is_kind m "AUTH" || is_kind m "IDENTIFY"
  | Authenticated => false
  end.

(* how a pre-authentication frame may move the connection *)
Definition preauth_move (cfg : scfg) (h : N) (m : msg) (c c' : ctx) (cn cn' : conn) : Prop :=
  (cn' = cn /\ router (st c') = router (st c))
  \/ (c_phase cn = Connecting /\ is_kind m "CONNECT" = true /\ get_num m "version" = 1 /\
      c_phase cn' = Connected /\ c_nid cn' = None /\ router (st c') = router (st c))
  \/ (c_phase cn = Connected /\ auth_required cfg = false /\ is_kind m "IDENTIFY" = true /\
      exists n s2, make_local_nid (domain cfg) (trim (get_str m "username")) = Some n /\
                   register (nu n) h true (st c) = Some s2 /\ router (st c') = router s2 /\
                   c_phase cn' = Authenticated /\ c_nid cn' = Some n)
  \/ (c_phase cn = Connected /\ auth_required cfg = true /\ is_kind m "AUTH" = true /\
      exists u n s2, head_outcome (script c) = MAuthSuccess u /\
                     make_local_nid (domain cfg) u = Some n /\
                     register (nu n) h false (st c) = Some s2 /\ router (st c') = router s2 /\
                     c_phase cn' = Authenticated /\ c_nid cn' = Some n).

Definition preauth_summary (cfg : scfg) (h : N) (m : msg) (c c' : ctx) (cn : conn) : Prop :=
  let d := new_outs c c' in
  outs c' = outs c ++ d /\
  chans (st c') = chans (st c) /\ inch (st c') = inch (st c) /\
  (forall h', h' <> h -> nlookup h' (conns (st c')) = nlookup h' (conns (st c))) /\
  Forall (preauth_out h) d /\
  (exists cn', nlookup h (conns (st c')) = Some cn' /\ preauth_move cfg h m c c' cn cn') /\
  (expected (c_phase cn) m = false ->
   st c' = st c /\ d = [OClose h (err_msg None "UNEXPECTED_MESSAGE")]).

Lemma summary_unchanged cfg h m c c' cn d :
  nlookup h (conns (st c)) = Some cn ->
  st c' = st c -> outs c' = outs c ++ d -> Forall (preauth_out h) d ->
  (expected (c_phase cn) m = false -> d = [OClose h (err_msg None "UNEXPECTED_MESSAGE")]) ->
  preauth_summary cfg h m c c' cn.
Proof.
  intros Hl Hs Ho Hd He. unfold preauth_summary. cbv zeta.
  rewrite (new_outs_app _ _ _ Ho), Hs.
  repeat split; auto.
  exists cn. split; [exact Hl|]. left. rewrite Hs. auto.
Qed.

Lemma summary_moved cfg h m c c' cn cn' s2 d :
  nlookup h (conns (st c)) = Some cn ->
  st c' = set_conns (nset h cn' (conns s2)) s2 ->
  conns s2 = conns (st c) -> chans s2 = chans (st c) -> inch s2 = inch (st c) ->
  outs c' = outs c ++ d -> Forall (preauth_out h) d ->
  preauth_move cfg h m c c' cn cn' ->
  expected (c_phase cn) m = true ->
  preauth_summary cfg h m c c' cn.
Proof.
  intros Hl Hs H1 H2 H3 Ho Hd Hmv He. unfold preauth_summary. cbv zeta.
  rewrite (new_outs_app _ _ _ Ho), Hs. cbn [chans inch conns set_conns].
  repeat split; auto.
  - intros h' Hne. rewrite nlookup_nset, H1. apply N.eqb_neq in Hne. rewrite Hne. reflexivity.
  - exists cn'. split; [|exact Hmv]. rewrite nlookup_nset, N.eqb_refl. reflexivity.
  - congruence.
  - congruence.
Qed.

Lemma notify_error_close h reason c :
  is_recoverable reason = false -> existsb (N.eqb h) (closing c) = false ->
  st (notify_error h (PErr None reason) c) = st c /\
  outs (notify_error h (PErr None reason) c) = outs c ++ [OClose h (err_msg None reason)].
Proof.
  intros Hr Hc. destruct (notify_error_outs h (PErr None reason) c Hc) as (H1 & H2).
  rewrite Hr in H2. auto.
Qed.

Lemma preauth_out_close h m : Forall (preauth_out h) [OClose h m].
Proof. apply Forall_cons; [|apply Forall_nil]. right. left. eexists. reflexivity. Qed.
Lemma preauth_out_send h m : Forall (preauth_out h) [OSend h m None].
Proof. apply Forall_cons; [|apply Forall_nil]. left. eexists. reflexivity. Qed.

Section T2.
  Variable cfg : scfg.

  Theorem C06_preauth_inert : forall h m p c cn,
    nlookup h (conns (st c)) = Some cn ->
    c_phase cn = Connecting \/ c_phase cn = Connected ->
    existsb (N.eqb h) (closing c) = false ->
    preauth_summary cfg h m c (on_frame cfg h m p c) cn.
  Proof.
    intros h m p c cn Hl Hph Hc. unfold on_frame. rewrite Hl, Hc.
    destruct Hph as [Hph|Hph]; rewrite Hph.
    - (* Connecting *)
      destruct (is_kind m "CONNECT") eqn:Hk.
      + destruct (get_num m "version" =? 1) eqn:Hv; cbn [negb].
        * apply N.eqb_eq in Hv.
          eapply (summary_moved cfg h m c _ cn _ (st c));
            [exact Hl | reflexivity | reflexivity | reflexivity | reflexivity | reflexivity | | |].
          -- apply preauth_out_send.
          -- right. left. cbn. auto 10.
          -- rewrite Hph. exact Hk.
        * destruct (notify_error_close h "UNSUPPORTED_PROTOCOL_VERSION" c eq_refl Hc) as (E1 & E2).
          eapply summary_unchanged; [exact Hl | exact E1 | exact E2 | apply preauth_out_close |].
          rewrite Hph. cbn [expected]. congruence.
      + destruct (notify_error_close h "UNEXPECTED_MESSAGE" c eq_refl Hc) as (E1 & E2).
        eapply summary_unchanged; [exact Hl | exact E1 | exact E2 | apply preauth_out_close |].
        reflexivity.
    - (* Connected *)
      destruct (is_kind m "AUTH") eqn:Hka.
      + destruct (auth_required cfg) eqn:Har; cbn [negb].
        * pose proof (next_outcome_emit (OMod (McAuth (get_str m "token"))) c) as Hh.
          destruct (next_outcome (emit (OMod (McAuth (get_str m "token"))) c)) as [o c1] eqn:En.
          cbn [fst] in Hh. apply next_outcome_spec in En as (S1 & S2 & S3 & S4 & _).
          cbn [emit st hints outs closing] in S1, S2, S3, S4.
          assert (Hc1 : existsb (N.eqb h) (closing c1) = false) by (rewrite S4; exact Hc).
          assert (Hexp : expected (c_phase cn) m = false -> False).
          { rewrite Hph. cbn [expected]. rewrite Hka. discriminate. }
          assert (Hmod : Forall (preauth_out h) [OMod (McAuth (get_str m "token"))]).
          { apply Forall_cons; [|apply Forall_nil]. right. right. eexists. reflexivity. }
          assert (Hclose : forall reason, is_recoverable reason = false ->
                    preauth_summary cfg h m c (notify_error h (PErr None reason) c1) cn).
          { intros reason Hr. destruct (notify_error_close h reason c1 Hr Hc1) as (E1 & E2).
            eapply summary_unchanged; [exact Hl | congruence | rewrite E2, S3, <- app_assoc; reflexivity | | ].
            - apply Forall_app. split; [exact Hmod | apply preauth_out_close].
            - intro F. destruct (Hexp F). }
          assert (Hsend : forall a, preauth_summary cfg h m c (emit (OSend h a None) c1) cn).
          { intro a. eapply summary_unchanged; [exact Hl | exact S1 | cbn [emit outs]; rewrite S3, <- app_assoc; reflexivity | | ].
            - apply Forall_app. split; [exact Hmod | apply preauth_out_send].
            - intro F. destruct (Hexp F). }
          destruct o as [ | | |p'|u|ch| ]; try (apply Hclose; reflexivity); try apply Hsend.
          destruct (make_local_nid (domain cfg) u) as [n|] eqn:Hmk; [|apply Hclose; reflexivity].
          destruct (register (nu n) h false (st c1)) as [s2|] eqn:Hreg.
          -- rewrite S1 in Hreg. destruct (register_spec _ _ _ _ _ Hreg) as (R1 & R2 & R3 & _).
             eapply (summary_moved cfg h m c _ cn _ s2);
               [exact Hl | reflexivity | exact R1 | exact R2 | exact R3 | | | |].
             ++ cbn [set_conn with_st emit outs]. rewrite S3, <- app_assoc. reflexivity.
             ++ apply Forall_app. split; [exact Hmod | apply preauth_out_send].
             ++ right. right. right. cbn. repeat split; try assumption.
                exists u, n, s2. auto 10.
             ++ rewrite Hph. cbn [expected]. rewrite Hka. reflexivity.
          -- eapply summary_unchanged; [exact Hl | exact S1 | rewrite S3; reflexivity | exact Hmod |].
             intro F. destruct (Hexp F).
        * destruct (notify_error_close h "UNEXPECTED_MESSAGE" c eq_refl Hc) as (E1 & E2).
          eapply summary_unchanged; [exact Hl | exact E1 | exact E2 | apply preauth_out_close |].
          reflexivity.
      + destruct (is_kind m "IDENTIFY") eqn:Hki.
        * assert (Hexp : expected (c_phase cn) m = false -> False).
          { rewrite Hph. cbn [expected]. rewrite Hka, Hki. discriminate. }
          destruct (auth_required cfg) eqn:Har.
          -- destruct (notify_error_close h "UNEXPECTED_MESSAGE" c eq_refl Hc) as (E1 & E2).
             eapply summary_unchanged; [exact Hl | exact E1 | exact E2 | apply preauth_out_close |].
             reflexivity.
          -- destruct (make_local_nid (domain cfg) (trim (get_str m "username"))) as [n|] eqn:Hmk.
             ++ destruct (register (nu n) h true (st c)) as [s2|] eqn:Hreg.
                ** destruct (register_spec _ _ _ _ _ Hreg) as (R1 & R2 & R3 & _).
                   eapply (summary_moved cfg h m c _ cn _ s2);
                     [exact Hl | reflexivity | exact R1 | exact R2 | exact R3 | reflexivity | | |].
                   --- apply preauth_out_send.
                   --- right. right. left. cbn. repeat split; try assumption.
                       exists n, s2. auto 10.
                   --- rewrite Hph. cbn [expected]. rewrite Hka, Hki. reflexivity.
                ** eapply summary_unchanged; [exact Hl | reflexivity | reflexivity | apply preauth_out_send |].
                   intro F. destruct (Hexp F).
             ++ destruct (notify_error_close h "BAD_REQUEST" c eq_refl Hc) as (E1 & E2).
                eapply summary_unchanged; [exact Hl | exact E1 | exact E2 | apply preauth_out_close |].
                intro F. destruct (Hexp F).
        * destruct (notify_error_close h "UNEXPECTED_MESSAGE" c eq_refl Hc) as (E1 & E2).
          eapply summary_unchanged; [exact Hl | exact E1 | exact E2 | apply preauth_out_close |].
          reflexivity.
  Qed.
End T2.

Print Assumptions C06_preauth_inert.

(* the router changes at most by appending h to the handler list of one username *)
Corollary C06_preauth_router : forall cfg h m p c cn,
  nlookup h (conns (st c)) = Some cn ->
  c_phase cn = Connecting \/ c_phase cn = Connected ->
  existsb (N.eqb h) (closing c) = false ->
  let c' := on_frame cfg h m p c in
  router (st c') = router (st c) \/
  exists u, forall u', alookup u' (router (st c')) =
                       if list_eqb u' u
                       then Some (match alookup u (router (st c)) with Some hs => hs | None => [] end ++ [h])
                       else alookup u' (router (st c)).
Proof.
  intros cfg h m p c cn Hl Hph Hc c'.
  destruct (C06_preauth_inert cfg h m p c cn Hl Hph Hc) as (_ & _ & _ & _ & _ & (cn' & _ & Hmv) & _).
  fold c' in Hmv. destruct Hmv as [(_ & H)|[H|[H|H]]].
  - left. exact H.
  - left. destruct H as (_ & _ & _ & _ & _ & H). exact H.
  - right. destruct H as (_ & _ & _ & n & s2 & _ & Hreg & Hr & _).
    exists (nu n). rewrite Hr. apply (register_spec _ _ _ _ _ Hreg).
  - right. destruct H as (_ & _ & _ & u & n & s2 & _ & _ & Hreg & Hr & _).
    exists (nu n). rewrite Hr. apply (register_spec _ _ _ _ _ Hreg).
Qed.

Print Assumptions C06_preauth_router.

(* ---------- T4 ---------- *)

Lemma make_local_nid_some d u n :
  make_local_nid d u = Some n -> n = {| nu := u; nd := d |} /\ u <> [] /\ nid_validate u d = true.
Proof.
  unfold make_local_nid. destruct u as [|x u]; [discriminate|].
  destruct (nid_validate (x :: u) d) eqn:E; [|discriminate].
  intro H. inv H. repeat split. discriminate.
Qed.

Lemma head_outcome_cons sc o : head_outcome sc = o -> o <> MOk -> exists rest, sc = o :: rest.
Proof. destruct sc as [|o' r]; cbn; intros <- H; [congruence | eauto]. Qed.

Lemma notify_error_unexpected h c :
  existsb (N.eqb h) (closing c) = false ->
  notify_error h (PErr None "UNEXPECTED_MESSAGE") c =
  {| st := st c; script := script c; hints := hints c;
     outs := outs c ++ [OClose h (err_msg None "UNEXPECTED_MESSAGE")]; closing := closing c ++ [h] |}.
Proof.
  intro Hc. unfold notify_error. rewrite rec_unexpected. apply request_close_fresh. exact Hc.
Qed.

Theorem C09_only_success_authenticates : forall cfg h m p c cn,
  auth_required cfg = true ->
  nlookup h (conns (st c)) = Some cn -> c_phase cn = Connected ->
  existsb (N.eqb h) (closing c) = false ->
  let c' := on_frame cfg h m p c in
  exists cn', nlookup h (conns (st c')) = Some cn' /\
    (* becoming Authenticated needs AUTH answered by MAuthSuccess with a valid non-empty username *)
    (c_phase cn' = Authenticated ->
       is_kind m "AUTH" = true /\
       exists u rest, script c = MAuthSuccess u :: rest /\ u <> [] /\ nid_validate u (domain cfg) = true /\
                      c_nid cn' = Some {| nu := u; nd := domain cfg |}) /\
    (* any other outcome (Continue, Fail, Err, Ok, Invalid, Altered, or an exhausted script):
       the connection entry and the router are untouched *)
    ((forall u, head_outcome (script c) <> MAuthSuccess u) -> cn' = cn /\ router (st c') = router (st c)) /\
    (c_phase cn' <> Authenticated -> cn' = cn /\ router (st c') = router (st c)) /\
    (* IDENTIFY is refused *)
    (is_kind m "IDENTIFY" = true ->
       c' = {| st := st c; script := script c; hints := hints c;
               outs := outs c ++ [OClose h (err_msg None "UNEXPECTED_MESSAGE")]; closing := closing c ++ [h] |}).
Proof.
  intros cfg h m p c cn Har Hl Hph Hc c'.
  destruct (C06_preauth_inert cfg h m p c cn Hl (or_intror Hph) Hc)
    as (_ & _ & _ & _ & _ & (cn' & Hl' & Hmv) & _).
  fold c' in Hl', Hmv.
  exists cn'. split; [exact Hl'|].
  assert (Hcases : (cn' = cn /\ router (st c') = router (st c)) \/
                   (is_kind m "AUTH" = true /\ c_phase cn' = Authenticated /\
                    exists u n, head_outcome (script c) = MAuthSuccess u /\
                                make_local_nid (domain cfg) u = Some n /\ c_nid cn' = Some n)).
  { destruct Hmv as [H|[H|[H|H]]].
    - left. exact H.
    - destruct H as (H & _). congruence.
    - destruct H as (_ & H & _). congruence.
    - destruct H as (_ & _ & Hk & u & n & s2 & H1 & H2 & _ & _ & H5 & H6).
      right. split; [exact Hk|]. split; [exact H5|]. exists u, n. auto. }
  split; [|split; [|split]].
  - intro Hauth. destruct Hcases as [[-> _]|(Hk & _ & u & n & H1 & H2 & H3)]; [congruence|].
    split; [exact Hk|].
    apply make_local_nid_some in H2 as (-> & Hu & Hv).
    destruct (head_outcome_cons _ _ H1) as (rest & Hs); [discriminate|].
    exists u, rest. auto.
  - intro Hno. destruct Hcases as [H|(_ & _ & u & n & H1 & _)]; [exact H|].
    destruct (Hno u H1).
  - intro Hna. destruct Hcases as [H|(_ & H & _)]; [exact H | contradiction].
  - intro Hk. subst c'. unfold on_frame. rewrite Hl, Hc, Hph.
    rewrite (is_kind_excl m _ "AUTH" Hk eq_refl), Hk, Har.
    apply notify_error_unexpected. exact Hc.
Qed.

Print Assumptions C09_only_success_authenticates.

(* ---------- T3 ---------- *)

Definition phase_rank (p : phase) : nat :=
  match p with Connecting => 0 | Connected => 1 | Authenticated => 2 end.

(* a connection entry either stays as it is or moves strictly up; an entry that is not (yet)
   Authenticated after a move has no nid *)
Definition conn_le (a b : conn) : Prop :=
  b = a \/ ((phase_rank (c_phase a) < phase_rank (c_phase b))%nat /\
            (c_phase b = Authenticated \/ c_nid b = None)).

Lemma conn_le_refl a : conn_le a a.
Proof. left. reflexivity. Qed.

Lemma conn_le_trans a b c : conn_le a b -> conn_le b c -> conn_le a c.
Proof.
  intros [->|[H1 H2]] [->|[H3 H4]].
  - left. reflexivity.
  - right. auto.
  - right. auto.
  - right. split; [lia | exact H4].
Qed.

(* every connection of s' already existed in s, at most as far along *)
Definition conns_evol (s s' : state) : Prop :=
  forall h cn', nlookup h (conns s') = Some cn' -> exists cn, nlookup h (conns s) = Some cn /\ conn_le cn cn'.

Lemma conns_evol_eq s s' : conns s' = conns s -> conns_evol s s'.
Proof. intros E h cn' H. rewrite E in H. exists cn'. split; [exact H | apply conn_le_refl]. Qed.

Lemma conns_evol_refl s : conns_evol s s.
Proof. apply conns_evol_eq. reflexivity. Qed.

Lemma conns_evol_trans s1 s2 s3 : conns_evol s1 s2 -> conns_evol s2 s3 -> conns_evol s1 s3.
Proof.
  intros H12 H23 h cn3 H3. destruct (H23 h cn3 H3) as (cn2 & H2 & L23).
  destruct (H12 h cn2 H2) as (cn1 & H1 & L12). exists cn1. split; [exact H1|].
  eapply conn_le_trans; eassumption.
Qed.

Lemma conns_evol_remove s s' h : conns s' = nremove h (conns s) -> conns_evol s s'.
Proof.
  intros E h' cn' H. rewrite E, nlookup_nremove in H.
  destruct (h' =? h); [discriminate|]. exists cn'. split; [exact H | apply conn_le_refl].
Qed.

Section T3.
  Variable cfg : scfg.

  Lemma dispatch_auth_conns h me m p c :
    conns (st (fst (dispatch_auth cfg h me m p c))) = conns (st c).
  Proof. destruct (dispatch_auth_spec cfg h me m p c) as (d & (H & _) & _). exact H. Qed.

  Lemma notify_error_st h e c : st (notify_error h e c) = st c.
  Proof.
    unfold notify_error, request_close. destruct e as [id reason|].
    - destruct (is_recoverable reason); [reflexivity|]. destruct (existsb (N.eqb h) (closing c)); reflexivity.
    - destruct (existsb (N.eqb h) (closing c)); reflexivity.
  Qed.
  Lemma request_close_st h m c : st (request_close h m c) = st c.
  Proof. unfold request_close. destruct (existsb (N.eqb h) (closing c)); reflexivity. Qed.
  Lemma drop_conn_st h c : st (drop_conn h c) = st c.
  Proof. unfold drop_conn. destruct (existsb (N.eqb h) (closing c)); reflexivity. Qed.

  Lemma on_frame_evol h m p c : conns_evol (st c) (st (on_frame cfg h m p c)).
  Proof.
    destruct (nlookup h (conns (st c))) as [cn|] eqn:Hl.
    2:{ unfold on_frame. rewrite Hl. apply conns_evol_refl. }
    destruct (existsb (N.eqb h) (closing c)) eqn:Hc.
    { unfold on_frame. rewrite Hl, Hc. apply conns_evol_refl. }
    destruct (c_phase cn) eqn:Hph.
    3:{ (* Authenticated: the connection table is not touched *)
      apply conns_evol_eq. unfold on_frame. rewrite Hl, Hc, Hph.
      destruct (is_kind m "PONG"); [reflexivity|].
      destruct (max_inflight cfg =? 0); [rewrite drop_conn_st; reflexivity|].
      destruct (c_nid cn) as [me|]; [|reflexivity].
      pose proof (dispatch_auth_conns h me m p c) as Hd.
      destruct (dispatch_auth cfg h me m p c) as [c1 [e|]]; cbn [fst] in Hd.
      - rewrite notify_error_st. exact Hd.
      - exact Hd. }
    all: assert (Hph' : c_phase cn = Connecting \/ c_phase cn = Connected) by (rewrite Hph; auto).
    all: destruct (C06_preauth_inert cfg h m p c cn Hl Hph' Hc)
           as (_ & _ & _ & Hothers & _ & (cn' & Hl' & Hmv) & _).
    all: intros h' cn'' H''.
    all: destruct (N.eq_dec h' h) as [->|Hne];
         [|rewrite (Hothers h' Hne) in H''; exists cn''; split; [exact H'' | apply conn_le_refl]].
    all: rewrite Hl' in H''; inv H''; exists cn; split; [exact Hl|].
    all: destruct Hmv as [(-> & _)|[Hm|[Hm|Hm]]]; [apply conn_le_refl | | | ].
    all: try (destruct Hm as (E & _); congruence).
    - destruct Hm as (_ & _ & _ & E1 & E2 & _). right. rewrite Hph, E1. cbn. split; [lia | auto].
    - destruct Hm as (_ & _ & _ & n & s2 & _ & _ & _ & E1 & _). right. rewrite Hph, E1. cbn. split; [lia | auto].
    - destruct Hm as (_ & _ & _ & u & n & s2 & _ & _ & _ & _ & E1 & _). right. rewrite Hph, E1. cbn. split; [lia | auto].
  Qed.

  Lemma on_item_evol h it c : conns_evol (st c) (st (on_item cfg h it c)).
  Proof.
    destruct it; cbn [on_item]; try apply on_frame_evol;
      try (apply conns_evol_eq; first [rewrite request_close_st | rewrite drop_conn_st]; reflexivity).
    apply conns_evol_refl.
  Qed.

  Lemma on_items_evol h items : forall c,
    conns_evol (st c) (st (fold_left (fun acc it => on_item cfg h it acc) items c)).
  Proof.
    induction items as [|it items IH]; intro c; cbn [fold_left]; [apply conns_evol_refl|].
    eapply conns_evol_trans; [apply on_item_evol | apply IH].
  Qed.

  Lemma leave_core_conns id me hd dom cf ob c :
    conns (st (fst (leave_core cfg None id me hd dom cf ob c))) = conns (st c).
  Proof. destruct (leave_core_quiet cfg id me hd dom cf ob c) as (d & (H & _) & _). exact H. Qed.

  Lemma leave_all_conns me c : conns (st (leave_all cfg me c)) = conns (st c).
  Proof.
    unfold leave_all. destruct (alookup (nu me) (inch (st c))) as [cfs|]; [|reflexivity].
    set (c0 := with_st _ c). change (conns (st c)) with (conns (st c0)). clearbody c0.
    revert c0. induction cfs as [|cf cfs IH]; intro c0; cbn [fold_left]; [reflexivity|].
    rewrite IH. destruct (chan_parse cf) as [[hd dom]|]; [apply leave_core_conns | reflexivity].
  Qed.

  Lemma teardown_evol h c : conns_evol (st c) (st (teardown cfg h c)).
  Proof.
    unfold teardown. destruct (nlookup h (conns (st c))) as [cn|]; [|apply conns_evol_refl].
    apply (conns_evol_remove _ _ h).
    destruct (c_nid cn) as [me|]; [|reflexivity].
    cbn [with_st st set_conns router].
    destruct (alookup (nu me) (router (st c))) as [hs|]; [|reflexivity].
    destruct (isempty (filter (fun x => negb (x =? h)) hs)); [|reflexivity].
    rewrite leave_all_conns. reflexivity.
  Qed.

  Lemma flush_closes_evol c : conns_evol (st c) (st (flush_closes cfg c)).
  Proof.
    unfold flush_closes. cbn [st].
    generalize (closing c) as l. intro l. revert c.
    induction l as [|h l IH]; intro c; cbn [fold_left]; [apply conns_evol_refl|].
    eapply conns_evol_trans; [apply teardown_evol | apply IH].
  Qed.

  (* every op except Open only moves existing connections forward (or removes them) *)
  Lemma step_evol s o : (forall h, o <> Open h) -> conns_evol s (fst (step cfg s o)).
  Proof.
    intro Hno. destruct o as [h|h m p sc hi|h|h bytes sc hi|h sc hi|ts pl]; cbn [step fst].
    - destruct (Hno h eq_refl).
    - eapply conns_evol_trans; [|apply flush_closes_evol].
      apply (on_frame_evol h m p {| st := s; script := sc; hints := hi; outs := []; closing := [] |}).
    - destruct (nlookup h (conns s)); [|apply conns_evol_refl].
      eapply conns_evol_trans; [|apply flush_closes_evol].
      apply conns_evol_eq. rewrite request_close_st. reflexivity.
    - destruct (nlookup h (conns s)); [|apply conns_evol_refl].
      eapply conns_evol_trans; [|apply flush_closes_evol].
      apply (on_items_evol h _ {| st := s; script := sc; hints := hi; outs := []; closing := [] |}).
    - apply (teardown_evol h {| st := s; script := sc; hints := hi; outs := []; closing := [] |}).
    - apply conns_evol_refl.
  Qed.

  (* reachable states: a nid only on Authenticated connections *)
  Definition conns_wf (s : state) : Prop :=
    forall h cn, nlookup h (conns s) = Some cn -> c_phase cn <> Authenticated -> c_nid cn = None.

  Lemma conn_le_wf a b :
    conn_le a b -> (c_phase a <> Authenticated -> c_nid a = None) ->
    c_phase b <> Authenticated -> c_nid b = None.
  Proof. intros [->|[_ [H|H]]] Hw Hb; auto. contradiction. Qed.

  Lemma step_wf s o : conns_wf s -> conns_wf (fst (step cfg s o)).
  Proof.
    intros Hw. destruct o as [h0|h0 m p sc hi|h0|h0 bytes sc hi|h0 sc hi|ts pl].
    - cbn [step]. destruct (max_conns cfg <=? N.of_nat (length (conns s))); cbn [fst]; [exact Hw|].
      intros h cn. cbn [conns set_conns]. rewrite nlookup_nset.
      destruct (h =? h0); [intro E; inv E; reflexivity | apply Hw].
    - intros h cn' H'. destruct (step_evol s (Frame h0 m p sc hi)) with (h := h) (cn' := cn') as (cn & H & L);
        [discriminate | exact H' |]. eapply conn_le_wf; [exact L | eapply Hw; exact H].
    - intros h cn' H'. destruct (step_evol s (BadFrame h0)) with (h := h) (cn' := cn') as (cn & H & L);
        [discriminate | exact H' |]. eapply conn_le_wf; [exact L | eapply Hw; exact H].
    - intros h cn' H'. destruct (step_evol s (Bytes h0 bytes sc hi)) with (h := h) (cn' := cn') as (cn & H & L);
        [discriminate | exact H' |]. eapply conn_le_wf; [exact L | eapply Hw; exact H].
    - intros h cn' H'. destruct (step_evol s (Hangup h0 sc hi)) with (h := h) (cn' := cn') as (cn & H & L);
        [discriminate | exact H' |]. eapply conn_le_wf; [exact L | eapply Hw; exact H].
    - exact Hw.
  Qed.

  Lemma init_wf : conns_wf init.
  Proof. intros h cn H. discriminate. Qed.

  Lemma run_state_wf ops : forall s, conns_wf s -> conns_wf (run_state cfg s ops).
  Proof.
    induction ops as [|o ops IH]; intros s Hw; cbn [run_state]; [exact Hw|].
    apply IH. apply step_wf. exact Hw.
  Qed.

  (* T3.  [Open h] is only meaningful for a fresh handle: re-opening a live handle resets its entry
     (see [C06_reopen_resets] below), so that case is excluded. *)
  Theorem C06_monotone : forall s o s' os,
    step cfg s o = (s', os) ->
    (forall h', o = Open h' -> nlookup h' (conns s) = None) ->
    forall h cn cn', nlookup h (conns s) = Some cn -> nlookup h (conns s') = Some cn' ->
      (phase_rank (c_phase cn) <= phase_rank (c_phase cn'))%nat /\
      (c_phase cn = Authenticated -> cn' = cn) /\
      (conns_wf s -> forall n, c_nid cn = Some n -> c_nid cn' = Some n).
  Proof.
    intros s o s' os Hstep Hfresh h cn cn' Hl Hl'.
    assert (Hle : conn_le cn cn').
    { destruct o as [h0|h0 m p sc hi|h0|h0 bytes sc hi|h0 sc hi|ts pl] eqn:Eo.
      - cbn [step] in Hstep. specialize (Hfresh h0 eq_refl).
        destruct (max_conns cfg <=? N.of_nat (length (conns s))); inv Hstep.
        + rewrite Hl in Hl'. inv Hl'. apply conn_le_refl.
        + cbn [conns set_conns] in Hl'. rewrite nlookup_nset in Hl'.
          destruct (h =? h0) eqn:E.
          * apply N.eqb_eq in E. subst h0. congruence.
          * rewrite Hl in Hl'. inv Hl'. apply conn_le_refl.
      - pose proof (step_evol s o) as Hev. rewrite Eo, Hstep in Hev. cbn [fst] in Hev.
        destruct (Hev ltac:(discriminate) h cn' Hl') as (cn0 & H0 & L). congruence.
      - pose proof (step_evol s o) as Hev. rewrite Eo, Hstep in Hev. cbn [fst] in Hev.
        destruct (Hev ltac:(discriminate) h cn' Hl') as (cn0 & H0 & L). congruence.
      - pose proof (step_evol s o) as Hev. rewrite Eo, Hstep in Hev. cbn [fst] in Hev.
        destruct (Hev ltac:(discriminate) h cn' Hl') as (cn0 & H0 & L). congruence.
      - pose proof (step_evol s o) as Hev. rewrite Eo, Hstep in Hev. cbn [fst] in Hev.
        destruct (Hev ltac:(discriminate) h cn' Hl') as (cn0 & H0 & L). congruence.
      - pose proof (step_evol s o) as Hev. rewrite Eo, Hstep in Hev. cbn [fst] in Hev.
        destruct (Hev ltac:(discriminate) h cn' Hl') as (cn0 & H0 & L). congruence. }
    split; [|split].
    - destruct Hle as [->|[H _]]; lia.
    - intro Ha. destruct Hle as [->|[H _]]; [reflexivity|]. rewrite Ha in H.
      destruct (c_phase cn'); cbn in H; lia.
    - intros Hw n Hn. destruct Hle as [->|[H _]]; [exact Hn|].
      assert (c_phase cn <> Authenticated).
      { intro Ha. rewrite Ha in H. destruct (c_phase cn'); cbn in H; lia. }
      rewrite (Hw h cn Hl H0) in Hn. discriminate.
  Qed.
End T3.

Print Assumptions C06_monotone.
Print Assumptions run_state_wf.

(* T3, second part: handshake messages on an Authenticated connection *)
Theorem C06_auth_rejects_handshake : forall cfg h m p c cn me,
  nlookup h (conns (st c)) = Some cn -> c_phase cn = Authenticated -> c_nid cn = Some me ->
  existsb (N.eqb h) (closing c) = false -> max_inflight cfg <> 0 ->
  is_kind m "CONNECT" = true \/ is_kind m "IDENTIFY" = true \/ is_kind m "AUTH" = true ->
  on_frame cfg h m p c =
  {| st := st c; script := script c; hints := hints c;
     outs := outs c ++ [OClose h (err_msg None "UNEXPECTED_MESSAGE")]; closing := closing c ++ [h] |}.
Proof.
  intros cfg h m p c cn me Hl Hp Hn Hc Hi Hk.
  destruct Hk as [Hk|[Hk|Hk]];
    rewrite (on_frame_auth cfg h m p c cn me Hl Hp Hn Hc Hi (is_kind_excl m _ "PONG" Hk eq_refl));
    unfold dispatch_auth; kinds Hk; cbn [fst snd fail];
    apply notify_error_unexpected; exact Hc.
Qed.

(* as one op: the error frame, then exactly the teardown of h *)
Corollary C06_auth_rejects_handshake_step : forall cfg s h m p sc hi cn me,
  nlookup h (conns s) = Some cn -> c_phase cn = Authenticated -> c_nid cn = Some me ->
  max_inflight cfg <> 0 ->
  is_kind m "CONNECT" = true \/ is_kind m "IDENTIFY" = true \/ is_kind m "AUTH" = true ->
  step cfg s (Frame h m p sc hi) =
  let c1 := teardown cfg h {| st := s; script := sc; hints := hi;
                              outs := [OClose h (err_msg None "UNEXPECTED_MESSAGE")]; closing := [h] |} in
  (st c1, outs c1).
Proof.
  intros cfg s h m p sc hi cn me Hl Hp Hn Hi Hk. cbn [step].
  rewrite (C06_auth_rejects_handshake cfg h m p {| st := s; script := sc; hints := hi; outs := []; closing := [] |}
             cn me Hl Hp Hn eq_refl Hi Hk).
  reflexivity.
Qed.

(* Counterexamples justifying the side conditions of C06_monotone *)
Module Counter.
  Import Witness.
  (* Open on a live handle resets an Authenticated connection to Connecting *)
  Example C06_reopen_resets :
    option_map c_phase (nlookup 1 (conns wstate)) = Some Authenticated /\
    option_map c_phase (nlookup 1 (conns (fst (step wcfg wstate (Open 1))))) = Some Connecting.
  Proof. vm_compute. split; reflexivity. Qed.

  (* in an ill-formed state (a nid on a Connecting entry) CONNECT erases the nid *)
  Definition bad_state : state :=
    {| conns := [(1, {| c_phase := Connecting; c_nid := Some {| nu := bs "x"; nd := bs "localhost" |}; c_hb := 0 |})];
       router := []; chans := []; inch := [] |}.
  Example C06_nid_needs_wf :
    option_map c_nid (nlookup 1 (conns (fst (step wcfg bad_state (Frame 1 m_connect None [] []))))) = Some None.
  Proof. vm_compute. reflexivity. Qed.
End Counter.

Print Assumptions C06_auth_rejects_handshake.
Print Assumptions C06_auth_rejects_handshake_step.
Print Assumptions Counter.C06_reopen_resets.
Print Assumptions Counter.C06_nid_needs_wf.
