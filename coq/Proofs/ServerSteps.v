(* Per-frame theorems about [on_frame] (Model/Server.v): T1 C12_one_reply, T2 C06_preauth_inert,
   T3 C06_monotone, T4 C09_only_success_authenticates, T5 C04_gates, T6 C08_fail_closed. *)
From NW Require Import Base.Bytes Model.SchemaTypes Model.Codec Model.MsgInfo Model.Ids Model.Framing Model.Server Gen.Schema Gen.Errors.
From NW Require Import Proofs.ServerLib Proofs.ServerRoute Proofs.ServerHandlers.

(* ================================================================== *)
(** * T1  C12: exactly one reply per request *)

(* summary of an output segment as seen from connection h and request id i:
   number of replies carrying i, whether h is closed, and no correlated frame other than those replies *)
Definition osum (h i : N) (d : list out) (r : nat) (cl : bool) : Prop :=
  replies_to h i d = r /\ closes h d = cl /\
  forall h' m' p' j, In (OSend h' m' p') d -> correlation_id schema m' = Some j -> h' = h /\ j = i.

Lemma osum_neutral h i d : Forall neutral d -> osum h i d 0 false.
Proof.
  intro H. split; [apply neutral_replies; exact H|]. split; [apply neutral_closes; exact H|].
  intros h' m' p' j Hin Hc. exfalso. eapply neutral_no_corr; eassumption.
Qed.

Lemma osum_app h i d1 d2 r1 r2 c1 c2 :
  osum h i d1 r1 c1 -> osum h i d2 r2 c2 -> osum h i (d1 ++ d2) (r1 + r2) (c1 || c2).
Proof.
  intros (A1 & A2 & A3) (B1 & B2 & B3). split; [|split].
  - rewrite replies_to_app. congruence.
  - rewrite closes_app. congruence.
  - intros h' m' p' j Hin. apply in_app_or in Hin as [Hin|Hin]; eauto.
Qed.

Lemma osum_reply h i a p : correlation_id schema a = Some i -> osum h i [OSend h a p] 1 false.
Proof.
  intro H. split; [|split].
  - unfold replies_to. cbn. rewrite H, !N.eqb_refl. reflexivity.
  - reflexivity.
  - intros h' m' p' j [Hin|[]] Hc. inv Hin. split; [reflexivity | congruence].
Qed.

Lemma osum_close h i m : correlation_id schema m = None \/ correlation_id schema m = Some i ->
  osum h i [OClose h m] 0 true.
Proof.
  intros _. split; [reflexivity|]. split.
  - unfold closes. cbn. rewrite N.eqb_refl. reflexivity.
  - intros h' m' p' j [Hin|[]]. discriminate.
Qed.

Lemma osum_one_reply h i d : one_reply h i d -> osum h i d 1 false.
Proof.
  intros (d1 & a & d2 & -> & H1 & H2 & H3).
  change (OSend h a None :: d2) with ([OSend h a None] ++ d2).
  change 1%nat with (0 + (1 + 0))%nat. change false with (false || (false || false)).
  apply osum_app; [apply osum_neutral; exact H1|].
  apply osum_app; [apply osum_reply; exact H3 | apply osum_neutral; exact H2].
Qed.

(* what [notify_error] appends, on a connection whose close has not been requested yet *)
Lemma notify_error_outs h e c :
  existsb (N.eqb h) (closing c) = false ->
  st (notify_error h e c) = st c /\
  outs (notify_error h e c) = outs c ++
    [match e with
     | PErr id reason => if is_recoverable reason then OSend h (err_msg id reason) None
                         else OClose h (err_msg id reason)
     | PInternal => OClose h (err_msg None "INTERNAL_SERVER_ERROR")
     end].
Proof.
  intro Hc. unfold notify_error. destruct e as [id reason|].
  - destruct (is_recoverable reason); [split; reflexivity|].
    rewrite (request_close_fresh _ _ _ Hc). split; reflexivity.
  - rewrite (request_close_fresh _ _ _ Hc). split; reflexivity.
Qed.

Section T1.
  Variable cfg : scfg.

  (* the Authenticated branch of [on_frame] *)
  Lemma on_frame_auth h m p c cn me :
    nlookup h (conns (st c)) = Some cn -> c_phase cn = Authenticated -> c_nid cn = Some me ->
    existsb (N.eqb h) (closing c) = false -> max_inflight cfg <> 0 -> is_kind m "PONG" = false ->
    on_frame cfg h m p c =
    match snd (dispatch_auth cfg h me m p c) with
    | None => fst (dispatch_auth cfg h me m p c)
    | Some e => notify_error h e (fst (dispatch_auth cfg h me m p c))
    end.
  Proof.
    intros Hl Hp Hn Hc Hi Hk. unfold on_frame. rewrite Hl, Hc, Hp, Hk, Hn.
    apply N.eqb_neq in Hi. rewrite Hi.
    destruct (dispatch_auth cfg h me m p c) as [c1 r]. reflexivity.
  Qed.

  (* General form: ANY frame other than PONG on an authenticated connection, whatever its kind and
     parameters; i is the value of its "id" parameter (0 when there is none). *)
  Theorem C12_one_reply_gen : forall h m p c cn me,
    nlookup h (conns (st c)) = Some cn -> c_phase cn = Authenticated -> c_nid cn = Some me ->
    existsb (N.eqb h) (closing c) = false ->
    max_inflight cfg <> 0 ->
    is_kind m "PONG" = false ->
    let i := get_num m "id" in
    let c' := on_frame cfg h m p c in
    let d := new_outs c c' in
    outs c' = outs c ++ d /\
    ( (replies_to h i d = 1%nat /\ closes h d = false)
      \/ (replies_to h i d = 0%nat /\ closes h d = true)
      \/ (replies_to h i d = 1%nat /\ closes h d = true /\ is_kind m "LEAVE" = true) ) /\
    (forall h' m' p' j, In (OSend h' m' p') d -> correlation_id schema m' = Some j -> h' = h /\ j = i).
  Proof.
    intros h m p c cn me Hl Hp Hn Hc Hi Hk i c' d.
    assert (Hsum : exists d0 r cl, outs c' = outs c ++ d0 /\ osum h i d0 r cl /\
              ((r = 1%nat /\ cl = false) \/ (r = 0%nat /\ cl = true)
               \/ (r = 1%nat /\ cl = true /\ is_kind m "LEAVE" = true))).
    { subst c'. rewrite (on_frame_auth h m p c cn me Hl Hp Hn Hc Hi Hk).
      destruct (dispatch_auth_spec cfg h me m p c) as (d0 & (_ & _ & Hcl & Ho) & Hm).
      fold i in Hm.
      destruct (dispatch_auth cfg h me m p c) as [c1 r]. cbn [fst snd] in *.
      rewrite <- Hcl in Hc.
      destruct r as [e|].
      - destruct (notify_error_outs h e c1 Hc) as (_ & Hne). rewrite Hne, Ho, <- app_assoc.
        destruct e as [[j|] reason|].
        + destruct Hm as (-> & Hd). destruct (is_recoverable reason).
          * exists (d0 ++ [OSend h (err_msg (Some i) reason) None]), (0 + 1)%nat, (false || false).
            split; [reflexivity|]. split; [|left; split; reflexivity].
            apply osum_app; [apply osum_neutral; exact Hd | apply osum_reply; reflexivity].
          * exists (d0 ++ [OClose h (err_msg (Some i) reason)]), (0 + 0)%nat, (false || true).
            split; [reflexivity|]. split; [|right; left; split; reflexivity].
            apply osum_app; [apply osum_neutral; exact Hd | apply osum_close; right; reflexivity].
        + destruct Hm as (Hr & Hd). rewrite Hr.
          exists (d0 ++ [OClose h (err_msg None reason)]), (0 + 0)%nat, (false || true).
          split; [reflexivity|]. split; [|right; left; split; reflexivity].
          apply osum_app; [apply osum_neutral; exact Hd | apply osum_close; left; reflexivity].
        + destruct Hm as [Hd|[Hlate Hd]].
          * exists (d0 ++ [OClose h (err_msg None "INTERNAL_SERVER_ERROR")]), (0 + 0)%nat, (false || true).
            split; [reflexivity|]. split; [|right; left; split; reflexivity].
            apply osum_app; [apply osum_neutral; exact Hd | apply osum_close; left; reflexivity].
          * exists (d0 ++ [OClose h (err_msg None "INTERNAL_SERVER_ERROR")]), (1 + 0)%nat, (false || true).
            split; [reflexivity|]. split; [|right; right; repeat split; exact Hlate].
            apply osum_app; [apply osum_one_reply; exact Hd | apply osum_close; left; reflexivity].
      - exists d0, 1%nat, false. split; [exact Ho|]. split; [|left; split; reflexivity].
        apply osum_one_reply. exact Hm. }
    destruct Hsum as (d0 & r & cl & Ho & (S1 & S2 & S3) & Hcases).
    assert (Hd : d = d0) by (apply new_outs_app; exact Ho).
    rewrite Hd. split; [exact Ho|]. split; [|exact S3].
    rewrite S1, S2. exact Hcases.
  Qed.
End T1.


(* The statement for the ten request kinds.  For MOD_DIRECT the id is optional on the wire
   ([get_onum]); [get_onum m "id" = Some i] implies [get_num m "id" = i]. *)
Definition request_kinds : list string :=
  ["BROADCAST"; "GET_CHAN_ACL"; "GET_CHAN_CONFIG"; "JOIN"; "LEAVE"; "CHANNELS"; "MEMBERS"; "MOD_DIRECT";
   "SET_CHAN_ACL"; "SET_CHAN_CONFIG"]%string.
Definition is_request (m : msg) : bool := existsb (is_kind m) request_kinds.

Lemma is_request_not_pong m : is_request m = true -> is_kind m "PONG" = false.
Proof.
  unfold is_request, request_kinds. cbn [existsb]. rewrite !orb_true_iff.
  intros [H|[H|[H|[H|[H|[H|[H|[H|[H|[H|H]]]]]]]]]]; try discriminate;
    exact (is_kind_excl m _ "PONG" H eq_refl).
Qed.

Theorem C12_one_reply : forall cfg h m p c cn me i,
  nlookup h (conns (st c)) = Some cn -> c_phase cn = Authenticated -> c_nid cn = Some me ->
  existsb (N.eqb h) (closing c) = false ->
  max_inflight cfg <> 0 ->
  is_request m = true ->
  (if is_kind m "MOD_DIRECT" then get_onum m "id" = Some i else get_num m "id" = i) ->
  let c' := on_frame cfg h m p c in
  let d := new_outs c c' in
  outs c' = outs c ++ d /\
  (replies_to h i d <= 1)%nat /\
  (replies_to h i d = 1%nat \/ closes h d = true) /\
  ( (replies_to h i d = 1%nat /\ closes h d = false)
    \/ (replies_to h i d = 0%nat /\ closes h d = true)
    \/ (replies_to h i d = 1%nat /\ closes h d = true /\ is_kind m "LEAVE" = true) ) /\
  (forall h' m' p' j, In (OSend h' m' p') d -> correlation_id schema m' = Some j -> h' = h /\ j = i).
Proof.
  intros cfg h m p c cn me i Hl Hp Hn Hc Hi Hr Hid c' d.
  assert (Hi' : get_num m "id" = i).
  { destruct (is_kind m "MOD_DIRECT"); [apply get_onum_num; exact Hid | exact Hid]. }
  pose proof (C12_one_reply_gen cfg h m p c cn me Hl Hp Hn Hc Hi (is_request_not_pong m Hr)) as H.
  cbv zeta in H. rewrite Hi' in H. fold c' in H. fold d in H.
  destruct H as (H1 & H2 & H3).
  split; [exact H1|]. split; [|split; [|split; [exact H2 | exact H3]]].
  - destruct H2 as [[E _]|[[E _]|[E _]]]; rewrite E; lia.
  - destruct H2 as [[E _]|[[_ E]|[E _]]]; auto.
Qed.

(* The third alternative is real: an owner's LEAVE whose second notification (the MEMBER_JOINED
   event announcing the new owner) is refused by the modulator gets its LEAVE_ACK and is then closed
   with INTERNAL_SERVER_ERROR.  So "exactly one reply XOR close" is false; "at most one reply, and
   one reply or a close" is what holds. *)
Module Witness.
  Definition wcfg : scfg :=
    {| domain := bs "localhost"; has_mod := true; op_auth := false; op_fbp := false; op_fev := true; op_spp := false;
       proto := []; max_clients := 10; max_subs := 10; max_payload_cfg := 1000; max_inflight := 10; max_message := 1000;
       keepalive := 60; min_keepalive := 1; max_conns := 10; pool_budget := 100000; max_channels := 100 |}.
  Definition m_connect := build "CONNECT" [(bs "version", VNum 1); (bs "heartbeat_interval", VNum 0)].
  Definition m_identify (u : string) := build "IDENTIFY" [(bs "username", VStr (bs u))].
  Definition m_join (i : N) (ch : string) := build "JOIN" [(bs "id", VNum i); (bs "channel", VStr (bs ch))].
  Definition m_leave (i : N) (ch : string) := build "LEAVE" [(bs "id", VNum i); (bs "channel", VStr (bs ch))].
  (* alice (connection 1, owner) and bob (connection 2) are members of !c@localhost *)
  Definition wstate : state :=
    run_state wcfg init
      [Open 1; Frame 1 m_connect None [] []; Frame 1 (m_identify "alice") None [] [];
       Open 2; Frame 2 m_connect None [] []; Frame 2 (m_identify "bob") None [] [];
       Frame 1 (m_join 1 "!c@localhost") None [] []; Frame 2 (m_join 1 "!c@localhost") None [] []].
  Definition wctx : ctx := {| st := wstate; script := [MOk; MErr]; hints := []; outs := []; closing := [] |}.
  Definition wleave := m_leave 7 "!c@localhost".

  Eval vm_compute in outs (on_frame wcfg 1 wleave None wctx).

  Lemma C12_reply_then_close :
    let d := new_outs wctx (on_frame wcfg 1 wleave None wctx) in
    is_request wleave = true /\ get_num wleave "id" = 7 /\
    replies_to 1 7 d = 1%nat /\ closes 1 d = true /\
    nth_error d 3 = Some (OSend 1 (build "LEAVE_ACK" [(bs "id", VNum 7)]) None) /\
    nth_error d 4 = Some (OClose 1 (err_msg None "INTERNAL_SERVER_ERROR")).
  Proof. vm_compute. repeat split. Qed.
End Witness.

Print Assumptions C12_one_reply_gen.
Print Assumptions C12_one_reply.
Print Assumptions Witness.C12_reply_then_close.

(* ================================================================== *)
(** * T5  C04: authorisation gates *)

Section T5.
  Variables (cfg : scfg) (h : N) (m : msg) (p : option (list N)) (c : ctx) (cn : conn) (me : nid).
  Hypothesis Hl : nlookup h (conns (st c)) = Some cn.
  Hypothesis Hp : c_phase cn = Authenticated.
  Hypothesis Hn : c_nid cn = Some me.
  Hypothesis Hc : existsb (N.eqb h) (closing c) = false.
  Hypothesis Hi : max_inflight cfg <> 0.

  (* the target channel exists and is local *)
  Variables (hd : str) (ch : chan).
  Hypothesis Hparse : chan_parse (get_str m "channel") = Some (hd, domain cfg).
  Hypothesis Hch : alookup hd (chans (st c)) = Some ch.

  (* the whole effect of a refused request: one recoverable ERROR frame carrying the request id *)
  Definition refused (reason : string) : ctx :=
    emit (OSend h (err_msg (Some (get_num m "id")) reason) None) c.

  Lemma refused_inert reason :
    st (refused reason) = st c /\ closing (refused reason) = closing c /\ script (refused reason) = script c /\
    new_outs c (refused reason) = [OSend h (err_msg (Some (get_num m "id")) reason) None].
  Proof. repeat split. apply new_outs_app. reflexivity. Qed.

  Lemma local_domain : local cfg (domain cfg) = true.
  Proof. apply list_eqb_refl. Qed.

  Ltac gate Hk :=
    rewrite (on_frame_auth cfg h m p c cn me Hl Hp Hn Hc Hi (is_kind_excl m _ "PONG" Hk eq_refl));
    unfold dispatch_auth; kinds Hk.

  Theorem C04_set_acl_gate :
    is_kind m "SET_CHAN_ACL" = true -> parse_nids (get_vec m "nids") <> None -> is_owner ch me = false ->
    on_frame cfg h m p c = refused "FORBIDDEN".
  Proof.
    intros Hk Hns Ho. gate Hk. unfold h_set_acl. rewrite Hparse.
    destruct (parse_nids (get_vec m "nids")) as [ns|]; [|congruence].
    rewrite local_domain, Hch, Ho. reflexivity.
  Qed.

  Theorem C04_get_acl_gate :
    is_kind m "GET_CHAN_ACL" = true -> is_owner ch me = false ->
    on_frame cfg h m p c = refused "FORBIDDEN".
  Proof.
    intros Hk Ho. gate Hk. unfold h_get_acl. rewrite Hparse, local_domain, Hch, Ho. reflexivity.
  Qed.

  Theorem C04_set_config_gate :
    is_kind m "SET_CHAN_CONFIG" = true ->
    get_num m "max_clients" <= max_clients cfg -> get_num m "max_payload_size" <= max_payload_cfg cfg ->
    is_owner ch me = false ->
    on_frame cfg h m p c = refused "FORBIDDEN".
  Proof.
    intros Hk H1 H2 Ho. gate Hk. unfold h_set_config. rewrite Hparse, local_domain.
    apply N.ltb_ge in H1. apply N.ltb_ge in H2. rewrite H1, H2, Hch, Ho. reflexivity.
  Qed.

  Theorem C04_join_on_behalf_gate : forall s n,
    is_kind m "JOIN" = true -> get_ostr m "on_behalf" = Some s -> nid_parse s = Some n ->
    is_owner ch me = false ->
    on_frame cfg h m p c = refused "FORBIDDEN".
  Proof.
    intros s n Hk Hob Hnp Ho. gate Hk. unfold h_join. rewrite Hparse, Hob, Hnp, local_domain, Hch, Ho. reflexivity.
  Qed.

  Theorem C04_leave_on_behalf_gate : forall s n,
    is_kind m "LEAVE" = true -> get_ostr m "on_behalf" = Some s -> nid_parse s = Some n ->
    is_owner ch me = false ->
    on_frame cfg h m p c = refused "FORBIDDEN".
  Proof.
    intros s n Hk Hob Hnp Ho. gate Hk. unfold h_leave. rewrite Hparse, Hob, Hnp.
    unfold leave_core. rewrite local_domain, Hch, Ho. reflexivity.
  Qed.

  Theorem C04_members_gate :
    is_kind m "MEMBERS" = true -> nmem me (ch_members ch) = false ->
    on_frame cfg h m p c = refused "USER_NOT_IN_CHANNEL".
  Proof.
    intros Hk Hm. gate Hk. unfold h_members. rewrite Hparse, local_domain, Hch, Hm. reflexivity.
  Qed.

  Theorem C04_get_config_gate :
    is_kind m "GET_CHAN_CONFIG" = true -> nmem me (ch_members ch) = false ->
    on_frame cfg h m p c = refused "FORBIDDEN".
  Proof.
    intros Hk Hm. gate Hk. unfold h_get_config. rewrite Hparse, Hch, Hm. reflexivity.
  Qed.

  Theorem C04_broadcast_gate :
    is_kind m "BROADCAST" = true -> has_mod cfg = false -> nmem me (ch_members ch) = false ->
    on_frame cfg h m p c = refused "FORBIDDEN".
  Proof.
    intros Hk Hmod Hm. gate Hk. unfold h_broadcast. rewrite Hparse, Hmod.
    cbv zeta beta iota. rewrite local_domain, Hch, Hm. reflexivity.
  Qed.
End T5.

(* all gates in one statement; [st] unchanged, exactly one new output, addressed to the requester *)
Theorem C04_gates : forall cfg h m p c cn me hd ch,
  nlookup h (conns (st c)) = Some cn -> c_phase cn = Authenticated -> c_nid cn = Some me ->
  existsb (N.eqb h) (closing c) = false -> max_inflight cfg <> 0 ->
  chan_parse (get_str m "channel") = Some (hd, domain cfg) ->
  alookup hd (chans (st c)) = Some ch ->
  let c' := on_frame cfg h m p c in
  let refusal reason := st c' = st c /\ closing c' = closing c /\
                        new_outs c c' = [OSend h (err_msg (Some (get_num m "id")) reason) None] in
  (is_owner ch me = false ->
     (is_kind m "SET_CHAN_ACL" = true -> parse_nids (get_vec m "nids") <> None -> refusal "FORBIDDEN"%string) /\
     (is_kind m "GET_CHAN_ACL" = true -> refusal "FORBIDDEN"%string) /\
     (is_kind m "SET_CHAN_CONFIG" = true -> get_num m "max_clients" <= max_clients cfg ->
        get_num m "max_payload_size" <= max_payload_cfg cfg -> refusal "FORBIDDEN"%string) /\
     (is_kind m "JOIN" = true -> (exists s n, get_ostr m "on_behalf" = Some s /\ nid_parse s = Some n) ->
        refusal "FORBIDDEN"%string) /\
     (is_kind m "LEAVE" = true -> (exists s n, get_ostr m "on_behalf" = Some s /\ nid_parse s = Some n) ->
        refusal "FORBIDDEN"%string)) /\
  (nmem me (ch_members ch) = false ->
     (is_kind m "MEMBERS" = true -> refusal "USER_NOT_IN_CHANNEL"%string) /\
     (is_kind m "GET_CHAN_CONFIG" = true -> refusal "FORBIDDEN"%string) /\
     (is_kind m "BROADCAST" = true -> has_mod cfg = false -> refusal "FORBIDDEN"%string)).
Proof.
  intros cfg h m p c cn me hd ch Hl Hp Hn Hc Hi Hparse Hch c' refusal.
  assert (R : forall reason, c' = refused h m c reason -> refusal reason).
  { intros reason E. unfold refusal. rewrite E.
    destruct (refused_inert h m c reason) as (A & B & _ & D). auto. }
  clearbody refusal.
  split; intro Hx; repeat split; intros;
    repeat match goal with
           | H : exists _, _ |- _ => destruct H
           | H : _ /\ _ |- _ => destruct H
           end;
    apply R;
    first [ eapply C04_set_acl_gate; eassumption
          | eapply C04_get_acl_gate; eassumption
          | eapply C04_set_config_gate; eassumption
          | eapply C04_join_on_behalf_gate; eassumption
          | eapply C04_leave_on_behalf_gate; eassumption
          | eapply C04_members_gate; eassumption
          | eapply C04_get_config_gate; eassumption
          | eapply C04_broadcast_gate; eassumption ].
Qed.

Print Assumptions C04_gates.

(* ================================================================== *)
(** * T6  C08: the modulator gate of BROADCAST fails closed *)

(* state-preserving extension (the script may be consumed) *)
Definition sext (c c1 : ctx) (d : list out) : Prop :=
  st c1 = st c /\ closing c1 = closing c /\ hints c1 = hints c /\ outs c1 = outs c ++ d.

Lemma sext_refl c : sext c c [].
Proof. unfold sext. rewrite app_nil_r. auto. Qed.
Lemma sext_trans c c1 c2 d1 d2 : sext c c1 d1 -> sext c1 c2 d2 -> sext c c2 (d1 ++ d2).
Proof.
  unfold sext. intros (A1 & A2 & A3 & A4) (B1 & B2 & B3 & B4).
  repeat split; try congruence. rewrite B4, A4, app_assoc. reflexivity.
Qed.
Lemma appends_sext c c1 d : appends c c1 d -> sext c c1 d.
Proof. unfold appends, sext. intros (A1 & _ & A3 & A4 & A5). auto. Qed.
Lemma sext_next c o c1 : next_outcome c = (o, c1) -> sext c c1 [].
Proof.
  intro H. apply next_outcome_spec in H as (S1 & S2 & S3 & S4 & _).
  unfold sext. rewrite app_nil_r. auto.
Qed.

Ltac solve_sext :=
  lazymatch goal with
  | |- sext ?c ?c _ => apply sext_refl
  | |- sext ?c (emit ?o ?x) _ => eapply (sext_trans c x); [solve_sext | apply appends_sext, emit_appends]
  | |- sext ?c (route ?cfg ?m ?p ?ts ?e ?x) _ =>
      eapply (sext_trans c x); [solve_sext | apply appends_sext, route_exact]
  | |- sext ?c ?x _ =>
      match goal with
      | H : sext ?c0 x _ |- _ => eapply (sext_trans c c0); [solve_sext | exact H]
      end
  end.

(* the payload that passes the gate *)
Definition eff_payload (cfg : scfg) (payload : list N) (sc : list moutcome) : list N :=
  if has_mod cfg then match head_outcome sc with MAltered p' => p' | _ => payload end else payload.

Definition message_for (me : nid) (req : msg) (q : list N) : msg :=
  build "MESSAGE" [(bs "from", VStr (nid_full me)); (bs "channel", VStr (get_str req "channel"));
                   (bs "length", VNum (N.of_nat (length q)))].

Section T6.
  Variables (cfg : scfg) (h : N) (me : nid) (m : msg) (payload : list N) (c : ctx).

  (* every output of h_broadcast: the gate call, the ack, or a MESSAGE with the gated payload to
     a connection other than the sender's *)
  Definition bc_out (o : out) : Prop :=
    (exists hd, o = OMod (McFbp (nid_full me) hd payload)) \/
    o = OSend h (build "BROADCAST_ACK" [(bs "id", VNum (get_num m "id"))]) None \/
    (exists h', h' <> h /\
       o = OSend h' (message_for me m (eff_payload cfg payload (script c)))
                 (Some (eff_payload cfg payload (script c)))).

  Lemma route_outs_bc q ts s :
    q = eff_payload cfg payload (script c) ->
    Forall bc_out (route_outs cfg (message_for me m q) (Some q) ts (Some h) s).
  Proof.
    intros ->. apply Forall_forall. intros o Ho. unfold route_outs in Ho.
    apply in_map_iff in Ho as (h' & <- & Hin). apply route_handles_excl in Hin.
    right. right. exists h'. split; [exact Hin | reflexivity].
  Qed.

  Ltac solve_bc Hmod Hh :=
    repeat (apply Forall_app; split);
    first [ apply Forall_nil
          | apply Forall_cons; [left; eexists; reflexivity | apply Forall_nil]
          | apply Forall_cons; [right; left; reflexivity | apply Forall_nil]
          | apply route_outs_bc; unfold eff_payload; rewrite Hmod; try rewrite <- Hh; reflexivity ].

  Lemma h_broadcast_outs :
    exists d, sext c (fst (h_broadcast cfg h me m payload c)) d /\ Forall bc_out d.
  Proof.
    unfold h_broadcast. cbv zeta. fold (message_for me m).
    destruct (chan_parse (get_str m "channel")) as [[hd dom]|] eqn:Hparse.
    2:{ exists []. split; [apply sext_refl | constructor]. }
    destruct (has_mod cfg) eqn:Hmod.
    - pose proof (next_outcome_emit (OMod (McFbp (nid_full me) hd payload)) c) as Hh.
      destruct (next_outcome (emit (OMod (McFbp (nid_full me) hd payload)) c)) as [o c1] eqn:En.
      cbn [fst] in Hh. apply sext_next in En.
      repeat (break_match; cbv beta iota).
      all: eexists; (split; [cbn [fst ok fail]; solve_sext|]).
      all: solve_bc Hmod Hh.
    - repeat (break_match; cbv beta iota).
      all: eexists; (split; [cbn [fst ok fail]; solve_sext|]).
      all: solve_bc Hmod Hmod.
  Qed.

  Let r := h_broadcast cfg h me m payload c.

  (* BROADCAST never changes the server state *)
  Theorem C08_state_unchanged : st (fst r) = st c /\ closing (fst r) = closing c.
  Proof. destruct h_broadcast_outs as (d & (H1 & H2 & _) & _). auto. Qed.

  (* every payload-carrying frame emitted by h_broadcast is a MESSAGE with the gated payload,
     correctly attributed, to a connection other than the sender's *)
  Theorem C08_payload_gate : forall h' m' q,
    In (OSend h' m' (Some q)) (new_outs c (fst r)) ->
    q = eff_payload cfg payload (script c) /\ m' = message_for me m q /\ h' <> h.
  Proof.
    intros h' m' q Hin. destruct h_broadcast_outs as (d & (_ & _ & _ & Ho) & Hd).
    fold r in Ho. rewrite (new_outs_app _ _ _ Ho) in Hin.
    rewrite Forall_forall in Hd. apply Hd in Hin as [(hd & E)|[E|(h'' & Hne & E)]]; try discriminate.
    inv E. auto.
  Qed.

  Theorem C08_message_attribution : forall h' m' q,
    In (OSend h' m' (Some q)) (new_outs c (fst r)) ->
    is_kind m' "MESSAGE" = true /\
    get_str m' "from" = nid_full me /\
    get_str m' "channel" = get_str m "channel" /\
    get_num m' "length" = N.of_nat (length q) /\
    h' <> h.
  Proof.
    intros h' m' q Hin. apply C08_payload_gate in Hin as (_ & -> & Hne).
    repeat split; try reflexivity. exact Hne.
  Qed.

  (* MAltered: the substituted payload, and only it, is delivered; the header length matches it *)
  Theorem C08_altered : forall p',
    has_mod cfg = true -> head_outcome (script c) = MAltered p' ->
    forall h' m' q, In (OSend h' m' (Some q)) (new_outs c (fst r)) ->
                    q = p' /\ get_num m' "length" = N.of_nat (length p').
  Proof.
    intros p' Hmod Hh h' m' q Hin. apply C08_payload_gate in Hin as (-> & -> & _).
    unfold eff_payload. rewrite Hmod, Hh. split; reflexivity.
  Qed.

  (* any other outcome that lets the broadcast through (or no modulator at all): the original payload *)
  Theorem C08_passthrough :
    (has_mod cfg = false \/ forall p', head_outcome (script c) <> MAltered p') ->
    forall h' m' q, In (OSend h' m' (Some q)) (new_outs c (fst r)) -> q = payload.
  Proof.
    intros Hcase h' m' q Hin. apply C08_payload_gate in Hin as (-> & _ & _).
    unfold eff_payload. destruct Hcase as [Hmod|Hna].
    - rewrite Hmod. reflexivity.
    - destruct (has_mod cfg); [|reflexivity].
      destruct (head_outcome (script c)) as [ | | |p'| | | ] eqn:E; try reflexivity.
      exfalso. exact (Hna p' eq_refl).
  Qed.

  (* MInvalid / MErr: fail closed *)
  Theorem C08_fail_closed :
    has_mod cfg = true ->
    (head_outcome (script c) = MInvalid \/ head_outcome (script c) = MErr) ->
    st (fst r) = st c /\
    (forall h' m' q, ~ In (OSend h' m' q) (new_outs c (fst r))) /\
    (forall hd dom, chan_parse (get_str m "channel") = Some (hd, dom) ->
       new_outs c (fst r) = [OMod (McFbp (nid_full me) hd payload)] /\
       snd r = Some (PErr (Some (get_num m "id"))
                          (match head_outcome (script c) with
                           | MInvalid => "BAD_REQUEST" | _ => "INTERNAL_SERVER_ERROR" end))) /\
    (chan_parse (get_str m "channel") = None -> r = (c, Some (PErr None "BAD_REQUEST"))).
  Proof.
    intros Hmod Hh.
    assert (Hmain :
      (forall hd dom, chan_parse (get_str m "channel") = Some (hd, dom) ->
         new_outs c (fst r) = [OMod (McFbp (nid_full me) hd payload)] /\
         snd r = Some (PErr (Some (get_num m "id"))
                            (match head_outcome (script c) with
                             | MInvalid => "BAD_REQUEST" | _ => "INTERNAL_SERVER_ERROR" end))) /\
      (chan_parse (get_str m "channel") = None -> r = (c, Some (PErr None "BAD_REQUEST")))).
    { subst r. unfold h_broadcast. cbv zeta.
      destruct (chan_parse (get_str m "channel")) as [[hd dom]|] eqn:Hparse.
      2:{ split; [discriminate | reflexivity]. }
      split; [|discriminate]. intros hd' dom' E. inv E. rewrite Hmod.
      pose proof (next_outcome_emit (OMod (McFbp (nid_full me) hd' payload)) c) as Ho.
      destruct (next_outcome (emit (OMod (McFbp (nid_full me) hd' payload)) c)) as [o c1] eqn:En.
      cbn [fst] in Ho. apply next_outcome_spec in En as (_ & _ & S3 & _).
      destruct Hh as [Hh|Hh]; rewrite Hh in Ho |- *; subst o; cbn [fst snd fail].
      all: split; [apply new_outs_app; rewrite S3; reflexivity | reflexivity]. }
    destruct Hmain as (Hsome & Hnone).
    split; [apply C08_state_unchanged|]. split; [|split; assumption].
    intros h' m' q Hin.
    destruct (chan_parse (get_str m "channel")) as [[hd dom]|] eqn:Hparse.
    - destruct (Hsome hd dom eq_refl) as (E & _). rewrite E in Hin.
      destruct Hin as [Hin|[]]. discriminate.
    - rewrite (Hnone eq_refl) in Hin. cbn [fst] in Hin. rewrite new_outs_refl in Hin. contradiction.
  Qed.
End T6.

Print Assumptions C08_payload_gate.
Print Assumptions C08_message_attribution.
Print Assumptions C08_altered.
Print Assumptions C08_passthrough.
Print Assumptions C08_fail_closed.

(* T6 at the level of one BROADCAST frame on an authenticated connection: the error reply or close
   that [on_frame] may add carries no payload, so the same guarantees hold for the whole frame. *)
Theorem C08_on_frame : forall cfg h m p c cn me,
  nlookup h (conns (st c)) = Some cn -> c_phase cn = Authenticated -> c_nid cn = Some me ->
  existsb (N.eqb h) (closing c) = false -> max_inflight cfg <> 0 ->
  is_kind m "BROADCAST" = true ->
  let pl := match p with Some x => x | None => [] end in
  let c' := on_frame cfg h m p c in
  st c' = st c /\
  (forall h' m' q, In (OSend h' m' (Some q)) (new_outs c c') ->
     q = eff_payload cfg pl (script c) /\ m' = message_for me m q /\ h' <> h) /\
  (has_mod cfg = true -> head_outcome (script c) = MInvalid \/ head_outcome (script c) = MErr ->
     forall h' m' q, ~ In (OSend h' m' (Some q)) (new_outs c c')).
Proof.
  intros cfg h m p c cn me Hl Hp Hn Hc Hi Hk pl c'.
  assert (Hc' : c' = match snd (h_broadcast cfg h me m pl c) with
                     | None => fst (h_broadcast cfg h me m pl c)
                     | Some e => notify_error h e (fst (h_broadcast cfg h me m pl c))
                     end).
  { subst c'. rewrite (on_frame_auth cfg h m p c cn me Hl Hp Hn Hc Hi (is_kind_excl m _ "PONG" Hk eq_refl)).
    unfold dispatch_auth. rewrite Hk. reflexivity. }
  destruct (h_broadcast_outs cfg h me m pl c) as (d & (S1 & S2 & _ & S4) & Hd).
  pose proof (C08_payload_gate cfg h me m pl c) as Hgate. cbv zeta in Hgate.
  pose proof (C08_fail_closed cfg h me m pl c) as Hfc. cbv zeta in Hfc.
  rewrite (new_outs_app _ _ _ S4) in Hgate, Hfc.
  assert (Hshape : st c' = st c /\
            exists tl, new_outs c c' = d ++ tl /\ forall h' m' q, ~ In (OSend h' m' (Some q)) tl).
  { rewrite Hc'. destruct (snd (h_broadcast cfg h me m pl c)) as [e|].
    - rewrite <- S2 in Hc. destruct (notify_error_outs h e _ Hc) as (E1 & E2). split; [congruence|].
      eexists. split; [apply new_outs_app; rewrite E2, S4, <- app_assoc; reflexivity|].
      intros h' m' q [Hin|[]].
      destruct e as [id reason|]; [destruct (is_recoverable reason)|]; discriminate.
    - split; [exact S1|]. exists []. split; [apply new_outs_app; rewrite app_nil_r; exact S4 | intros h' m' q []]. }
  destruct Hshape as (Hst & tl & Hno & Htl).
  split; [exact Hst|]. rewrite Hno. split.
  - intros h' m' q Hin. apply in_app_or in Hin as [Hin|Hin]; [apply Hgate; exact Hin | destruct (Htl _ _ _ Hin)].
  - intros Hmod Hh h' m' q Hin. destruct (Hfc Hmod Hh) as (_ & Hnone & _).
    apply in_app_or in Hin as [Hin|Hin]; [exact (Hnone _ _ _ Hin) | exact (Htl _ _ _ Hin)].
Qed.

(* the in-flight gate with capacity 0: the request is not answered, the connection is dropped *)
Lemma C12_no_capacity : forall cfg h m p c cn,
  nlookup h (conns (st c)) = Some cn -> c_phase cn = Authenticated ->
  existsb (N.eqb h) (closing c) = false -> max_inflight cfg = 0 -> is_kind m "PONG" = false ->
  st (on_frame cfg h m p c) = st c /\ new_outs c (on_frame cfg h m p c) = [ODrop h].
Proof.
  intros cfg h m p c cn Hl Hp Hc Hi Hk. unfold on_frame. rewrite Hl, Hc, Hp, Hk, Hi. cbn [N.eqb].
  rewrite (drop_conn_fresh _ _ Hc). split; [reflexivity | apply new_outs_app; reflexivity].
Qed.

Print Assumptions C08_on_frame.
Print Assumptions C12_no_capacity.
