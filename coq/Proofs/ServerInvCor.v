(* The invariant in the vocabulary of the model (nmem / smem / has_connection), the necessity of the
   side condition on Open, a concrete counterexample, and corollaries C1-C3. *)
From NW Require Import Base.Bytes Model.SchemaTypes Model.Codec Model.Ids Model.Framing Model.Server.
From NW Require Import Proofs.ServerInvBase Proofs.ServerInv Proofs.ServerUniq.

(* ---------- the clauses (a)-(h) as requested ---------- *)
Record InvSpec (cfg : scfg) (s : state) : Prop := {
  (* a *) sp_targets : forall hd ch, alookup hd (chans s) = Some ch ->
            ch_targets ch = filter (acl_allowed (ch_read ch)) (ch_members ch);
  (* b *) sp_nonempty : forall hd ch, alookup hd (chans s) = Some ch -> ch_members ch <> [];
  (* c *) sp_owner : forall hd ch, alookup hd (chans s) = Some ch ->
            exists o, ch_owner ch = Some o /\ nmem o (ch_members ch) = true;
  (* d *) sp_local : forall hd ch n, alookup hd (chans s) = Some ch -> nmem n (ch_members ch) = true ->
            nd n = domain cfg /\ nu n <> [];
          sp_members_nodup : forall hd ch, alookup hd (chans s) = Some ch -> NoDup (ch_members ch);
          sp_chan_key : forall hd ch, alookup hd (chans s) = Some ch ->
            chan_parse (chan_full hd (domain cfg)) = Some (hd, domain cfg);
  (* e *) sp_index : forall u cf,
            smem cf (match alookup u (inch s) with Some l => l | None => [] end) = true <->
            exists hd ch, chan_parse cf = Some (hd, domain cfg) /\ alookup hd (chans s) = Some ch /\
                          nmem {| nu := u; nd := domain cfg |} (ch_members ch) = true;
          sp_index_ne : forall u l, alookup u (inch s) = Some l -> l <> [] /\ NoDup l;
  (* f *) sp_router : forall u hs, alookup u (router s) = Some hs ->
            hs <> [] /\ NoDup hs /\
            forall h, In h hs <-> exists cn, nlookup h (conns s) = Some cn /\ c_phase cn = Authenticated /\
                                             c_nid cn = Some {| nu := u; nd := domain cfg |};
          sp_router_complete : forall h cn u, nlookup h (conns s) = Some cn -> c_phase cn = Authenticated ->
            c_nid cn = Some {| nu := u; nd := domain cfg |} ->
            exists hs, alookup u (router s) = Some hs /\ In h hs;
  (* g *) sp_connected : forall hd ch n, alookup hd (chans s) = Some ch -> nmem n (ch_members ch) = true ->
            has_connection s (nu n) = true;
  (* h *) sp_conn : forall h cn, nlookup h (conns s) = Some cn ->
            (c_phase cn = Authenticated <-> c_nid cn <> None) /\
            forall n, c_nid cn = Some n -> nd n = domain cfg /\ nu n <> [] }.

Theorem Inv_spec cfg s : Inv cfg s -> InvSpec cfg s.
Proof.
  intros ([Hc Hf Hb Hn] & [Hrt Hne Hcn] & HL).
  assert (Hkey : forall hd ch, alookup hd (chans s) = Some ch ->
                               chan_parse (chan_full hd (domain cfg)) = Some (hd, domain cfg)).
  { intros hd ch Hch. pose proof (Hc hd ch Hch) as Hok.
    destruct (proj1 (nonempty_In _) (co_nonempty _ _ Hok)) as [n Hi].
    destruct (co_local _ _ Hok n Hi) as [Hd _].
    rewrite <- (uid_local cfg n Hd) in Hi.
    pose proof (Hb (nu n) hd ch I Hch Hi) as Hin.
    destruct (Hf (nu n) _ I Hin) as (hd' & ch' & Hp & _ & _).
    pose proof (chan_parse_full _ _ _ Hp) as K. apply chan_full_inj in K. subst hd'. exact Hp. }
  constructor.
  - intros hd ch Hch. exact (co_targets _ _ (Hc hd ch Hch)).
  - intros hd ch Hch. exact (co_nonempty _ _ (Hc hd ch Hch)).
  - intros hd ch Hch. destruct (co_owner _ _ (Hc hd ch Hch)) as (o & Ho & Hi).
    exists o. split; [exact Ho | apply nmem_In; exact Hi].
  - intros hd ch n Hch Hm. apply nmem_In in Hm. exact (co_local _ _ (Hc hd ch Hch) n Hm).
  - intros hd ch Hch. exact (co_nodup _ _ (Hc hd ch Hch)).
  - exact Hkey.
  - intros u cf. rewrite smem_In. split.
    + intro Hi. destruct (Hf u cf I Hi) as (hd & ch & Hp & Hch & Hm).
      exists hd, ch. split; [exact Hp|]. split; [exact Hch | apply nmem_In; exact Hm].
    + intros (hd & ch & Hp & Hch & Hm). apply nmem_In in Hm.
      rewrite (chan_parse_full _ _ _ Hp). exact (Hb u hd ch I Hch Hm).
  - exact Hn.
  - intros u hs Hu. destruct (Hne u hs Hu) as [H1 H2]. split; [exact H1|]. split; [exact H2|].
    intro h. rewrite <- (Hrt u h). unfold rt_of. rewrite Hu. reflexivity.
  - intros h cn u Hl Hph Hnid.
    assert (Hi : In h (rt_of (router s) u)) by (apply Hrt; exists cn; auto).
    unfold rt_of in Hi. destruct (alookup u (router s)) as [hs|]; [|destruct Hi].
    exists hs. split; [reflexivity | exact Hi].
  - intros hd ch n Hch Hm. apply nmem_In in Hm. apply has_connection_rt. exact (HL hd ch n I Hch Hm).
  - exact Hcn.
Qed.

(* conversely the requested clauses (with the listed auxiliary ones) give back Inv: Inv is exactly InvSpec *)
Theorem spec_Inv cfg s : InvSpec cfg s -> Inv cfg s.
Proof.
  intros [Ha Hb Hc Hd Hnd Hkey He Hne Hf Hfc Hg Hh].
  split; [|split].
  - constructor.
    + intros hd ch Hch. constructor.
      * exact (Ha hd ch Hch).
      * exact (Hb hd ch Hch).
      * destruct (Hc hd ch Hch) as (o & Ho & Hm). exists o. split; [exact Ho | apply nmem_In; exact Hm].
      * intros n Hi. apply (Hd hd ch n Hch). apply nmem_In. exact Hi.
      * exact (Hnd hd ch Hch).
    + intros u cf _ Hi. apply smem_In in Hi. apply He in Hi. destruct Hi as (hd & ch & Hp & Hch & Hm).
      exists hd, ch. split; [exact Hp|]. split; [exact Hch | apply nmem_In; exact Hm].
    + intros u hd ch _ Hch Hi. apply smem_In. apply He. exists hd, ch.
      split; [exact (Hkey hd ch Hch)|]. split; [exact Hch | apply nmem_In; exact Hi].
    + exact Hne.
  - constructor.
    + intros u h. split.
      * intro Hi. unfold rt_of in Hi. destruct (alookup u (router s)) as [hs|] eqn:E; [|destruct Hi].
        destruct (Hf u hs E) as (_ & _ & K). apply K. exact Hi.
      * intros (cn & Hl & Hph & Hn). destruct (Hfc h cn u Hl Hph Hn) as (hs & E & Hi).
        unfold rt_of. rewrite E. exact Hi.
    + intros u hs E. destruct (Hf u hs E) as (K1 & K2 & _). split; assumption.
    + exact Hh.
  - intros hd ch n _ Hch Hi. apply has_connection_rt. apply (Hg hd ch n Hch). apply nmem_In. exact Hi.
Qed.

Theorem Inv_iff_spec cfg s : Inv cfg s <-> InvSpec cfg s.
Proof. split; [apply Inv_spec | apply spec_Inv]. Qed.

(* a simple sufficient condition for op_ok: handlers are opened fresh *)
Lemma op_ok_fresh cfg s h : nlookup h (conns s) = None -> op_ok cfg s (Open h).
Proof. intro H. right. intros cn K. congruence. Qed.

Lemma op_ok_not_open cfg s o : (forall h, o <> Open h) -> op_ok cfg s o.
Proof. intro H. destruct o; cbn; try exact I. exfalso. exact (H h eq_refl). Qed.

(* ---------- the side condition on Open is necessary ---------- *)
Theorem reopen_authenticated_breaks_inv cfg s h cn :
  Inv cfg s -> nlookup h (conns s) = Some cn -> c_phase cn = Authenticated ->
  (max_conns cfg <=? N.of_nat (length (conns s))) = false ->
  ~ Inv cfg (fst (step cfg s (Open h))).
Proof.
  intros (_ & [Hrt Hne Hcn] & _) Hl Hph Hov. cbn [step]. rewrite Hov. cbn [fst].
  intros (_ & [Hrt' _ _] & _). cbn [set_conns router conns] in Hrt'.
  destruct (Hcn h cn Hl) as [Ha Hloc].
  destruct (c_nid cn) as [n|] eqn:Hnid; [|apply Ha in Hph; congruence].
  destruct (Hloc n eq_refl) as [Hd _].
  assert (Hi : In h (rt_of (router s) (nu n))).
  { apply Hrt. exists cn. split; [exact Hl|]. split; [exact Hph|]. rewrite (uid_local cfg n Hd). exact Hnid. }
  apply Hrt' in Hi. destruct Hi as (cn' & Hl' & Hph' & _).
  rewrite nlookup_nset, N.eqb_refl in Hl'. injection Hl' as <-. discriminate.
Qed.

Theorem op_ok_iff cfg s o :
  Inv cfg s -> (op_ok cfg s o <-> Inv cfg (fst (step cfg s o))).
Proof.
  intro HI. split; [apply inv_step; exact HI|].
  intro HI'. destruct o; cbn [op_ok]; try exact I.
  destruct (max_conns cfg <=? N.of_nat (length (conns s))) eqn:E; [left; reflexivity | right].
  intros cn Hl Hph. exact (reopen_authenticated_breaks_inv cfg s h cn HI Hl Hph E HI').
Qed.

(* ---------- a concrete trace ---------- *)
Definition cex_cfg : scfg :=
  {| domain := bs "localhost"; has_mod := false; op_auth := false; op_fbp := false; op_fev := false; op_spp := false;
     proto := []; max_clients := 10; max_subs := 10; max_payload_cfg := 1000; max_inflight := 10; max_message := 1000;
     keepalive := 60; min_keepalive := 10; max_conns := 10; pool_budget := 100000; max_channels := 100 |}.
Definition cex_ops : list op :=
  [Open 1;
   Frame 1 (build "CONNECT" [(bs "version", VNum 1); (bs "heartbeat_interval", VNum 0)]) None [] [];
   Frame 1 (build "IDENTIFY" [(bs "username", VStr (bs "alice"))]) None [] [];
   Frame 1 (build "JOIN" [(bs "id", VNum 1); (bs "channel", VStr (bs "!room@localhost"))]) None [] [];
   Open 1].

(* after the second Open the router still lists handler 1 for alice, but connection 1 is Connecting *)
Example reopen_counterexample : ~ Inv cex_cfg (run_state cex_cfg init cex_ops).
Proof.
  intros (_ & [Hrt _ _] & _).
  pose proof (proj1 (Hrt (bs "alice") 1)) as K. vm_compute in K.
  destruct (K (or_introl eq_refl)) as (cn & H1 & H2 & _).
  injection H1 as <-. discriminate.
Qed.

(* ... and a Hangup then leaves alice as a member of !room with no connection at all *)
Example reopen_ghost_member :
  let s := run_state cex_cfg init (cex_ops ++ [Hangup 1 [] []]) in
  conns s = [] /\
  exists ch, alookup (bs "room") (chans s) = Some ch /\
             ch_members ch = [{| nu := bs "alice"; nd := bs "localhost" |}].
Proof. vm_compute. split; [reflexivity|]. eexists. split; reflexivity. Qed.

(* ---------- C1 ---------- *)
Theorem hangup_last_connection_cleans_up cfg s h cn n sc hi :
  Inv cfg s ->
  nlookup h (conns s) = Some cn -> c_nid cn = Some n -> alookup (nu n) (router s) = Some [h] ->
  let s' := fst (step cfg s (Hangup h sc hi)) in
  alookup (nu n) (inch s') = None /\
  alookup (nu n) (router s') = None /\
  forall hd ch, alookup hd (chans s') = Some ch -> nmem n (ch_members ch) = false.
Proof.
  intros HI Hl Hnid Hr. cbn [step fst].
  set (c := {| st := s; script := sc; hints := hi; outs := []; closing := [] |}).
  destruct (teardown_spec cfg h c HI) as [_ K].
  specialize (K cn n Hl Hnid). cbn [st c] in K.
  assert (Hf : filter (fun x => negb (x =? h)) (rt_of (router s) (nu n)) = []).
  { unfold rt_of. rewrite Hr. cbn [filter]. rewrite N.eqb_refl. reflexivity. }
  destruct (K Hf) as (K1 & K2 & K3). split; [exact K1|]. split; [exact K2|].
  intros hd ch Hch. apply nmem_false. exact (K3 hd ch Hch).
Qed.

(* ---------- C3 ---------- *)
Theorem refused_join_changes_nothing cfg h me m c c' e :
  h_join cfg h me m c = (c', Some e) -> st c' = st c.
Proof.
  intro H. pose proof (h_join_spec cfg h me m c) as K. rewrite H in K. exact K.
Qed.

(* ---------- C2 ---------- *)
Theorem fresh_channel_defaults cfg h me m c c' hd dom :
  chan_parse (get_str m "channel") = Some (hd, dom) ->
  alookup hd (chans (st c)) = None ->
  h_join cfg h me m c = (c', None) ->
  exists ch, alookup hd (chans (st c')) = Some ch /\
    ch_owner ch = Some me /\ ch_members ch = [me] /\ ch_targets ch = [me] /\
    ch_join ch = [] /\ ch_pub ch = [] /\ ch_read ch = [] /\
    ch_max_clients ch = max_clients cfg /\ ch_max_payload ch = max_payload_cfg cfg.
Proof.
  intros Hp Hnone H. pose proof (h_join_spec cfg h me m c) as K. rewrite H in K. cbn [snd fst] in K.
  destruct K as (hd' & n & Hp' & Hwho & _ & Hst). rewrite Hp in Hp'. injection Hp' as <- ->.
  rewrite Hnone in Hwho, Hst.
  assert (n = me) as ->.
  { destruct Hwho as [->|(_ & _ & K)]; [reflexivity | discriminate]. }
  exists (insert_member (new_chan cfg) me). split.
  - rewrite Hst, index_add_chans, alookup_put_chan, list_eqb_refl. reflexivity.
  - repeat split.
Qed.

Print Assumptions Inv_spec.
Print Assumptions Inv_iff_spec.
Print Assumptions op_ok_iff.
Print Assumptions reopen_counterexample.
Print Assumptions reopen_ghost_member.
Print Assumptions hangup_last_connection_cleans_up.
Print Assumptions refused_join_changes_nothing.
Print Assumptions fresh_channel_defaults.
Print Assumptions inv_init.
Print Assumptions inv_step.
Print Assumptions inv_run.
Print Assumptions inv_reachable.

(* ---------- everything together ---------- *)
Theorem reachable_full cfg ops :
  ops_ok cfg init ops ->
  let s := run_state cfg init ops in Inv cfg s /\ InvSpec cfg s /\ Uniq s.
Proof.
  intro H. cbv zeta. pose proof (inv_reachable cfg ops H) as HI.
  split; [exact HI|]. split; [apply Inv_spec; exact HI | apply uniq_reachable].
Qed.
Print Assumptions reachable_full.
