(* Proofs about Model/Inflight.v: with the live decrement the counter always equals the number of requests in flight —
   whatever the order in which they end — so a request is refused only when max_inflight_requests are really in flight
   and an idle connection has its whole window back; with the admission-time snapshot written back the counter drifts. *)
From NW Require Import Model.Inflight.
From Coq Require Import List Arith Bool Lia.
Import ListNotations.

Lemma drop_length : forall id l c, find_run id l = Some c -> S (length (drop_run id l)) = length l.
Proof.
  induction l as [|[i c0] r IH]; intros c H; simpl in *; [discriminate|].
  destruct (i =? id); [reflexivity|]. simpl. rewrite (IH c H). reflexivity.
Qed.

Theorem live_step_counts : forall limit s e s',
  counter s = length (running s) -> istep true limit s e = IOk s' -> counter s' = length (running s').
Proof.
  intros limit s e s' H St. destruct e as [id|id]; unfold istep in St.
  - destruct (find_run id (running s)); [discriminate|].
    destruct (limit <=? counter s); [discriminate|]. inversion St; subst s'; simpl.
    rewrite app_length. simpl. lia.
  - destruct (find_run id (running s)) as [c|] eqn:F; [|discriminate].
    inversion St; subst s'; simpl. pose proof (drop_length id (running s) c F). lia.
Qed.

(* every reachable state: the counter is the number of requests in flight *)
Theorem live_counter_is_inflight : forall limit evs,
  let s := fst (irun true limit iinit evs) in counter s = length (running s).
Proof.
  intros limit evs.
  assert (forall evs s, counter s = length (running s) -> counter (fst (irun true limit s evs)) = length (running (fst (irun true limit s evs)))) as H.
  { induction evs0 as [|e r IH]; intros s Hs; simpl; [exact Hs|].
    destruct (istep true limit s e) eqn:E; [apply IH; eapply live_step_counts; eauto | exact Hs | apply IH; exact Hs]. }
  apply H. reflexivity.
Qed.

(* a refusal means the window really is full; an idle connection has the whole window *)
Corollary live_refusal_means_full : forall limit evs id,
  let s := fst (irun true limit iinit evs) in
  istep true limit s (IAdmit id) = IRefused -> limit <= length (running s).
Proof.
  intros limit evs id. cbv zeta. pose proof (live_counter_is_inflight limit evs) as C. cbv zeta in C.
  remember (fst (irun true limit iinit evs)) as s. intros H.
  unfold istep in H. destruct (find_run id (running s)); [discriminate|].
  destruct (limit <=? counter s) eqn:E; [|discriminate]. apply Nat.leb_le in E. lia.
Qed.

Corollary live_idle_connection_has_its_window : forall limit evs,
  let s := fst (irun true limit iinit evs) in running s = [] -> counter s = 0.
Proof.
  intros limit evs. cbv zeta. pose proof (live_counter_is_inflight limit evs) as C. cbv zeta in C.
  intros H. rewrite H in C. exact C.
Qed.

(* the snapshot variant: two requests in flight together that end in the order they arrived leave the counter at 1 with
   nothing in flight; repeated, a limit of 3 is used up by requests that all succeeded *)
Theorem snapshot_counter_drifts_refuted :
  let s := fst (irun false 3 iinit [IAdmit 1; IAdmit 2; IEnd 1; IEnd 2]) in
  running s = [] /\ counter s = 1 /\
  snd (irun false 3 iinit [IAdmit 1; IAdmit 2; IEnd 1; IEnd 2; IAdmit 3; IAdmit 4; IEnd 3; IEnd 4;
                           IAdmit 5; IAdmit 6; IEnd 5; IEnd 6; IAdmit 7]) = true /\
  (* in reverse order of arrival the drift does not show *)
  counter (fst (irun false 3 iinit [IAdmit 1; IAdmit 2; IEnd 2; IEnd 1])) = 0.
Proof. vm_compute. repeat split; reflexivity. Qed.

Print Assumptions live_counter_is_inflight.
Print Assumptions live_refusal_means_full.
Print Assumptions snapshot_counter_drifts_refuted.
