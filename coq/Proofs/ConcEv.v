(* Interleaved model: the invariant is established by the initial state and preserved by every event other than a
   task's segment (IDENTIFY/AUTH, a request frame, a hang-up, a request time-out); the two fixed findings as schedules. *)
From Coq Require Import List NArith Bool Lia.
From NW Require Import Model.Conc Proofs.ConcDefs.
Import ListNotations.
Open Scope N_scope.

Ltac sim := cbn [cg tasks next_tid objs cmap next_oid idx reg wl cuser set_cuser set_reg set_idx set_wl set_objs
                 set_cmap set_next unlock fst snd t_conn t_me t_rest t_pc] in *.

(* ---------- small library ---------- *)
Lemma upd_same {A} (m : N -> A) k v : upd m k v k = v.
Proof. unfold upd. now rewrite N.eqb_refl. Qed.
Lemma upd_other {A} (m : N -> A) k v x : x <> k -> upd m k v x = m x.
Proof. unfold upd. intros H. destruct (N.eqb_spec x k); congruence. Qed.

Lemma mem_In u l : mem u l = true <-> In u l.
Proof.
  unfold mem. rewrite existsb_exists. split.
  - intros [x [Hx He]]. apply N.eqb_eq in He. now subst.
  - intros H. exists u. split; auto. apply N.eqb_refl.
Qed.
Lemma In_del x u l : In x (del u l) <-> In x l /\ x <> u.
Proof. unfold del. rewrite filter_In, negb_true_iff, N.eqb_neq. tauto. Qed.
Lemma NoDup_del u l : NoDup l -> NoDup (del u l).
Proof. apply NoDup_filter. Qed.
Lemma isnil_true {A} (l : list A) : isnil l = true <-> l = [].
Proof. destruct l; cbn; split; congruence. Qed.
Lemma isnil_false {A} (l : list A) : isnil l = false <-> l <> [].
Proof. destruct l; cbn; split; congruence. Qed.

Lemma NoDup_snoc {A} (l : list A) x : NoDup l -> ~ In x l -> NoDup (l ++ [x]).
Proof.
  induction l as [|a l IH]; cbn; intros Hn Hx.
  - constructor; auto.
  - inversion Hn; subst. constructor.
    + rewrite in_app_iff. cbn. intuition.
    + apply IH; auto.
Qed.

Lemma pick_next_In hint l ch r : l <> [] -> pick_next hint l = (ch, r) -> forall x, In x l <-> x = ch \/ In x r.
Proof.
  unfold pick_next. intros Hl H x. destruct (mem hint l) eqn:Hm.
  - injection H as <- <-. apply mem_In in Hm. rewrite In_del.
    destruct (N.eq_dec x hint); subst; intuition.
  - destruct l as [|a l]; [congruence|]. injection H as <- <-. cbn. intuition.
Qed.
Lemma pick_next_NoDup hint l ch r : NoDup l -> pick_next hint l = (ch, r) -> NoDup r.
Proof.
  unfold pick_next. intros Hn H. destruct (mem hint l).
  - injection H as <- <-. now apply NoDup_del.
  - destruct l as [|a l]; injection H as <- <-; [constructor|]. now inversion Hn.
Qed.

(* task lists *)
Lemma tlookup_In t l k : tlookup t l = Some k -> In (t, k) l.
Proof.
  induction l as [|[a v] l IH]; cbn; [congruence|].
  destruct (N.eqb_spec t a); intros H.
  - injection H as <-. subst. now left.
  - right. auto.
Qed.
Lemma keys_inj (l : list (tid * task)) t k1 k2 : NoDup (map fst l) -> In (t, k1) l -> In (t, k2) l -> k1 = k2.
Proof.
  induction l as [|[a v] l IH]; cbn; [tauto|]. intros Hn H1 H2. inversion Hn; subst.
  destruct H1 as [H1|H1], H2 as [H2|H2]; try congruence.
  - injection H1 as -> ->. exfalso. apply H3. apply (in_map fst) in H2. exact H2.
  - injection H2 as -> ->. exfalso. apply H3. apply (in_map fst) in H1. exact H1.
  - auto.
Qed.
Lemma NoDup_keys_filter (f : tid * task -> bool) l : NoDup (map fst l) -> NoDup (map fst (filter f l)).
Proof.
  induction l as [|a l IH]; cbn; auto. intros Hn. inversion Hn; subst. destruct (f a); cbn; auto.
  constructor; auto. intros Hin. apply H1. apply in_map_iff in Hin. destruct Hin as [e [He Hin]].
  apply filter_In in Hin. rewrite <- He. apply in_map. tauto.
Qed.
Lemma In_tremove t t' k l : In (t', k) (tremove t l) <-> In (t', k) l /\ t' <> t.
Proof. unfold tremove. rewrite filter_In, negb_true_iff, N.eqb_neq. cbn. tauto. Qed.

Lemma tids_snoc (l : list (tid * task)) n k :
  NoDup (map fst l) /\ (forall t k, In (t, k) l -> t < n) ->
  NoDup (map fst (l ++ [(n, k)])) /\ (forall t k', In (t, k') (l ++ [(n, k)]) -> t < n + 1).
Proof.
  intros [Hn Hb]. split.
  - rewrite map_app. cbn [map fst]. apply NoDup_snoc; auto. intros Hin. apply in_map_iff in Hin.
    destruct Hin as [[a v] [He Hin]]. cbn in He. subst. apply Hb in Hin. lia.
  - intros t k' Hin. apply in_app_iff in Hin. destruct Hin as [Hin|[Hin|[]]].
    + apply Hb in Hin. lia.
    + injection Hin as <- <-. lia.
Qed.

Lemma holds_lock g t k o : task_ok g t k -> holds (t_pc k) = Some o -> wl g o = Some t.
Proof.
  unfold task_ok. intros [_ H] Hh. destruct (t_pc k); cbn in Hh; try discriminate; injection Hh as <-; tauto.
Qed.

Lemma task_ok_frame g g' t k :
  task_ok g t k -> objs g' = objs g -> cmap g' = cmap g -> next_oid g' = next_oid g ->
  (forall c, t_conn k = Some c -> cuser g c = Some (t_me k) -> cuser g' c = Some (t_me k)) ->
  (forall o, holds (t_pc k) = Some o -> wl g o = Some t -> wl g' o = Some t) ->
  task_ok g' t k.
Proof.
  unfold task_ok. intros [H1 H2] Ho Hc Hn Hu Hw. split.
  - destruct (t_conn k); [|exact H1]. destruct H1. split; auto.
  - rewrite Ho, Hc, Hn. destruct (t_pc k); auto; cbn in Hw; intuition.
Qed.

Lemma covered_mono s s' u ch o :
  (forall t k, In (t, k) (tasks s) -> t_conn k = None -> In (t, k) (tasks s')) -> covered s u ch o -> covered s' u ch o.
Proof. intros H (t & k & Hin & Hc & Hr). exists t, k. split; auto. Qed.

(* an event that leaves the channel objects and the map alone *)
Lemma cinv_frame s s' :
  CInv s ->
  objs (cg s') = objs (cg s) -> cmap (cg s') = cmap (cg s) -> next_oid (cg s') = next_oid (cg s) ->
  (forall o, wl (cg s) o = None -> wl (cg s') o = None) ->
  (forall u ch, In ch (idx (cg s') u) -> In ch (idx (cg s) u)) ->
  (forall u, NoDup (idx (cg s') u)) ->
  (forall u, NoDup (reg (cg s') u)) ->
  (forall c u, In c (reg (cg s') u) <-> cuser (cg s') c = Some u) ->
  (forall u ch o, cmap (cg s) ch = Some o -> In u (members (objs (cg s) o)) -> is_listed (cg s') u ch \/ covered s' u ch o) ->
  (forall u ch o, cmap (cg s) ch = Some o -> In u (members (objs (cg s) o)) -> reg (cg s') u <> [] \/ covered s' u ch o) ->
  (NoDup (map fst (tasks s')) /\ forall t k, In (t, k) (tasks s') -> t < next_tid s') ->
  (forall o t, wl (cg s') o = Some t -> exists k, In (t, k) (tasks s') /\ holds (t_pc k) = Some o) ->
  (forall t k, In (t, k) (tasks s') -> task_ok (cg s') t k) ->
  (forall t k, In (t, k) (tasks s') -> In (t, k) (tasks s) \/ exists r, t_pc k = PStart r) ->
  CInv s'.
Proof.
  intros I Ho Hc Hn Hw Hi Hni Hnr Hrc Hml Hmc Ht Hl Hk Hold.
  constructor; try rewrite Ho; try rewrite Hc; try rewrite Hn; auto; try apply I.
  - intros o Hlt. destruct (i_fresh s I o Hlt) as (A & B & C). auto.
  - intros u ch Hli. apply Hi in Hli. destruct (i_listed_member s I u ch Hli) as (o & A & B).
    exists o. rewrite Ho, Hc. auto.
  - intros t k ch o n id Hin Hp. destruct (Hold t k Hin) as [H|[r H]]; [|congruence].
    exact (i_join_guest s I t k ch o n id H Hp).
Qed.

(* ---------- the initial state ---------- *)
Theorem cinv_init : CInv cinit.
Proof.
  constructor; cbn.
  all: try (intros; split; [|split]; congruence).
  all: try congruence. all: try constructor. all: try tauto.
  all: try (intros; discriminate). all: try constructor.
Qed.

(* ---------- IDENTIFY / AUTH ---------- *)
Theorem cinv_identify cf s c u x : CInv s -> CInv (fst (cstep cf s (EIdentify c u x))).
Proof.
  intros I. unfold cstep. destruct (cuser (cg s) c) eqn:Hc; [exact I|].
  destruct (x && negb (isnil (reg (cg s) u))); [exact I|]. cbn [fst].
  assert (Hnc : forall u', ~ In c (reg (cg s) u')).
  { intros u' Hin. apply (i_reg_cuser s I) in Hin. congruence. }
  apply (cinv_frame s); sim; auto; try apply I.
  - intros u'. unfold upd. destruct (u' =? u); [|apply I]. apply NoDup_snoc; [apply I|apply Hnc].
  - intros c' u'. unfold upd. destruct (N.eqb_spec u' u), (N.eqb_spec c' c); subst.
    + rewrite in_app_iff. cbn. tauto.
    + rewrite in_app_iff. cbn. rewrite (i_reg_cuser s I). intuition congruence.
    + split; [intros H; now apply Hnc in H|congruence].
    + apply I.
  - intros u' ch o Hm Hin. destruct (i_member_connected s I u' ch o Hm Hin) as [H|H].
    + left. unfold upd. destruct (u' =? u); auto. destruct (reg (cg s) u); cbn; congruence.
    + right. revert H. apply covered_mono. auto.
  - intros t k Hin. apply (task_ok_frame (cg s)); sim; auto; [now apply I|].
    intros c' _ Hc'. unfold upd. destruct (N.eqb_spec c' c); subst; congruence.
Qed.

(* ---------- a request frame ---------- *)
Theorem cinv_req cf s c r : CInv s -> CInv (fst (cstep cf s (EReq c r))).
Proof.
  intros I. unfold cstep. destruct (cuser (cg s) c) eqn:Hc; [|exact I]. cbn [fst].
  apply (cinv_frame s); sim; auto; try apply I.
  - intros u' ch o Hm Hin. destruct (i_member_listed s I u' ch o Hm Hin) as [H|H]; [left; exact H|right].
    revert H. apply covered_mono. sim. intros. apply in_app_iff. auto.
  - intros u' ch o Hm Hin. destruct (i_member_connected s I u' ch o Hm Hin) as [H|H]; [left; exact H|right].
    revert H. apply covered_mono. sim. intros. apply in_app_iff. auto.
  - apply tids_snoc. apply I.
  - intros o t Hw. destruct (i_lock_holder s I o t Hw) as (k & A & B). exists k. split; auto. apply in_app_iff. auto.
  - intros t k Hin. apply in_app_iff in Hin. destruct Hin as [Hin|[Hin|[]]].
    + now apply I.
    + injection Hin as <- <-. unfold task_ok. sim. auto.
  - intros t k Hin. apply in_app_iff in Hin. destruct Hin as [Hin|[Hin|[]]]; auto.
    injection Hin as <- <-. right. now exists r.
Qed.

(* ---------- the request time-out ---------- *)
Lemma release_fields g k :
  objs (release_of g k) = objs g /\ cmap (release_of g k) = cmap g /\ next_oid (release_of g k) = next_oid g /\
  idx (release_of g k) = idx g /\ reg (release_of g k) = reg g /\ cuser (release_of g k) = cuser g /\
  forall o, wl (release_of g k) o = if match holds (t_pc k) with Some o' => o =? o' | None => false end then None else wl g o.
Proof. unfold release_of. destruct (holds (t_pc k)); sim; unfold upd; intuition. Qed.

Theorem cinv_drop cf s t : CInv s -> CInv (fst (cstep cf s (EDrop t))).
Proof.
  intros I. unfold cstep. destruct (tlookup t (tasks s)) as [k|] eqn:Hl; [|exact I].
  destruct (t_conn k) as [c|] eqn:Hc; [|exact I]. cbn [fst].
  apply tlookup_In in Hl.
  destruct (release_fields (cg s) k) as (Ro & Rm & Rn & Ri & Rr & Rc & Rw).
  assert (Hcov : forall u ch o, covered s u ch o ->
            covered {| cg := release_of (cg s) k; tasks := tremove t (tasks s); next_tid := next_tid s |} u ch o).
  { intros u ch o. apply covered_mono. sim. intros t' k' Hin Hn. apply In_tremove. split; auto.
    intros ->. rewrite (keys_inj _ _ _ _ (proj1 (i_tids s I)) Hin Hl) in Hn. congruence. }
  apply (cinv_frame s); sim; auto; try rewrite Ri; try rewrite Rr; try rewrite Rc; auto; try apply I.
  - intros o Hw. rewrite Rw, Hw. now destruct (match holds (t_pc k) with Some _ => _ | None => _ end).
  - intros u' ch o Hm Hin. destruct (i_member_listed s I u' ch o Hm Hin) as [H|H]; [left|right; auto].
    unfold is_listed in *. now rewrite Ri.
  - intros u' ch o Hm Hin. destruct (i_member_connected s I u' ch o Hm Hin) as [H|H]; [left; exact H|right; auto].
  - split.
    + apply NoDup_keys_filter. apply I.
    + intros t' k' Hin. apply In_tremove in Hin. apply (proj2 (i_tids s I) t' k'). tauto.
  - intros o t' Hw. rewrite Rw in Hw.
    destruct (holds (t_pc k)) as [o'|] eqn:Hh.
    + destruct (N.eqb_spec o o'); [discriminate|].
      destruct (i_lock_holder s I o t' Hw) as (k' & A & B). exists k'. split; auto. apply In_tremove. split; auto.
      intros ->. rewrite (keys_inj _ _ _ _ (proj1 (i_tids s I)) A Hl) in B. congruence.
    + destruct (i_lock_holder s I o t' Hw) as (k' & A & B). exists k'. split; auto. apply In_tremove. split; auto.
      intros ->. rewrite (keys_inj _ _ _ _ (proj1 (i_tids s I)) A Hl) in B. congruence.
  - intros t' k' Hin. apply In_tremove in Hin. destruct Hin as [Hin Hne].
    apply (task_ok_frame (cg s)); auto; [now apply I|congruence|].
    intros o Hh Hw. rewrite Rw. destruct (holds (t_pc k)) as [o'|] eqn:Hh'; auto.
    destruct (N.eqb_spec o o'); auto. subst o'.
    pose proof (holds_lock _ _ _ _ (i_tasks s I t k Hl) Hh'). congruence.
  - intros t' k' Hin. apply In_tremove in Hin. tauto.
Qed.

(* ---------- a hang-up ---------- *)
(* first the connection's requests are cancelled: their locks are released, the tasks disappear *)
Definition holds_o (o : oid) (k : task) : bool := match holds (t_pc k) with Some o' => o =? o' | None => false end.
Definition released (c : conn) (l : list (tid * task)) (o : oid) : bool :=
  existsb (fun e => of_conn c (snd e) && holds_o o (snd e)) l.

Lemma cancel_fields c l : forall g,
  let g1 := fold_left (fun acc e => if of_conn c (snd e) then release_of acc (snd e) else acc) l g in
  objs g1 = objs g /\ cmap g1 = cmap g /\ next_oid g1 = next_oid g /\ idx g1 = idx g /\ reg g1 = reg g /\
  cuser g1 = cuser g /\ forall o, wl g1 o = if released c l o then None else wl g o.
Proof.
  induction l as [|e l IH]; intros g; cbn [fold_left released existsb].
  - intuition.
  - specialize (IH (if of_conn c (snd e) then release_of g (snd e) else g)). cbv zeta in IH.
    destruct IH as (A1 & A2 & A3 & A4 & A5 & A6 & A7).
    destruct (release_fields g (snd e)) as (B1 & B2 & B3 & B4 & B5 & B6 & B7).
    rewrite A1, A2, A3, A4, A5, A6.
    destruct (of_conn c (snd e)); cbn [andb orb].
    + repeat split; auto. intros o. rewrite A7, B7. fold (holds_o o (snd e)).
      fold (released c l o). destruct (holds_o o (snd e)), (released c l o); reflexivity.
    + repeat split; auto.
Qed.

Lemma cancel_inv c s :
  CInv s ->
  CInv {| cg := fold_left (fun acc e => if of_conn c (snd e) then release_of acc (snd e) else acc) (tasks s) (cg s);
          tasks := filter (fun e => negb (of_conn c (snd e))) (tasks s); next_tid := next_tid s |}.
Proof.
  intros I. destruct (cancel_fields c (tasks s) (cg s)) as (Ro & Rm & Rn & Ri & Rr & Rc & Rw). cbv zeta in *.
  set (g1 := fold_left _ (tasks s) (cg s)) in *.
  assert (Hrel : forall o, released c (tasks s) o = true ->
                 exists t k, In (t, k) (tasks s) /\ of_conn c k = true /\ holds (t_pc k) = Some o).
  { intros o H. unfold released in H. apply existsb_exists in H. destruct H as [[t k] [Hin H]]. cbn [snd] in H.
    apply andb_true_iff in H. destruct H as [H1 H2]. exists t, k. repeat split; auto.
    unfold holds_o in H2. destruct (holds (t_pc k)); [|discriminate]. apply N.eqb_eq in H2. now subst. }
  assert (Hkeep : forall t k, In (t, k) (tasks s) -> of_conn c k = false ->
                  In (t, k) (filter (fun e => negb (of_conn c (snd e))) (tasks s))).
  { intros t k Hin Hf. apply filter_In. split; auto. cbn [snd]. now rewrite Hf. }
  assert (Hcov : forall u ch o, covered s u ch o ->
            covered {| cg := g1; tasks := filter (fun e => negb (of_conn c (snd e))) (tasks s); next_tid := next_tid s |} u ch o).
  { intros u ch o. apply covered_mono. sim. intros t k Hin Hn. apply Hkeep; auto. unfold of_conn. now rewrite Hn. }
  apply (cinv_frame s); sim; auto; try rewrite Ri; try rewrite Rr; try rewrite Rc; auto; try apply I.
  - intros o Hw. rewrite Rw, Hw. now destruct (released c (tasks s) o).
  - intros u' ch o Hm Hin. destruct (i_member_listed s I u' ch o Hm Hin) as [H|H]; [left|right; auto].
    unfold is_listed in *. now rewrite Ri.
  - intros u' ch o Hm Hin. destruct (i_member_connected s I u' ch o Hm Hin) as [H|H]; [left; exact H|right; auto].
  - split.
    + apply NoDup_keys_filter. apply I.
    + intros t' k' Hin. apply filter_In in Hin. apply (proj2 (i_tids s I) t' k'). tauto.
  - intros o t Hw. rewrite Rw in Hw. destruct (released c (tasks s) o) eqn:Hr; [discriminate|].
    destruct (i_lock_holder s I o t Hw) as (k & A & B). exists k. split; auto. apply Hkeep; auto.
    destruct (of_conn c k) eqn:Hoc; auto. exfalso.
    assert (released c (tasks s) o = true); [|congruence].
    unfold released. apply existsb_exists. exists (t, k). split; auto. cbn [snd]. rewrite Hoc. unfold holds_o.
    rewrite B. cbn. apply N.eqb_refl.
  - intros t k Hin. apply filter_In in Hin. destruct Hin as [Hin Hoc]. cbn [snd] in Hoc. apply negb_true_iff in Hoc.
    apply (task_ok_frame (cg s)); auto; [now apply I|congruence|].
    intros o Hh Hw. rewrite Rw. destruct (released c (tasks s) o) eqn:Hr; auto.
    destruct (Hrel o Hr) as (t2 & k2 & A & B & C).
    pose proof (holds_lock _ _ _ _ (i_tasks s I t2 k2 A) C) as Hw2. rewrite Hw in Hw2. injection Hw2 as <-.
    rewrite (keys_inj _ _ _ _ (proj1 (i_tids s I)) Hin A) in Hoc. congruence.
  - intros t k Hin. apply filter_In in Hin. tauto.
Qed.

Lemma cancel_none c s t k :
  In (t, k) (filter (fun e => negb (of_conn c (snd e))) (tasks s)) -> t_conn k <> Some c.
Proof.
  intros Hin. apply filter_In in Hin. destruct Hin as [_ H]. cbn [snd] in H. apply negb_true_iff in H.
  unfold of_conn in H. intros E. rewrite E, N.eqb_refl in H. discriminate.
Qed.

(* then the connection is unregistered; the last connection of the name starts the clean-up *)
Section Unregister.
  Variables (s : cstate) (c : conn) (u : user).
  Hypothesis I : CInv s.
  Hypothesis Hnone : forall t k, In (t, k) (tasks s) -> t_conn k <> Some c.
  Hypothesis Hcu : cuser (cg s) c = Some u.
  Let rest := del c (reg (cg s) u).
  Let g2 := set_cuser (set_reg (cg s) (upd (reg (cg s)) u rest)) (upd (cuser (cg s)) c None).

  Lemma unreg_nodup u' : NoDup (upd (reg (cg s)) u rest u').
  Proof. unfold upd. destruct (u' =? u); [apply NoDup_del|]; apply I. Qed.

  Lemma unreg_reg_cuser c' u' : In c' (upd (reg (cg s)) u rest u') <-> upd (cuser (cg s)) c None c' = Some u'.
  Proof.
    unfold upd, rest. destruct (N.eqb_spec u' u), (N.eqb_spec c' c); subst.
    - rewrite In_del. split; [tauto|discriminate].
    - rewrite In_del, (i_reg_cuser s I). tauto.
    - rewrite (i_reg_cuser s I). split; [congruence|discriminate].
    - apply I.
  Qed.

  Lemma unreg_other u' : u' <> u -> upd (reg (cg s)) u rest u' = reg (cg s) u'.
  Proof. apply upd_other. Qed.

  Lemma unreg_task g' t k :
    objs g' = objs (cg s) -> cmap g' = cmap (cg s) -> next_oid g' = next_oid (cg s) -> wl g' = wl (cg s) ->
    cuser g' = upd (cuser (cg s)) c None -> In (t, k) (tasks s) -> task_ok g' t k.
  Proof.
    intros Ho Hm Hn Hw Hc Hin. apply (task_ok_frame (cg s)); auto; [now apply I| |congruence].
    intros c' Hc' Hu. rewrite Hc. rewrite upd_other; auto. intros ->. exact (Hnone _ _ Hin Hc').
  Qed.

  Lemma unreg_inv_more : isnil rest = false -> CInv {| cg := g2; tasks := tasks s; next_tid := next_tid s |}.
  Proof.
    intros Hr. apply isnil_false in Hr.
    apply (cinv_frame s); unfold g2; sim; auto; try apply I.
    - apply unreg_nodup.
    - apply unreg_reg_cuser.
    - intros u' ch o Hm Hin. destruct (i_member_connected s I u' ch o Hm Hin) as [H|H]; [left|right].
      + destruct (N.eq_dec u' u) as [->|Hne]; [now rewrite upd_same|now rewrite unreg_other].
      + revert H. apply covered_mono. auto.
    - intros t k Hin. apply unreg_task; auto.
  Qed.

  Variable hint : chan.
  Let newtasks :=
    match idx g2 u with
    | [] => tasks s
    | _ :: _ => let '(ch, r) := pick_next hint (idx g2 u) in
                tasks s ++ [(next_tid s, {| t_conn := None; t_me := u; t_rest := r; t_pc := PStart (RLeave ch None 0) |})]
    end.
  Let s' := {| cg := set_idx g2 (upd (idx g2) u []); tasks := newtasks; next_tid := next_tid s + 1 |}.

  Lemma newtasks_old t k : In (t, k) (tasks s) -> In (t, k) newtasks.
  Proof.
    intros Hin. unfold newtasks. destruct (idx g2 u); auto. destruct (pick_next hint _). apply in_app_iff. auto.
  Qed.

  Lemma newtasks_cases t k :
    In (t, k) newtasks ->
    In (t, k) (tasks s) \/
    exists ch r, idx (cg s) u <> [] /\ pick_next hint (idx (cg s) u) = (ch, r) /\ t = next_tid s /\
                 k = {| t_conn := None; t_me := u; t_rest := r; t_pc := PStart (RLeave ch None 0) |}.
  Proof.
    unfold newtasks, g2. sim. destruct (idx (cg s) u) as [|a l] eqn:E; auto.
    destruct (pick_next hint (a :: l)) as [ch r] eqn:P. intros Hin. apply in_app_iff in Hin.
    destruct Hin as [Hin|[Hin|[]]]; auto. right. injection Hin as <- <-. exists ch, r. repeat split; auto. discriminate.
  Qed.

  Lemma covered_old u' ch o : covered s u' ch o -> covered s' u' ch o.
  Proof. apply covered_mono. intros t k Hin _. now apply newtasks_old. Qed.

  Lemma covered_new ch o : In ch (idx (cg s) u) -> covered s' u ch o.
  Proof.
    intros Hin. unfold covered, s'. cbn [tasks]. unfold newtasks, g2. sim.
    destruct (idx (cg s) u) as [|a l] eqn:E; [destruct Hin|].
    destruct (pick_next hint (a :: l)) as [ch0 r] eqn:P.
    exists (next_tid s), {| t_conn := None; t_me := u; t_rest := r; t_pc := PStart (RLeave ch0 None 0) |}.
    split; [apply in_app_iff; right; now left|]. sim. repeat split; auto.
    apply (pick_next_In hint (a :: l) ch0 r) in Hin; auto; [|discriminate].
    destruct Hin as [->|Hin]; [right|left; auto]. left. now exists 0.
  Qed.

  Lemma unreg_inv_last : isnil rest = true -> CInv s'.
  Proof.
    intros Hr. apply isnil_true in Hr.
    apply (cinv_frame s); unfold s', g2; sim; auto; try apply I.
    - intros u' ch. unfold upd. destruct (u' =? u); [intros []|auto].
    - intros u'. unfold upd. destruct (u' =? u); [constructor|apply I].
    - apply unreg_nodup.
    - apply unreg_reg_cuser.
    - intros u' ch o Hm Hin. destruct (i_member_listed s I u' ch o Hm Hin) as [H|H].
      + destruct (N.eq_dec u' u) as [->|Hne].
        * right. now apply covered_new.
        * left. unfold is_listed in *. sim. now rewrite upd_other.
      + right. now apply covered_old.
    - intros u' ch o Hm Hin. destruct (i_member_connected s I u' ch o Hm Hin) as [H|H].
      + destruct (N.eq_dec u' u) as [->|Hne].
        * right. destruct (i_member_listed s I u ch o Hm Hin) as [H'|H']; [now apply covered_new|now apply covered_old].
        * left. now rewrite unreg_other.
      + right. now apply covered_old.
    - unfold newtasks, g2. sim. destruct (idx (cg s) u) as [|a l].
      + destruct (i_tids s I) as [A B]. split; auto. intros t k Hin. apply B in Hin. lia.
      + destruct (pick_next hint (a :: l)). apply tids_snoc. apply I.
    - intros o t Hw. destruct (i_lock_holder s I o t Hw) as (k & A & B). exists k. split; auto. now apply newtasks_old.
    - intros t k Hin. apply newtasks_cases in Hin. destruct Hin as [Hin|(ch & r & Hne & P & -> & ->)].
      + apply unreg_task; auto.
      + unfold task_ok. sim. repeat split; auto. apply (pick_next_NoDup hint _ ch r) in P; auto. apply I.
    - intros t k Hin. apply newtasks_cases in Hin. destruct Hin as [Hin|(ch & r & Hne & P & -> & ->)]; auto.
      right. sim. eauto.
  Qed.
End Unregister.

Theorem cinv_hangup cf s c hint : CInv s -> CInv (fst (cstep cf s (EHangup c hint))).
Proof.
  intros I. unfold cstep. destruct (cuser (cg s) c) as [u|] eqn:Hc; [|exact I]. cbv zeta.
  pose proof (cancel_inv c s I) as I1.
  destruct (cancel_fields c (tasks s) (cg s)) as (_ & _ & _ & _ & _ & Rc & _). cbv zeta in Rc.
  set (g1 := fold_left _ (tasks s) (cg s)) in *.
  set (ts := filter _ (tasks s)) in *.
  set (s1 := {| cg := g1; tasks := ts; next_tid := next_tid s |}) in *.
  assert (Hnone : forall t k, In (t, k) (tasks s1) -> t_conn k <> Some c).
  { intros t k. apply cancel_none. }
  assert (Hcu : cuser (cg s1) c = Some u).
  { unfold s1. sim. now rewrite Rc. }
  destruct (isnil (del c (reg g1 u))) eqn:Hr; cbn [fst].
  - exact (unreg_inv_last s1 c u I1 Hnone Hcu hint Hr).
  - exact (unreg_inv_more s1 c u I1 Hnone Hcu Hr).
Qed.

(* ---- the code before the two fixes, as schedules of the same model ---- *)
Definition cf_of (ptr early : bool) : ccfg :=
  {| fwd_event := true; fwd_payload := false; ptr_check := ptr; idx_early := early; c_max_subs := 10; c_max_clients := 10 |}.

(* before fix 8cc81f1: alice (conn 1, user 10) creates channel 7, her announcement is pending; bob (2, 20) waits for the
   lock; the announcement fails (channel released), carol (3, 30) creates channel 7 anew, then bob runs *)
Definition orphan_schedule : list ev :=
  [EIdentify 1 10 true; EIdentify 2 20 true; EIdentify 3 30 true;
   EReq 1 (RJoin 7 None 1); ERun 0 true 0;
   EReq 2 (RJoin 7 None 2); ERun 1 true 0;
   EReq 3 (RJoin 7 None 3);
   ERun 0 false 0; ERun 2 true 0; ERun 2 true 0; ERun 1 true 0; ERun 1 true 0].

Theorem conc_waiting_join_admitted_to_released_channel_refuted :
  let s := cstate_after (cf_of false true) orphan_schedule in
  quiescent s /\ is_listed (cg s) 20 7 /\ ~ is_member (cg s) 20 7 /\ In (OAck 2 2 A_JOIN) (snd (crun (cf_of false true) cinit orphan_schedule)).
Proof.
  cbv zeta. split; [|split; [|split]].
  - vm_compute. reflexivity.
  - unfold is_listed. vm_compute. auto.
  - intros (o & H1 & H2). vm_compute in H1. injection H1 as <-. vm_compute in H2. intuition discriminate.
  - vm_compute. intuition.
Qed.

Theorem conc_waiting_join_refused_now :
  let s := cstate_after (cf_of true true) orphan_schedule in
  quiescent s /\ ~ is_listed (cg s) 20 7 /\ In (OErr 2 2 E_RESOURCE_CONFLICT) (snd (crun (cf_of true true) cinit orphan_schedule)).
Proof.
  cbv zeta. split; [|split].
  - vm_compute. reflexivity.
  - unfold is_listed. vm_compute. intuition discriminate.
  - vm_compute. intuition.
Qed.

(* before fix 05c7804: alice owns channel 7; she joins bob on his behalf, the announcement is pending; bob's only
   connection goes away (nothing listed yet: nothing to clean up); the announcement succeeds *)
Definition ghost_schedule : list ev :=
  [EIdentify 1 10 true; EIdentify 2 20 true;
   EReq 1 (RJoin 7 None 1); ERun 0 true 0; ERun 0 true 0;
   EReq 1 (RJoin 7 (Some 20) 2); ERun 1 true 0;
   EHangup 2 0;
   ERun 1 true 0].

Theorem conc_late_index_leaves_ghost_member_refuted :
  let s := cstate_after (cf_of true false) ghost_schedule in
  quiescent s /\ is_member (cg s) 20 7 /\ reg (cg s) 20 = [].
Proof.
  cbv zeta. split; [|split].
  - vm_compute. reflexivity.
  - exists 0. split; vm_compute; auto.
  - vm_compute. reflexivity.
Qed.

Theorem conc_early_index_no_ghost_now :
  let s := fst (crun (cf_of true true) cinit (ghost_schedule ++ [ERun 2 true 0; ERun 2 true 0])) in
  quiescent s /\ ~ is_member (cg s) 20 7.
Proof.
  cbv zeta. split.
  - vm_compute. reflexivity.
  - intros (o & H1 & H2). vm_compute in H1. injection H1 as <-. vm_compute in H2. intuition discriminate.
Qed.
