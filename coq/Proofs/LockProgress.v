(* Deadlock freedom of the lock protocol (Model/Locks.v), on top of the no-wedge theorem of LockProofs.v:
   from EVERY state reachable by ANY schedule of ANY mix of disciplined programs, a schedule exists under
   which every task still finishes — provided each suspended modulator call is eventually answered (or, in
   the second variant, cancelled by the request timeout).  So no combination of requests can leave tasks
   waiting for each other's channel locks for ever: the per-channel async locks are covered as well, not
   only the map-shard locks of no_wedge.

   Extra invariant (Inv2): the thread table only names Ready tasks of that thread, finished tasks have an
   empty program, and the state of every channel lock equals the number of tasks recorded as holding it.
   Measure: 3 x remaining actions + status weight (Parked 2, Ready 1, Done 0) + size of the thread table;
   progress shows that some event strictly decreases it unless everything is done. *)
From NW Require Import Base.Bytes Model.Locks Proofs.LockProofs.
From Coq Require Import Lia.
Import ListNotations.
Local Open Scope nat_scope.

Local Arguments set_key : simpl never.
Local Arguments remove_key : simpl never.

Ltac psimpl := cbn [tasks sync_owner chan_lock running t_thread t_prog t_status t_async with_task].

(* ---------- counting ---------- *)
Definition holds (c : nat) (t : task) : bool :=
  match t_async t with Some c' => (c' =? c) | None => false end.
Definition b2n (b : bool) : nat := if b then 1 else 0.
Fixpoint count (p : task -> bool) (l : list task) : nat :=
  match l with [] => 0 | t :: r => b2n (p t) + count p r end.
Definition holders (s : lstate) (c : nat) : nat := count (holds c) (tasks s).
Definition chan_ok (st : rw) (n : nat) : Prop :=
  match st with RFree => n = 0 | RRead k => n = k /\ 1 <= k | RWrite => n = 1 end.

Lemma count_set_nth : forall p l i t t',
  nth_error l i = Some t -> count p (set_nth i t' l) + b2n (p t) = count p l + b2n (p t').
Proof.
  induction l as [|x l IH]; intros [|i] t t' H; simpl in *; try discriminate.
  - inversion H; subst. lia.
  - specialize (IH i t t' H). lia.
Qed.

Lemma count_pos : forall p l i t, nth_error l i = Some t -> p t = true -> 1 <= count p l.
Proof.
  induction l as [|x l IH]; intros [|i] t H Hp; simpl in *; try discriminate.
  - inversion H; subst. rewrite Hp. simpl. lia.
  - specialize (IH i t H Hp). lia.
Qed.

Lemma find_task : forall (p : task -> bool) (l : list task),
  (exists i t, nth_error l i = Some t /\ p t = true) \/ (forall i t, nth_error l i = Some t -> p t = false).
Proof.
  induction l as [|x l IH].
  - right. intros [|i] t H; discriminate.
  - destruct (p x) eqn:E.
    + left. exists 0, x. split; [reflexivity|exact E].
    + destruct IH as [[i [t [H Hp]]]|H].
      * left. exists (S i), t. split; assumption.
      * right. intros [|i] t Hn; simpl in Hn; [inversion Hn; subst; exact E | eapply H; eauto].
Qed.

Lemma count_none : forall p l, (forall i t, nth_error l i = Some t -> p t = false) -> count p l = 0.
Proof.
  induction l as [|x l IH]; intros H; simpl; [reflexivity|].
  rewrite (H 0 x eq_refl). simpl. apply IH. intros i t Hn. apply (H (S i) t Hn).
Qed.

(* ---------- the measure ---------- *)
Definition sw (st : tstatus) : nat := match st with Ready => 1 | Parked => 2 | Done => 0 end.
Definition w (t : task) : nat := 3 * length (t_prog t) + sw (t_status t).
Fixpoint tw (l : list task) : nat := match l with [] => 0 | t :: r => w t + tw r end.
Definition M (s : lstate) : nat := tw (tasks s) + length (running s).

Lemma tw_set_nth : forall l i t t', nth_error l i = Some t -> tw (set_nth i t' l) + w t = tw l + w t'.
Proof.
  induction l as [|x l IH]; intros [|i] t t' H; simpl in *; try discriminate.
  - inversion H; subst. lia.
  - specialize (IH i t t' H). lia.
Qed.

Lemma length_remove_key : forall A k (l : list (nat * A)), length (remove_key k l) <= length l.
Proof.
  intros A k l. unfold remove_key. induction l as [|x l IH]; simpl; [lia|].
  destruct (negb (k =? fst x)); simpl; lia.
Qed.

Lemma length_remove_key_lt : forall A k (l : list (nat * A)) v,
  lookup k l = Some v -> length (remove_key k l) < length l.
Proof.
  intros A k l v. unfold remove_key. induction l as [|[k' v'] l IH]; simpl; [discriminate|].
  destruct (k =? k') eqn:E; simpl.
  - intros _. pose proof (length_remove_key A k l) as H. unfold remove_key in H. lia.
  - intros H. specialize (IH H). lia.
Qed.

Lemma length_set_key : forall A k (v : A) l, length (set_key k v l) <= S (length l).
Proof. intros. unfold set_key. simpl. pose proof (length_remove_key A k l). lia. Qed.

Lemma remove_set_key : forall A k (v : A) l, remove_key k (set_key k v l) = remove_key k l.
Proof.
  intros A k v l. unfold set_key, remove_key. simpl. rewrite Nat.eqb_refl. simpl.
  induction l as [|x l IH]; simpl; [reflexivity|].
  destruct (negb (k =? fst x)) eqn:E; simpl; [rewrite E; f_equal; exact IH | exact IH].
Qed.

(* ---------- the extended invariant ---------- *)
Record Inv2 (s : lstate) : Prop := {
  i2_inv : Inv s;
  i2_run : forall th j, lookup th (running s) = Some j ->
     exists t, nth_error (tasks s) j = Some t /\ t_thread t = th /\ t_status t = Ready;
  i2_done : forall i t, nth_error (tasks s) i = Some t -> t_status t = Done -> t_prog t = [];
  i2_chan : forall c, chan_ok (chan_state s c) (holders s c)
}.

Lemma inv2_update : forall s i t t' so' cl' run',
  Inv2 s -> nth_error (tasks s) i = Some t ->
  Inv {| tasks := set_nth i t' (tasks s); sync_owner := so'; chan_lock := cl'; running := run' |} ->
  t_thread t' = t_thread t ->
  (t_status t' = Done -> t_prog t' = []) ->
  (forall th j, lookup th run' = Some j ->
      (j = i /\ th = t_thread t /\ t_status t' = Ready) \/ (j <> i /\ lookup th (running s) = Some j)) ->
  (forall c n, n + b2n (holds c t) = holders s c + b2n (holds c t') ->
      chan_ok (match lookup c cl' with Some x => x | None => RFree end) n) ->
  Inv2 {| tasks := set_nth i t' (tasks s); sync_owner := so'; chan_lock := cl'; running := run' |}.
Proof.
  intros s i t t' so' cl' run' H2 Hn HI Hth Hdone Hrun Hchan.
  constructor; psimpl.
  - exact HI.
  - intros th j Hl. destruct (Hrun th j Hl) as [[-> [-> Hr]]|[Hne Hold]].
    + exists t'. split; [eapply nth_error_set_nth_eq; eauto | split; [exact Hth | exact Hr]].
    + destruct (i2_run s H2 th j Hold) as [tj [Hj [Htj Hrj]]].
      exists tj. split; [rewrite nth_error_set_nth_neq by congruence; exact Hj | split; assumption].
  - intros k tk Hk Hd. destruct (Nat.eq_dec k i) as [->|Hne].
    + rewrite (nth_error_set_nth_eq _ _ _ _ t' Hn) in Hk. inversion Hk; subst tk. exact (Hdone Hd).
    + rewrite nth_error_set_nth_neq in Hk by congruence. exact (i2_done s H2 k tk Hk Hd).
  - intros c. unfold chan_state, holders; psimpl. apply Hchan.
    apply count_set_nth. exact Hn.
Qed.

(* chan component when neither the lock table nor the task's holding changes *)
Lemma chan_same : forall s t t' c n,
  Inv2 s -> t_async t' = t_async t ->
  n + b2n (holds c t) = holders s c + b2n (holds c t') ->
  chan_ok (match lookup c (chan_lock s) with Some x => x | None => RFree end) n.
Proof.
  intros s t t' c n H2 Ha Hn. unfold holds in Hn. rewrite Ha in Hn.
  assert (n = holders s c) as -> by lia. exact (i2_chan s H2 c).
Qed.

Lemma lookup_set_key_eq : forall A k (v : A) l, lookup k (set_key k v l) = Some v.
Proof. intros. rewrite lookup_set_key. rewrite Nat.eqb_refl. reflexivity. Qed.

Lemma lookup_set_key_neq : forall A k k' (v : A) l, k <> k' -> lookup k (set_key k' v l) = lookup k l.
Proof. intros. rewrite lookup_set_key. apply Nat.eqb_neq in H. rewrite H. reflexivity. Qed.

(* thread table after "advance" (set_key th i) *)
Lemma run_advance : forall s i t th j,
  Inv2 s -> nth_error (tasks s) i = Some t -> thread_free_for s i (t_thread t) = true ->
  lookup th (set_key (t_thread t) i (running s)) = Some j ->
  (j = i /\ th = t_thread t) \/ (j <> i /\ lookup th (running s) = Some j).
Proof.
  intros s i t th j H2 Hn Hfree Hl.
  destruct (Nat.eq_dec th (t_thread t)) as [->|Hne].
  - rewrite lookup_set_key_eq in Hl. inversion Hl; subst. left; split; reflexivity.
  - rewrite lookup_set_key_neq in Hl by exact Hne. right. split; [|exact Hl].
    intros ->. destruct (i2_run s H2 th i Hl) as [ti [Hi [Hti _]]].
    rewrite Hn in Hi. inversion Hi; subst ti. congruence.
Qed.

(* thread table after "yield" (remove_key th (set_key th i ..)) *)
Lemma run_yield : forall s i t th j,
  Inv2 s -> nth_error (tasks s) i = Some t ->
  lookup th (remove_key (t_thread t) (set_key (t_thread t) i (running s))) = Some j ->
  j <> i /\ lookup th (running s) = Some j.
Proof.
  intros s i t th j H2 Hn Hl. rewrite remove_set_key in Hl. rewrite lookup_remove_key in Hl.
  destruct (th =? t_thread t) eqn:E; [discriminate|]. split; [|exact Hl].
  intros ->. destruct (i2_run s H2 th i Hl) as [ti [Hi [Hti _]]].
  rewrite Hn in Hi. inversion Hi; subst ti. apply Nat.eqb_neq in E. congruence.
Qed.

Lemma run_remove : forall s i t th j,
  Inv2 s -> nth_error (tasks s) i = Some t ->
  lookup th (remove_key (t_thread t) (running s)) = Some j ->
  j <> i /\ lookup th (running s) = Some j.
Proof.
  intros s i t th j H2 Hn Hl. rewrite lookup_remove_key in Hl.
  destruct (th =? t_thread t) eqn:E; [discriminate|]. split; [|exact Hl].
  intros ->. destruct (i2_run s H2 th i Hl) as [ti [Hi [Hti _]]].
  rewrite Hn in Hi. inversion Hi; subst ti. apply Nat.eqb_neq in E. congruence.
Qed.

Lemma holds_some : forall c c', holds c {| t_thread := 0; t_prog := []; t_status := Ready; t_async := Some c' |} = (c' =? c).
Proof. reflexivity. Qed.

(* ---------- preservation ---------- *)
Theorem lstep_inv2 : forall s e s', Inv2 s -> lstep s e = LOk s' -> Inv2 s'.
Proof.
  intros s e s' H2 Hstep.
  pose proof (lstep_inv s e s' (i2_inv s H2) Hstep) as HI'.
  pose proof (i2_inv s H2) as HI.
  destruct e as [i|i|i]; unfold lstep in Hstep.
  - (* Run i *)
    destruct (nth_error (tasks s) i) as [t|] eqn:Hn; [|discriminate].
    destruct (inv_disc s HI i t Hn) as [hs [Hd Hh]].
    destruct (t_status t) eqn:Hst; try discriminate.
    destruct (t_prog t) as [|a rest] eqn:Hp.
    + (* completion *)
      simpl in Hd. destruct hs; [discriminate|]. destruct (t_async t) eqn:Ha; [discriminate|].
      inversion Hstep; subst s'; clear Hstep.
      eapply (inv2_update s i t); eauto; psimpl.
      * intros th j Hl. right.
        destruct (thread_free_for s i (t_thread t)) eqn:Hfree.
        { eapply run_remove; eauto. }
        { split; [|exact Hl]. intros ->.
          destruct (i2_run s H2 th i Hl) as [ti [Hi [Hti _]]]. rewrite Hn in Hi. inversion Hi; subst ti.
          unfold thread_free_for in Hfree. rewrite Hti in Hfree. rewrite Hl in Hfree. rewrite Nat.eqb_refl in Hfree. discriminate. }
      * intros c n Hc. (eapply (chan_same s t); [exact H2 | | exact Hc]; psimpl; congruence).
    + destruct (thread_free_for s i (t_thread t)) eqn:Hfree; simpl in Hstep; [|discriminate].
      destruct a; simpl in Hd.
      * (* SyncAcq *)
        destruct (lookup l (sync_owner s)) as [o|] eqn:Hl.
        { destruct (o =? i); discriminate. }
        inversion Hstep; subst s'; clear Hstep. unfold with_task in *; psimpl.
        eapply (inv2_update s i t); eauto; psimpl.
        { discriminate. }
        { intros th j Hlk. destruct (run_advance s i t th j H2 Hn Hfree Hlk) as [[-> ->]|R]; [left; auto | right; exact R]. }
        { intros c n Hc. (eapply (chan_same s t); [exact H2 | | exact Hc]; psimpl; congruence). }
      * (* SyncRel *)
        inversion Hstep; subst s'; clear Hstep. unfold with_task in *; psimpl.
        eapply (inv2_update s i t); eauto; psimpl.
        { discriminate. }
        { intros th j Hlk. destruct (run_advance s i t th j H2 Hn Hfree Hlk) as [[-> ->]|R]; [left; auto | right; exact R]. }
        { intros c n Hc. (eapply (chan_same s t); [exact H2 | | exact Hc]; psimpl; congruence). }
      * (* AsyncAcqR c *)
        destruct hs; [discriminate|]. destruct (t_async t) eqn:Ha; [discriminate|].
        pose proof (i2_chan s H2 c) as Hc0.
        destruct (chan_state s c) as [|k|] eqn:Hcs;
          inversion Hstep; subst s'; clear Hstep; unfold with_task in *; psimpl.
        { eapply (inv2_update s i t); eauto; psimpl.
          - discriminate.
          - intros th j Hlk. destruct (run_advance s i t th j H2 Hn Hfree Hlk) as [[-> ->]|R]; [left; auto | right; exact R].
          - intros c' n Hc. unfold holds in Hc; psimpl. rewrite Ha in Hc. simpl in Hc.
            destruct (Nat.eq_dec c' c) as [->|Hne].
            + rewrite lookup_set_key_eq. rewrite Nat.eqb_refl in Hc. simpl in Hc, Hc0. simpl. lia.
            + rewrite lookup_set_key_neq by exact Hne.
              assert (c =? c' = false) as E by (apply Nat.eqb_neq; congruence). rewrite E in Hc. simpl in Hc.
              assert (n = holders s c') as -> by lia. exact (i2_chan s H2 c'). }
        { eapply (inv2_update s i t); eauto; psimpl.
          - discriminate.
          - intros th j Hlk. destruct (run_advance s i t th j H2 Hn Hfree Hlk) as [[-> ->]|R]; [left; auto | right; exact R].
          - intros c' n Hc. unfold holds in Hc; psimpl. rewrite Ha in Hc. simpl in Hc.
            destruct (Nat.eq_dec c' c) as [->|Hne].
            + rewrite lookup_set_key_eq. rewrite Nat.eqb_refl in Hc. simpl in Hc, Hc0. simpl. lia.
            + rewrite lookup_set_key_neq by exact Hne.
              assert (c =? c' = false) as E by (apply Nat.eqb_neq; congruence). rewrite E in Hc. simpl in Hc.
              assert (n = holders s c') as -> by lia. exact (i2_chan s H2 c'). }
        { (* parked on the channel lock: yield *)
          eapply (inv2_update s i t); eauto; psimpl.
          - discriminate.
          - intros th j Hlk. right. eapply run_yield; eauto.
          - intros c' n Hc. (eapply (chan_same s t); [exact H2 | | exact Hc]; psimpl; congruence). }
      * (* AsyncAcqW c *)
        destruct hs; [discriminate|]. destruct (t_async t) eqn:Ha; [discriminate|].
        pose proof (i2_chan s H2 c) as Hc0.
        destruct (chan_state s c) as [|k|] eqn:Hcs;
          inversion Hstep; subst s'; clear Hstep; unfold with_task in *; psimpl.
        { eapply (inv2_update s i t); eauto; psimpl.
          - discriminate.
          - intros th j Hlk. destruct (run_advance s i t th j H2 Hn Hfree Hlk) as [[-> ->]|R]; [left; auto | right; exact R].
          - intros c' n Hc. unfold holds in Hc; psimpl. rewrite Ha in Hc. simpl in Hc.
            destruct (Nat.eq_dec c' c) as [->|Hne].
            + rewrite lookup_set_key_eq. rewrite Nat.eqb_refl in Hc. simpl in Hc, Hc0. simpl. lia.
            + rewrite lookup_set_key_neq by exact Hne.
              assert (c =? c' = false) as E by (apply Nat.eqb_neq; congruence). rewrite E in Hc. simpl in Hc.
              assert (n = holders s c') as -> by lia. exact (i2_chan s H2 c'). }
        { eapply (inv2_update s i t); eauto; psimpl.
          - discriminate.
          - intros th j Hlk. right. eapply run_yield; eauto.
          - intros c' n Hc. (eapply (chan_same s t); [exact H2 | | exact Hc]; psimpl; congruence). }
        { eapply (inv2_update s i t); eauto; psimpl.
          - discriminate.
          - intros th j Hlk. right. eapply run_yield; eauto.
          - intros c' n Hc. (eapply (chan_same s t); [exact H2 | | exact Hc]; psimpl; congruence). }
      * (* AsyncRel c *)
        destruct hs; [discriminate|]. destruct (t_async t) as [c0|] eqn:Ha; [|discriminate].
        apply andb_prop in Hd. destruct Hd as [Hcc Hd]. apply Nat.eqb_eq in Hcc. subst c0.
        pose proof (i2_chan s H2 c) as Hc0.
        assert (1 <= holders s c) as Hpos.
        { unfold holders. eapply count_pos; eauto. unfold holds. rewrite Ha. apply Nat.eqb_refl. }
        inversion Hstep; subst s'; clear Hstep. unfold with_task in *; psimpl.
        eapply (inv2_update s i t); eauto; psimpl.
        { discriminate. }
        { intros th j Hlk. destruct (run_advance s i t th j H2 Hn Hfree Hlk) as [[-> ->]|R]; [left; auto | right; exact R]. }
        { intros c' n Hc. unfold holds in Hc; psimpl. rewrite Ha in Hc. simpl in Hc.
          destruct (Nat.eq_dec c' c) as [->|Hne].
          - rewrite lookup_set_key_eq. rewrite Nat.eqb_refl in Hc. simpl in Hc.
            destruct (chan_state s c) as [|k|] eqn:Hcs; simpl in Hc0.
            + lia.
            + destruct k as [|[|k]]; simpl; lia.
            + simpl. lia.
          - rewrite lookup_set_key_neq by exact Hne.
            assert (c =? c' = false) as E by (apply Nat.eqb_neq; congruence). rewrite E in Hc. simpl in Hc.
            assert (n = holders s c') as -> by lia. exact (i2_chan s H2 c'). }
      * (* AwaitMod *)
        inversion Hstep; subst s'; clear Hstep. psimpl.
        eapply (inv2_update s i t); eauto; psimpl.
        { discriminate. }
        { intros th j Hlk. right. eapply run_yield; eauto. }
        { intros c' n Hc. (eapply (chan_same s t); [exact H2 | | exact Hc]; psimpl; congruence). }
      * (* Reply *)
        inversion Hstep; subst s'; clear Hstep. unfold with_task in *; psimpl.
        eapply (inv2_update s i t); eauto; psimpl.
        { discriminate. }
        { intros th j Hlk. destruct (run_advance s i t th j H2 Hn Hfree Hlk) as [[-> ->]|R]; [left; auto | right; exact R]. }
        { intros c n Hc. (eapply (chan_same s t); [exact H2 | | exact Hc]; psimpl; congruence). }
  - (* ModAnswer *)
    destruct (nth_error (tasks s) i) as [t|] eqn:Hn; [|discriminate].
    destruct (t_status t) eqn:Hst; try discriminate.
    inversion Hstep; subst s'; clear Hstep. unfold with_task in *; psimpl.
    eapply (inv2_update s i t); eauto; psimpl.
    + discriminate.
    + intros th j Hlk. destruct (Nat.eq_dec j i) as [->|Hne]; [|right; split; assumption].
      destruct (i2_run s H2 th i Hlk) as [ti [Hi [_ Hr]]]. rewrite Hn in Hi. inversion Hi; subst ti. congruence.
    + intros c n Hc. (eapply (chan_same s t); [exact H2 | | exact Hc]; psimpl; congruence).
  - (* Cancel *)
    destruct (nth_error (tasks s) i) as [t|] eqn:Hn; [|discriminate].
    destruct (t_status t) eqn:Hst; try discriminate.
    inversion Hstep; subst s'; clear Hstep. psimpl.
    eapply (inv2_update s i t); eauto; psimpl.
    + intros th j Hlk. destruct (Nat.eq_dec j i) as [->|Hne]; [|right; split; assumption].
      destruct (i2_run s H2 th i Hlk) as [ti [Hi [_ Hr]]]. rewrite Hn in Hi. inversion Hi; subst ti. congruence.
    + intros c' n Hc. unfold holds in Hc; psimpl.
      destruct (t_async t) as [c|] eqn:Ha.
      * assert (1 <= holders s c) as Hpos.
        { unfold holders. eapply count_pos; eauto. unfold holds. rewrite Ha. apply Nat.eqb_refl. }
        pose proof (i2_chan s H2 c) as Hc0.
        destruct (Nat.eq_dec c' c) as [->|Hne].
        { rewrite lookup_set_key_eq. rewrite Nat.eqb_refl in Hc. simpl in Hc.
          destruct (chan_state s c) as [|k|] eqn:Hcs; simpl in Hc0.
          - lia.
          - destruct k as [|[|k]]; simpl; lia.
          - simpl. lia. }
        { rewrite lookup_set_key_neq by exact Hne.
          assert (c =? c' = false) as E by (apply Nat.eqb_neq; congruence). rewrite E in Hc. simpl in Hc.
          assert (n = holders s c') as -> by lia. exact (i2_chan s H2 c'). }
      * simpl in Hc. assert (n = holders s c') as -> by lia. exact (i2_chan s H2 c').
Qed.

(* ---------- progress ---------- *)
Definition all_done (s : lstate) : Prop :=
  forall i t, nth_error (tasks s) i = Some t -> t_status t = Done.

Definition can_go (s : lstate) (a : action) : Prop :=
  match a with
  | SyncAcq l => lookup l (sync_owner s) = None
  | AsyncAcqR c => chan_state s c <> RWrite
  | AsyncAcqW c => chan_state s c = RFree
  | _ => True
  end.

Ltac tw_fact Hn :=
  match goal with
  | |- context [set_nth ?i ?t' (tasks ?s)] =>
      let H := fresh "Htw" in
      pose proof (tw_set_nth (tasks s) i _ t' Hn) as H; unfold w in H;
      cbn [t_thread t_prog t_status t_async] in H
  end.

Lemma run_goes : forall s i t a rest,
  nth_error (tasks s) i = Some t -> t_status t = Ready -> t_prog t = a :: rest ->
  thread_free_for s i (t_thread t) = true -> can_go s a ->
  exists s', lstep s (Run i) = LOk s' /\ M s' + 2 <= M s.
Proof.
  intros s i t a rest Hn Hst Hp Hfree Hgo.
  pose proof (length_set_key nat (t_thread t) i (running s)) as Hls.
  pose proof (length_remove_key nat (t_thread t) (running s)) as Hlr.
  unfold lstep. rewrite Hn, Hst, Hp, Hfree. cbn [negb].
  destruct a; cbn [can_go] in Hgo.
  - rewrite Hgo. eexists; split; [reflexivity|]. unfold M, with_task; psimpl. tw_fact Hn.
    rewrite Hp, Hst in Htw. simpl in Htw. lia.
  - eexists; split; [reflexivity|]. unfold M, with_task; psimpl. tw_fact Hn.
    rewrite Hp, Hst in Htw. simpl in Htw. lia.
  - destruct (chan_state s c) eqn:E; [| |congruence];
      (eexists; split; [reflexivity|]; unfold M, with_task; psimpl; tw_fact Hn;
       rewrite Hp, Hst in Htw; simpl in Htw; lia).
  - rewrite Hgo. eexists; split; [reflexivity|]. unfold M, with_task; psimpl. tw_fact Hn.
    rewrite Hp, Hst in Htw. simpl in Htw. lia.
  - eexists; split; [reflexivity|]. unfold M, with_task; psimpl. tw_fact Hn.
    rewrite Hp, Hst in Htw. simpl in Htw. lia.
  - eexists; split; [reflexivity|]. unfold M; psimpl. rewrite remove_set_key. tw_fact Hn.
    rewrite Hp, Hst in Htw. simpl in Htw. lia.
  - eexists; split; [reflexivity|]. unfold M, with_task; psimpl. tw_fact Hn.
    rewrite Hp, Hst in Htw. simpl in Htw. lia.
Qed.

(* the running task of a thread that cannot get a channel lock gives the thread up *)
Lemma run_yields : forall s i t a rest,
  nth_error (tasks s) i = Some t -> t_status t = Ready -> t_prog t = a :: rest ->
  lookup (t_thread t) (running s) = Some i ->
  (exists c, (a = AsyncAcqR c /\ chan_state s c = RWrite) \/ (a = AsyncAcqW c /\ chan_state s c <> RFree)) ->
  exists s', lstep s (Run i) = LOk s' /\ M s' < M s.
Proof.
  intros s i t a rest Hn Hst Hp Hrun [c Hc].
  assert (thread_free_for s i (t_thread t) = true) as Hfree.
  { unfold thread_free_for. rewrite Hrun. apply Nat.eqb_refl. }
  pose proof (length_remove_key_lt nat (t_thread t) (running s) i Hrun) as Hlt.
  unfold lstep. rewrite Hn, Hst, Hp, Hfree. cbn [negb].
  destruct Hc as [[-> Hc]|[-> Hc]].
  - rewrite Hc. eexists; split; [reflexivity|]. unfold M; psimpl. rewrite remove_set_key. tw_fact Hn.
    rewrite Hp, Hst in Htw. simpl in Htw. lia.
  - destruct (chan_state s c) eqn:E; [congruence| |];
      (eexists; split; [reflexivity|]; unfold M; psimpl; rewrite remove_set_key; tw_fact Hn;
       rewrite Hp, Hst in Htw; simpl in Htw; lia).
Qed.

Lemma run_finishes : forall s i t,
  nth_error (tasks s) i = Some t -> t_status t = Ready -> t_prog t = [] ->
  exists s', lstep s (Run i) = LOk s' /\ M s' < M s.
Proof.
  intros s i t Hn Hst Hp.
  pose proof (length_remove_key nat (t_thread t) (running s)) as Hlr.
  unfold lstep. rewrite Hn, Hst, Hp.
  eexists; split; [reflexivity|]. unfold M; psimpl. tw_fact Hn.
  rewrite Hp, Hst in Htw. simpl in Htw.
  destruct (thread_free_for s i (t_thread t)); lia.
Qed.

Definition ev_ok (wk : bool) (e : sev) : Prop :=
  match e with Run _ => True | ModAnswer _ => wk = true | Cancel _ => wk = false end.

Lemma wake_goes : forall wk s i t,
  nth_error (tasks s) i = Some t -> t_status t = Parked ->
  exists e s', ev_ok wk e /\ lstep s e = LOk s' /\ M s' < M s.
Proof.
  intros wk s i t Hn Hst. destruct wk.
  - exists (ModAnswer i). unfold lstep. rewrite Hn, Hst.
    eexists; split; [reflexivity|]. split; [reflexivity|]. unfold M, with_task; psimpl. tw_fact Hn.
    rewrite Hst in Htw. simpl in Htw. lia.
  - exists (Cancel i). unfold lstep. rewrite Hn, Hst.
    eexists; split; [reflexivity|]. split; [reflexivity|]. unfold M; psimpl. tw_fact Hn.
    rewrite Hst in Htw. simpl in Htw. lia.
Qed.

Lemma disc_sync_next : forall l ha p,
  disciplined_from (Some l) ha p = true -> exists rest, p = SyncRel l :: rest.
Proof.
  intros l ha [|a rest] H; simpl in H; [discriminate|].
  destruct a; try discriminate.
  apply andb_prop in H. destruct H as [E _]. apply Nat.eqb_eq in E. subst. eexists; reflexivity.
Qed.

Lemma disc_async_next : forall c p,
  disciplined_from None (Some c) p = true ->
  exists a rest, p = a :: rest /\ (forall c', a <> AsyncAcqR c') /\ (forall c', a <> AsyncAcqW c').
Proof.
  intros c [|a rest] H; simpl in H; [discriminate|].
  exists a, rest. split; [reflexivity|]. destruct a; try discriminate; split; intros c' E; discriminate.
Qed.

Lemma no_owner_lookup : forall s, (forall l i, ~ In (l, i) (sync_owner s)) -> forall l, lookup l (sync_owner s) = None.
Proof.
  intros s H l. destruct (lookup l (sync_owner s)) as [o|] eqn:E; [|reflexivity].
  apply lookup_In in E. elim (H l o E).
Qed.

Theorem progress : forall wk s, Inv2 s ->
  all_done s \/ exists e s', ev_ok wk e /\ lstep s e = LOk s' /\ M s' < M s.
Proof.
  intros wk s H2. pose proof (i2_inv s H2) as HI.
  destruct (running s) as [|[th j] r] eqn:Hr.
  - (* no thread is executing anything: nobody holds a map-shard lock *)
    assert (forall l i, ~ In (l, i) (sync_owner s)) as Hno.
    { intros l i Hin. destruct (inv_owner s HI l i Hin) as [t [_ [_ Hl]]]. rewrite Hr in Hl. discriminate. }
    pose proof (no_owner_lookup s Hno) as Hfree_sync.
    assert (forall i t, thread_free_for s i (t_thread t) = true) as Hfree.
    { intros i t. unfold thread_free_for. rewrite Hr. reflexivity. }
    destruct (find_task (fun t => match t_status t with Parked => true | _ => false end) (tasks s))
      as [[i [t [Hn Hp]]]|HnoP].
    { right. destruct (t_status t) eqn:Hst; try discriminate. eapply wake_goes; eauto. }
    destruct (find_task (fun t => match t_async t with Some _ => true | None => false end) (tasks s))
      as [[k [t [Hn Hh]]]|HnoH].
    { (* a task holding a channel lock can move *)
      right. destruct (t_async t) as [c|] eqn:Ha; [|discriminate].
      destruct (inv_disc s HI k t Hn) as [hs [Hd Hhs]].
      assert (hs = None) as ->.
      { destruct hs as [l|]; [|reflexivity]. elim (Hno l k). apply Hhs. reflexivity. }
      rewrite Ha in Hd. destruct (disc_async_next c _ Hd) as [a [rest [Hp [HnR HnW]]]].
      assert (t_status t = Ready) as Hst.
      { destruct (t_status t) eqn:Hst; [reflexivity| |].
        - specialize (HnoP k t Hn). cbv beta in HnoP. rewrite Hst in HnoP. discriminate.
        - rewrite (i2_done s H2 k t Hn Hst) in Hp. discriminate. }
      destruct (run_goes s k t a rest Hn Hst Hp (Hfree k t)) as [s' [Hs' HM]].
      { destruct a; cbn [can_go]; auto. - elim (HnR c0); reflexivity. - elim (HnW c0); reflexivity. }
      exists (Run k), s'. split; [exact I|]. split; [exact Hs'|lia]. }
    (* nobody holds a channel lock: every lock is free *)
    assert (forall c, chan_state s c = RFree) as Hcf.
    { intros c. pose proof (i2_chan s H2 c) as Hc. unfold holders in Hc.
      rewrite count_none in Hc.
      - destruct (chan_state s c); simpl in Hc; [reflexivity|lia|lia].
      - intros i t Hn. specialize (HnoH i t Hn). cbv beta in HnoH. unfold holds.
        destruct (t_async t); [discriminate|reflexivity]. }
    destruct (find_task (fun t => match t_status t with Done => false | _ => true end) (tasks s))
      as [[i [t [Hn Hnd]]]|Hall].
    { right. assert (t_status t = Ready) as Hst.
      { destruct (t_status t) eqn:Hst; [reflexivity| |discriminate].
        specialize (HnoP i t Hn). cbv beta in HnoP. rewrite Hst in HnoP. discriminate. }
      destruct (t_prog t) as [|a rest] eqn:Hp.
      - destruct (run_finishes s i t Hn Hst Hp) as [s' [Hs' HM]]. exists (Run i), s'. split; [exact I | split; [exact Hs' | exact HM]].
      - destruct (run_goes s i t a rest Hn Hst Hp (Hfree i t)) as [s' [Hs' HM]].
        { destruct a; cbn [can_go]; auto. rewrite Hcf. discriminate. }
        exists (Run i), s'. split; [exact I|]. split; [exact Hs'|lia]. }
    left. intros i t Hn. specialize (Hall i t Hn). cbv beta in Hall.
    destruct (t_status t); [discriminate|discriminate|reflexivity].
  - (* thread th is executing task j *)
    right.
    assert (lookup th (running s) = Some j) as Hl.
    { rewrite Hr. simpl. rewrite Nat.eqb_refl. reflexivity. }
    destruct (i2_run s H2 th j Hl) as [t [Hn [Hth Hst]]]. subst th.
    assert (thread_free_for s j (t_thread t) = true) as Hfree.
    { unfold thread_free_for. rewrite Hl. apply Nat.eqb_refl. }
    destruct (t_prog t) as [|a rest] eqn:Hp.
    { destruct (run_finishes s j t Hn Hst Hp) as [s' [Hs' HM]]. exists (Run j), s'. split; [exact I | split; [exact Hs' | exact HM]]. }
    assert (can_go s a -> exists e s', ev_ok wk e /\ lstep s e = LOk s' /\ M s' < M s) as Hgo.
    { intros G. destruct (run_goes s j t a rest Hn Hst Hp Hfree G) as [s' [Hs' HM]].
      exists (Run j), s'. split; [exact I|]. split; [exact Hs'|lia]. }
    destruct a; try (apply Hgo; exact I).
    + (* SyncAcq l: free, or its owner is inside its critical section and leaves it *)
      destruct (lookup l (sync_owner s)) as [o|] eqn:Hlo; [|apply Hgo; exact Hlo].
      apply lookup_In in Hlo.
      destruct (inv_owner s HI l o Hlo) as [to [Ho [Hso Hro]]].
      destruct (inv_disc s HI o to Ho) as [hs [Hd Hhs]].
      assert (hs = Some l) as -> by (apply Hhs; exact Hlo).
      destruct (disc_sync_next l _ _ Hd) as [rest' Hpo].
      assert (thread_free_for s o (t_thread to) = true) as Hfo.
      { unfold thread_free_for. rewrite Hro. apply Nat.eqb_refl. }
      destruct (run_goes s o to (SyncRel l) rest' Ho Hso Hpo Hfo I) as [s' [Hs' HM]].
      exists (Run o), s'. split; [exact I|]. split; [exact Hs'|lia].
    + (* AsyncAcqR c *)
      destruct (chan_state s c) eqn:Hc; try (apply Hgo; cbn [can_go]; rewrite Hc; discriminate).
      destruct (run_yields s j t (AsyncAcqR c) rest Hn Hst Hp Hl) as [s' [Hs' HM]].
      { exists c. left. split; [reflexivity|exact Hc]. }
      exists (Run j), s'. split; [exact I | split; [exact Hs' | exact HM]].
    + (* AsyncAcqW c *)
      destruct (chan_state s c) eqn:Hc; try (apply Hgo; exact Hc).
      * destruct (run_yields s j t (AsyncAcqW c) rest Hn Hst Hp Hl) as [s' [Hs' HM]].
        { exists c. right. split; [reflexivity|rewrite Hc; discriminate]. }
        exists (Run j), s'. split; [exact I | split; [exact Hs' | exact HM]].
      * destruct (run_yields s j t (AsyncAcqW c) rest Hn Hst Hp Hl) as [s' [Hs' HM]].
        { exists c. right. split; [reflexivity|rewrite Hc; discriminate]. }
        exists (Run j), s'. split; [exact I | split; [exact Hs' | exact HM]].
Qed.

(* ---------- deadlock freedom ---------- *)
Lemma completes_from : forall wk n s, M s <= n -> Inv2 s ->
  exists evs, Forall (ev_ok wk) evs /\ all_done (fst (lrun s evs)).
Proof.
  induction n as [|n IH]; intros s Hm H2.
  - destruct (progress wk s H2) as [Hd|[e [s' [_ [_ HM]]]]]; [|lia].
    exists []. split; [constructor|exact Hd].
  - destruct (progress wk s H2) as [Hd|[e [s' [Hok [Hs' HM]]]]].
    + exists []. split; [constructor|exact Hd].
    + destruct (IH s') as [evs [Hev Hdone]]; [lia | eapply lstep_inv2; eauto |].
      exists (e :: evs). split; [constructor; assumption|]. simpl. rewrite Hs'. exact Hdone.
Qed.

Lemma lrun_inv2 : forall evs s, Inv2 s -> Inv2 (fst (lrun s evs)).
Proof.
  induction evs as [|e evs IH]; intros s H2; simpl; [exact H2|].
  destruct (lstep s e) eqn:E.
  - apply IH. eapply lstep_inv2; eauto.
  - apply IH; exact H2.
  - destruct (owner_stuck s thread owner); [exact H2 | apply IH; exact H2].
Qed.

Lemma inv2_init : forall ts,
  Forall (fun tp => disciplined (snd tp) = true) ts -> Inv2 (mk_tasks ts).
Proof.
  intros ts Hts. constructor.
  - apply inv_init. exact Hts.
  - intros th j Hl. simpl in Hl. discriminate.
  - intros i t Hn Hd. simpl in Hn. apply nth_error_In in Hn. apply in_map_iff in Hn.
    destruct Hn as [tp [<- _]]. simpl in Hd. discriminate.
  - intros c. unfold chan_state, holders. simpl. rewrite count_none; [reflexivity|].
    intros i t Hn. apply nth_error_In in Hn. apply in_map_iff in Hn. destruct Hn as [tp [<- _]]. reflexivity.
Qed.

(* MAIN THEOREM: whatever has happened so far (any tasks, any threads, any schedule [evs], including
   late answers and cancellations), the remaining work can still be completed: there is a continuation
   [evs'] after which every task is Done.  With [wk = true] the continuation wakes suspended modulator
   calls by their answer and never cancels; with [wk = false] no modulator call is ever answered and the
   suspended tasks are cancelled (request timeout). *)
Theorem deadlock_free : forall wk (ts : list (nat * program)) (evs : list sev),
  Forall (fun tp => disciplined (snd tp) = true) ts ->
  exists evs', Forall (ev_ok wk) evs' /\ all_done (fst (lrun (fst (lrun (mk_tasks ts) evs)) evs')).
Proof.
  intros wk ts evs Hts. eapply completes_from; [apply le_n|].
  apply lrun_inv2. apply inv2_init. exact Hts.
Qed.

Theorem handlers_deadlock_free : forall wk (hs : list (nat * handler)) (evs : list sev),
  exists evs', Forall (ev_ok wk) evs' /\
    all_done (fst (lrun (fst (lrun (mk_tasks (map (fun th => (fst th, handler_prog (snd th))) hs)) evs)) evs')).
Proof.
  intros wk hs evs. apply deadlock_free. apply Forall_forall.
  intros tp Hin. apply in_map_iff in Hin. destruct Hin as [[th h] [<- _]]. simpl.
  apply handler_disciplined.
Qed.

(* non-vacuity: the classic two-channel, two-thread cross pattern (a JOIN of c1 and a LEAVE of c2 on one
   thread, the reverse on the other) stopped half-way still completes *)
Example deadlock_free_smoke :
  let ts := [(0, p_join 1); (0, p_leave 2); (1, p_join 2); (1, p_leave 1)] in
  let mid := fst (lrun (mk_tasks ts) [Run 0; Run 0; Run 0; Run 2; Run 2; Run 2; Run 1; Run 3]) in
  ~ all_done mid /\ exists evs', Forall (ev_ok true) evs' /\ all_done (fst (lrun mid evs')).
Proof.
  split.
  - intros H. specialize (H 0). vm_compute in H. specialize (H _ eq_refl). discriminate.
  - apply (deadlock_free true [(0, p_join 1); (0, p_leave 2); (1, p_join 2); (1, p_leave 1)]).
    repeat constructor.
Qed.

Print Assumptions deadlock_free.
Print Assumptions handlers_deadlock_free.
Print Assumptions lstep_inv2.
