(* The channel table of the server model (Model/Server.v) is bounded by [max_channels]:
     chan_count_step / chan_count_reachable    : the bound is an invariant of EVERY op (no side condition:
                                                 neither key-uniqueness nor Inv is needed, because put_chan on an
                                                 existing key maps in place and aremove never lengthens)
     chan_created_only_below_limit(_frame)     : a channel key appears only when there was room
     chan_created_needs_room_somewhere         : the all-ops version (a Bytes op may carry LEAVE;JOIN pipelined)
     no_empty_channel_step / _reachable        : an emptied channel gives its slot back (for ALL op sequences,
                                                 unlike C05_no_empty_channel which assumes ops_ok)
     chan_limit_example                        : non-vacuity *)
From NW Require Import Base.Bytes Model.SchemaTypes Model.Codec Model.MsgInfo Model.Ids Model.Framing Model.Server Gen.Schema Gen.Errors.
From NW Require Import Proofs.ServerInvBase Proofs.ServerInv Proofs.ServerUniq Proofs.ServerInvCor.
From NW Require Import Proofs.ServerLimits.

(* ====================================================================== *)
(* lengths of the channel table under its three writers                    *)
(* ====================================================================== *)
Lemma aremove_length {A} k (l : list (str * A)) : (length (aremove k l) <= length l)%nat.
Proof.
  induction l as [|[k' v] l IH]; cbn [aremove length]; [lia|].
  destruct (list_eqb k k'); cbn [length]; lia.
Qed.

Lemma put_chan_length h ch s :
  length (chans (put_chan h ch s)) =
    match alookup h (chans s) with Some _ => length (chans s) | None => S (length (chans s)) end.
Proof.
  unfold put_chan. cbn [chans]. destruct (alookup h (chans s)) as [c0|].
  - apply map_length.
  - rewrite app_length. cbn [length]. lia.
Qed.

Lemma put_chan_existing_length h ch ch0 s :
  alookup h (chans s) = Some ch0 -> length (chans (put_chan h ch s)) = length (chans s).
Proof. intro H. rewrite put_chan_length, H. reflexivity. Qed.

Lemma del_chan_length h s : (length (chans (del_chan h s)) <= length (chans s))%nat.
Proof. unfold del_chan. cbn [chans]. apply aremove_length. Qed.

Lemma leave_st_length hd cf n ch pick s :
  alookup hd (chans s) = Some ch ->
  (length (chans (leave_st hd cf n ch pick s)) <= length (chans s))%nat.
Proof.
  intro Hch. unfold leave_st. destruct (isempty (ndel n (ch_members ch))).
  - pose proof (del_chan_length hd (index_del (nu n) cf s)) as K. rewrite index_del_chans in K. exact K.
  - rewrite (put_chan_existing_length hd _ ch); [rewrite index_del_chans; lia|].
    rewrite index_del_chans. exact Hch.
Qed.

(* ====================================================================== *)
(* the max_channels gate of JOIN                                           *)
(* ====================================================================== *)
Lemma h_join_chan_gate cfg h me m c hd dom :
  chan_parse (get_str m "channel") = Some (hd, dom) ->
  snd (h_join cfg h me m c) = None ->
  alookup hd (chans (st c)) = None ->
  N.of_nat (length (chans (st c))) < max_channels cfg.
Proof.
  intros Hp Hok Hnone. unfold h_join in Hok. rewrite Hp in Hok.
  destruct (match get_ostr m "on_behalf" with
            | Some s => match nid_parse s with Some n => Some (Some n) | None => None end
            | None => Some None end) as [ob|]; [|discriminate Hok].
  destruct (negb (local cfg dom)); [discriminate Hok|].
  rewrite Hnone in Hok.
  destruct (max_channels cfg <=? N.of_nat (length (chans (st c)))) eqn:Eg.
  - cbn [andb] in Hok. discriminate Hok.
  - apply N.leb_gt. exact Eg.
Qed.

Definition ChanLimit (cfg : scfg) (s : state) : Prop := N.of_nat (length (chans s)) <= max_channels cfg.

Lemma ChanLimit_chans cfg s s' : chans s' = chans s -> ChanLimit cfg s -> ChanLimit cfg s'.
Proof. unfold ChanLimit. intros -> H. exact H. Qed.

(* an accepted JOIN: the new state, with the gate *)
Lemma h_join_len cfg h me m c :
  chans (st (fst (h_join cfg h me m c))) = chans (st c) \/
  exists hd ch, chans (st (fst (h_join cfg h me m c))) = chans (put_chan hd ch (st c)) /\
                ch_members ch <> [] /\
                (alookup hd (chans (st c)) = None -> N.of_nat (length (chans (st c))) < max_channels cfg).
Proof.
  pose proof (h_join_gates cfg h me m c) as Hs.
  destruct (snd (h_join cfg h me m c)) eqn:Hok; [left; rewrite Hs; reflexivity|].
  destruct Hs as (hd & n & Hp & _ & _ & Hm & _ & _ & Hst).
  right. exists hd. eexists. split; [rewrite Hst, index_add_chans; reflexivity|]. split.
  - unfold insert_member. cbn [retarget ch_members]. rewrite (nadd_fresh _ _ Hm).
    intro K. apply app_eq_nil in K. destruct K as [_ K]. discriminate K.
  - intro Hnone. exact (h_join_chan_gate cfg h me m c hd (domain cfg) Hp Hok Hnone).
Qed.

Lemma leave_core_limit cfg req id me hd dom cf ob c :
  ChanLimit cfg (st c) -> ChanLimit cfg (st (fst (leave_core cfg req id me hd dom cf ob c))).
Proof.
  intro H.
  destruct (leave_core_spec cfg req id me hd dom cf ob c) as [[-> _]|(ch & pick & _ & Hch & _ & _ & ->)];
    [exact H|].
  unfold ChanLimit in *. pose proof (leave_st_length hd cf (match ob with Some n => n | None => me end) ch pick (st c) Hch).
  lia.
Qed.

Lemma h_leave_via (P : state -> Prop) cfg h me m c :
  (forall hd dom cf ob, P (st (fst (leave_core cfg (Some h) (get_num m "id") me hd dom cf ob c)))) ->
  P (st c) -> P (st (fst (h_leave cfg h me m c))).
Proof.
  intros Hl H. unfold h_leave.
  destruct (chan_parse (get_str m "channel")) as [[hd dom]|]; [|exact H].
  destruct (get_ostr m "on_behalf") as [s|]; [|apply Hl].
  destruct (nid_parse s); [apply Hl | exact H].
Qed.

(* dispatch_auth, by cases on what it can do to the state: a generic eliminator *)
Lemma dispatch_auth_cases (Q : state -> Prop) cfg h me m p c :
  Q (st c) ->
  Q (st (fst (h_join cfg h me m c))) ->
  Q (st (fst (h_leave cfg h me m c))) ->
  (forall hd ch ch', alookup hd (chans (st c)) = Some ch -> ch_members ch' = ch_members ch ->
                     Q (put_chan hd ch' (st c))) ->
  Q (st (fst (dispatch_auth cfg h me m p c))).
Proof.
  intros H0 Hj Hl Hput. unfold dispatch_auth. cbv zeta.
  destruct (is_kind m "BROADCAST"); [rewrite h_broadcast_st; exact H0|].
  destruct (is_kind m "GET_CHAN_ACL"); [rewrite h_get_acl_st; exact H0|].
  destruct (is_kind m "GET_CHAN_CONFIG"); [rewrite h_get_config_st; exact H0|].
  destruct (is_kind m "JOIN"); [exact Hj|].
  destruct (is_kind m "LEAVE"); [exact Hl|].
  destruct (is_kind m "CHANNELS"); [exact H0|].
  destruct (is_kind m "MEMBERS"); [rewrite h_members_st; exact H0|].
  destruct (is_kind m "MOD_DIRECT"); [rewrite h_mod_direct_st; exact H0|].
  destruct (is_kind m "SET_CHAN_ACL").
  { destruct (h_set_acl_spec cfg h me m c) as [->|(hd & ch & ty & a & Hch & ->)]; [exact H0|].
    apply (Hput hd ch); [exact Hch | reflexivity]. }
  destruct (is_kind m "SET_CHAN_CONFIG").
  { destruct (h_set_config_spec cfg h me m c) as [->|(hd & ch & mc & mp & Hch & ->)]; [exact H0|].
    apply (Hput hd ch); [exact Hch | reflexivity]. }
  exact H0.
Qed.

Lemma dispatch_auth_limit cfg h me m p c :
  ChanLimit cfg (st c) -> ChanLimit cfg (st (fst (dispatch_auth cfg h me m p c))).
Proof.
  intro H. apply dispatch_auth_cases.
  - exact H.
  - destruct (h_join_len cfg h me m c) as [E|(hd & ch & E & _ & Hg)].
    + exact (ChanLimit_chans cfg _ _ E H).
    + unfold ChanLimit in *. rewrite E, put_chan_length.
      destruct (alookup hd (chans (st c))) as [c0|]; [exact H|].
      specialize (Hg eq_refl). lia.
  - apply h_leave_via; [|exact H]. intros hd dom cf ob. apply leave_core_limit. exact H.
  - intros hd ch ch' Hch _. unfold ChanLimit in *. rewrite (put_chan_existing_length hd ch' ch _ Hch). exact H.
Qed.

(* ====================================================================== *)
(* 1, 2 : the bound                                                        *)
(* ====================================================================== *)
(* No well-formedness hypothesis is needed. *)
Theorem chan_count_step : forall cfg s o,
  N.of_nat (length (chans s)) <= max_channels cfg ->
  N.of_nat (length (chans (fst (step cfg s o)))) <= max_channels cfg.
Proof.
  intros cfg s o. change (ChanLimit cfg s -> ChanLimit cfg (fst (step cfg s o))). apply step_ci.
  - intros s0 s' E _. apply ChanLimit_chans. exact E.
  - intros s0 u H. exact H.
  - intros. apply leave_core_limit. assumption.
  - intros. apply dispatch_auth_limit. assumption.
Qed.

(* the shape with the (here superfluous) key-uniqueness invariant [Uniq] of ServerUniq.v carried along:
   with distinct keys the bound counts distinct channels *)
Corollary chan_count_step_uniq : forall cfg s o,
  N.of_nat (length (chans s)) <= max_channels cfg -> Uniq s ->
  N.of_nat (length (map fst (chans (fst (step cfg s o))))) <= max_channels cfg /\
  NoDup (map fst (chans (fst (step cfg s o)))) /\ Uniq (fst (step cfg s o)).
Proof.
  intros cfg s o H Hu. pose proof (uniq_step cfg s o Hu) as Hu'.
  split; [rewrite map_length; apply chan_count_step; exact H|]. split; [exact (proj1 Hu') | exact Hu'].
Qed.

Theorem chan_count_run : forall cfg ops s,
  N.of_nat (length (chans s)) <= max_channels cfg ->
  N.of_nat (length (chans (run_state cfg s ops))) <= max_channels cfg.
Proof.
  intros cfg ops.
  apply (run_state_ind (fun s => N.of_nat (length (chans s)) <= max_channels cfg)).
  intros s o. apply chan_count_step.
Qed.

(* holds for ALL op sequences *)
Theorem chan_count_reachable : forall cfg ops,
  N.of_nat (length (chans (run_state cfg init ops))) <= max_channels cfg.
Proof. intros cfg ops. apply chan_count_run. cbn [init chans length]. lia. Qed.

(* with the keys being distinct, the bound counts distinct channels *)
Corollary chan_count_reachable_distinct : forall cfg ops,
  NoDup (map fst (chans (run_state cfg init ops))) /\
  N.of_nat (length (map fst (chans (run_state cfg init ops)))) <= max_channels cfg.
Proof.
  intros cfg ops. split; [exact (proj1 (uniq_reachable cfg ops))|].
  rewrite map_length. apply chan_count_reachable.
Qed.

(* ====================================================================== *)
(* 3 : a channel appears only when there was room                          *)
(* ====================================================================== *)
(* no channel key appears *)
Definition NoNew (s0 s' : state) : Prop :=
  forall hd, alookup hd (chans s0) = None -> alookup hd (chans s') = None.

Lemma NoNew_refl s : NoNew s s.
Proof. intros hd H. exact H. Qed.

Lemma NoNew_chans s0 s s' : chans s' = chans s -> NoNew s0 s -> NoNew s0 s'.
Proof. intros E H hd K. rewrite E. apply H. exact K. Qed.

Lemma NoNew_put_existing s0 s hd ch ch' :
  alookup hd (chans s) = Some ch -> NoNew s0 s -> NoNew s0 (put_chan hd ch' s).
Proof.
  intros Hch H k K. rewrite alookup_put_chan. destruct (list_eqb_spec k hd) as [->|Hne]; [|apply H; exact K].
  apply H in K. congruence.
Qed.

Lemma NoNew_leave_core s0 cfg req id me hd dom cf ob c :
  NoNew s0 (st c) -> NoNew s0 (st (fst (leave_core cfg req id me hd dom cf ob c))).
Proof.
  intro H.
  destruct (leave_core_spec cfg req id me hd dom cf ob c) as [[-> _]|(ch & pick & _ & Hch & _ & _ & ->)];
    [exact H|].
  intros k K. rewrite leave_st_chans. destruct (list_eqb_spec k hd) as [->|Hne]; [|apply H; exact K].
  apply H in K. congruence.
Qed.

Lemma NoNew_teardown s0 cfg h c : NoNew s0 (st c) -> NoNew s0 (st (teardown cfg h c)).
Proof.
  apply (teardown_ci (NoNew s0)).
  - intros s s' E _. apply NoNew_chans. exact E.
  - intros s u H. exact H.
  - intros. apply NoNew_leave_core. assumption.
Qed.

Lemma NoNew_flush_closes s0 cfg c : NoNew s0 (st c) -> NoNew s0 (st (flush_closes cfg c)).
Proof.
  intro H. unfold flush_closes. cbn [st].
  apply (fold_left_ind (fun a => NoNew s0 (st a))); [|exact H].
  intros a x Ha. apply NoNew_teardown. exact Ha.
Qed.

(* a key appears only if there was room *)
Definition Created (cfg : scfg) (s s' : state) : Prop :=
  forall hd, alookup hd (chans s) = None -> alookup hd (chans s') <> None ->
             N.of_nat (length (chans s)) < max_channels cfg.

Lemma NoNew_Created cfg s s' : NoNew s s' -> Created cfg s s'.
Proof. intros H hd K1 K2. exfalso. apply K2. apply H. exact K1. Qed.

Lemma Created_chans cfg s s1 s2 : chans s2 = chans s1 -> Created cfg s s1 -> Created cfg s s2.
Proof. intros E H hd K1 K2. rewrite E in K2. exact (H hd K1 K2). Qed.

Lemma dispatch_auth_created cfg h me m p c :
  Created cfg (st c) (st (fst (dispatch_auth cfg h me m p c))).
Proof.
  apply dispatch_auth_cases.
  - apply NoNew_Created, NoNew_refl.
  - destruct (h_join_len cfg h me m c) as [E|(hd & ch & E & _ & Hg)].
    + apply (Created_chans cfg _ (st c)); [exact E | apply NoNew_Created, NoNew_refl].
    + intros k K1 K2. rewrite E, alookup_put_chan in K2.
      destruct (list_eqb_spec k hd) as [->|Hne]; [exact (Hg K1) | contradiction].
  - apply NoNew_Created. apply (h_leave_via (NoNew (st c))); [|apply NoNew_refl].
    intros hd dom cf ob. apply NoNew_leave_core, NoNew_refl.
  - intros hd ch ch' Hch _. apply NoNew_Created. apply (NoNew_put_existing _ _ hd ch ch' Hch), NoNew_refl.
Qed.

(* what one frame can do to the channel table *)
Lemma on_frame_chans_cases cfg h m p c :
  chans (st (on_frame cfg h m p c)) = chans (st c) \/
  exists me, st (on_frame cfg h m p c) = st (fst (dispatch_auth cfg h me m p c)).
Proof.
  unfold on_frame.
  destruct (nlookup h (conns (st c))) as [cn|]; [|left; reflexivity].
  destruct (existsb _ _); [left; reflexivity|].
  destruct (c_phase cn).
  - left. destruct (is_kind m "CONNECT"); [|rewrite notify_error_st; reflexivity].
    destruct (negb _); [rewrite notify_error_st; reflexivity|].
    cbv zeta. rewrite set_conn_st, emit_st. reflexivity.
  - left. destruct (is_kind m "AUTH").
    { destruct (negb (auth_required cfg)); [rewrite notify_error_st; reflexivity|].
      cbv zeta. destruct (next_outcome _) as [o c1] eqn:En. apply next_outcome_st' in En. rewrite emit_st in En.
      destruct o; rewrite ?notify_error_st, ?emit_st, ?En; try reflexivity.
      destruct (make_local_nid (domain cfg) u) as [n|]; [|rewrite notify_error_st, En; reflexivity].
      destruct (register (nu n) h false (st c)) as [s2|] eqn:Hreg; [|rewrite En; reflexivity].
      rewrite set_conn_st, emit_st, with_st_st. cbn [set_conns chans].
      exact (register_chans _ _ _ _ _ Hreg). }
    destruct (is_kind m "IDENTIFY"); [|rewrite notify_error_st; reflexivity].
    destruct (auth_required cfg); [rewrite notify_error_st; reflexivity|].
    destruct (make_local_nid (domain cfg) (trim (get_str m "username"))) as [n|];
      [|rewrite notify_error_st; reflexivity].
    destruct (register (nu n) h true (st c)) as [s2|] eqn:Hreg; [|rewrite notify_error_st; reflexivity].
    rewrite set_conn_st, emit_st, with_st_st. cbn [set_conns chans].
    exact (register_chans _ _ _ _ _ Hreg).
  - destruct (is_kind m "PONG"); [left; reflexivity|].
    destruct (max_inflight cfg =? 0); [left; rewrite drop_conn_st; reflexivity|].
    destruct (c_nid cn) as [me|]; [|left; reflexivity].
    right. exists me.
    destruct (dispatch_auth cfg h me m p c) as [c1 r]. cbn [fst].
    destruct r; [rewrite notify_error_st|]; reflexivity.
Qed.

(* one frame: a channel key that was absent before and is present afterwards was admitted below the limit *)
Theorem chan_created_only_below_limit_frame : forall cfg h m p c hd,
  alookup hd (chans (st c)) = None ->
  alookup hd (chans (st (on_frame cfg h m p c))) <> None ->
  N.of_nat (length (chans (st c))) < max_channels cfg.
Proof.
  intros cfg h m p c hd K1 K2.
  destruct (on_frame_chans_cases cfg h m p c) as [E|[me E]].
  - rewrite E in K2. contradiction.
  - rewrite E in K2. exact (dispatch_auth_created cfg h me m p c hd K1 K2).
Qed.

Lemma step_nonew_unless_frame cfg s o :
  (forall h m p sc hi, o <> Frame h m p sc hi) -> (forall h b sc hi, o <> Bytes h b sc hi) ->
  NoNew s (fst (step cfg s o)).
Proof.
  intros Hf Hb. destruct o as [h|h m p sc hi|h|h bytes sc hi|h sc hi|ts pl]; cbn [step].
  - destruct (max_conns cfg <=? _); cbn [fst]; [apply NoNew_refl|].
    apply (NoNew_chans s s); [reflexivity | apply NoNew_refl].
  - exfalso. exact (Hf h m p sc hi eq_refl).
  - cbn [fst]. destruct (nlookup h (conns s)); [|apply NoNew_refl].
    apply NoNew_flush_closes. rewrite request_close_st. apply NoNew_refl.
  - exfalso. exact (Hb h bytes sc hi eq_refl).
  - cbn [fst]. apply NoNew_teardown. apply NoNew_refl.
  - apply NoNew_refl.
Qed.

(* one op.  A [Bytes] op may carry several pipelined frames (LEAVE of the only member followed by a
   JOIN that creates another channel: the table is full when the op starts, see
   [chan_created_pipelined_example]); for it the statement holds frame by frame
   ([chan_created_only_below_limit_frame]) and in the weaker all-ops form below. *)
Theorem chan_created_only_below_limit : forall cfg s o hd,
  (forall h b sc hi, o <> Bytes h b sc hi) ->
  alookup hd (chans s) = None ->
  alookup hd (chans (fst (step cfg s o))) <> None ->
  N.of_nat (length (chans s)) < max_channels cfg.
Proof.
  intros cfg s o hd Hb K1 K2.
  destruct o as [h|h m p sc hi|h|h bytes sc hi|h sc hi|ts pl].
  2:{ cbn [step fst] in K2.
      match type of K2 with context [on_frame cfg h m p ?c0] => set (c := c0) in * end.
      destruct (alookup hd (chans (st (on_frame cfg h m p c)))) as [ch|] eqn:E1.
      - apply (chan_created_only_below_limit_frame cfg h m p c hd); [exact K1 | rewrite E1; discriminate].
      - exfalso. apply K2. apply (NoNew_flush_closes (st (on_frame cfg h m p c))); [apply NoNew_refl | exact E1]. }
  3:{ exfalso. exact (Hb h bytes sc hi eq_refl). }
  all: exfalso; apply K2;
       match goal with |- context [step ?cf ?s0 ?o] =>
         apply (step_nonew_unless_frame cf s0 o); [intros; discriminate | intros; discriminate | exact K1] end.
Qed.

(* every op, Bytes included: relative to a fixed earlier table s0, a key absent from s0 that is present
   later was admitted by a JOIN that found room -- in particular the limit is positive *)
Definition CreatedSince (cfg : scfg) (s0 s' : state) : Prop :=
  forall hd, alookup hd (chans s0) = None -> alookup hd (chans s') <> None -> 0 < max_channels cfg.

Theorem chan_created_needs_room_somewhere : forall cfg s o hd,
  alookup hd (chans s) = None ->
  alookup hd (chans (fst (step cfg s o))) <> None ->
  0 < max_channels cfg.
Proof.
  intros cfg s o. change (CreatedSince cfg s (fst (step cfg s o))).
  assert (Hmono : forall s1 s2, CreatedSince cfg s s1 -> Created cfg s1 s2 -> CreatedSince cfg s s2).
  { intros s1 s2 H1 H2 hd K1 K2.
    destruct (alookup hd (chans s1)) as [ch|] eqn:E1.
    - apply (H1 hd K1). rewrite E1. discriminate.
    - pose proof (H2 hd E1 K2). lia. }
  apply (step_ci (CreatedSince cfg s)).
  - intros s1 s2 E _ H hd K1 K2. rewrite E in K2. exact (H hd K1 K2).
  - intros s1 u H. exact H.
  - intros id me hd dom cf ob c0 H. apply (Hmono (st c0)); [exact H|].
    apply NoNew_Created, NoNew_leave_core, NoNew_refl.
  - intros h me m p c0 H. apply (Hmono (st c0)); [exact H | apply dispatch_auth_created].
  - intros hd K1 K2. contradiction.
Qed.

(* ====================================================================== *)
(* 4 : no empty channel, for ALL op sequences                              *)
(* ====================================================================== *)
Definition NoEmpty (s : state) : Prop :=
  forall hd ch, alookup hd (chans s) = Some ch -> ch_members ch <> [].

Lemma NoEmpty_chans s s' : chans s' = chans s -> NoEmpty s -> NoEmpty s'.
Proof. intros E H hd ch. rewrite E. apply H. Qed.

Lemma NoEmpty_put hd ch s : ch_members ch <> [] -> NoEmpty s -> NoEmpty (put_chan hd ch s).
Proof.
  intros Hne H k c0. rewrite alookup_put_chan. destruct (list_eqb k hd); [|apply H].
  intro K; injection K as <-. exact Hne.
Qed.

Lemma leave_core_noempty cfg req id me hd dom cf ob c :
  NoEmpty (st c) -> NoEmpty (st (fst (leave_core cfg req id me hd dom cf ob c))).
Proof.
  intro H.
  destruct (leave_core_spec cfg req id me hd dom cf ob c) as [[-> _]|(ch & pick & _ & Hch & _ & _ & ->)];
    [exact H|].
  intros k c0. rewrite leave_st_chans. destruct (list_eqb k hd); [|apply H].
  destruct (isempty (ch_members (left_chan ch _ pick))) eqn:Ee; [discriminate|].
  intro K; injection K as <-. apply isempty_false. exact Ee.
Qed.

Lemma dispatch_auth_noempty cfg h me m p c :
  NoEmpty (st c) -> NoEmpty (st (fst (dispatch_auth cfg h me m p c))).
Proof.
  intro H. apply dispatch_auth_cases.
  - exact H.
  - destruct (h_join_len cfg h me m c) as [E|(hd & ch & E & Hne & _)].
    + exact (NoEmpty_chans _ _ E H).
    + apply (NoEmpty_chans (put_chan hd ch (st c))); [exact E|]. apply NoEmpty_put; assumption.
  - apply h_leave_via; [|exact H]. intros hd dom cf ob. apply leave_core_noempty. exact H.
  - intros hd ch ch' Hch Hm. apply NoEmpty_put; [|exact H]. rewrite Hm. exact (H hd ch Hch).
Qed.

Theorem no_empty_channel_step : forall cfg s o, NoEmpty s -> NoEmpty (fst (step cfg s o)).
Proof.
  intros cfg s o. apply step_ci.
  - intros s0 s' E _. apply NoEmpty_chans. exact E.
  - intros s0 u H. exact H.
  - intros. apply leave_core_noempty. assumption.
  - intros. apply dispatch_auth_noempty. assumption.
Qed.

(* holds for ALL op sequences (C05_no_empty_channel assumes ops_ok) *)
Theorem no_empty_channel_reachable : forall cfg ops hd ch,
  alookup hd (chans (run_state cfg init ops)) = Some ch -> ch_members ch <> [].
Proof.
  intros cfg ops. change (NoEmpty (run_state cfg init ops)).
  apply (run_state_ind NoEmpty).
  - intros s o. apply no_empty_channel_step.
  - intros hd ch K. discriminate K.
Qed.

(* the slot is given back: a LEAVE of the only member shortens the table *)
Theorem last_leave_frees_slot : forall hd cf n ch pick s,
  NoDup (map fst (chans s)) ->
  alookup hd (chans s) = Some ch -> ndel n (ch_members ch) = [] ->
  S (length (chans (leave_st hd cf n ch pick s))) = length (chans s).
Proof.
  intros hd cf n ch pick s Hn Hch Hemp. unfold leave_st. rewrite Hemp. cbn [isempty].
  unfold del_chan. cbn [chans]. rewrite index_del_chans.
  revert Hn Hch. generalize (chans s) as l.
  induction l as [|[k v] l IH]; cbn [alookup aremove map fst length]; [discriminate|].
  intros Hn. inversion Hn as [|x xs Hnotin Hn']; subst.
  destruct (list_eqb_spec hd k) as [->|Hne].
  - intros _. f_equal.
    assert (Hnone : alookup k l = None) by (apply alookup_None_keys; exact Hnotin).
    clear -Hnone. induction l as [|[k' v'] l IH]; cbn [aremove alookup] in *; [reflexivity|].
    destruct (list_eqb k k'); [discriminate|]. cbn [length]. f_equal. apply IH. exact Hnone.
  - intro Hch. cbn [length]. f_equal. apply IH; assumption.
Qed.

(* ====================================================================== *)
(* 6 : non-vacuity                                                         *)
(* ====================================================================== *)
Definition chan1_cfg : scfg :=
  {| domain := bs "localhost"; has_mod := false; op_auth := false; op_fbp := false; op_fev := false; op_spp := false;
     proto := []; max_clients := 10; max_subs := 10; max_payload_cfg := 1000; max_inflight := 10; max_message := 1000;
     keepalive := 60; min_keepalive := 10; max_conns := 10; pool_budget := 100000; max_channels := 1 |}.

Definition chan1_ops_a : list op :=
  [Open 1;
   Frame 1 (build "CONNECT" [(bs "version", VNum 1); (bs "heartbeat_interval", VNum 0)]) None [] [];
   Frame 1 (build "IDENTIFY" [(bs "username", VStr (bs "alice"))]) None [] [];
   Frame 1 (build "JOIN" [(bs "id", VNum 1); (bs "channel", VStr (bs "!a@localhost"))]) None [] []].
Definition chan1_join_b : op :=
  Frame 1 (build "JOIN" [(bs "id", VNum 2); (bs "channel", VStr (bs "!b@localhost"))]) None [] [].
Definition chan1_leave_a : op :=
  Frame 1 (build "LEAVE" [(bs "id", VNum 3); (bs "channel", VStr (bs "!a@localhost"))]) None [] [].
Definition chan1_join_b' : op :=
  Frame 1 (build "JOIN" [(bs "id", VNum 4); (bs "channel", VStr (bs "!b@localhost"))]) None [] [].

Definition chan1_ops_refused : list op := chan1_ops_a ++ [chan1_join_b].
Definition chan1_ops_left : list op := chan1_ops_refused ++ [chan1_leave_a].
Definition chan1_ops_all : list op := chan1_ops_left ++ [chan1_join_b'].

Example chan_limit_example :
  max_channels chan1_cfg = 1 /\ ops_ok chan1_cfg init chan1_ops_all /\
  (* the first channel exists and fills the table *)
  map fst (chans (run_state chan1_cfg init chan1_ops_a)) = [bs "a"] /\
  (* a JOIN that would create a second channel is refused, recoverably; nothing changes *)
  last (run chan1_cfg init chan1_ops_refused) [] = [OSend 1 (err_msg (Some 2) "SERVER_OVERLOADED") None] /\
  run_state chan1_cfg init chan1_ops_refused = run_state chan1_cfg init chan1_ops_a /\
  (* the only member leaves: the channel is deleted and its slot is free again *)
  last (run chan1_cfg init chan1_ops_left) [] = [OSend 1 (build "LEAVE_ACK" [(bs "id", VNum 3)]) None] /\
  chans (run_state chan1_cfg init chan1_ops_left) = [] /\
  (* now the JOIN creating another channel succeeds *)
  last (run chan1_cfg init chan1_ops_all) [] =
    [OSend 1 (build "JOIN_ACK" [(bs "id", VNum 4); (bs "channel", VStr (bs "!b@localhost"))]) None] /\
  map fst (chans (run_state chan1_cfg init chan1_ops_all)) = [bs "b"] /\
  (* joining an EXISTING channel is not subject to the gate: length stays 1 = max_channels *)
  N.of_nat (length (chans (run_state chan1_cfg init chan1_ops_all))) = max_channels chan1_cfg.
Proof.
  vm_compute. repeat split; try exact I; right; intros cn K; discriminate.
Qed.

(* a pipelined LEAVE;JOIN in ONE Bytes op: channel "b" is absent and the table is full (1 = max_channels)
   when the op starts, and "b" exists when it ends -- why [chan_created_only_below_limit] excludes Bytes *)
Definition chan1_pipelined : op :=
  Bytes 1 (bs "LEAVE id=3 channel=!a@localhost" ++ [NL] ++ bs "JOIN id=4 channel=!b@localhost" ++ [NL]) [] [].

Example chan_created_pipelined_example :
  let s := run_state chan1_cfg init chan1_ops_a in
  alookup (bs "b") (chans s) = None /\
  N.of_nat (length (chans s)) = max_channels chan1_cfg /\
  map fst (chans (fst (step chan1_cfg s chan1_pipelined))) = [bs "b"] /\
  snd (step chan1_cfg s chan1_pipelined) =
    [OSend 1 (build "LEAVE_ACK" [(bs "id", VNum 3)]) None;
     OSend 1 (build "JOIN_ACK" [(bs "id", VNum 4); (bs "channel", VStr (bs "!b@localhost"))]) None].
Proof. vm_compute. repeat split; reflexivity. Qed.

Print Assumptions chan_count_step.
Print Assumptions chan_count_reachable.
Print Assumptions chan_created_only_below_limit.
Print Assumptions chan_created_only_below_limit_frame.
Print Assumptions chan_created_needs_room_somewhere.
Print Assumptions no_empty_channel_step.
Print Assumptions no_empty_channel_reachable.
Print Assumptions chan_limit_example.
