(* The lock programs read off the CURRENT source (Gen/LockPrograms.v, regenerated on every run by
   translator/locklint.py) are disciplined, and so is every handler assembled from them: any sequence of calls of the
   channel manager's and the router's lock-taking functions, interleaved with awaits of the modulator and replies.
   Hence no_wedge (LockProofs.v) and deadlock_free (LockProgress.v) hold for the programs the code actually contains,
   not only for the hand-written table of Model/Locks.v. *)
From NW Require Import Base.Bytes Model.Locks Proofs.LockProofs Proofs.LockProgress Gen.LockPrograms.
From Coq Require Import List Bool Arith String.
Import ListNotations.
Local Open Scope nat_scope.

Theorem src_programs_disciplined : forall c, forallb (fun np => disciplined (snd np)) (src_programs c) = true.
Proof.
  intros c. cbv -[Nat.eqb]. repeat (rewrite Nat.eqb_refl; cbv -[Nat.eqb]). reflexivity.
Qed.

(* a handler: calls of source functions (by position in src_programs), awaits, replies *)
Inductive part := PFn (k : nat) | PPark | PReply.

Definition part_prog (c : nat) (p : part) : program :=
  match p with
  | PFn k => nth k (map snd (src_programs c)) []
  | PPark => [AwaitMod]
  | PReply => [Reply]
  end.
Definition assemble (c : nat) (parts : list part) : program := flat_map (part_prog c) parts.

Lemma nth_disciplined : forall (l : list program) k,
  forallb disciplined l = true -> disciplined (nth k l []) = true.
Proof.
  induction l as [|p l IH]; intros [|k] H; simpl in *; try reflexivity.
  - apply andb_prop in H. tauto.
  - apply andb_prop in H. apply IH. tauto.
Qed.

Lemma forallb_map_snd : forall (l : list (string * program)),
  forallb disciplined (map snd l) = forallb (fun np => disciplined (snd np)) l.
Proof. induction l as [|x l IH]; simpl; [reflexivity|]. rewrite IH. reflexivity. Qed.

Lemma part_disciplined : forall c p, disciplined (part_prog c p) = true.
Proof.
  intros c [k| |]; try reflexivity.
  unfold part_prog. apply nth_disciplined. rewrite forallb_map_snd. apply src_programs_disciplined.
Qed.

Theorem assemble_disciplined : forall c parts, disciplined (assemble c parts) = true.
Proof.
  intros c parts. induction parts as [|p r IH]; simpl; [reflexivity|].
  apply disciplined_app; [apply part_disciplined | exact IH].
Qed.

Definition src_task (t : nat * nat * list part) : nat * program := (fst (fst t), assemble (snd (fst t)) (snd t)).

(* any number of handlers (thread, channel, parts) assembled from the source's own lock programs: every schedule *)
Theorem source_handlers_never_wedge : forall (ts : list (nat * nat * list part)) (evs : list sev),
  snd (lrun (mk_tasks (map src_task ts)) evs) = None.
Proof.
  intros ts evs. apply no_wedge. apply Forall_forall. intros tp Hin. apply in_map_iff in Hin.
  destruct Hin as [t [<- _]]. simpl. apply assemble_disciplined.
Qed.

Theorem source_handlers_deadlock_free : forall wk (ts : list (nat * nat * list part)) (evs : list sev),
  exists evs', Forall (ev_ok wk) evs' /\ all_done (fst (lrun (fst (lrun (mk_tasks (map src_task ts)) evs)) evs')).
Proof.
  intros wk ts evs. apply deadlock_free. apply Forall_forall. intros tp Hin. apply in_map_iff in Hin.
  destruct Hin as [t [<- _]]. simpl. apply assemble_disciplined.
Qed.

(* the scan saw the handlers: at least the ten channel-manager entry points and the router's functions *)
Theorem src_programs_cover : forall c, 12 <=? List.length (src_programs c) = true.
Proof. intros c. reflexivity. Qed.

Print Assumptions source_handlers_never_wedge.
Print Assumptions source_handlers_deadlock_free.
Print Assumptions src_programs_disciplined.
