(* Interleaved model: one segment of a join task preserves the invariant. *)
From Coq Require Import List NArith Bool Lia.
From NW Require Import Model.Conc Proofs.ConcDefs.
Import ListNotations.
Open Scope N_scope.

(* ---------- small library ---------- *)
Lemma upd_eq {A} (m : N -> A) k v : upd m k v k = v.
Proof. unfold upd. now rewrite N.eqb_refl. Qed.
Lemma upd_neq {A} (m : N -> A) k v x : x <> k -> upd m k v x = m x.
Proof. unfold upd. intros. destruct (N.eqb_spec x k); congruence. Qed.

Lemma mem_In u l : mem u l = true <-> In u l.
Proof.
  unfold mem. rewrite existsb_exists. split.
  - intros [x [H1 H2]]. apply N.eqb_eq in H2. subst; auto.
  - intros. exists u. split; auto. apply N.eqb_refl.
Qed.
Lemma mem_false u l : mem u l = false <-> ~ In u l.
Proof. rewrite <- mem_In. destruct (mem u l); split; congruence. Qed.
Lemma In_add x u l : In x (add u l) <-> x = u \/ In x l.
Proof.
  unfold add. destruct (mem u l) eqn:E.
  - apply mem_In in E. split; auto. intros [->|]; auto.
  - rewrite in_app_iff. cbn. split; intros [H|H]; auto.
    destruct H as [->|[]]; auto.
Qed.
Lemma In_del x u l : In x (del u l) <-> In x l /\ x <> u.
Proof.
  unfold del. rewrite filter_In. split; intros [H1 H2]; split; auto.
  - destruct (N.eqb_spec x u); cbn in *; congruence.
  - destruct (N.eqb_spec x u); cbn; congruence.
Qed.
Lemma NoDup_snoc (u : N) l : NoDup l -> ~ In u l -> NoDup (l ++ [u]).
Proof.
  induction l; cbn; intros H1 H2.
  - repeat constructor; auto.
  - inversion H1; subst. constructor.
    + rewrite in_app_iff. cbn. intros [?|[?|[]]]; subst; tauto.
    + apply IHl; tauto.
Qed.
Lemma NoDup_add u l : NoDup l -> NoDup (add u l).
Proof.
  unfold add. intros H. destruct (mem u l) eqn:E; auto.
  apply mem_false in E. apply NoDup_snoc; auto.
Qed.
Lemma NoDup_del u l : NoDup l -> NoDup (del u l).
Proof. unfold del. apply NoDup_filter. Qed.
Lemma del_single n : del n [n] = [].
Proof. unfold del. cbn. now rewrite N.eqb_refl. Qed.
Lemma isnil_false {A} (l : list A) : isnil l = false -> l <> [].
Proof. destruct l; cbn; congruence. Qed.
Lemma In_nonnil {A} (x : A) l : In x l -> l <> [].
Proof. destruct l; cbn; [tauto|congruence]. Qed.

(* ---------- task lists ---------- *)
Lemma tlookup_In t l k : tlookup t l = Some k -> In (t, k) l.
Proof.
  induction l as [|[a b] l IH]; cbn; [congruence|].
  destruct (N.eqb_spec t a); intros H.
  - inversion H; subst; auto.
  - auto.
Qed.
Lemma In_tremove t l t' k' : In (t', k') (tremove t l) <-> In (t', k') l /\ t' <> t.
Proof.
  unfold tremove. rewrite filter_In. cbn. destruct (N.eqb_spec t' t); cbn; intuition congruence.
Qed.
Lemma NoDup_tremove t l : NoDup (map fst l) -> NoDup (map fst (tremove t l)).
Proof.
  induction l as [|[a b] l IH]; cbn; auto. intros H. inversion H; subst.
  destruct (N.eqb_spec a t); cbn; auto. constructor; auto.
  intros Hin. apply H2. apply in_map_iff in Hin. destruct Hin as [[x y] [E Hin]]. cbn in E; subst.
  apply In_tremove in Hin. apply in_map_iff. exists (a, y). tauto.
Qed.
Lemma map_fst_tset t v l : map fst (tset t v l) = map fst l.
Proof.
  induction l as [|[a b] l IH]; cbn; auto. destruct (N.eqb_spec t a); cbn; congruence.
Qed.
Lemma In_tset t v l t' k' : NoDup (map fst l) -> In t (map fst l) ->
  (In (t', k') (tset t v l) <-> (t' <> t /\ In (t', k') l) \/ (t' = t /\ k' = v)).
Proof.
  induction l as [|[a b] l IH]; cbn; [tauto|]. intros H Hin. inversion H; subst.
  destruct (N.eqb_spec t a).
  - subst a. cbn. split.
    + intros [E|E]; [inversion E; subst; auto|].
      left. split; auto. intros ->. apply H2. apply in_map_iff. exists (t, k'). auto.
    + intros [[H0 [E|E]]|[-> ->]]; auto. inversion E; congruence.
  - cbn. destruct Hin as [?|Hin]; [congruence|]. specialize (IH H3 Hin). rewrite IH. split.
    + intros [E|[E|E]]; auto. inversion E; subst. left; split; auto.
      tauto.
    + intros [[H0 [E|E]]|[-> ->]]; auto.
Qed.
Lemma fst_inj (l : list (tid * task)) t k1 k2 : NoDup (map fst l) -> In (t, k1) l -> In (t, k2) l -> k1 = k2.
Proof.
  induction l as [|[a b] l IH]; cbn; [tauto|]. intros H H1 H2. inversion H; subst.
  destruct H1 as [E1|H1], H2 as [E2|H2].
  - congruence.
  - inversion E1; subst. exfalso. apply H4. apply in_map_iff. exists (t, k2). auto.
  - inversion E2; subst. exfalso. apply H4. apply in_map_iff. exists (t, k1). auto.
  - auto.
Qed.

(* l' is l with the entry of t removed (None) or replaced (Some v) *)
Definition tasks_upd (l l' : list (tid * task)) (t : tid) (nk : option task) : Prop :=
  NoDup (map fst l') /\
  forall t' k', In (t', k') l' <-> (t' <> t /\ In (t', k') l) \/ (t' = t /\ nk = Some k').

Lemma tasks_upd_remove l t : NoDup (map fst l) -> tasks_upd l (tremove t l) t None.
Proof.
  intros H. split; [now apply NoDup_tremove|]. intros. rewrite In_tremove. intuition congruence.
Qed.
Lemma tasks_upd_set l t k v : NoDup (map fst l) -> In (t, k) l -> tasks_upd l (tset t v l) t (Some v).
Proof.
  intros H Hin. split; [now rewrite map_fst_tset|]. intros. rewrite In_tset; auto.
  - intuition congruence.
  - apply in_map_iff. exists (t, k). auto.
Qed.

(* ---------- the clauses of CInv that speak about the global state (tasks only through [covered]) ---------- *)
Record GInv (g : gst) (cov : user -> chan -> oid -> Prop) : Prop := {
  g_fresh : forall o, next_oid g <= o -> members (objs g o) = [] /\ wl g o = None /\ forall ch, cmap g ch <> Some o;
  g_inj : forall ch1 ch2 o, cmap g ch1 = Some o -> cmap g ch2 = Some o -> ch1 = ch2;
  g_unmapped_empty : forall o, (forall ch, cmap g ch <> Some o) -> members (objs g o) = [];
  g_mapped_nonempty : forall ch o, cmap g ch = Some o -> members (objs g o) <> [];
  g_owner : forall ch o, cmap g ch = Some o -> exists w, owner (objs g o) = Some w /\ In w (members (objs g o));
  g_nodup_members : forall o, NoDup (members (objs g o));
  g_targets : forall o, targets (objs g o) = filter (allowed (racl (objs g o))) (members (objs g o));
  g_nodup_idx : forall u, NoDup (idx g u);
  g_nodup_reg : forall u, NoDup (reg g u);
  g_reg_cuser : forall c u, In c (reg g u) <-> cuser g c = Some u;
  g_listed_member : forall u ch, is_listed g u ch -> is_member g u ch;
  g_member_listed : forall u ch o, cmap g ch = Some o -> In u (members (objs g o)) -> is_listed g u ch \/ cov u ch o;
  g_member_connected : forall u ch o, cmap g ch = Some o -> In u (members (objs g o)) -> reg g u <> [] \/ cov u ch o }.

Lemma CInv_GInv s : CInv s -> GInv (cg s) (covered s).
Proof. intros []. constructor; auto. Qed.

Lemma GInv_cov g (cov cov' : user -> chan -> oid -> Prop) : (forall u ch o, cov u ch o -> cov' u ch o) -> GInv g cov -> GInv g cov'.
Proof.
  intros H []. constructor; auto.
  - intros u ch o H1 H2. destruct (g_member_listed0 u ch o H1 H2); auto.
  - intros u ch o H1 H2. destruct (g_member_connected0 u ch o H1 H2); auto.
Qed.

Lemma g_mapped_lt g cov ch o : GInv g cov -> cmap g ch = Some o -> o < next_oid g.
Proof.
  intros G H. destruct (N.lt_ge_cases o (next_oid g)) as [|L]; auto.
  destruct (g_fresh _ _ G o L) as [_ [_ F]]. destruct (F ch H).
Qed.

(* only the lock table changes *)
Lemma GInv_wl g g' cov :
  GInv g cov ->
  objs g' = objs g -> next_oid g' = next_oid g -> cmap g' = cmap g -> idx g' = idx g -> reg g' = reg g -> cuser g' = cuser g ->
  (forall o, wl g' o = wl g o \/ o < next_oid g) ->
  GInv g' cov.
Proof.
  intros G Ho Hn Hc Hi Hr Hu Hw. destruct G.
  constructor; unfold is_listed, is_member in *; rewrite ?Ho, ?Hn, ?Hc, ?Hi, ?Hr, ?Hu; auto.
  intros o L. destruct (g_fresh0 o L) as [A [B C]]. repeat split; auto.
  destruct (Hw o) as [E|E]; [congruence|lia].
Qed.

(* a fresh object is put into the table (and possibly mapped and unmapped again): nothing visible changes *)
Lemma GInv_fresh_obj g g' cov o :
  GInv g cov ->
  next_oid g <= o -> next_oid g <= next_oid g' ->
  (forall o', o' <> o -> objs g' o' = objs g o') -> members (objs g' o) = [] -> targets (objs g' o) = [] ->
  (forall ch, cmap g' ch = cmap g ch) -> idx g' = idx g -> reg g' = reg g -> cuser g' = cuser g -> wl g' = wl g ->
  GInv g' cov.
Proof.
  intros G Lo Ln Ho Hm Ht Hc Hi Hr Hu Hw.
  assert (Hmem : forall o', members (objs g' o') = members (objs g o')).
  { intros o'. destruct (N.eq_dec o' o) as [->|D]; [|now rewrite Ho].
    rewrite Hm. symmetry. apply (g_fresh _ _ G o Lo). }
  assert (Hmap : forall ch o', cmap g' ch = Some o' -> o' <> o).
  { intros ch o' H ->. rewrite Hc in H. destruct (g_fresh _ _ G o Lo) as [_ [_ F]]. destruct (F ch H). }
  destruct G.
  constructor; unfold is_listed, is_member in *; rewrite ?Hi, ?Hr, ?Hu, ?Hw; auto.
  - intros o' L. rewrite Hmem. destruct (g_fresh0 o') as [A [B C]]; [lia|]. repeat split; auto.
    intros ch. rewrite Hc. auto.
  - intros ch1 ch2 o'. rewrite !Hc. eauto.
  - intros o' H. rewrite Hmem. apply g_unmapped_empty0. intros ch. rewrite <- Hc. auto.
  - intros ch o' H. rewrite Hmem. rewrite Hc in H. eauto.
  - intros ch o' H. rewrite Hmem. rewrite Ho by eauto. rewrite Hc in H. eauto.
  - intros o'. rewrite Hmem. auto.
  - intros o'. destruct (N.eq_dec o' o) as [->|D]; [|rewrite Ho; auto]. rewrite Ht, Hm. reflexivity.
  - intros u ch H. destruct (g_listed_member0 u ch H) as [o' [A B]]. exists o'. rewrite Hc, Hmem. auto.
  - intros u ch o' H. rewrite Hmem. rewrite Hc in H. eauto.
  - intros u ch o' H. rewrite Hmem. rewrite Hc in H. eauto.
Qed.

(* n is inserted into the object o mapped under ch (an existing mapping, or a fresh object mapped just now) *)
Lemma GInv_insert g g' cov ch o n :
  GInv g cov ->
  reg g' = reg g -> cuser g' = cuser g ->
  (forall o', o' <> o -> objs g' o' = objs g o') ->
  (forall o', o' <> o -> wl g' o' = wl g o') ->
  (forall ch', ch' <> ch -> cmap g' ch' = cmap g ch') ->
  (forall u, u <> n -> idx g' u = idx g u) ->
  next_oid g <= next_oid g' -> o < next_oid g' ->
  cmap g' ch = Some o ->
  (cmap g ch = Some o \/ (cmap g ch = None /\ forall ch', cmap g ch' <> Some o)) ->
  members (objs g' o) = add n (members (objs g o)) ->
  (exists w, owner (objs g' o) = Some w /\ In w (members (objs g' o))) ->
  targets (objs g' o) = filter (allowed (racl (objs g' o))) (members (objs g' o)) ->
  idx g' n = add ch (idx g n) ->
  reg g n <> [] ->
  GInv g' cov.
Proof.
  intros G Hr Hu Ho Hw Hc Hi Ln Lo Hch Hold Hm Hown Htg Hin Hreg.
  assert (Hother : forall ch' o', ch' <> ch -> cmap g ch' = Some o' -> o' <> o).
  { intros ch' o' D H ->. destruct Hold as [H1|[_ H1]].
    - apply D. eapply g_inj; eauto.
    - eapply H1; eauto. }
  assert (Hmono : forall u ch', is_member g u ch' -> is_member g' u ch').
  { intros u ch' [o' [A B]]. destruct (N.eq_dec ch' ch) as [->|D].
    - destruct Hold as [H1|[H1 _]]; [|congruence]. assert (o' = o) by congruence. subst o'.
      exists o. split; auto. rewrite Hm. apply In_add. auto.
    - exists o'. rewrite Hc by auto. split; auto. rewrite Ho; eauto. }
  assert (Hback : forall u ch' o', cmap g' ch' = Some o' -> In u (members (objs g' o')) ->
                  (ch' = ch /\ o' = o /\ u = n) \/ (cmap g ch' = Some o' /\ In u (members (objs g o')))).
  { intros u ch' o' A B. destruct (N.eq_dec ch' ch) as [->|D].
    - assert (o' = o) by congruence. subst o'. rewrite Hm in B. apply In_add in B. destruct B as [->|B]; auto.
      destruct Hold as [H1|[_ H1]]; auto. rewrite (g_unmapped_empty _ _ G o H1) in B. destruct B.
    - rewrite Hc in A by auto. right. split; auto. rewrite Ho in B; eauto. }
  assert (Hlist : forall u ch', is_listed g u ch' -> is_listed g' u ch').
  { unfold is_listed. intros u ch' H. destruct (N.eq_dec u n) as [->|D].
    - rewrite Hin. apply In_add. auto.
    - rewrite Hi; auto. }
  constructor.
  - intros o' L. assert (o' <> o) by lia. rewrite Ho, Hw by auto.
    destruct (g_fresh _ _ G o') as [A [B C]]; [lia|]. repeat split; auto.
    intros ch'. destruct (N.eq_dec ch' ch) as [->|D]; [congruence|]. rewrite Hc; auto.
  - intros ch1 ch2 o' H1 H2.
    destruct (N.eq_dec ch1 ch) as [->|D1], (N.eq_dec ch2 ch) as [->|D2]; auto.
    + assert (o' = o) by congruence. subst o'. rewrite Hc in H2 by auto. destruct (Hother ch2 o D2 H2 eq_refl).
    + assert (o' = o) by congruence. subst o'. rewrite Hc in H1 by auto. destruct (Hother ch1 o D1 H1 eq_refl).
    + rewrite Hc in H1, H2 by auto. eapply g_inj; eauto.
  - intros o' H. assert (D : o' <> o) by (intros ->; eapply H; eauto). rewrite Ho by auto.
    apply (g_unmapped_empty _ _ G). intros ch' A. destruct (N.eq_dec ch' ch) as [->|D'].
    + destruct Hold as [H1|[H1 _]]; congruence.
    + apply (H ch'). rewrite Hc; auto.
  - intros ch' o' H. destruct (N.eq_dec ch' ch) as [->|D].
    + assert (o' = o) by congruence. subst o'. rewrite Hm. apply (In_nonnil n). apply In_add. auto.
    + rewrite Hc in H by auto. rewrite Ho by eauto. eapply g_mapped_nonempty; eauto.
  - intros ch' o' H. destruct (N.eq_dec ch' ch) as [->|D].
    + assert (o' = o) by congruence. subst o'. auto.
    + rewrite Hc in H by auto. rewrite Ho by eauto. eapply g_owner; eauto.
  - intros o'. destruct (N.eq_dec o' o) as [->|D].
    + rewrite Hm. apply NoDup_add. apply (g_nodup_members _ _ G).
    + rewrite Ho by auto. apply (g_nodup_members _ _ G).
  - intros o'. destruct (N.eq_dec o' o) as [->|D]; auto. rewrite Ho by auto. apply (g_targets _ _ G).
  - intros u. destruct (N.eq_dec u n) as [->|D].
    + rewrite Hin. apply NoDup_add. apply (g_nodup_idx _ _ G).
    + rewrite Hi by auto. apply (g_nodup_idx _ _ G).
  - intros u. rewrite Hr. apply (g_nodup_reg _ _ G).
  - intros c u. rewrite Hr, Hu. apply (g_reg_cuser _ _ G).
  - intros u ch' H. unfold is_listed in H. destruct (N.eq_dec u n) as [->|D].
    + rewrite Hin in H. apply In_add in H. destruct H as [->|H].
      * exists o. split; auto. rewrite Hm. apply In_add. auto.
      * apply Hmono. apply (g_listed_member _ _ G). auto.
    + rewrite Hi in H by auto. apply Hmono. apply (g_listed_member _ _ G). auto.
  - intros u ch' o' A B. destruct (Hback u ch' o' A B) as [[-> [-> ->]]|[A' B']].
    + left. unfold is_listed. rewrite Hin. apply In_add. auto.
    + destruct (g_member_listed _ _ G u ch' o' A' B'); auto.
  - intros u ch' o' A B. rewrite Hr. destruct (Hback u ch' o' A B) as [[-> [-> ->]]|[A' B']]; auto.
    apply (g_member_connected _ _ G u ch' o' A' B').
Qed.

(* n is taken out of the object o mapped under ch again; the mapping goes if n was its only member *)
Lemma GInv_remove g g' cov ch o n :
  GInv g cov ->
  reg g' = reg g -> cuser g' = cuser g -> next_oid g' = next_oid g ->
  (forall o', o' <> o -> objs g' o' = objs g o') ->
  (forall o', o' <> o -> wl g' o' = wl g o') ->
  (forall ch', ch' <> ch -> cmap g' ch' = cmap g ch') ->
  (forall u, u <> n -> idx g' u = idx g u) ->
  cmap g ch = Some o ->
  objs g' o = obj_remove (objs g o) n ->
  idx g' n = del ch (idx g n) ->
  ((cmap g' ch = Some o /\ is_owner (objs g o) n = false) \/ (cmap g' ch = None /\ members (objs g o) = [n])) ->
  GInv g' cov.
Proof.
  intros G Hr Hu Hn Ho Hw Hc Hi Hch Hobj Hin Hcase.
  assert (Lo : o < next_oid g) by (eapply g_mapped_lt; eauto).
  assert (Hsub : forall ch' o', cmap g' ch' = Some o' -> cmap g ch' = Some o').
  { intros ch' o' H. destruct (N.eq_dec ch' ch) as [->|D].
    - destruct Hcase as [[H1 _]|[H1 _]]; congruence.
    - rewrite <- Hc; auto. }
  assert (Hmem : members (objs g' o) = del n (members (objs g o))) by (rewrite Hobj; reflexivity).
  assert (Hkeep : cmap g' ch = Some o -> exists w, owner (objs g' o) = Some w /\ In w (members (objs g' o))).
  { intros H. destruct Hcase as [[_ H1]|[H1 _]]; [|congruence].
    destruct (g_owner _ _ G ch o Hch) as [w [A B]]. exists w.
    rewrite Hmem. rewrite Hobj. cbn [owner obj_remove retarget]. rewrite H1. split; auto.
    apply In_del. split; auto. intros ->. unfold is_owner in H1. rewrite A, N.eqb_refl in H1. discriminate. }
  assert (Hback : forall u ch' o', cmap g' ch' = Some o' -> In u (members (objs g' o')) ->
                  cmap g ch' = Some o' /\ In u (members (objs g o')) /\ (u = n -> ch' <> ch)).
  { intros u ch' o' A B. pose proof (Hsub _ _ A) as A'. split; auto. destruct (N.eq_dec o' o) as [->|D].
    - rewrite Hmem in B. apply In_del in B. destruct B as [B1 B2]. split; auto.
    - rewrite Ho in B by auto. split; auto. intros _ ->. congruence. }
  assert (Hlist : forall u ch', is_listed g u ch' -> (u = n -> ch' <> ch) -> is_listed g' u ch').
  { unfold is_listed. intros u ch' H H1. destruct (N.eq_dec u n) as [->|D].
    - rewrite Hin. apply In_del. auto.
    - rewrite Hi; auto. }
  constructor.
  - intros o' L. rewrite Hn in L. assert (o' <> o) by lia. rewrite Ho, Hw by auto.
    destruct (g_fresh _ _ G o' L) as [A [B C]]. repeat split; auto.
    intros ch' H'. apply (C ch'). auto.
  - intros ch1 ch2 o' H1 H2. eapply g_inj; eauto.
  - intros o' H. destruct (N.eq_dec o' o) as [->|D].
    + destruct Hcase as [[H1 _]|[_ H1]]; [destruct (H ch H1)|]. rewrite Hmem, H1. apply del_single.
    + rewrite Ho by auto. apply (g_unmapped_empty _ _ G). intros ch' A.
      apply (H ch'). rewrite Hc; auto. intros ->. congruence.
  - intros ch' o' H. pose proof (Hsub _ _ H) as H'. destruct (N.eq_dec o' o) as [->|D].
    + assert (ch' = ch) by (eapply g_inj; eauto). subst ch'.
      destruct (Hkeep H) as [w [_ B]]. eapply In_nonnil; eauto.
    + rewrite Ho by auto. eapply g_mapped_nonempty; eauto.
  - intros ch' o' H. pose proof (Hsub _ _ H) as H'. destruct (N.eq_dec o' o) as [->|D].
    + assert (ch' = ch) by (eapply g_inj; eauto). subst ch'. auto.
    + rewrite Ho by auto. eapply g_owner; eauto.
  - intros o'. destruct (N.eq_dec o' o) as [->|D].
    + rewrite Hmem. apply NoDup_del. apply (g_nodup_members _ _ G).
    + rewrite Ho by auto. apply (g_nodup_members _ _ G).
  - intros o'. destruct (N.eq_dec o' o) as [->|D]; [rewrite Hobj; reflexivity|]. rewrite Ho by auto. apply (g_targets _ _ G).
  - intros u. destruct (N.eq_dec u n) as [->|D].
    + rewrite Hin. apply NoDup_del. apply (g_nodup_idx _ _ G).
    + rewrite Hi by auto. apply (g_nodup_idx _ _ G).
  - intros u. rewrite Hr. apply (g_nodup_reg _ _ G).
  - intros c u. rewrite Hr, Hu. apply (g_reg_cuser _ _ G).
  - intros u ch' H. unfold is_listed in H.
    assert (H0 : In ch' (idx g u) /\ (u = n -> ch' <> ch)).
    { destruct (N.eq_dec u n) as [->|D].
      - rewrite Hin in H. apply In_del in H. tauto.
      - rewrite Hi in H by auto. tauto. }
    destruct H0 as [H0 H1]. destruct (g_listed_member _ _ G u ch' H0) as [o' [A B]].
    destruct (N.eq_dec ch' ch) as [->|D].
    + assert (o' = o) by congruence. subst o'. destruct Hcase as [[H2 _]|[_ H2]].
      * exists o. split; auto. rewrite Hmem. apply In_del. split; auto. intros ->. now apply H1.
      * rewrite H2 in B. destruct B as [<-|[]]. now destruct H1.
    + exists o'. rewrite Hc by auto. split; auto. rewrite Ho; auto. intros ->. apply D. eapply g_inj; eauto.
  - intros u ch' o' A B. destruct (Hback u ch' o' A B) as [A' [B' C]].
    destruct (g_member_listed _ _ G u ch' o' A' B'); auto.
  - intros u ch' o' A B. rewrite Hr. destruct (Hback u ch' o' A B) as [A' [B' C]].
    apply (g_member_connected _ _ G u ch' o' A' B').
Qed.

(* ---------- the clauses of CInv that speak about the tasks ---------- *)
Definition TInv (g : gst) (l : list (tid * task)) (nt : tid) : Prop :=
  (NoDup (map fst l) /\ forall t k, In (t, k) l -> t < nt) /\
  (forall o t, wl g o = Some t -> exists k, In (t, k) l /\ holds (t_pc k) = Some o) /\
  (forall t k, In (t, k) l -> task_ok g t k) /\
  (forall t k ch o n id, In (t, k) l -> t_pc k = PJoinNotify ch o false n id -> is_owner (objs g o) n = false).

Lemma CInv_build s : GInv (cg s) (covered s) -> TInv (cg s) (tasks s) (next_tid s) -> CInv s.
Proof. intros [] [A [B [C D]]]. constructor; auto. Qed.

Lemma covered_upd s s' t k c nk :
  NoDup (map fst (tasks s)) -> In (t, k) (tasks s) -> t_conn k = Some c -> tasks_upd (tasks s) (tasks s') t nk ->
  forall u ch o, covered s u ch o -> covered s' u ch o.
Proof.
  intros ND Hin Hc [_ Hup] u ch o [t' [k' [A [B [C D]]]]]. exists t', k'. repeat split; auto.
  apply Hup. left. split; auto. intros ->. assert (k' = k) by (eapply fst_inj; eauto). subst k'. congruence.
Qed.

(* the facts about another task survive a change that is confined to an object whose lock that task cannot hold *)
Lemma task_ok_frame g g' o t t' k' :
  cuser g' = cuser g ->
  next_oid g <= next_oid g' ->
  (forall ch' o', cmap g' ch' = Some o' -> cmap g ch' = Some o' \/ next_oid g <= o') ->
  (forall o', o' <> o -> objs g' o' = objs g o' /\ wl g' o' = wl g o' /\
                         forall ch', cmap g ch' = Some o' -> cmap g' ch' = Some o') ->
  (wl g o = None \/ wl g o = Some t) -> t' <> t ->
  task_ok g t' k' -> task_ok g' t' k'.
Proof.
  intros Hu Ln Hcm Hfr Hlk D [H1 H2]. split.
  - rewrite Hu. exact H1.
  - assert (Hwait : forall ch0 o0, (o0 < next_oid g /\ forall ch', cmap g ch' = Some o0 -> ch' = ch0) ->
                                  o0 < next_oid g' /\ forall ch', cmap g' ch' = Some o0 -> ch' = ch0).
    { intros ch0 o0 [A B]. split; [lia|]. intros ch' H. destruct (Hcm _ _ H); [eauto|lia]. }
    assert (Hheld : forall o0, wl g o0 = Some t' -> o0 <> o) by (intros o0 W ->; destruct Hlk; congruence).
    destruct (t_pc k'); auto.
    + destruct H2 as [A [B [C E]]]. destruct (Hfr _ (Hheld _ C)) as [F1 [F2 F3]]. rewrite F1, F2. auto.
    + destruct H2 as [A [B [C E]]]. destruct (Hfr _ (Hheld _ C)) as [F1 [F2 F3]]. rewrite F1, F2. auto.
    + destruct H2 as [A C]. destruct (Hfr _ (Hheld _ C)) as [F1 [F2 F3]]. rewrite F2. auto.
Qed.

Lemma TInv_frame s g' l' t k nk o :
  CInv s -> In (t, k) (tasks s) -> tasks_upd (tasks s) l' t nk ->
  cuser g' = cuser (cg s) -> next_oid (cg s) <= next_oid g' ->
  (forall ch' o', cmap g' ch' = Some o' -> cmap (cg s) ch' = Some o' \/ next_oid (cg s) <= o') ->
  (forall o', o' <> o -> objs g' o' = objs (cg s) o' /\ wl g' o' = wl (cg s) o' /\
                         forall ch', cmap (cg s) ch' = Some o' -> cmap g' ch' = Some o') ->
  (wl (cg s) o = None \/ wl (cg s) o = Some t) ->
  (forall o', holds (t_pc k) = Some o' -> o' = o) ->
  match nk with
  | None => wl g' o = None
  | Some v => task_ok g' t v /\
              (forall ch o1 n id, t_pc v = PJoinNotify ch o1 false n id -> is_owner (objs g' o1) n = false) /\
              (wl g' o = None \/ (wl g' o = Some t /\ holds (t_pc v) = Some o))
  end ->
  TInv g' l' (next_tid s).
Proof.
  intros HI Hin [ND Hup] Hu Ln Hcm Hfr Hlk Hh Hnk.
  destruct (i_tids s HI) as [ND0 Hlt].
  assert (Hother : forall o' t', o' <> o -> wl (cg s) o' = Some t' -> t' <> t).
  { intros o' t' D H ->. destruct (i_lock_holder s HI o' t H) as [k0 [A B]].
    assert (k0 = k) by (eapply fst_inj; eauto). subst k0. apply D. auto. }
  unfold TInv. split; [split; [exact ND|]|split; [|split]].
  - intros t' k' H. apply Hup in H. destruct H as [[_ H]|[-> _]]; eauto.
  - intros o' t' H. destruct (N.eq_dec o' o) as [->|D].
    + destruct nk as [v|]; [|congruence]. destruct Hnk as [_ [_ [E|[E1 E2]]]]; [congruence|].
      assert (t' = t) by congruence. subst t'. exists v. split; auto. apply Hup. auto.
    + destruct (Hfr o' D) as [_ [F _]]. rewrite F in H.
      destruct (i_lock_holder s HI o' t' H) as [k0 [A B]]. exists k0. split; auto.
      apply Hup. left. split; auto. eapply Hother; eauto.
  - intros t' k' H. apply Hup in H. destruct H as [[D H]|[-> E]].
    + eapply task_ok_frame; eauto. apply (i_tasks s HI); auto.
    + subst nk. tauto.
  - intros t' k' ch o1 n id H Hpc. apply Hup in H. destruct H as [[D H]|[-> E]].
    + pose proof (i_tasks s HI t' k' H) as [_ Hok]. rewrite Hpc in Hok. destruct Hok as [_ [_ [W _]]].
      assert (N0 : o1 <> o) by (intros ->; destruct Hlk; congruence).
      destruct (Hfr o1 N0) as [F _]. rewrite F. eapply (i_join_guest s HI); eauto.
    + subst nk. destruct Hnk as [_ [G _]]. eauto.
Qed.

Lemma CInv_assemble s g' l' t k c nk o :
  CInv s -> In (t, k) (tasks s) -> t_conn k = Some c -> tasks_upd (tasks s) l' t nk ->
  GInv g' (covered s) ->
  cuser g' = cuser (cg s) -> next_oid (cg s) <= next_oid g' ->
  (forall ch' o', cmap g' ch' = Some o' -> cmap (cg s) ch' = Some o' \/ next_oid (cg s) <= o') ->
  (forall o', o' <> o -> objs g' o' = objs (cg s) o' /\ wl g' o' = wl (cg s) o' /\
                         forall ch', cmap (cg s) ch' = Some o' -> cmap g' ch' = Some o') ->
  (wl (cg s) o = None \/ wl (cg s) o = Some t) ->
  (forall o', holds (t_pc k) = Some o' -> o' = o) ->
  match nk with
  | None => wl g' o = None
  | Some v => task_ok g' t v /\
              (forall ch o1 n id, t_pc v = PJoinNotify ch o1 false n id -> is_owner (objs g' o1) n = false) /\
              (wl g' o = None \/ (wl g' o = Some t /\ holds (t_pc v) = Some o))
  end ->
  CInv {| cg := g'; tasks := l'; next_tid := next_tid s |}.
Proof.
  intros HI Hin Hc Hup G Hu Ln Hcm Hfr Hlk Hh Hnk.
  apply CInv_build; cbn [cg tasks next_tid].
  - eapply GInv_cov; [|exact G]. eapply covered_upd; eauto. apply (i_tids s HI).
  - eapply TInv_frame; eauto.
Qed.

(* ---------- what join_locked can do ---------- *)
Lemma join_locked_shape cf t tc me g ch o created ob id :
  fixed cf ->
  let r := join_locked cf t tc me g ch o created ob id in
  (cmap g ch <> Some o /\ exists os, r = (g, PDone, os)) \/
  (cmap g ch = Some o /\ exists os, r = ((if created then unmap g ch else g), PDone, os)) \/
  (cmap g ch = Some o /\ exists n os,
      ((ob = None /\ n = me) \/ reg g n <> []) /\ mem n (members (objs g o)) = false /\
      ((fwd_event cf = true /\
        r = (lock (idx_add (put_obj g o (obj_insert (objs g o) n)) n ch) o t, PJoinNotify ch o created n id, os)) \/
       (fwd_event cf = false /\
        r = (unlock (idx_add (put_obj g o (obj_insert (objs g o) n)) n ch) o, PDone, os)))).
Proof.
  intros [Hp Hi]. unfold join_locked, join_finish. rewrite Hp, Hi. cbv zeta.
  destruct (cmap g ch) as [o'|] eqn:Hc.
  2:{ left. split; [congruence|]. cbn [negb]. eauto. }
  destruct (N.eqb_spec o' o) as [->|D].
  2:{ left. split; [congruence|]. cbn [negb]. eauto. }
  cbn [negb]. right.
  assert (Hwho : (exists e, match ob with
        | Some n0 => if negb (is_owner (objs g o) me) then inl E_FORBIDDEN
            else if isnil (reg g n0) then inl E_USER_NOT_REGISTERED else inr n0
        | None => inr me end = inl e) \/
        (exists n, match ob with
        | Some n0 => if negb (is_owner (objs g o) me) then inl E_FORBIDDEN
            else if isnil (reg g n0) then inl E_USER_NOT_REGISTERED else inr n0
        | None => inr me end = inr n /\ ((ob = None /\ n = me) \/ reg g n <> []))).
  { destruct ob as [n|]; [|right; eauto].
    destruct (is_owner (objs g o) me); cbn [negb]; [|left; eauto].
    destruct (isnil (reg g n)) eqn:Hr; [left; eauto|]. right. exists n. split; auto. right. now apply isnil_false. }
  destruct Hwho as [[e ->]|[n [-> Hn]]]; [left; eauto|].
  destruct (allowed (jacl (objs g o)) n); cbn [negb]; [|left; eauto].
  destruct (mem n (members (objs g o))) eqn:Hm; [left; eauto|].
  destruct (c_max_clients cf <=? len (members (objs g o))); [left; eauto|].
  destruct (c_max_subs cf <=? len (idx g n)); [left; eauto|].
  right. split; auto. destruct (fwd_event cf); eexists n, _; (split; [exact Hn|split; [exact Hm|]]).
  - left. split; reflexivity.
  - right. split; reflexivity.
Qed.

(* ---------- the cases ---------- *)
Ltac gs := cbn [objs cmap idx reg wl cuser next_oid set_objs set_next set_cmap set_idx set_reg set_wl set_cuser
                put_obj lock unlock idx_add idx_del unmap cg tasks next_tid] in *.

Lemma after_seg_done s t k c g' os hint :
  t_conn k = Some c ->
  after_seg s t k (g', PDone, os) hint = {| cg := g'; tasks := tremove t (tasks s); next_tid := next_tid s |}.
Proof. intros H. unfold after_seg, settle. rewrite H. reflexivity. Qed.

Definition mk_new (g : gst) (ch : chan) : gst :=
  set_cmap (set_next (put_obj g (next_oid g) empty_obj) (next_oid g + 1))
           (upd (cmap g) ch (Some (next_oid g))).

(* g0 is the state join_locked starts from: g itself with the lock of the mapped object o free, or g with a new object *)
Record Pre (g g0 : gst) (ch : chan) (o : oid) (created : bool) : Prop := {
  p_reg : reg g0 = reg g; p_cuser : cuser g0 = cuser g; p_idx : idx g0 = idx g; p_wl : wl g0 = wl g;
  p_objs : forall o', o' <> o -> objs g0 o' = objs g o';
  p_mem : members (objs g0 o) = members (objs g o);
  p_cmap : forall ch', ch' <> ch -> cmap g0 ch' = cmap g ch';
  p_next : next_oid g <= next_oid g0;
  p_lt : o < next_oid g0;
  p_free : wl g o = None;
  p_old : cmap g ch = Some o \/ (cmap g ch = None /\ forall ch', cmap g ch' <> Some o);
  p_false : created = false -> objs g0 o = objs g o /\ cmap g ch = Some o;
  p_true : created = true -> members (objs g0 o) = [] /\ owner (objs g0 o) = None;
  p_sub : forall ch' o', cmap g0 ch' = Some o' -> cmap g ch' = Some o' \/ next_oid g <= o' }.

Lemma Pre_same g cov ch o : GInv g cov -> cmap g ch = Some o -> lock_free g o = true -> Pre g g ch o false.
Proof.
  intros G Hm Hf. constructor; auto; try discriminate.
  - apply N.le_refl.
  - eapply g_mapped_lt; eauto.
  - unfold lock_free in Hf. destruct (wl g o); congruence.
Qed.

Lemma Pre_new g cov ch : GInv g cov -> cmap g ch = None -> Pre g (mk_new g ch) ch (next_oid g) true.
Proof.
  intros G Hm. destruct (g_fresh _ _ G (next_oid g) (N.le_refl _)) as [A [B C]].
  unfold mk_new. constructor; gs; auto; try discriminate.
  - intros. now rewrite upd_neq.
  - now rewrite upd_eq.
  - intros. now rewrite upd_neq.
  - lia.
  - lia.
  - intros _. now rewrite upd_eq.
  - intros ch' o'. unfold upd. destruct (N.eqb_spec ch' ch); auto. intros E. inversion E. right. apply N.le_refl.
Qed.

Section Cases.
  Variables (s : cstate) (t : tid) (k : task) (c : conn).
  Hypothesis HI : CInv s.
  Hypothesis Hin : In (t, k) (tasks s).
  Hypothesis Hc : t_conn k = Some c.

  Lemma ok_conn : cuser (cg s) c = Some (t_me k) /\ t_rest k = [].
  Proof. destruct (i_tasks s HI t k Hin) as [H _]. rewrite Hc in H. exact H. Qed.

  Lemma ok_conn_with g' p : cuser g' = cuser (cg s) ->
    match t_conn (with_pc k p) with
    | Some c => cuser g' c = Some (t_me (with_pc k p)) /\ t_rest (with_pc k p) = []
    | None => NoDup (t_rest (with_pc k p)) /\
              match t_pc (with_pc k p) with
              | PStart (RLeave _ None _) | PLeaveWait _ _ None _ | PLeaveN2 _ _ _ _ => True
              | PLeaveN1 _ _ n _ _ => n = t_me (with_pc k p)
              | _ => False
              end
    end.
  Proof. intros E. cbn [with_pc t_conn t_me t_rest]. rewrite Hc, E. apply ok_conn. Qed.

  Lemma me_connected : reg (cg s) (t_me k) <> [].
  Proof. destruct ok_conn as [H _]. apply (i_reg_cuser s HI) in H. eapply In_nonnil; eauto. Qed.

  Lemma up_remove : tasks_upd (tasks s) (tremove t (tasks s)) t None.
  Proof. apply tasks_upd_remove. apply (i_tids s HI). Qed.
  Lemma up_set v : tasks_upd (tasks s) (tset t v (tasks s)) t (Some v).
  Proof. eapply tasks_upd_set; eauto. apply (i_tids s HI). Qed.
  Lemma fresh_free : wl (cg s) (next_oid (cg s)) = None.
  Proof. apply (i_fresh s HI). apply N.le_refl. Qed.

  (* nothing changes but the task's pc: it (still) waits for the lock *)
  Lemma case_wait ch o ob id os hint :
    holds (t_pc k) = None ->
    (o < next_oid (cg s) /\ forall ch', cmap (cg s) ch' = Some o -> ch' = ch) ->
    CInv (after_seg s t k (cg s, PJoinWait ch o ob id, os) hint).
  Proof.
    intros Hh Hw. cbn [after_seg settle].
    eapply CInv_assemble with (o := next_oid (cg s)) (nk := Some _); eauto using up_set, CInv_GInv.
    - apply N.le_refl.
    - left. apply fresh_free.
    - rewrite Hh. discriminate.
    - split; [|split].
      + split; [now apply ok_conn_with|exact Hw].
      + cbn [with_pc t_pc]. discriminate.
      + left. apply fresh_free.
  Qed.

  (* nothing changes, the task ends *)
  Lemma case_done os hint :
    holds (t_pc k) = None ->
    CInv (after_seg s t k (cg s, PDone, os) hint).
  Proof.
    intros Hh. rewrite (after_seg_done _ _ _ c) by auto.
    eapply CInv_assemble with (o := next_oid (cg s)) (nk := None); eauto using up_remove, CInv_GInv.
    - apply N.le_refl.
    - left. apply fresh_free.
    - rewrite Hh. discriminate.
    - apply fresh_free.
  Qed.

  (* a new object was mapped and the join refused: the mapping is taken back *)
  Lemma case_created_refuse ch os hint :
    cmap (cg s) ch = None -> holds (t_pc k) = None ->
    CInv (after_seg s t k (unmap (mk_new (cg s) ch) ch, PDone, os) hint).
  Proof.
    intros Hm Hh. rewrite (after_seg_done _ _ _ c) by auto.
    assert (Hcm : forall ch', cmap (unmap (mk_new (cg s) ch) ch) ch' = cmap (cg s) ch').
    { intros ch'. unfold mk_new. gs. unfold upd. destruct (N.eqb_spec ch' ch); subst; auto. }
    eapply CInv_assemble with (o := next_oid (cg s)) (nk := None); eauto using up_remove.
    - eapply GInv_fresh_obj with (o := next_oid (cg s)); try reflexivity; auto using CInv_GInv, N.le_refl;
        unfold mk_new; gs; try lia.
      + intros. now rewrite upd_neq.
      + now rewrite upd_eq.
      + now rewrite upd_eq.
    - unfold mk_new. gs. lia.
    - intros ch' o'. rewrite Hcm. auto.
    - intros o' D. unfold mk_new at 1 2. gs. rewrite upd_neq by auto. repeat split; auto.
      intros ch'. rewrite Hcm. auto.
    - left. apply fresh_free.
    - rewrite Hh. discriminate.
    - apply fresh_free.
  Qed.

  (* the insertion; then either the announcement is forwarded (the lock stays with the task) or the join is complete *)
  Lemma case_insert g0 ch o created n id os os' hint :
    Pre (cg s) g0 ch o created -> holds (t_pc k) = None ->
    cmap g0 ch = Some o -> (n = t_me k \/ reg g0 n <> []) -> mem n (members (objs g0 o)) = false ->
    let g2 := idx_add (put_obj g0 o (obj_insert (objs g0 o) n)) n ch in
    CInv (after_seg s t k (lock g2 o t, PJoinNotify ch o created n id, os) hint) /\
    CInv (after_seg s t k (unlock g2 o, PDone, os') hint).
  Proof.
    intros P Hh Hcm Hn Hmem g2.
    pose proof (CInv_GInv s HI) as G0.
    assert (Hreg : reg (cg s) n <> []).
    { destruct Hn as [->|Hn]; [apply me_connected|]. now rewrite <- (p_reg _ _ _ _ _ P). }
    assert (Hnin : ~ In n (members (objs (cg s) o))).
    { rewrite <- (p_mem _ _ _ _ _ P). now apply mem_false. }
    assert (Hguest : created = false -> is_owner (obj_insert (objs g0 o) n) n = false).
    { intros E. destruct (p_false _ _ _ _ _ P E) as [E1 E2]. rewrite E1.
      destruct (g_owner _ _ G0 ch o E2) as [w [A B]]. unfold is_owner, obj_insert, retarget. cbn [owner]. rewrite A.
      apply N.eqb_neq. intros ->. auto. }
    assert (G : forall w, GInv (set_wl g2 (upd (wl g2) o w)) (covered s)).
    { intros w. subst g2. eapply GInv_insert with (ch := ch) (o := o) (n := n); [exact G0|..]; gs.
      - apply (p_reg _ _ _ _ _ P).
      - apply (p_cuser _ _ _ _ _ P).
      - intros. rewrite upd_neq by auto. now apply (p_objs _ _ _ _ _ P).
      - intros. rewrite upd_neq by auto. now rewrite (p_wl _ _ _ _ _ P).
      - apply (p_cmap _ _ _ _ _ P).
      - intros. rewrite upd_neq by auto. now rewrite (p_idx _ _ _ _ _ P).
      - apply (p_next _ _ _ _ _ P).
      - apply (p_lt _ _ _ _ _ P).
      - exact Hcm.
      - apply (p_old _ _ _ _ _ P).
      - rewrite upd_eq. cbn [members obj_insert retarget]. now rewrite (p_mem _ _ _ _ _ P).
      - rewrite upd_eq. cbn [members owner obj_insert retarget]. destruct created.
        + destruct (p_true _ _ _ _ _ P eq_refl) as [_ ->]. exists n. split; auto. apply In_add. auto.
        + destruct (p_false _ _ _ _ _ P eq_refl) as [E1 E2]. rewrite E1.
          destruct (g_owner _ _ G0 ch o E2) as [w' [A B]]. rewrite A. exists w'. split; auto. apply In_add. auto.
      - rewrite upd_eq. reflexivity.
      - rewrite upd_eq. now rewrite (p_idx _ _ _ _ _ P).
      - exact Hreg. }
    assert (Hfr : forall w o', o' <> o ->
       objs (set_wl g2 (upd (wl g2) o w)) o' = objs (cg s) o' /\ wl (set_wl g2 (upd (wl g2) o w)) o' = wl (cg s) o' /\
       forall ch', cmap (cg s) ch' = Some o' -> cmap (set_wl g2 (upd (wl g2) o w)) ch' = Some o').
    { intros w o' D. subst g2. gs. rewrite !upd_neq by auto. rewrite (p_wl _ _ _ _ _ P). repeat split.
      - now apply (p_objs _ _ _ _ _ P).
      - intros ch' H. destruct (N.eq_dec ch' ch) as [->|D'].
        + destruct (p_old _ _ _ _ _ P) as [E|[E _]]; congruence.
        + now rewrite (p_cmap _ _ _ _ _ P). }
    split.
    - cbn [after_seg settle].
      eapply CInv_assemble with (g' := set_wl g2 (upd (wl g2) o (Some t))) (o := o) (nk := Some _); eauto using up_set.
      + subst g2. gs. apply (p_cuser _ _ _ _ _ P).
      + subst g2. gs. apply (p_next _ _ _ _ _ P).
      + subst g2. gs. apply (p_sub _ _ _ _ _ P).
      + left. apply (p_free _ _ _ _ _ P).
      + rewrite Hh. discriminate.
      + split; [|split].
        * split; [apply ok_conn_with; subst g2; gs; apply (p_cuser _ _ _ _ _ P)|].
          cbn [with_pc t_pc]. subst g2. gs. rewrite !upd_eq. cbn [members obj_insert retarget]. repeat split; auto.
          -- apply In_add. auto.
          -- intros E. destruct (p_true _ _ _ _ _ P E) as [-> _]. reflexivity.
        * cbn [with_pc t_pc]. intros ch1 o1 n1 id1 E. inversion E; subst. subst g2. gs. rewrite upd_eq. auto.
        * right. split; [|reflexivity]. subst g2. gs. now rewrite upd_eq.
    - rewrite (after_seg_done _ _ _ c) by auto.
      eapply CInv_assemble with (g' := set_wl g2 (upd (wl g2) o None)) (o := o) (nk := None); eauto using up_remove.
      + subst g2. gs. apply (p_cuser _ _ _ _ _ P).
      + subst g2. gs. apply (p_next _ _ _ _ _ P).
      + subst g2. gs. apply (p_sub _ _ _ _ _ P).
      + left. apply (p_free _ _ _ _ _ P).
      + rewrite Hh. discriminate.
      + subst g2. gs. now rewrite upd_eq.
  Qed.

  (* the announcement was accepted: the lock is released *)
  Lemma case_finish_ok ch o created n id os hint :
    t_pc k = PJoinNotify ch o created n id ->
    CInv (after_seg s t k (unlock (cg s) o, PDone, os) hint).
  Proof.
    intros Hpc. rewrite (after_seg_done _ _ _ c) by auto.
    pose proof (i_tasks s HI t k Hin) as [_ Hok]. rewrite Hpc in Hok. destruct Hok as [A [B [W E]]].
    pose proof (CInv_GInv s HI) as G0.
    eapply CInv_assemble with (o := o) (nk := None); eauto using up_remove.
    - eapply (GInv_wl (cg s)); [exact G0|reflexivity..|]. intros o'. gs. destruct (N.eq_dec o' o) as [->|D].
      + right. eapply g_mapped_lt; eauto.
      + left. now rewrite upd_neq.
    - apply N.le_refl.
    - intros o' D. gs. rewrite upd_neq by auto. auto.
    - rewrite Hpc. cbn [holds]. congruence.
    - gs. now rewrite upd_eq.
  Qed.

  (* the announcement failed: the insertion is rolled back *)
  Lemma case_finish_fail ch o created n id os hint :
    t_pc k = PJoinNotify ch o created n id ->
    let g2 := idx_del (put_obj (cg s) o (obj_remove (objs (cg s) o) n)) n ch in
    CInv (after_seg s t k (unlock (if created then unmap g2 ch else g2) o, PDone, os) hint).
  Proof.
    intros Hpc g2. rewrite (after_seg_done _ _ _ c) by auto.
    pose proof (i_tasks s HI t k Hin) as [_ Hok]. rewrite Hpc in Hok. destruct Hok as [A [B [W E]]].
    pose proof (CInv_GInv s HI) as G0.
    eapply CInv_assemble with (o := o) (nk := None); eauto using up_remove.
    - eapply GInv_remove with (ch := ch) (o := o) (n := n); [exact G0|..]; subst g2; destruct created; gs;
        try reflexivity; auto; try (intros; now rewrite upd_neq); try (now rewrite upd_eq).
      + right. rewrite upd_eq. auto.
      + left. split; auto. eapply (i_join_guest s HI); eauto.
    - subst g2. destruct created; gs; reflexivity.
    - subst g2. destruct created; gs; apply N.le_refl.
    - intros ch' o'. subst g2. destruct created; gs; auto.
      unfold upd. destruct (N.eqb_spec ch' ch); [discriminate|auto].
    - intros o' D. subst g2. destruct created; gs; rewrite !upd_neq by auto; repeat split; auto.
      intros ch' H. rewrite upd_neq; auto. intros ->. congruence.
    - rewrite Hpc. cbn [holds]. congruence.
    - subst g2. destruct created; gs; now rewrite upd_eq.
  Qed.
End Cases.

(* ---------- join_locked, for an existing and for a new channel object ---------- *)
Lemma join_locked_false cf s t k c ch o ob id hint :
  fixed cf -> CInv s -> In (t, k) (tasks s) -> t_conn k = Some c -> holds (t_pc k) = None ->
  lock_free (cg s) o = true ->
  CInv (after_seg s t k (join_locked cf t (t_conn k) (t_me k) (cg s) ch o false ob id) hint).
Proof.
  intros F HI Hin Hc Hh Hf.
  destruct (join_locked_shape cf t (t_conn k) (t_me k) (cg s) ch o false ob id F)
    as [[A [os ->]]|[[A [os ->]]|[A [n [os [Hn [Hm [[Hfw ->]|[Hfw ->]]]]]]]]].
  - eapply case_done; eauto.
  - eapply case_done; eauto.
  - eapply proj1. eapply case_insert with (os' := os); eauto.
    + eapply Pre_same; eauto. apply CInv_GInv; auto.
    + destruct Hn as [[_ ->]|Hn]; auto.
  - eapply proj2. eapply case_insert with (os := os) (id := id); eauto.
    + eapply Pre_same; eauto. apply CInv_GInv; auto.
    + destruct Hn as [[_ ->]|Hn]; auto.
Qed.

Lemma join_locked_true cf s t k c ch ob id hint :
  fixed cf -> CInv s -> In (t, k) (tasks s) -> t_conn k = Some c -> holds (t_pc k) = None ->
  cmap (cg s) ch = None ->
  CInv (after_seg s t k (join_locked cf t (t_conn k) (t_me k) (mk_new (cg s) ch) ch (next_oid (cg s)) true ob id) hint).
Proof.
  intros F HI Hin Hc Hh Hm.
  destruct (join_locked_shape cf t (t_conn k) (t_me k) (mk_new (cg s) ch) ch (next_oid (cg s)) true ob id F)
    as [[A [os ->]]|[[A [os ->]]|[A [n [os [Hn [Hmem [[Hfw ->]|[Hfw ->]]]]]]]]].
  - exfalso. apply A. unfold mk_new. gs. now rewrite upd_eq.
  - eapply case_created_refuse; eauto.
  - eapply proj1. eapply case_insert with (os' := os); eauto.
    + eapply Pre_new; eauto. apply CInv_GInv; auto.
    + destruct Hn as [[_ ->]|Hn]; auto.
  - eapply proj2. eapply case_insert with (os := os) (id := id); eauto.
    + eapply Pre_new; eauto. apply CInv_GInv; auto.
    + destruct Hn as [[_ ->]|Hn]; auto.
Qed.

Theorem seg_join_preserves cf s t k ok hint :
  fixed cf -> CInv s -> tlookup t (tasks s) = Some k -> join_pc (t_pc k) ->
  CInv (after_seg s t k (seg cf t (t_conn k) (t_me k) (cg s) (t_pc k) ok hint) hint).
Proof.
  intros F HI Hlk Hpc. pose proof (tlookup_In _ _ _ Hlk) as Hin.
  assert (Hconn : exists c, t_conn k = Some c).
  { destruct (t_conn k) as [c|] eqn:Hc; eauto. exfalso.
    destruct (i_tasks s HI t k Hin) as [Hok _]. rewrite Hc in Hok. destruct Hok as [_ Hok].
    destruct (t_pc k) as [[]| | | | | | | | | | |]; cbn in Hpc, Hok; tauto. }
  destruct Hconn as [c Hc].
  destruct (t_pc k) as [r|ch o ob id|ch o created n id| | | | | | | | |] eqn:Hp; cbn in Hpc; try contradiction.
  - destruct r as [ch ob id| | | | | |]; try contradiction. cbn [seg]. unfold join_start.
    destruct (cmap (cg s) ch) as [o|] eqn:Hm.
    + destruct (lock_free (cg s) o) eqn:Hf.
      * eapply join_locked_false; eauto. now rewrite Hp.
      * eapply case_wait; eauto; [now rewrite Hp|]. split.
        -- eapply g_mapped_lt; [apply CInv_GInv; eauto|eauto].
        -- intros ch' H. eapply (i_inj s HI); eauto.
    + eapply join_locked_true; eauto. now rewrite Hp.
  - cbn [seg]. destruct (lock_free (cg s) o) eqn:Hf.
    + eapply join_locked_false; eauto. now rewrite Hp.
    + eapply case_wait; eauto; [now rewrite Hp|].
      destruct (i_tasks s HI t k Hin) as [_ Hok]. rewrite Hp in Hok. exact Hok.
  - cbn [seg]. unfold join_finish. destruct F as [_ Hi]. rewrite Hi. destruct ok.
    + eapply case_finish_ok; eauto.
    + eapply case_finish_fail; eauto.
Qed.
