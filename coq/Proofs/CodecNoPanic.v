(* deserialize never panics in the overflow-checked profile, provided read_parameter rejects a
   zero value count (generated constant de_rejects_zero_count, read from deserialize.rs). *)
From NW Require Import Base.Bytes Model.SchemaTypes Gen.Consts Model.Codec.

Lemma esc_loop_not_panic suf : forall p from to e, esc_loop suf p from to e <> Panic /\ esc_loop suf p from to e <> OutOfFuel.
Proof.
  induction suf as [|b r IH]; intros p from to e; cbn [esc_loop]; [split; discriminate|].
  repeat match goal with |- context [if ?c then _ else _] => destruct c end;
    try (split; discriminate); apply IH.
Qed.

Lemma read_escaped_string_cases buf p :
  (exists x, read_escaped_string buf p = Ok x) \/ read_escaped_string buf p = Err.
Proof.
  unfold read_escaped_string.
  destruct (seek_char buf p) as [[from0|] p']; [|left; eauto].
  destruct (read_byte buf from0) as [b1 p1].
  destruct (negb (b1 =? BACKSLASH)); [left; eauto|].
  destruct (read_byte buf p1) as [e p2].
  destruct (negb (is_escape_char e)).
  - destruct (p2 <? 2)%nat; [right; reflexivity | left; eauto].
  - pose proof (esc_loop_not_panic (skipn p2 buf) p2 p2 p2 e) as [H1 H2].
    destruct (esc_loop (skipn p2 buf) p2 p2 p2 e) as [[to p3]| | |]; cbn [bind];
      [left; eauto | right; reflexivity | congruence | congruence].
Qed.

Lemma read_parameter_cases buf p :
  (exists x, read_parameter buf p = Ok x) \/ read_parameter buf p = Err.
Proof.
  unfold read_parameter.
  destruct (seek_char buf p) as [[pos|] p']; [|left; eauto].
  destruct (find_index (N.eqb 61) (skipn pos buf)) as [eq|]; [|right; reflexivity].
  destruct (find_index (N.eqb 58) _) as [c|].
  - destruct (parse_uint _ _) as [cnt|]; [|right; reflexivity].
    destruct (negb _); [right; reflexivity|].
    destruct (_ && _); [right; reflexivity | left; eauto].
  - destruct (forallb _ _); [left; eauto | right; reflexivity].
Qed.

Lemma read_parameter_count_nonzero buf p name cnt p' :
  de_rejects_zero_count = true ->
  read_parameter buf p = Ok (Some (name, cnt), p') -> cnt <> 0.
Proof.
  intros Hg. unfold read_parameter.
  destruct (seek_char buf p) as [[pos|] p0]; [|discriminate].
  destruct (find_index (N.eqb 61) (skipn pos buf)) as [eq|]; [|discriminate].
  destruct (find_index (N.eqb 58) _) as [c|].
  - destruct (parse_uint _ _) as [cnt0|]; [|discriminate].
    destruct (negb _); [discriminate|].
    rewrite Hg. cbn [andb]. destruct (cnt0 =? 0) eqn:E; [discriminate|].
    intro H; injection H as _ <- _. apply N.eqb_neq. exact E.
  - destruct (forallb _ _); [|discriminate].
    intro H; injection H as _ <- _. discriminate.
Qed.

Lemma decode_loop_no_panic (Hg : de_rejects_zero_count = true) fuel buf fs :
  forall p cur vs,
    (forall n c, cur = Some (n, c) -> c <> 0) ->
    decode_loop fuel Checked buf p cur fs vs <> Panic.
Proof.
  induction fuel as [|fuel IH]; intros p cur vs Hcur; cbn [decode_loop]; [discriminate|].
  assert (Hhdr : forall h p1,
            match cur with Some c => Ok (Some c, p) | None => read_parameter buf p end = Ok (h, p1) ->
            forall n c, h = Some (n, c) -> c <> 0).
  { intros h p1 Hh n c ->. destruct cur as [[n0 c0]|].
    - inversion Hh; subst. eapply Hcur; reflexivity.
    - eapply read_parameter_count_nonzero; eauto. }
  assert (Hc : (exists x, match cur with Some c => Ok (Some c, p) | None => read_parameter buf p end = Ok x)
               \/ match cur with Some c => Ok (Some c, p) | None => read_parameter buf p end = Err).
  { destruct cur; [left; eauto | apply read_parameter_cases]. }
  destruct Hc as [[[h p1] Hh] | Hh]; rewrite Hh; cbn [bind]; [|discriminate].
  specialize (Hhdr h p1 Hh).
  destruct h as [[name cnt]|]; [|discriminate].
  destruct (read_escaped_string_cases buf p1) as [[[v p2] Hv] | Hv]; rewrite Hv; cbn [bind]; [|discriminate].
  destruct v as [value|]; [|discriminate].
  assert (Hne : cnt <> 0) by (eapply Hhdr; reflexivity).
  apply N.eqb_neq in Hne. rewrite Hne. cbn [bind].
  destruct (assign fs vs name value) as [vs'|]; [|discriminate].
  apply IH. intros n c Hsome.
  destruct (cnt - 1 =? 0) eqn:E; [discriminate|].
  injection Hsome as _ <-. apply N.eqb_neq. exact E.
Qed.

Theorem deserialize_no_panic (Hg : de_rejects_zero_count = true) sch buf :
  deserialize sch Checked buf <> Panic.
Proof.
  unfold deserialize.
  destruct (read_string buf 0) as [[name|] p]; [|discriminate].
  destruct (kind_of_name sch 0 name) as [[i k]|]; [|discriminate].
  pose proof (decode_loop_no_panic Hg (S (length buf)) buf (k_fields k) p None
                (map default_val (k_fields k))) as H.
  destruct (decode_loop (S (length buf)) Checked buf p None (k_fields k) (map default_val (k_fields k)))
    as [vs| | |] eqn:E; cbn [bind].
  - destruct (validate k vs); discriminate.
  - discriminate.
  - exfalso. apply H; [intros n c Hc; discriminate | reflexivity].
  - discriminate.
Qed.
