(* Interleaved model: no cross-channel leak, and the exact shape of the known namesake window (K01a). *)
From Coq Require Import List NArith Bool Lia.
From NW Require Import Model.Conc Proofs.ConcDefs Proofs.ConcEv Proofs.ConcInv Proofs.ConcSmall.
Import ListNotations.
Open Scope N_scope.

(* what a MESSAGE produced by the delivery step says about the state it was produced in *)
Lemma bcast_read_msg tc me g ch o payload id c ch' from pl :
  In (OMsg c ch' from pl) (snd (bcast_read tc me g ch o payload id)) ->
  ch' = ch /\ from = me /\ In me (members (objs g o)) /\ allowed (pacl (objs g o)) me = true /\
  In c (conns_of g (targets (objs g o)) tc).
Proof.
  unfold bcast_read. cbv zeta. intros H.
  destruct (negb (mem me (members (objs g o)))) eqn:E.
  { cbn [snd] in H. unfold err_out in H. destruct tc; [|destruct H].
    destruct (closing_reason _); destruct H as [H|[]]; discriminate. }
  destruct (negb (allowed (pacl (objs g o)) me)) eqn:Ea.
  { cbn [snd] in H. unfold err_out in H. destruct tc; [|destruct H].
    destruct (closing_reason _); destruct H as [H|[]]; discriminate. }
  apply negb_false_iff in E. apply ConcEv.mem_In in E. apply negb_false_iff in Ea.
  cbn [snd] in H. apply in_app_iff in H. destruct H as [H|H].
  - apply in_map_iff in H. destruct H as (c0 & Heq & Hc). injection Heq as -> -> -> ->. auto.
  - destruct tc; [destruct H as [H|[]]; discriminate|destruct H].
Qed.

Lemma bcast_lookup_msg tc me g ch payload id c ch' from pl :
  In (OMsg c ch' from pl) (snd (bcast_lookup tc me g ch payload id)) ->
  exists o, cmap g ch = Some o /\ ch' = ch /\ from = me /\ In me (members (objs g o)) /\
            allowed (pacl (objs g o)) me = true /\ In c (conns_of g (targets (objs g o)) tc).
Proof.
  unfold bcast_lookup. intros H. destruct (cmap g ch) as [o|].
  - destruct (lock_free g o); [|destruct H]. exists o. split; auto. now apply bcast_read_msg in H.
  - cbn [snd] in H. unfold err_out in H. destruct tc; [|destruct H].
    destruct (closing_reason _); destruct H as [H|[]]; discriminate.
Qed.

Section Leak.
  (* the invariant of every reachable state (Proofs/ConcInv.v) *)

  (* C01 under interleaving, in full: a MESSAGE labelled ch goes only to a live connection whose user is, at that very step,
     a member of THE CHANNEL OBJECT THE MAP HOLDS UNDER ch, admitted by its read list, the publisher being a member of the same
     object admitted by its publish list -- payloads of one channel never appear under another channel's name, however long
     the BROADCAST waited for the lock and whatever happened to channels of that name meanwhile.  And the user is listed for
     ch (an index entry, which only a JOIN naming that user creates) unless a clean-up of that user is still on its way to
     ch: the known window K01a and nothing else. *)
  Theorem conc_no_cross_channel_leak cf es e c ch from payload :
    fixed cf -> let s := cstate_after cf es in
    In (OMsg c ch from payload) (snd (cstep cf s e)) ->
    exists u o, cuser (cg s) c = Some u /\ cmap (cg s) ch = Some o /\
      In u (members (objs (cg s) o)) /\ In from (members (objs (cg s) o)) /\
      allowed (racl (objs (cg s) o)) u = true /\ allowed (pacl (objs (cg s) o)) from = true /\
      (is_listed (cg s) u ch \/ covered s u ch o).
  Proof.
    intros F s H. pose proof (cinv_reachable cf es F) as I. fold s in I.
    destruct (conc_message_confinement cf es e c ch from payload H)
      as (_ & o0 & _ & _ & _ & _ & _ & t & k & ok & hint & -> & Hin & Hme & _ & Hpc).
    fold s in Hin. unfold cstep in H. cbv zeta in H.
    destruct (tlookup t (tasks s)) as [k'|] eqn:Hl; [|destruct H].
    apply ConcEv.tlookup_In in Hl. rewrite (ConcEv.keys_inj _ _ _ _ (proj1 (i_tids s I)) Hl Hin) in H. clear k' Hl.
    destruct (seg cf t (t_conn k) (t_me k) (cg s) (t_pc k) ok hint) as [[g' p] os] eqn:Hs. cbn [snd] in H.
    assert (Hos : os = snd (seg cf t (t_conn k) (t_me k) (cg s) (t_pc k) ok hint)) by now rewrite Hs.
    clear Hs. subst os.
    assert (Hcore : exists o, cmap (cg s) ch = Some o /\ from = t_me k /\ In (t_me k) (members (objs (cg s) o)) /\
              allowed (pacl (objs (cg s) o)) (t_me k) = true /\
              In c (conns_of (cg s) (targets (objs (cg s) o)) (t_conn k))).
    { destruct Hpc as [[id Hp]|[[id Hp]|[id Hp]]]; rewrite Hp in H; cbn [seg] in H.
      - destruct (fwd_payload cf).
        + cbn [snd] in H. destruct H as [H|[]]; discriminate.
        + apply bcast_lookup_msg in H. destruct H as (o & A & _ & B). exists o. tauto.
      - destruct ok.
        + apply bcast_lookup_msg in H. destruct H as (o & A & _ & B). exists o. tauto.
        + cbn [snd] in H. unfold err_out in H. destruct (t_conn k); [|destruct H].
          destruct (closing_reason _); destruct H as [H|[]]; discriminate.
      - destruct (lock_free (cg s) o0); [|destruct H].
        apply bcast_read_msg in H. destruct H as (_ & A & B & C & D).
        exists o0. split; [|tauto].
        (* the object the task waited for still answers to this name: it has a member, so it is mapped, and a waiting
           task's object is mapped under the name it was looked up with, if at all *)
        pose proof (i_tasks s I t k Hin) as [_ Hk]. rewrite Hp in Hk. destruct Hk as [_ Hk].
        destruct (cmap (cg s) ch) as [o1|] eqn:Hm.
        + destruct (N.eq_dec o1 o0) as [->|Hne]; [reflexivity|]. exfalso.
          assert (Hno : forall ch', cmap (cg s) ch' <> Some o0).
          { intros ch' Hc'. pose proof (Hk ch' Hc'). subst ch'. congruence. }
          apply (i_unmapped_empty s I) in Hno. rewrite Hno in B. destruct B.
        + exfalso.
          assert (Hno : forall ch', cmap (cg s) ch' <> Some o0).
          { intros ch' Hc'. pose proof (Hk ch' Hc'). subst ch'. congruence. }
          apply (i_unmapped_empty s I) in Hno. rewrite Hno in B. destruct B. }
    destruct Hcore as (o & Hm & -> & Hfm & Hpa & Hc).
    apply conns_of_In in Hc. destruct Hc as (u & Hu & Hc & _).
    rewrite (i_targets s I o) in Hu. apply filter_In in Hu. destruct Hu as [Hu Hra].
    exists u, o. split; [now apply (i_reg_cuser s I)|]. repeat split; auto.
    now apply (i_member_listed s I).
  Qed.
End Leak.
