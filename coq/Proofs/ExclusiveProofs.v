(* Proofs about Model/Exclusive.v: with test and insertion in one critical section at most one of any number of threads
   wins the name, under every schedule; with the test made before, in a separate critical section, two threads can both win. *)
From NW Require Import Model.Exclusive.
From Coq Require Import List Arith Bool Lia.
Import ListNotations.

Definition is_win (p : tpc) : bool := match p with TDone true => true | _ => false end.
Definition wins (l : list tpc) : nat := length (filter is_win l).
Definition unchecked (p : tpc) : bool := match p with TChecked _ => false | _ => true end.

Lemma winners_is_wins : forall s, winners s = wins (threads s).
Proof. reflexivity. Qed.

Lemma wins_set_pc : forall l i p q, nth_error l i = Some q ->
  wins (set_pc l i p) + (if is_win q then 1 else 0) = wins l + (if is_win p then 1 else 0).
Proof.
  induction l as [|x l IH]; intros [|i] p q H; simpl in *; try discriminate.
  - inversion H; subst. unfold wins. simpl. destruct (is_win p), (is_win q); simpl; lia.
  - specialize (IH i p q H). unfold wins in *. simpl. destruct (is_win x); simpl; lia.
Qed.

Lemma unchecked_set_pc : forall l i p, forallb unchecked l = true -> unchecked p = true -> forallb unchecked (set_pc l i p) = true.
Proof.
  induction l as [|x l IH]; intros [|i] p H Hp; simpl in *; try reflexivity.
  - apply andb_prop in H. destruct H as [_ H]. rewrite Hp, H. reflexivity.
  - apply andb_prop in H. destruct H as [Hx H]. rewrite Hx. simpl. apply IH; assumption.
Qed.

Lemma nth_unchecked : forall l i p, forallb unchecked l = true -> nth_error l i = Some p -> unchecked p = true.
Proof.
  induction l as [|x l IH]; intros [|i] p H E; simpl in *; try discriminate.
  - inversion E; subst. apply andb_prop in H. tauto.
  - apply andb_prop in H. eapply IH; [apply H | exact E].
Qed.

(* invariant of the atomic protocol: the winners are exactly the holders, there is at most one, nobody is between test and insertion *)
Definition AInv (s : xstate) : Prop :=
  wins (threads s) = holders s /\ holders s <= 1 /\ forallb unchecked (threads s) = true.

Lemma atomic_step_inv : forall s i, AInv s -> AInv (xstep true s i).
Proof.
  intros s i [Hw [Hh Hu]]. unfold xstep. destruct (nth_error (threads s) i) as [p|] eqn:E; [|repeat split; assumption].
  pose proof (nth_unchecked _ _ _ Hu E) as Up.
  destruct p as [|free|won]; [|discriminate|repeat split; assumption].
  destruct (holders s =? 0) eqn:Z; unfold AInv; simpl.
  - apply Nat.eqb_eq in Z. pose proof (wins_set_pc (threads s) i (TDone true) TStart E) as W. simpl in W.
    repeat split; [lia | lia | apply unchecked_set_pc; [exact Hu | reflexivity]].
  - pose proof (wins_set_pc (threads s) i (TDone false) TStart E) as W. simpl in W.
    repeat split; [lia | lia | apply unchecked_set_pc; [exact Hu | reflexivity]].
Qed.

Lemma repeat_start : forall n, wins (repeat TStart n) = 0 /\ forallb unchecked (repeat TStart n) = true.
Proof. induction n as [|n [A B]]; simpl; [split; reflexivity|]. split; [exact A | exact B]. Qed.

(* MAIN THEOREM: any number of threads, any schedule: at most one of them is told it holds the name *)
Theorem atomic_at_most_one_winner : forall n sched, winners (xrun true (xinit n) sched) <= 1.
Proof.
  intros n sched.
  assert (forall sched s, AInv s -> AInv (xrun true s sched)) as H.
  { induction sched0 as [|i r IH]; intros s HI; simpl; [exact HI|]. apply IH. apply atomic_step_inv. exact HI. }
  destruct (H sched (xinit n)) as [Hw [Hh _]].
  - destruct (repeat_start n) as [A B]. unfold AInv, xinit. simpl. repeat split; [exact A | lia | exact B].
  - rewrite winners_is_wins. lia.
Qed.

Lemma set_pc_length : forall l i p, length (set_pc l i p) = length l.
Proof. induction l as [|x l IH]; intros [|i] p; simpl; try reflexivity. f_equal. apply IH. Qed.

Lemma xstep_length : forall a s i, length (threads (xstep a s i)) = length (threads s).
Proof.
  intros a s i. unfold xstep. destruct (nth_error (threads s) i) as [[|[|]|]|]; try reflexivity;
  try (destruct a); simpl; try (destruct (holders s =? 0)); simpl; try apply set_pc_length; reflexivity.
Qed.

Lemma xrun_length : forall a sched s, length (threads (xrun a s sched)) = length (threads s).
Proof. induction sched as [|i r IH]; intros s; simpl; [reflexivity|]. rewrite IH. apply xstep_length. Qed.

Definition is_done (p : tpc) : bool := match p with TDone _ => true | _ => false end.

(* while nobody holds the name, nobody has finished *)
Lemma nobody_done_while_free : forall sched s,
  AInv s -> (holders s = 0 -> forallb (fun p => negb (is_done p)) (threads s) = true) ->
  holders (xrun true s sched) = 0 -> forallb (fun p => negb (is_done p)) (threads (xrun true s sched)) = true.
Proof.
  induction sched as [|i r IH]; intros s HI Hz; simpl; [exact Hz|].
  apply IH; [apply atomic_step_inv; exact HI|].
  unfold xstep. destruct (nth_error (threads s) i) as [p|] eqn:E; [|exact Hz].
  destruct HI as [_ [_ Hu]]. pose proof (nth_unchecked _ _ _ Hu E) as Up.
  destruct p as [|free|won]; [|discriminate|exact Hz].
  destruct (holders s =? 0) eqn:Z; simpl; [discriminate|].
  apply Nat.eqb_neq in Z. intros C. contradiction.
Qed.

(* and once every thread has finished, exactly one holds it *)
Theorem atomic_exactly_one_when_all_done : forall n sched,
  1 <= n -> forallb is_done (threads (xrun true (xinit n) sched)) = true ->
  winners (xrun true (xinit n) sched) = 1.
Proof.
  intros n sched Hn Hdone.
  destruct (repeat_start n) as [A B].
  assert (AInv (xinit n)) as HI0 by (unfold AInv, xinit; simpl; repeat split; [exact A | lia | exact B]).
  assert (AInv (xrun true (xinit n) sched)) as [Hw [Hh _]].
  { clear Hdone. revert HI0. generalize (xinit n). induction sched as [|i r IH]; intros s HI; simpl; [exact HI|].
    apply IH. apply atomic_step_inv. exact HI. }
  rewrite winners_is_wins.
  destruct (holders (xrun true (xinit n) sched)) as [|[|h]] eqn:Hh'; [|lia|lia].
  exfalso.
  assert (forallb (fun p => negb (is_done p)) (threads (xrun true (xinit n) sched)) = true) as Hnd.
  { apply nobody_done_while_free; [exact HI0 | | exact Hh'].
    intros _. unfold xinit. simpl. clear. induction n; simpl; [reflexivity|assumption]. }
  pose proof (xrun_length true sched (xinit n)) as L. unfold xinit in L at 2. simpl in L. rewrite repeat_length in L.
  destruct (threads (xrun true (xinit n) sched)) as [|p l]; [simpl in L; lia|].
  simpl in Hdone, Hnd. destruct (is_done p); simpl in *; discriminate.
Qed.

(* the split protocol: both threads test before either inserts — both win *)
Theorem split_two_winners_refuted : winners (xrun false (xinit 2) [0; 1; 0; 1]) = 2.
Proof. reflexivity. Qed.

Print Assumptions atomic_at_most_one_winner.
Print Assumptions atomic_exactly_one_when_all_done.
Print Assumptions split_two_winners_refuted.
