(* Delivery theorems: C01 (confinement, no cross-channel), C02 (completeness), C17 (direct). *)
From NW Require Import Base.Bytes Model.SchemaTypes Model.Codec Model.MsgInfo Model.Ids Model.Framing Model.Server Gen.Schema Gen.Errors.
From NW Require Import Proofs.ServerInvBase Proofs.ServerInv Proofs.ServerUniq Proofs.ServerInvCor.
From NW Require Import Proofs.ServerLib Proofs.ServerRoute Proofs.ServerHandlers Proofs.ServerSteps Proofs.ServerPhases.

(* ================================================================== *)
(** * Part 0 : outputs that carry a payload *)

Definition payf (o : out) : bool := match o with OSend _ _ (Some _) => true | _ => false end.
Definition nopay (o : out) : Prop := payf o = false.

(* [c1] is [c] with payload-free outputs appended (anything else may differ) *)
Definition pext (c c1 : ctx) : Prop := exists d, outs c1 = outs c ++ d /\ Forall nopay d.

Lemma pext_refl c : pext c c.
Proof. exists []. rewrite app_nil_r. split; [reflexivity | constructor]. Qed.

Lemma pext_trans c c1 c2 : pext c c1 -> pext c1 c2 -> pext c c2.
Proof.
  intros (d1 & E1 & F1) (d2 & E2 & F2). exists (d1 ++ d2). split.
  - rewrite E2, E1, app_assoc. reflexivity.
  - apply Forall_app. split; assumption.
Qed.

Lemma pext_outs c c1 : outs c1 = outs c -> pext c c1.
Proof. intro E. exists []. rewrite app_nil_r. split; [exact E | constructor]. Qed.

Lemma pext_emit o c : payf o = false -> pext c (emit o c).
Proof. intro H. exists [o]. split; [reflexivity|]. constructor; [exact H | constructor]. Qed.

Lemma pext_with_st s c : pext c (with_st s c).
Proof. apply pext_outs. reflexivity. Qed.

Lemma route_outs_nopay cfg m ts ex s : Forall nopay (route_outs cfg m None ts ex s).
Proof.
  unfold route_outs. apply Forall_forall. intros o Ho.
  apply in_map_iff in Ho as (h & <- & _). reflexivity.
Qed.

Lemma pext_route cfg m ts ex c : pext c (route cfg m None ts ex c).
Proof.
  destruct (route_exact cfg m None ts ex c) as (_ & _ & _ & _ & Ho).
  eexists. split; [exact Ho | apply route_outs_nopay].
Qed.

Lemma pext_next c o c1 : next_outcome c = (o, c1) -> pext c c1.
Proof. intro H. apply next_outcome_spec in H as (_ & _ & S3 & _). apply pext_outs. exact S3. Qed.

Lemma pext_notify cfg kind hd n ow ts ex c b c1 :
  notify cfg kind hd n ow ts ex c = (b, c1) -> pext c c1.
Proof.
  intro H. apply notify_spec in H as (_ & _ & _ & Ho & _).
  eexists. split; [exact Ho|]. apply Forall_app. split.
  - unfold notify_mod. destruct (has_mod cfg && op_fev cfg); repeat constructor.
  - destruct b; [apply route_outs_nopay | constructor].
Qed.

Lemma pext_request_close h m c : pext c (request_close h m c).
Proof.
  unfold request_close. destruct (existsb _ _); [apply pext_refl|].
  exists [OClose h m]. split; [reflexivity | repeat constructor].
Qed.

Lemma pext_drop_conn h c : pext c (drop_conn h c).
Proof.
  unfold drop_conn. destruct (existsb _ _); [apply pext_refl|].
  exists [ODrop h]. split; [reflexivity | repeat constructor].
Qed.

Lemma pext_notify_error h e c : pext c (notify_error h e c).
Proof.
  unfold notify_error. destruct e as [id reason|].
  - destruct (is_recoverable reason); [apply pext_emit; reflexivity | apply pext_request_close].
  - apply pext_request_close.
Qed.

Ltac use_pnotify :=
  match goal with
  | H : notify _ _ _ _ _ _ _ _ = (_, _) |- _ => apply pext_notify in H
  end.
Ltac use_pnext :=
  match goal with
  | H : next_outcome _ = (_, _) |- _ => apply pext_next in H
  end.

Ltac solve_pext :=
  lazymatch goal with
  | |- pext ?c ?c => apply pext_refl
  | |- pext ?c (emit ?o ?x) => apply (pext_trans c x); [solve_pext | apply pext_emit; reflexivity]
  | |- pext ?c (with_st ?s ?x) => apply (pext_trans c x); [solve_pext | apply pext_with_st]
  | |- pext ?c (route ?cfg ?m None ?ts ?e ?x) => apply (pext_trans c x); [solve_pext | apply pext_route]
  | |- pext ?c ?x =>
      match goal with
      | H : pext ?c0 x |- _ => apply (pext_trans c c0); [solve_pext | exact H]
      end
  end.

Ltac pleaf := cbn [fst ok fail]; solve_pext.

Section NoPayload.
  Variable cfg : scfg.

  Lemma h_join_pext h me m c : pext c (fst (h_join cfg h me m c)).
  Proof.
    unfold h_join. cbv zeta.
    repeat (break_match; cbv beta iota); repeat use_pnotify. all: pleaf.
  Qed.

  Lemma leave_core_pext req id me hd dom cf ob c : pext c (fst (leave_core cfg req id me hd dom cf ob c)).
  Proof.
    unfold leave_core. cbv zeta.
    repeat (break_match; cbv beta iota); repeat use_pnotify. all: pleaf.
  Qed.

  Lemma h_leave_pext h me m c : pext c (fst (h_leave cfg h me m c)).
  Proof.
    unfold h_leave. cbv zeta.
    repeat (break_match; cbv beta iota); try apply leave_core_pext; pleaf.
  Qed.

  Lemma h_channels_pext h me m c : pext c (fst (h_channels h me m c)).
  Proof. unfold h_channels. cbv zeta. pleaf. Qed.

  Lemma h_members_pext h me m c : pext c (fst (h_members cfg h me m c)).
  Proof. unfold h_members. cbv zeta. repeat (break_match; cbv beta iota); pleaf. Qed.

  Lemma h_get_acl_pext h me m c : pext c (fst (h_get_acl cfg h me m c)).
  Proof. unfold h_get_acl. cbv zeta. repeat (break_match; cbv beta iota); pleaf. Qed.

  Lemma h_set_acl_pext h me m c : pext c (fst (h_set_acl cfg h me m c)).
  Proof. unfold h_set_acl. cbv zeta. repeat (break_match; cbv beta iota); pleaf. Qed.

  Lemma h_get_config_pext h me m c : pext c (fst (h_get_config h me m c)).
  Proof. unfold h_get_config. cbv zeta. repeat (break_match; cbv beta iota); pleaf. Qed.

  Lemma h_set_config_pext h me m c : pext c (fst (h_set_config cfg h me m c)).
  Proof. unfold h_set_config. cbv zeta. repeat (break_match; cbv beta iota); pleaf. Qed.

  Lemma h_mod_direct_pext h me m pl c : pext c (fst (h_mod_direct cfg h me m pl c)).
  Proof.
    unfold h_mod_direct. cbv zeta.
    repeat (break_match; cbv beta iota); repeat use_pnext; pleaf.
  Qed.

  (* every authenticated request other than BROADCAST *)
  Lemma dispatch_auth_pext h me m p c :
    is_kind m "BROADCAST" = false -> pext c (fst (dispatch_auth cfg h me m p c)).
  Proof.
    intro Hk. unfold dispatch_auth. cbv zeta. rewrite Hk.
    destruct (is_kind m "GET_CHAN_ACL"); [apply h_get_acl_pext|].
    destruct (is_kind m "GET_CHAN_CONFIG"); [apply h_get_config_pext|].
    destruct (is_kind m "JOIN"); [apply h_join_pext|].
    destruct (is_kind m "LEAVE"); [apply h_leave_pext|].
    destruct (is_kind m "CHANNELS"); [apply h_channels_pext|].
    destruct (is_kind m "MEMBERS"); [apply h_members_pext|].
    destruct (is_kind m "MOD_DIRECT"); [apply h_mod_direct_pext|].
    destruct (is_kind m "SET_CHAN_ACL"); [apply h_set_acl_pext|].
    destruct (is_kind m "SET_CHAN_CONFIG"); [apply h_set_config_pext|].
    apply pext_refl.
  Qed.

  Lemma leave_all_pext me c : pext c (leave_all cfg me c).
  Proof.
    unfold leave_all. destruct (alookup (nu me) (inch (st c))) as [cfs|]; [|apply pext_refl].
    set (c0 := with_st _ c). assert (H0 : pext c c0) by apply pext_with_st. clearbody c0.
    revert c0 H0. induction cfs as [|cf cfs IH]; intros c0 H0; cbn [fold_left]; [exact H0|].
    apply IH. apply (pext_trans c c0); [exact H0|].
    destruct (chan_parse cf) as [[hd dom]|]; [apply leave_core_pext | apply pext_refl].
  Qed.

  Lemma teardown_pext h c : pext c (teardown cfg h c).
  Proof.
    unfold teardown. destruct (nlookup h (conns (st c))) as [cn|]; [|apply pext_refl].
    destruct (c_nid cn) as [me|]; [|apply pext_with_st].
    cbn [st with_st]. destruct (alookup (nu me) _) as [hs|]; [|apply pext_with_st].
    destruct (isempty _).
    - eapply pext_trans; [|apply leave_all_pext]. apply pext_outs. reflexivity.
    - apply pext_outs. reflexivity.
  Qed.

  Lemma flush_closes_pext c : pext c (flush_closes cfg c).
  Proof.
    unfold flush_closes.
    assert (H : pext c (fold_left (fun acc h => teardown cfg h acc) (closing c) c)).
    { generalize (closing c) as l. intro l.
      assert (H0 : pext c c) by apply pext_refl. revert H0. generalize c at 2 4 as a.
      induction l as [|h l IH]; intros a H0; cbn [fold_left]; [exact H0|].
      apply IH. eapply pext_trans; [exact H0 | apply teardown_pext]. }
    destruct H as (d & E & F). exists d. split; [exact E | exact F].
  Qed.
End NoPayload.

(* ================================================================== *)
(** * Part 1 : exact outputs of [h_broadcast] *)

Definition bc_gate (cfg : scfg) (me : nid) (hd : str) (payload : list N) : list out :=
  if has_mod cfg then [OMod (McFbp (nid_full me) hd payload)] else [].
Definition bc_ack (h : N) (m : msg) : out :=
  OSend h (build "BROADCAST_ACK" [(bs "id", VNum (get_num m "id"))]) None.
Definition qos0 (m : msg) : bool := match get_onum m "qos" with Some 0 => true | _ => false end.
Definition is_omod (o : out) : Prop := exists mc, o = OMod mc.

(* the outputs of an acknowledged broadcast *)
Definition bc_success_outs (cfg : scfg) (s : state) (h : N) (me : nid) (m : msg) (payload : list N)
           (hd : str) (ch : chan) (q : list N) : list out :=
  bc_gate cfg me hd payload ++ (if qos0 m then [bc_ack h m] else []) ++
  route_outs cfg (message_for me m q) (Some q) (ch_targets ch) (Some h) s ++
  (if qos0 m then [] else [bc_ack h m]).

Lemma h_broadcast_exact cfg h me m payload c :
  let r := h_broadcast cfg h me m payload c in
  st (fst r) = st c /\ closing (fst r) = closing c /\
  ((snd r <> None /\ exists g, outs (fst r) = outs c ++ g /\ Forall is_omod g)
   \/
   (snd r = None /\
    exists hd ch, chan_parse (get_str m "channel") = Some (hd, domain cfg) /\
      alookup hd (chans (st c)) = Some ch /\
      nmem me (ch_members ch) = true /\ acl_allowed (ch_pub ch) me = true /\
      let q := eff_payload cfg payload (script c) in
      N.of_nat (length q) <= ch_max_payload ch /\
      (has_mod cfg = true -> head_outcome (script c) <> MInvalid /\ head_outcome (script c) <> MErr) /\
      outs (fst r) = outs c ++ bc_success_outs cfg (st c) h me m payload hd ch q)).
Proof.
  cbv zeta. unfold h_broadcast. cbv zeta. fold (message_for me m).
  destruct (chan_parse (get_str m "channel")) as [[hd dom]|] eqn:Hparse.
  2:{ split; [reflexivity|]. split; [reflexivity|]. left. split; [discriminate|].
      exists []. rewrite app_nil_r. split; [reflexivity | constructor]. }
  (* normalise the gate into: a context c1, the list g of gate outputs, and the gate result *)
  assert (Hgate : exists c1 g res,
            (if has_mod cfg
             then let '(o, c1) := next_outcome (emit (OMod (McFbp (nid_full me) hd payload)) c) in
                  match o with
                  | MAltered p' => (Some p', None, c1)
                  | MInvalid => (None, Some (PErr (Some (get_num m "id")) "BAD_REQUEST"), c1)
                  | MErr => (None, Some (PErr (Some (get_num m "id")) "INTERNAL_SERVER_ERROR"), c1)
                  | _ => (Some payload, None, c1)
                  end
             else (Some payload, None, c)) = (res, c1) /\
            st c1 = st c /\ closing c1 = closing c /\ outs c1 = outs c ++ g /\
            g = bc_gate cfg me hd payload /\
            ((exists e, res = (None, Some e)) \/
             (res = (Some (eff_payload cfg payload (script c)), None) /\
              (has_mod cfg = true -> head_outcome (script c) <> MInvalid /\ head_outcome (script c) <> MErr)))).
  { unfold bc_gate, eff_payload. destruct (has_mod cfg) eqn:Hmod.
    - pose proof (next_outcome_emit (OMod (McFbp (nid_full me) hd payload)) c) as Hh.
      destruct (next_outcome (emit (OMod (McFbp (nid_full me) hd payload)) c)) as [o c1] eqn:En.
      cbn [fst] in Hh. apply next_outcome_spec in En as (S1 & _ & S3 & S4 & _).
      cbn [emit st outs closing] in S1, S3, S4. rewrite <- Hh.
      destruct o; eexists c1, _, _; (split; [reflexivity|]); (split; [exact S1|]); (split; [exact S4|]);
        (split; [exact S3|]); (split; [reflexivity|]).
      all: first [ left; eexists; reflexivity
                 | right; split; [reflexivity | intros _; split; discriminate] ].
    - exists c, [], (Some payload, None). rewrite app_nil_r.
      repeat split; try reflexivity. right. split; [reflexivity | discriminate]. }
  destruct Hgate as (c1 & g & res & -> & S1 & S4 & S3 & Hg & Hres).
  destruct Hres as [(e & ->)|(-> & Hno)].
  { cbn [fst snd fail]. split; [exact S1|]. split; [exact S4|]. left. split; [discriminate|].
    exists g. split; [exact S3|]. subst g. unfold bc_gate. destruct (has_mod cfg); repeat constructor.
    eexists; reflexivity. }
  assert (Hfail : forall e, st (fst (fail c1 e)) = st c /\ closing (fst (fail c1 e)) = closing c /\
            ((snd (fail c1 e) <> None /\ exists g0, outs (fst (fail c1 e)) = outs c ++ g0 /\ Forall is_omod g0) \/
             (snd (fail c1 e) = None /\
              exists hd0 ch, Some (hd, dom) = Some (hd0, domain cfg) /\ alookup hd0 (chans (st c)) = Some ch /\
                nmem me (ch_members ch) = true /\ acl_allowed (ch_pub ch) me = true /\
                let q := eff_payload cfg payload (script c) in
                N.of_nat (length q) <= ch_max_payload ch /\
                (has_mod cfg = true -> head_outcome (script c) <> MInvalid /\ head_outcome (script c) <> MErr) /\
                outs (fst (fail c1 e)) = outs c ++ bc_success_outs cfg (st c) h me m payload hd0 ch q))).
  { intro e. cbn [fst snd fail]. split; [exact S1|]. split; [exact S4|]. left. split; [discriminate|].
    exists g. split; [exact S3|]. subst g. unfold bc_gate. destruct (has_mod cfg); repeat constructor.
    eexists; reflexivity. }
  unfold local.
  destruct (list_eqb_spec dom (domain cfg)) as [->|Hd]; cbn [negb]; [|apply Hfail].
  rewrite S1.
  destruct (alookup hd (chans (st c))) as [ch|] eqn:Hch; [|apply Hfail].
  destruct (nmem me (ch_members ch)) eqn:Hm; cbn [negb]; [|apply Hfail].
  destruct (acl_allowed (ch_pub ch) me) eqn:Hp; cbn [negb]; [|apply Hfail].
  destruct (ch_max_payload ch <? N.of_nat (length (eff_payload cfg payload (script c)))) eqn:Hlen; [apply Hfail|].
  apply N.ltb_ge in Hlen.
  set (q := eff_payload cfg payload (script c)) in *.
  fold (bc_ack h m). fold (qos0 m).
  set (c2 := if qos0 m then emit (bc_ack h m) c1 else c1).
  assert (H2 : st c2 = st c /\ closing c2 = closing c /\
                outs c2 = outs c ++ g ++ (if qos0 m then [bc_ack h m] else [])).
  { subst c2. destruct (qos0 m); cbn [emit st closing outs].
    - rewrite S3, <- app_assoc. auto.
    - rewrite S3, app_nil_r. auto. }
  destruct H2 as (T1 & T4 & T3). clearbody c2.
  destruct (route_exact cfg (message_for me m q) (Some q) (ch_targets ch) (Some h) c2) as (R1 & _ & _ & R4 & R5).
  rewrite T1 in R5.
  cbn [fst snd ok].
  assert (Hst : st (if qos0 m then route cfg (message_for me m q) (Some q) (ch_targets ch) (Some h) c2
                    else emit (bc_ack h m) (route cfg (message_for me m q) (Some q) (ch_targets ch) (Some h) c2)) = st c)
    by (destruct (qos0 m); cbn [emit st]; congruence).
  assert (Hcl : closing (if qos0 m then route cfg (message_for me m q) (Some q) (ch_targets ch) (Some h) c2
                    else emit (bc_ack h m) (route cfg (message_for me m q) (Some q) (ch_targets ch) (Some h) c2)) = closing c)
    by (destruct (qos0 m); cbn [emit closing]; congruence).
  split; [exact Hst|]. split; [exact Hcl|]. right. split; [reflexivity|].
  exists hd, ch. split; [reflexivity|]. split; [exact Hch|]. split; [exact Hm|]. split; [exact Hp|].
  cbv zeta. split; [exact Hlen|]. split; [exact Hno|].
  unfold bc_success_outs. rewrite <- Hg.
  unfold message_for in R5 |- *.
  destruct (qos0 m); cbn [emit outs]; rewrite R5, T3; rewrite <- ?app_assoc; cbn [app]; rewrite ?app_nil_r; reflexivity.
Qed.

(* ================================================================== *)
(** * Part 2 : the invariant gives a well-formed router; the [deliveries] observer *)

Lemma inv_router_wf cfg s : Inv cfg s -> router_wf (router s).
Proof.
  intros (_ & [Hrt Hne Hcn] & _). split.
  - intros u hs E. exact (proj2 (Hne u hs E)).
  - intros u1 u2 hs1 hs2 h E1 E2 I1 I2.
    assert (J1 : In h (rt_of (router s) u1)) by (unfold rt_of; rewrite E1; exact I1).
    assert (J2 : In h (rt_of (router s) u2)) by (unfold rt_of; rewrite E2; exact I2).
    apply Hrt in J1 as (cn1 & L1 & _ & N1). apply Hrt in J2 as (cn2 & L2 & _ & N2).
    rewrite L1 in L2. injection L2 as <-. rewrite N1 in N2. injection N2 as E. exact E.
Qed.

(* the statement asked for: Inv + Uniq give router_wf (Uniq is in fact not needed) *)
Corollary inv_uniq_router_wf cfg s : Inv cfg s -> Uniq s -> router_wf (router s).
Proof. intros H _. apply inv_router_wf with (cfg := cfg). exact H. Qed.

(* the payload-carrying frames sent to connection h, in order *)
Definition deliveries (h : N) (os : list out) : list (msg * list N) :=
  flat_map (fun o => match o with
                     | OSend h' m (Some q) => if h' =? h then [(m, q)] else []
                     | _ => []
                     end) os.

Lemma deliveries_app h a b : deliveries h (a ++ b) = deliveries h a ++ deliveries h b.
Proof. unfold deliveries. apply flat_map_app. Qed.

Lemma In_deliveries h m q os : In (m, q) (deliveries h os) <-> In (OSend h m (Some q)) os.
Proof.
  unfold deliveries. rewrite in_flat_map. split.
  - intros (o & Ho & Hin). destruct o as [h' m' [q'|]|h' m'|h'|h'|mc]; try contradiction.
    destruct (N.eqb_spec h' h) as [->|E]; [|contradiction].
    destruct Hin as [Hin|[]]. injection Hin as -> ->. exact Ho.
  - intro Ho. exists (OSend h m (Some q)). split; [exact Ho|]. rewrite N.eqb_refl. left. reflexivity.
Qed.

Lemma deliveries_nopay h d : Forall nopay d -> deliveries h d = [].
Proof.
  unfold deliveries. induction 1 as [|o d Ho _ IH]; cbn [flat_map]; [reflexivity|].
  rewrite IH, app_nil_r. destruct o as [h' m' [q'|]|h' m'|h'|h'|mc]; try reflexivity. discriminate.
Qed.

Lemma nopay_no_payload d : Forall nopay d -> forall h m q, ~ In (OSend h m (Some q)) d.
Proof. intros F h m q Hin. rewrite Forall_forall in F. apply F in Hin. discriminate. Qed.

Lemma omod_nopay g : Forall is_omod g -> Forall nopay g.
Proof. apply Forall_impl. intros o (mc & ->). reflexivity. Qed.

Lemma deliveries_map h m q hs :
  deliveries h (map (fun h' => OSend h' m (Some q)) hs) = repeat (m, q) (count_occ N.eq_dec hs h).
Proof.
  unfold deliveries. induction hs as [|x hs IH]; cbn [map flat_map count_occ]; [reflexivity|].
  rewrite IH. destruct (N.eq_dec x h) as [->|E].
  - rewrite N.eqb_refl. reflexivity.
  - apply N.eqb_neq in E. rewrite E. reflexivity.
Qed.

Lemma deliveries_map_NoDup h m q hs : NoDup hs ->
  deliveries h (map (fun h' => OSend h' m (Some q)) hs) = if in_dec N.eq_dec h hs then [(m, q)] else [].
Proof.
  intro Hn. rewrite deliveries_map. destruct (in_dec N.eq_dec h hs) as [Hi|Hi].
  - rewrite (proj1 (NoDup_count_occ' N.eq_dec hs) Hn h Hi). reflexivity.
  - rewrite (proj1 (count_occ_not_In N.eq_dec hs h) Hi). reflexivity.
Qed.

(* ================================================================== *)
(** * Part 3 : C01 / A2 at the level of one frame *)

Definition payload_of (p : option (list N)) : list N := match p with Some x => x | None => [] end.

(* [OSend h m (Some q)], emitted while frame [req] (payload [pl], modulator script [sc]) from
   connection [h0] is handled in state [s], is a legitimate channel delivery *)
Definition justified (cfg : scfg) (s : state) (h0 : N) (req : msg) (pl : list N) (sc : list moutcome)
           (h : N) (m : msg) (q : list N) : Prop :=
  is_kind req "BROADCAST" = true /\ is_kind m "MESSAGE" = true /\
  exists hd ch cn u cn0 me,
    chan_parse (get_str m "channel") = Some (hd, domain cfg) /\
    alookup hd (chans s) = Some ch /\
    (* the receiver *)
    nlookup h (conns s) = Some cn /\ c_phase cn = Authenticated /\
    c_nid cn = Some {| nu := u; nd := domain cfg |} /\
    nmem {| nu := u; nd := domain cfg |} (ch_members ch) = true /\
    acl_allowed (ch_read ch) {| nu := u; nd := domain cfg |} = true /\
    (* the publisher: the identity of the connection that sent the BROADCAST *)
    nlookup h0 (conns s) = Some cn0 /\ c_phase cn0 = Authenticated /\ c_nid cn0 = Some me /\
    h <> h0 /\
    get_str m "from" = nid_full me /\
    nmem me (ch_members ch) = true /\ acl_allowed (ch_pub ch) me = true /\
    (* A2: same channel as the request, the gated payload, nothing else *)
    get_str m "channel" = get_str req "channel" /\
    q = eff_payload cfg pl sc /\
    m = message_for me req q /\
    get_num m "length" = N.of_nat (length q).

Lemma pext_set_conn h cn c : pext c (set_conn h cn c).
Proof. apply pext_with_st. Qed.

Ltac solve_pext2 :=
  lazymatch goal with
  | |- pext ?c ?c => apply pext_refl
  | |- pext ?c (emit ?o ?x) => apply (pext_trans c x); [solve_pext2 | apply pext_emit; reflexivity]
  | |- pext ?c (with_st ?s ?x) => apply (pext_trans c x); [solve_pext2 | apply pext_with_st]
  | |- pext ?c (set_conn ?h ?cn ?x) => apply (pext_trans c x); [solve_pext2 | apply pext_set_conn]
  | |- pext ?c (notify_error ?h ?e ?x) => apply (pext_trans c x); [solve_pext2 | apply pext_notify_error]
  | |- pext ?c (drop_conn ?h ?x) => apply (pext_trans c x); [solve_pext2 | apply pext_drop_conn]
  | |- pext ?c (request_close ?h ?m ?x) => apply (pext_trans c x); [solve_pext2 | apply pext_request_close]
  | |- pext ?c ?x =>
      match goal with
      | H : pext ?c0 x |- _ => apply (pext_trans c c0); [solve_pext2 | exact H]
      end
  end.

(* either the frame emits no payload-carrying output, or it is a BROADCAST on an authenticated
   connection that reaches [h_broadcast] *)
Lemma on_frame_cases cfg h m p c :
  pext c (on_frame cfg h m p c) \/
  exists cn me, nlookup h (conns (st c)) = Some cn /\ c_phase cn = Authenticated /\ c_nid cn = Some me /\
    existsb (N.eqb h) (closing c) = false /\ max_inflight cfg <> 0 /\ is_kind m "BROADCAST" = true /\
    on_frame cfg h m p c =
      match snd (h_broadcast cfg h me m (payload_of p) c) with
      | None => fst (h_broadcast cfg h me m (payload_of p) c)
      | Some e => notify_error h e (fst (h_broadcast cfg h me m (payload_of p) c))
      end.
Proof.
  unfold on_frame.
  destruct (nlookup h (conns (st c))) as [cn|] eqn:Hl; [|left; apply pext_refl].
  destruct (existsb (N.eqb h) (closing c)) eqn:Hc; [left; apply pext_refl|].
  destruct (c_phase cn) eqn:Hph.
  - left. cbv zeta. repeat (break_match; cbv beta iota); solve_pext2.
  - left. cbv zeta. repeat (break_match; cbv beta iota); repeat use_pnext; solve_pext2.
  - destruct (is_kind m "PONG"); [left; apply pext_refl|].
    destruct (N.eqb_spec (max_inflight cfg) 0) as [Hi|Hi]; [left; apply pext_drop_conn|].
    destruct (c_nid cn) as [me|] eqn:Hn; [|left; apply pext_refl].
    destruct (is_kind m "BROADCAST") eqn:Hk.
    + right. exists cn, me. repeat (split; [first [assumption | reflexivity]|]).
      unfold dispatch_auth. rewrite Hk. unfold payload_of.
      destruct (h_broadcast cfg h me m _ c) as [c1 r]. reflexivity.
    + left. pose proof (dispatch_auth_pext cfg h me m p c Hk) as H.
      destruct (dispatch_auth cfg h me m p c) as [c1 r]. cbn [fst] in H.
      destruct r; solve_pext2.
Qed.

Lemma pext_unjustified cfg s h0 req pl sc c c' :
  pext c c' ->
  exists d, outs c' = outs c ++ d /\
    forall h m q, In (OSend h m (Some q)) d -> justified cfg s h0 req pl sc h m q.
Proof.
  intros (d & E & F). exists d. split; [exact E|].
  intros h m q Hin. destruct (nopay_no_payload d F h m q Hin).
Qed.

Theorem C01_on_frame : forall cfg h0 req p c,
  Inv cfg (st c) ->
  exists d, outs (on_frame cfg h0 req p c) = outs c ++ d /\
    forall h m q, In (OSend h m (Some q)) d ->
      justified cfg (st c) h0 req (payload_of p) (script c) h m q.
Proof.
  intros cfg h0 req p c HI.
  destruct (on_frame_cases cfg h0 req p c) as [Hp|(cn0 & me & Hl0 & Hph0 & Hn0 & Hc & Hi & Hk & ->)];
    [apply pext_unjustified; exact Hp|].
  destruct (h_broadcast_exact cfg h0 me req (payload_of p) c) as (S1 & S2 & [(Hr & g & Hg & Fg)|(Hr & Hsucc)]).
  - apply pext_unjustified.
    apply (pext_trans c (fst (h_broadcast cfg h0 me req (payload_of p) c))).
    + exists g. split; [exact Hg | apply omod_nopay; exact Fg].
    + destruct (snd (h_broadcast cfg h0 me req (payload_of p) c)); [apply pext_notify_error | apply pext_refl].
  - rewrite Hr.
    destruct Hsucc as (hd & ch & Hparse & Hch & Hm & Hpub & Hrest). cbv zeta in Hrest.
    destruct Hrest as (_ & _ & Ho).
    eexists. split; [exact Ho|].
    intros h m q Hin. unfold bc_success_outs in Hin.
    set (q0 := eff_payload cfg (payload_of p) (script c)) in *.
    assert (Hin' : In (OSend h m (Some q)) (route_outs cfg (message_for me req q0) (Some q0) (ch_targets ch) (Some h0) (st c))).
    { apply in_app_or in Hin as [Hin|Hin].
      { unfold bc_gate in Hin. destruct (has_mod cfg); [destruct Hin as [Hin|[]]; discriminate | destruct Hin]. }
      apply in_app_or in Hin as [Hin|Hin].
      { destruct (qos0 req); [destruct Hin as [Hin|[]]; discriminate | destruct Hin]. }
      apply in_app_or in Hin as [Hin|Hin]; [exact Hin|].
      destruct (qos0 req); [destruct Hin | destruct Hin as [Hin|[]]; discriminate]. }
    clear Hin. unfold route_outs in Hin'. apply in_map_iff in Hin' as (h' & E & Hh).
    injection E as -> <- <-.
    pose proof (route_handles_excl _ _ _ _ _ Hh) as Hne.
    apply route_handles_registered in Hh as (t & hs & Ht & Hd & Hr' & Hin).
    pose proof HI as (HC & HN & _).
    pose proof (ci_chan _ _ _ _ HC hd ch Hch) as Hok.
    rewrite (co_targets _ _ Hok) in Ht. apply filter_In in Ht as (Htm & Hread).
    assert (Hrt : In h (rt_of (router (st c)) (nu t))) by (unfold rt_of; rewrite Hr'; exact Hin).
    apply (cn_rt _ _ _ HN) in Hrt as (cn & Hl & Hph & Hn).
    assert (Et : t = {| nu := nu t; nd := domain cfg |}) by (rewrite <- Hd; apply nid_eta).
    split; [exact Hk|]. split; [reflexivity|].
    exists hd, ch, cn, (nu t), cn0, me.
    change (get_str (message_for me req q0) "channel") with (get_str req "channel").
    split; [exact Hparse|]. split; [exact Hch|]. split; [exact Hl|]. split; [exact Hph|].
    split; [exact Hn|].
    split; [rewrite <- Et; apply nmem_In; exact Htm|].
    split; [rewrite <- Et; exact Hread|].
    split; [exact Hl0|]. split; [exact Hph0|]. split; [exact Hn0|]. split; [exact Hne|].
    split; [reflexivity|]. split; [exact Hm|]. split; [exact Hpub|].
    repeat split.
Qed.

(* ================================================================== *)
(** * Part 4 : C01 for one op *)

Definition ctx0 (s : state) (sc : list moutcome) (hi : list (str * nid)) : ctx :=
  {| st := s; script := sc; hints := hi; outs := []; closing := [] |}.

Definition run_items (cfg : scfg) (h : N) (items : list ritem) (c : ctx) : ctx :=
  fold_left (fun acc it => on_item cfg h it acc) items c.

Lemma on_item_confined cfg h it c :
  Inv cfg (st c) ->
  exists d, outs (on_item cfg h it c) = outs c ++ d /\
    forall h' m q, In (OSend h' m (Some q)) d ->
      exists req p, it = Dispatch req p /\ justified cfg (st c) h req (payload_of p) (script c) h' m q.
Proof.
  intro HI.
  assert (Hp : pext c (on_item cfg h it c) ->
               exists d, outs (on_item cfg h it c) = outs c ++ d /\
                 forall h' m q, In (OSend h' m (Some q)) d ->
                   exists req p, it = Dispatch req p /\ justified cfg (st c) h req (payload_of p) (script c) h' m q).
  { intros (d & E & F). exists d. split; [exact E|]. intros h' m q Hin. destruct (nopay_no_payload d F h' m q Hin). }
  destruct it; cbn [on_item] in *;
    try (apply Hp; first [apply pext_request_close | apply pext_drop_conn | apply pext_refl]).
  destruct (C01_on_frame cfg h m payload c HI) as (d & E & J).
  exists d. split; [exact E|]. intros h' m' q Hin. exists m, payload. split; [reflexivity | exact (J _ _ _ Hin)].
Qed.

(* a chunk of frames: every delivery is justified in the state in which ITS frame is handled *)
Lemma items_confined cfg h items : forall c,
  Inv cfg (st c) ->
  exists d, outs (run_items cfg h items c) = outs c ++ d /\
    forall h' m q, In (OSend h' m (Some q)) d ->
      exists pre req p post, items = pre ++ Dispatch req p :: post /\
        let ci := run_items cfg h pre c in
        Inv cfg (st ci) /\ justified cfg (st ci) h req (payload_of p) (script ci) h' m q.
Proof.
  induction items as [|it items IH]; intros c HI.
  - exists []. rewrite app_nil_r. split; [reflexivity | intros ? ? ? []].
  - cbn [run_items fold_left]. fold (run_items cfg h items (on_item cfg h it c)).
    destruct (on_item_confined cfg h it c HI) as (d1 & E1 & J1).
    destruct (IH (on_item cfg h it c) (on_item_inv cfg h it c HI)) as (d2 & E2 & J2).
    exists (d1 ++ d2). split; [rewrite E2, E1, app_assoc; reflexivity|].
    intros h' m q Hin. apply in_app_or in Hin as [Hin|Hin].
    + destruct (J1 _ _ _ Hin) as (req & p & -> & Hj).
      exists [], req, p, items. split; [reflexivity|]. cbv zeta. cbn [run_items fold_left]. split; assumption.
    + destruct (J2 _ _ _ Hin) as (pre & req & p & post & -> & Hj).
      exists (it :: pre), req, p, post. split; [reflexivity|]. exact Hj.
Qed.

Lemma direct_msg_not_message cfg pl : is_kind (direct_msg cfg pl) "MESSAGE" = false.
Proof. reflexivity. Qed.

Lemma flush_no_payload c c' :
  (exists d, outs c' = outs c ++ d /\ Forall nopay d) -> outs c = [] ->
  forall h m q, ~ In (OSend h m (Some q)) (outs c').
Proof.
  intros (d & E & F) E0 h m q Hin. rewrite E, E0 in Hin. exact (nopay_no_payload d F h m q Hin).
Qed.

(* A1 + A2.  Every payload-carrying MESSAGE produced by one op is a legitimate delivery:
   - the op is a [Frame], and the delivery is justified in the pre-state [s]; or
   - the op is a [Bytes] chunk, the delivery belongs to one of its frames, and it is justified in the
     (invariant-satisfying) state reached after the preceding frames of the chunk.
   (For a payload-carrying output of kind MESSAGE; the conclusion in fact holds for every
   payload-carrying output of Frame/Bytes ops: see [C01_only_messages_carry_payload].) *)
Definition delivery_justified (cfg : scfg) (s : state) (o : op) (h : N) (m : msg) (q : list N) : Prop :=
  match o with
  | Frame h0 req p sc hi => justified cfg s h0 req (payload_of p) sc h m q
  | Bytes h0 bytes sc hi =>
      exists pre req p post,
        parse_stream schema Checked (reader_cfg cfg) bytes = pre ++ Dispatch req p :: post /\
        let ci := run_items cfg h0 pre (ctx0 s sc hi) in
        Inv cfg (st ci) /\ justified cfg (st ci) h0 req (payload_of p) (script ci) h m q
  | _ => False
  end.

Lemma step_payload_outputs cfg s o s' os :
  Inv cfg s -> step cfg s o = (s', os) ->
  forall h m q, In (OSend h m (Some q)) os ->
    delivery_justified cfg s o h m q \/
    (exists ts pl, o = Direct ts pl /\ m = direct_msg cfg pl /\ q = pl).
Proof.
  intros HI Hstep h m q Hin.
  destruct o as [h0|h0 req p sc hi|h0|h0 bytes sc hi|h0 sc hi|ts pl]; unfold step in Hstep; cbv zeta in Hstep.
  - destruct (max_conns cfg <=? _); injection Hstep as <- <-; [destruct Hin as [Hin|[]]; discriminate | destruct Hin].
  - left. injection Hstep as <- <-. fold (ctx0 s sc hi) in Hin.
    destruct (C01_on_frame cfg h0 req p (ctx0 s sc hi) HI) as (d & E & J).
    destruct (flush_closes_pext cfg (on_frame cfg h0 req p (ctx0 s sc hi))) as (d2 & E2 & F2).
    unfold flush_closes in E2; cbn [outs] in E2. rewrite E2, E in Hin. cbn [ctx0 outs app] in Hin.
    apply in_app_or in Hin as [Hin|Hin]; [|destruct (nopay_no_payload d2 F2 _ _ _ Hin)].
    exact (J _ _ _ Hin).
  - exfalso. injection Hstep as <- <-. destruct (nlookup h0 (conns s)); [|destruct Hin].
    fold (ctx0 s [] []) in Hin.
    refine (flush_no_payload (ctx0 s [] []) _ _ eq_refl h m q Hin).
    apply (pext_trans _ (request_close h0 (err_msg None "BAD_REQUEST") (ctx0 s [] [])));
      [apply pext_request_close | apply flush_closes_pext].
  - left. injection Hstep as <- <-. destruct (nlookup h0 (conns s)); [|destruct Hin].
    change (In (OSend h m (Some q))
               (outs (flush_closes cfg (run_items cfg h0 (parse_stream schema Checked (reader_cfg cfg) bytes) (ctx0 s sc hi))))) in Hin.
    destruct (items_confined cfg h0 (parse_stream schema Checked (reader_cfg cfg) bytes) (ctx0 s sc hi) HI) as (d & E & J).
    destruct (flush_closes_pext cfg (run_items cfg h0 (parse_stream schema Checked (reader_cfg cfg) bytes) (ctx0 s sc hi)))
      as (d2 & E2 & F2).
    rewrite E2, E in Hin. cbn [ctx0 outs app] in Hin.
    apply in_app_or in Hin as [Hin|Hin]; [|destruct (nopay_no_payload d2 F2 _ _ _ Hin)].
    exact (J _ _ _ Hin).
  - exfalso. injection Hstep as <- <-. fold (ctx0 s sc hi) in Hin.
    exact (flush_no_payload (ctx0 s sc hi) _ (teardown_pext cfg h0 (ctx0 s sc hi)) eq_refl h m q Hin).
  - right. injection Hstep as <- <-. unfold direct_outs in Hin.
    apply in_flat_map in Hin as (t & _ & Hin). destruct (alookup t (router s)) as [hs|]; [|destruct Hin].
    apply in_map_iff in Hin as (h' & E & _). injection E as -> <- <-. exists ts, pl. auto.
Qed.

Theorem C01_confinement : forall cfg s o s' os,
  Inv cfg s -> op_ok cfg s o -> step cfg s o = (s', os) ->
  forall h m q, In (OSend h m (Some q)) os -> is_kind m "MESSAGE" = true ->
    delivery_justified cfg s o h m q.
Proof.
  intros cfg s o s' os HI _ Hstep h m q Hin Hk.
  destruct (step_payload_outputs cfg s o s' os HI Hstep h m q Hin) as [H|(ts & pl & -> & -> & _)]; [exact H|].
  rewrite direct_msg_not_message in Hk. discriminate.
Qed.

(* the only payload-carrying outputs are channel MESSAGEs (Frame/Bytes) and MOD_DIRECT (Direct) *)
Theorem C01_only_messages_carry_payload : forall cfg s o s' os,
  Inv cfg s -> step cfg s o = (s', os) ->
  forall h m q, In (OSend h m (Some q)) os ->
    (is_kind m "MESSAGE" = true /\ delivery_justified cfg s o h m q) \/
    (is_kind m "MOD_DIRECT" = true /\ exists ts, o = Direct ts q).
Proof.
  intros cfg s o s' os HI Hstep h m q Hin.
  destruct (step_payload_outputs cfg s o s' os HI Hstep h m q Hin) as [H|(ts & pl & -> & -> & ->)].
  - left. split; [|exact H].
    destruct o; cbn [delivery_justified] in H; try contradiction.
    + destruct H as (_ & Hk & _). exact Hk.
    + destruct H as (_ & _ & _ & _ & _ & _ & _ & Hk & _). exact Hk.
  - right. split; [reflexivity|]. exists ts. reflexivity.
Qed.

(* A2 spelled out *)
Theorem C01_no_cross_channel : forall cfg s h0 req p sc hi s' os,
  Inv cfg s -> step cfg s (Frame h0 req p sc hi) = (s', os) ->
  forall h m q, In (OSend h m (Some q)) os ->
    is_kind req "BROADCAST" = true /\
    get_str m "channel" = get_str req "channel" /\
    q = eff_payload cfg (payload_of p) sc /\
    get_num m "length" = N.of_nat (length q) /\ h <> h0.
Proof.
  intros cfg s h0 req p sc hi s' os HI Hstep h m q Hin.
  destruct (step_payload_outputs cfg s _ s' os HI Hstep h m q Hin) as [H|(ts & pl & E & _)]; [|discriminate].
  cbn [delivery_justified] in H.
  destruct H as (Hk & _ & hd & ch & cn & u & cn0 & me & _ & _ & _ & _ & _ & _ & _ & _ & _ & _ & Hne & _ & _ & _ & Hc & Hq & _ & Hl).
  auto.
Qed.

(* the same for each frame of a chunk *)
Theorem C01_no_cross_channel_bytes : forall cfg s h0 bytes sc hi s' os,
  Inv cfg s -> step cfg s (Bytes h0 bytes sc hi) = (s', os) ->
  forall h m q, In (OSend h m (Some q)) os ->
    exists pre req p post,
      parse_stream schema Checked (reader_cfg cfg) bytes = pre ++ Dispatch req p :: post /\
      is_kind req "BROADCAST" = true /\
      get_str m "channel" = get_str req "channel" /\
      q = eff_payload cfg (payload_of p) (script (run_items cfg h0 pre (ctx0 s sc hi))) /\
      get_num m "length" = N.of_nat (length q) /\ h <> h0.
Proof.
  intros cfg s h0 bytes sc hi s' os HI Hstep h m q Hin.
  destruct (step_payload_outputs cfg s _ s' os HI Hstep h m q Hin) as [H|(ts & pl & E & _)]; [|discriminate].
  cbn [delivery_justified] in H. destruct H as (pre & req & p & post & Hi & _ & H).
  exists pre, req, p, post. split; [exact Hi|].
  destruct H as (Hk & _ & hd & ch & cn & u & cn0 & me & _ & _ & _ & _ & _ & _ & _ & _ & _ & _ & Hne & _ & _ & _ & Hc & Hq & _ & Hl).
  auto.
Qed.

(* ================================================================== *)
(** * Part 5 : C02 completeness of an acknowledged broadcast *)

Lemma deliveries_bc cfg s h me m payload hd ch q h' :
  deliveries h' (bc_success_outs cfg s h me m payload hd ch q) =
  deliveries h' (route_outs cfg (message_for me m q) (Some q) (ch_targets ch) (Some h) s).
Proof.
  unfold bc_success_outs, bc_gate, bc_ack. rewrite !deliveries_app.
  destruct (has_mod cfg), (qos0 m); cbn [deliveries flat_map app]; rewrite ?app_nil_r; reflexivity.
Qed.

Lemma err_msg_not_ack id r : is_kind (err_msg id r) "BROADCAST_ACK" = false.
Proof. exact (is_kind_excl _ _ "BROADCAST_ACK" (kind_err_msg id r) eq_refl). Qed.

Lemma app_inv_nil {A} (l d : list A) : l = l ++ d -> d = [].
Proof. intro H. rewrite <- (app_nil_r l) in H at 1. apply app_inv_head in H. symmetry. exact H. Qed.

Theorem C02_completeness : forall cfg h req p c cn me d,
  Inv cfg (st c) ->
  nlookup h (conns (st c)) = Some cn -> c_phase cn = Authenticated -> c_nid cn = Some me ->
  is_kind req "BROADCAST" = true ->
  outs (on_frame cfg h req p c) = outs c ++ d ->
  (exists ack pa, In (OSend h ack pa) d /\ is_kind ack "BROADCAST_ACK" = true) ->
  let q := eff_payload cfg (payload_of p) (script c) in
  exists hd ch,
    chan_parse (get_str req "channel") = Some (hd, domain cfg) /\
    alookup hd (chans (st c)) = Some ch /\
    nmem me (ch_members ch) = true /\ acl_allowed (ch_pub ch) me = true /\
    N.of_nat (length q) <= ch_max_payload ch /\
    (has_mod cfg = true -> head_outcome (script c) <> MInvalid /\ head_outcome (script c) <> MErr) /\
    (* every connection, other than the sender's, of every read-permitted member gets exactly one MESSAGE *)
    (forall n hs h', nmem n (ch_members ch) = true -> acl_allowed (ch_read ch) n = true ->
       alookup (nu n) (router (st c)) = Some hs -> In h' hs -> h' <> h ->
       deliveries h' d = [(message_for me req q, q)]) /\
    (* nobody gets two, the sender's connection gets none, and nothing else carries a payload *)
    (forall h', (length (deliveries h' d) <= 1)%nat) /\
    deliveries h d = [] /\
    (forall h' m' q', In (OSend h' m' (Some q')) d -> m' = message_for me req q /\ q' = q /\ h' <> h) /\
    st (on_frame cfg h req p c) = st c.
Proof.
  intros cfg h req p c cn me d HI Hl Hph Hn Hk Ho (ack & pa & Hack & Hka) q.
  (* the frame reaches h_broadcast *)
  destruct (existsb (N.eqb h) (closing c)) eqn:Hc.
  { exfalso. unfold on_frame in Ho. rewrite Hl, Hc in Ho. apply app_inv_nil in Ho. subst d. destruct Hack. }
  destruct (N.eqb_spec (max_inflight cfg) 0) as [Hi|Hi].
  { exfalso. destruct (C12_no_capacity cfg h req p c cn Hl Hph Hc Hi (is_kind_excl req _ "PONG" Hk eq_refl)) as (_ & E).
    rewrite (new_outs_app _ _ _ Ho) in E. subst d. destruct Hack as [Hack|[]]. discriminate. }
  rewrite (on_frame_auth cfg h req p c cn me Hl Hph Hn Hc Hi (is_kind_excl req _ "PONG" Hk eq_refl)) in Ho |- *.
  unfold dispatch_auth in Ho |- *. rewrite Hk in Ho |- *. fold (payload_of p) in Ho |- *.
  destruct (h_broadcast_exact cfg h me req (payload_of p) c) as (S1 & S2 & [(Hr & g & Hg & Fg)|(Hr & Hsucc)]).
  - exfalso. destruct (snd (h_broadcast cfg h me req (payload_of p) c)) as [e|]; [|congruence].
    rewrite <- S2 in Hc. destruct (notify_error_outs h e _ Hc) as (_ & E).
    rewrite E, Hg, <- app_assoc in Ho. apply app_inv_head in Ho. subst d.
    apply in_app_or in Hack as [Hack|Hack].
    + rewrite Forall_forall in Fg. apply Fg in Hack as (mc & Hmc). discriminate.
    + destruct Hack as [Hack|[]].
      destruct e as [id reason|]; [destruct (is_recoverable reason)|]; try discriminate.
      injection Hack as <- <-. rewrite err_msg_not_ack in Hka. discriminate.
  - rewrite Hr in Ho |- *.
    destruct Hsucc as (hd & ch & Hparse & Hch & Hm & Hpub & Hrest). cbv zeta in Hrest. fold q in Hrest.
    destruct Hrest as (Hlen & Hno & Hout).
    rewrite Hout in Ho. apply app_inv_head in Ho. subst d.
    pose proof HI as (HC & HN & _).
    pose proof (ci_chan _ _ _ _ HC hd ch Hch) as Hok.
    assert (Hnd : NoDup (route_handles cfg (ch_targets ch) (Some h) (st c))).
    { apply route_handles_NoDup; [|apply (inv_router_wf cfg); exact HI].
      rewrite (co_targets _ _ Hok). apply ServerRoute.NoDup_filter. exact (co_nodup _ _ Hok). }
    exists hd, ch. split; [exact Hparse|]. split; [exact Hch|]. split; [exact Hm|]. split; [exact Hpub|].
    split; [exact Hlen|]. split; [exact Hno|].
    split; [|split; [|split; [|split]]].
    + intros n hs h' Hmem Hread Hr' Hin Hne.
      rewrite deliveries_bc. unfold route_outs. rewrite (deliveries_map_NoDup _ _ _ _ Hnd).
      destruct (in_dec N.eq_dec h' (route_handles cfg (ch_targets ch) (Some h) (st c))) as [_|Hnot]; [reflexivity|].
      exfalso. apply Hnot. unfold route_handles. apply in_flat_map. exists n. split.
      * rewrite (co_targets _ _ Hok). apply filter_In. split; [apply nmem_In; exact Hmem | exact Hread].
      * apply nmem_In in Hmem. destruct (co_local _ _ Hok n Hmem) as [Hd _].
        rewrite Hd, list_eqb_refl, Hr'. apply filter_In. split; [exact Hin|].
        cbn [excl_ok]. apply negb_true_iff, N.eqb_neq. exact Hne.
    + intro h'. rewrite deliveries_bc. unfold route_outs. rewrite (deliveries_map_NoDup _ _ _ _ Hnd).
      destruct (in_dec _ _ _); cbn [length]; lia.
    + rewrite deliveries_bc. unfold route_outs. rewrite (deliveries_map_NoDup _ _ _ _ Hnd).
      destruct (in_dec N.eq_dec h (route_handles cfg (ch_targets ch) (Some h) (st c))) as [Hi'|_]; [|reflexivity].
      apply route_handles_excl in Hi'. congruence.
    + intros h' m' q' Hin. apply In_deliveries in Hin. rewrite deliveries_bc in Hin. apply In_deliveries in Hin.
      unfold route_outs in Hin. apply in_map_iff in Hin as (x & E & Hx). injection E as -> <- <-.
      apply route_handles_excl in Hx. auto.
    + exact S1.
Qed.

(* header fields of the delivered MESSAGE *)
Lemma message_for_fields me req q :
  is_kind (message_for me req q) "MESSAGE" = true /\
  get_str (message_for me req q) "from" = nid_full me /\
  get_str (message_for me req q) "channel" = get_str req "channel" /\
  get_num (message_for me req q) "length" = N.of_nat (length q).
Proof. repeat split. Qed.

(* ---------- teardowns emit only events and modulator calls ---------- *)
Definition evt (o : out) : Prop :=
  is_omod o \/ exists h k chf nidf ow, o = OSend h (event_msg k chf nidf ow) None.
Definition eext (c c1 : ctx) : Prop := exists d, outs c1 = outs c ++ d /\ Forall evt d.

Lemma eext_refl c : eext c c.
Proof. exists []. rewrite app_nil_r. split; [reflexivity | constructor]. Qed.
Lemma eext_trans c c1 c2 : eext c c1 -> eext c1 c2 -> eext c c2.
Proof.
  intros (d1 & E1 & F1) (d2 & E2 & F2). exists (d1 ++ d2). split.
  - rewrite E2, E1, app_assoc. reflexivity.
  - apply Forall_app. split; assumption.
Qed.
Lemma eext_outs c c1 : outs c1 = outs c -> eext c c1.
Proof. intro E. exists []. rewrite app_nil_r. split; [exact E | constructor]. Qed.
Lemma eext_with_st s c : eext c (with_st s c).
Proof. apply eext_outs. reflexivity. Qed.

Lemma eext_notify cfg kind hd n ow ts ex c b c1 :
  notify cfg kind hd n ow ts ex c = (b, c1) -> eext c c1.
Proof.
  intro H. apply notify_spec in H as (_ & _ & _ & Ho & _).
  eexists. split; [exact Ho|]. apply Forall_app. split.
  - unfold notify_mod. destruct (has_mod cfg && op_fev cfg); repeat constructor. eexists; reflexivity.
  - destruct b; [|constructor]. unfold route_outs. apply Forall_forall. intros o Ho'.
    apply in_map_iff in Ho' as (h & <- & _). right. eauto 10.
Qed.

Ltac use_enotify :=
  match goal with
  | H : notify _ _ _ _ _ _ _ _ = (_, _) |- _ => apply eext_notify in H
  end.
Ltac solve_eext :=
  lazymatch goal with
  | |- eext ?c ?c => apply eext_refl
  | |- eext ?c (with_st ?s ?x) => apply (eext_trans c x); [solve_eext | apply eext_with_st]
  | |- eext ?c ?x =>
      match goal with
      | H : eext ?c0 x |- _ => apply (eext_trans c c0); [solve_eext | exact H]
      end
  end.

Lemma leave_core_eext cfg id me hd dom cf ob c : eext c (fst (leave_core cfg None id me hd dom cf ob c)).
Proof.
  unfold leave_core. cbv zeta.
  repeat (break_match; cbv beta iota); repeat use_enotify. all: cbn [fst ok fail]; solve_eext.
Qed.

Lemma leave_all_eext cfg me c : eext c (leave_all cfg me c).
Proof.
  unfold leave_all. destruct (alookup (nu me) (inch (st c))) as [cfs|]; [|apply eext_refl].
  set (c0 := with_st _ c). assert (H0 : eext c c0) by apply eext_with_st. clearbody c0.
  revert c0 H0. induction cfs as [|cf cfs IH]; intros c0 H0; cbn [fold_left]; [exact H0|].
  apply IH. apply (eext_trans c c0); [exact H0|].
  destruct (chan_parse cf) as [[hd dom]|]; [apply leave_core_eext | apply eext_refl].
Qed.

Lemma teardown_eext cfg h c : eext c (teardown cfg h c).
Proof.
  unfold teardown. destruct (nlookup h (conns (st c))) as [cn|]; [|apply eext_refl].
  destruct (c_nid cn) as [me|]; [|apply eext_with_st].
  cbn [st with_st]. destruct (alookup (nu me) _) as [hs|]; [|apply eext_with_st].
  destruct (isempty _).
  - eapply eext_trans; [|apply leave_all_eext]. apply eext_outs. reflexivity.
  - apply eext_outs. reflexivity.
Qed.

Lemma flush_closes_eext cfg c : eext c (flush_closes cfg c).
Proof.
  unfold flush_closes.
  assert (H : eext c (fold_left (fun acc h => teardown cfg h acc) (closing c) c)).
  { generalize (closing c) as l. intro l.
    assert (H0 : eext c c) by apply eext_refl. revert H0. generalize c at 2 4 as a.
    induction l as [|h l IH]; intros a H0; cbn [fold_left]; [exact H0|].
    apply IH. eapply eext_trans; [exact H0 | apply teardown_eext]. }
  destruct H as (d & E & F). exists d. split; [exact E | exact F].
Qed.

Lemma event_not_ack k chf nidf ow : is_kind (event_msg k chf nidf ow) "BROADCAST_ACK" = false.
Proof. reflexivity. Qed.

Lemma evt_nopay d : Forall evt d -> Forall nopay d.
Proof. apply Forall_impl. intros o [(mc & ->)|(h & k & chf & nidf & ow & ->)]; reflexivity. Qed.

(* C02 for one [Frame] op: the teardown that may follow adds neither an ack nor a delivery *)
Theorem C02_completeness_step : forall cfg s h req p sc hi s' os cn me,
  Inv cfg s -> step cfg s (Frame h req p sc hi) = (s', os) ->
  nlookup h (conns s) = Some cn -> c_phase cn = Authenticated -> c_nid cn = Some me ->
  is_kind req "BROADCAST" = true ->
  (exists ack pa, In (OSend h ack pa) os /\ is_kind ack "BROADCAST_ACK" = true) ->
  let q := eff_payload cfg (payload_of p) sc in
  exists hd ch,
    chan_parse (get_str req "channel") = Some (hd, domain cfg) /\
    alookup hd (chans s) = Some ch /\
    nmem me (ch_members ch) = true /\ acl_allowed (ch_pub ch) me = true /\
    (forall n hs h', nmem n (ch_members ch) = true -> acl_allowed (ch_read ch) n = true ->
       alookup (nu n) (router s) = Some hs -> In h' hs -> h' <> h ->
       deliveries h' os = [(message_for me req q, q)]) /\
    (forall h', (length (deliveries h' os) <= 1)%nat) /\
    deliveries h os = [] /\
    (forall h' m' q', In (OSend h' m' (Some q')) os -> m' = message_for me req q /\ q' = q /\ h' <> h).
Proof.
  intros cfg s h req p sc hi s' os cn me HI Hstep Hl Hph Hn Hk Hack q.
  assert (Eos : os = outs (flush_closes cfg (on_frame cfg h req p (ctx0 s sc hi)))).
  { unfold step in Hstep. cbv zeta in Hstep. injection Hstep as _ <-. reflexivity. }
  clear Hstep. subst os.
  destruct (C01_on_frame cfg h req p (ctx0 s sc hi) HI) as (d & E & _).
  destruct (flush_closes_eext cfg (on_frame cfg h req p (ctx0 s sc hi))) as (d2 & E2 & F2).
  assert (Hos : outs (flush_closes cfg (on_frame cfg h req p (ctx0 s sc hi))) = d ++ d2).
  { rewrite E2, E. reflexivity. }
  revert Hack. rewrite Hos. intro Hack.
  assert (Hdel : forall x, deliveries x (d ++ d2) = deliveries x d).
  { intro x. rewrite deliveries_app, (deliveries_nopay x d2 (evt_nopay d2 F2)), app_nil_r. reflexivity. }
  assert (Hack' : exists ack pa, In (OSend h ack pa) d /\ is_kind ack "BROADCAST_ACK" = true).
  { destruct Hack as (ack & pa & Hin & Hka). apply in_app_or in Hin as [Hin|Hin]; [eauto|].
    exfalso. rewrite Forall_forall in F2. apply F2 in Hin as [(mc & Hmc)|(h' & k & chf & nidf & ow & Hev)]; [discriminate|].
    injection Hev as _ -> _. rewrite event_not_ack in Hka. discriminate. }
  destruct (C02_completeness cfg h req p (ctx0 s sc hi) cn me d HI Hl Hph Hn Hk E Hack')
    as (hd & ch & Hparse & Hch & Hm & Hpub & _ & _ & Hall & Hone & Hself & Honly & _).
  exists hd, ch. split; [exact Hparse|]. split; [exact Hch|]. split; [exact Hm|]. split; [exact Hpub|].
  split; [|split; [|split]].
  - intros n hs h' H1 H2 H3 H4 H5. rewrite Hdel. exact (Hall n hs h' H1 H2 H3 H4 H5).
  - intro h'. rewrite Hdel. apply Hone.
  - rewrite Hdel. exact Hself.
  - intros h' m' q' Hin. apply in_app_or in Hin as [Hin|Hin]; [exact (Honly _ _ _ Hin)|].
    destruct (nopay_no_payload d2 (evt_nopay d2 F2) _ _ _ Hin).
Qed.

(* ================================================================== *)
(** * Part 6 : C17 direct messages *)

Lemma In_dedup x l : In x (dedup l) <-> In x l.
Proof.
  induction l as [|y l IH]; cbn [dedup In]; [tauto|].
  rewrite filter_In, IH, negb_true_iff. split.
  - intros [H|[H _]]; auto.
  - intros [H|H]; [left; exact H|].
    destruct (list_eqb_spec y x) as [E|E]; [left; exact E | right; split; [exact H | reflexivity]].
Qed.

Lemma NoDup_dedup l : NoDup (dedup l).
Proof.
  induction l as [|y l IH]; cbn [dedup]; constructor.
  - rewrite filter_In. intros [_ H]. rewrite list_eqb_refl in H. discriminate.
  - apply ServerRoute.NoDup_filter. exact IH.
Qed.

(* the connections a direct message goes to, in emission order *)
Definition direct_handles (s : state) (targets : list str) : list N :=
  flat_map (fun t => match alookup t (router s) with Some hs => hs | None => [] end) (dedup targets).

Lemma direct_outs_handles cfg s targets payload :
  direct_outs cfg s (dedup targets) payload =
  map (fun h => OSend h (direct_msg cfg payload) (Some payload)) (direct_handles s targets).
Proof.
  unfold direct_outs, direct_handles. induction (dedup targets) as [|t ts IH]; cbn [flat_map map]; [reflexivity|].
  rewrite map_app, IH. destruct (alookup t (router s)); reflexivity.
Qed.

Lemma In_direct_handles s targets h :
  In h (direct_handles s targets) <-> exists t hs, In t targets /\ alookup t (router s) = Some hs /\ In h hs.
Proof.
  unfold direct_handles. rewrite in_flat_map. split.
  - intros (t & Ht & Hh). apply (proj1 (In_dedup _ _)) in Ht. destruct (alookup t (router s)) as [hs|] eqn:E; [|destruct Hh].
    exists t, hs. split; [exact Ht|]. split; [exact E | exact Hh].
  - intros (t & hs & Ht & E & Hh). exists t. split; [apply In_dedup; exact Ht|]. rewrite E. exact Hh.
Qed.

Lemma NoDup_direct_handles s targets : router_wf (router s) -> NoDup (direct_handles s targets).
Proof.
  intros (Hnd & Hdisj). unfold direct_handles. apply NoDup_flat_map; [apply NoDup_dedup | |].
  - intros t _. destruct (alookup t (router s)) as [hs|] eqn:E; [exact (Hnd t hs E) | constructor].
  - intros t1 t2 h _ _ H1 H2.
    destruct (alookup t1 (router s)) as [hs1|] eqn:E1; [|destruct H1].
    destruct (alookup t2 (router s)) as [hs2|] eqn:E2; [|destruct H2].
    exact (Hdisj _ _ _ _ _ E1 E2 H1 H2).
Qed.

Lemma direct_msg_fields cfg payload :
  is_kind (direct_msg cfg payload) "MOD_DIRECT" = true /\
  get_str (direct_msg cfg payload) "from" = domain cfg /\
  get_num (direct_msg cfg payload) "length" = N.of_nat (length payload).
Proof. repeat split. Qed.

Theorem C17_direct_exact : forall cfg s targets payload,
  (* state unchanged; exactly these outputs, nothing else *)
  step cfg s (Direct targets payload) =
    (s, map (fun h => OSend h (direct_msg cfg payload) (Some payload)) (direct_handles s targets)) /\
  (* who is addressed: the connections registered for a listed username *)
  (forall h, In h (direct_handles s targets) <->
             exists t hs, In t targets /\ alookup t (router s) = Some hs /\ In h hs) /\
  (* header of the frame *)
  get_str (direct_msg cfg payload) "from" = domain cfg /\
  get_num (direct_msg cfg payload) "length" = N.of_nat (length payload) /\
  is_kind (direct_msg cfg payload) "MOD_DIRECT" = true.
Proof.
  intros cfg s targets payload. split; [|split; [|repeat split]].
  - cbn [step]. rewrite direct_outs_handles. reflexivity.
  - intro h. apply In_direct_handles.
Qed.

(* under the invariant nobody gets two copies, whatever repetitions [targets] has *)
Theorem C17_direct_once : forall cfg s targets payload s' os,
  Inv cfg s -> step cfg s (Direct targets payload) = (s', os) ->
  s' = s /\
  (forall h, (exists t hs, In t targets /\ alookup t (router s) = Some hs /\ In h hs) ->
             deliveries h os = [(direct_msg cfg payload, payload)]) /\
  (forall h, ~ (exists t hs, In t targets /\ alookup t (router s) = Some hs /\ In h hs) ->
             deliveries h os = [] /\ forall m p, ~ In (OSend h m p) os) /\
  (forall o, In o os -> exists h, o = OSend h (direct_msg cfg payload) (Some payload)).
Proof.
  intros cfg s targets payload s' os HI Hstep.
  destruct (C17_direct_exact cfg s targets payload) as (E & Hin & _). rewrite E in Hstep.
  injection Hstep as <- <-.
  pose proof (NoDup_direct_handles s targets (inv_router_wf cfg s HI)) as Hnd.
  split; [reflexivity|]. split; [|split].
  - intros h Hh. rewrite (deliveries_map_NoDup _ _ _ _ Hnd).
    destruct (in_dec N.eq_dec h (direct_handles s targets)) as [_|Hn]; [reflexivity|].
    destruct Hn. apply Hin. exact Hh.
  - intros h Hh. split.
    + rewrite (deliveries_map_NoDup _ _ _ _ Hnd).
      destruct (in_dec N.eq_dec h (direct_handles s targets)) as [Hi|_]; [|reflexivity].
      destruct Hh. apply Hin. exact Hi.
    + intros m p Hi. apply in_map_iff in Hi as (h' & E' & Hi). injection E' as -> _ _.
      apply Hh, Hin, Hi.
  - intros o Ho. apply in_map_iff in Ho as (h & <- & _). exists h. reflexivity.
Qed.

(* in terms of connections: a connection gets the message iff it is the Authenticated connection
   of a listed user; connections of users not listed get nothing *)
Corollary C17_direct_by_user : forall cfg s targets payload s' os h cn u,
  Inv cfg s -> step cfg s (Direct targets payload) = (s', os) ->
  nlookup h (conns s) = Some cn -> c_phase cn = Authenticated ->
  c_nid cn = Some {| nu := u; nd := domain cfg |} ->
  (In u targets -> deliveries h os = [(direct_msg cfg payload, payload)]) /\
  (~ In u targets -> deliveries h os = [] /\ forall m p, ~ In (OSend h m p) os).
Proof.
  intros cfg s targets payload s' os h cn u HI Hstep Hl Hph Hn.
  destruct (C17_direct_once cfg s targets payload s' os HI Hstep) as (_ & Hyes & Hno & _).
  pose proof HI as (_ & HN & _).
  split.
  - intro Hu. apply Hyes.
    assert (Hi : In h (rt_of (router s) u)) by (apply (cn_rt _ _ _ HN); exists cn; auto).
    unfold rt_of in Hi. destruct (alookup u (router s)) as [hs|] eqn:E; [|destruct Hi].
    exists u, hs. auto.
  - intro Hu. apply Hno. intros (t & hs & Ht & E & Hi).
    assert (Hi' : In h (rt_of (router s) t)) by (unfold rt_of; rewrite E; exact Hi).
    apply (cn_rt _ _ _ HN) in Hi' as (cn' & Hl' & _ & Hn').
    rewrite Hl in Hl'. injection Hl' as <-. rewrite Hn in Hn'. injection Hn' as ->. contradiction.
Qed.

(* ---------- the client side: MOD_DIRECT ---------- *)
Definition md_ack (h id : N) : out := OSend h (build "MOD_DIRECT_ACK" [(bs "id", VNum id)]) None.

Theorem C17_client_direct : forall cfg h me m payload c,
  let r := h_mod_direct cfg h me m payload c in
  (* no modulator, or the operation is not declared: refused, nothing else happens *)
  (has_mod cfg = false \/ op_spp cfg = false -> r = (c, Some (PErr None "UNEXPECTED_MESSAGE"))) /\
  (has_mod cfg = true -> op_spp cfg = true ->
     (get_onum m "id" = None -> r = (c, Some (PErr None "BAD_REQUEST"))) /\
     (forall id, get_onum m "id" = Some id ->
        let o := head_outcome (script c) in
        st (fst r) = st c /\ closing (fst r) = closing c /\ hints (fst r) = hints c /\
        (* the modulator sees the sender's true username and the exact payload *)
        outs (fst r) = outs c ++ OMod (McSpp (nu me) payload) ::
                       match o with MErr | MInvalid => [] | _ => [md_ack h id] end /\
        snd r = match o with
                | MErr => Some PInternal
                | MInvalid => Some (PErr (Some id) "BAD_REQUEST")
                | _ => None
                end)).
Proof.
  intros cfg h me m payload c r. subst r. unfold h_mod_direct. split.
  - intros [H|H].
    + rewrite H. reflexivity.
    + rewrite H. destruct (has_mod cfg); reflexivity.
  - intros H1 H2. rewrite H1, H2. cbn [negb]. split.
    + intros ->. reflexivity.
    + intros id ->. cbv zeta.
      pose proof (next_outcome_emit (OMod (McSpp (nu me) payload)) c) as Hh.
      destruct (next_outcome (emit (OMod (McSpp (nu me) payload)) c)) as [o c1] eqn:En.
      cbn [fst] in Hh. apply next_outcome_spec in En as (S1 & S2 & S3 & S4 & _).
      cbn [emit st hints outs closing] in S1, S2, S3, S4. rewrite <- Hh.
      destruct o; cbn [fst snd ok fail emit st closing hints outs]; rewrite ?S3, <- ?app_assoc; cbn [app];
        repeat split; assumption.
Qed.

(* the ack is emitted iff the modulator's outcome is neither MErr nor MInvalid *)
Corollary C17_client_direct_ack : forall cfg h me m payload c id d,
  has_mod cfg = true -> op_spp cfg = true -> get_onum m "id" = Some id ->
  outs (fst (h_mod_direct cfg h me m payload c)) = outs c ++ d ->
  In (OMod (McSpp (nu me) payload)) d /\
  (forall mc, In (OMod mc) d -> mc = McSpp (nu me) payload) /\
  (In (md_ack h id) d <-> head_outcome (script c) <> MErr /\ head_outcome (script c) <> MInvalid) /\
  ((exists a pa, In (OSend h a pa) d /\ is_kind a "MOD_DIRECT_ACK" = true) <->
   head_outcome (script c) <> MErr /\ head_outcome (script c) <> MInvalid) /\
  (snd (h_mod_direct cfg h me m payload c) = None <->
   head_outcome (script c) <> MErr /\ head_outcome (script c) <> MInvalid).
Proof.
  intros cfg h me m payload c id d H1 H2 Hid Ho.
  destruct (C17_client_direct cfg h me m payload c) as (_ & H). destruct (H H1 H2) as (_ & H').
  destruct (H' id Hid) as (_ & _ & _ & Ho' & Hs). cbv zeta in Ho', Hs.
  rewrite Ho' in Ho. apply app_inv_head in Ho. subst d. rewrite Hs. clear Ho' Hs H H'.
  set (good := head_outcome (script c) <> MErr /\ head_outcome (script c) <> MInvalid).
  assert (Hcase :
    (~ good /\
     match head_outcome (script c) with MErr | MInvalid => [] | _ => [md_ack h id] end = [] /\
     match head_outcome (script c) with
     | MErr => Some PInternal | MInvalid => Some (PErr (Some id) "BAD_REQUEST") | _ => None end <> None)
    \/
    (good /\
     match head_outcome (script c) with MErr | MInvalid => [] | _ => [md_ack h id] end = [md_ack h id] /\
     match head_outcome (script c) with
     | MErr => Some PInternal | MInvalid => Some (PErr (Some id) "BAD_REQUEST") | _ => None end = None)).
  { subst good. destruct (head_outcome (script c)).
    all: first [ right; split; [split; discriminate | split; reflexivity]
               | left; split; [intros [A B]; congruence | split; [reflexivity | discriminate]] ]. }
  destruct Hcase as [(Hb & -> & Hs)|(Hg & -> & ->)].
  - split; [left; reflexivity|].
    split; [intros mc [E|[]]; congruence|].
    split; [split; [intros [E|[]]; discriminate | intro; contradiction]|].
    split; [split; [intros (a & pa & [E|[]] & _); discriminate | intro; contradiction]|].
    split; [intro; contradiction | intro; contradiction].
  - split; [left; reflexivity|].
    split; [intros mc [E|[E|[]]]; [congruence | discriminate]|].
    split; [split; [intros _; exact Hg | intros _; right; left; reflexivity]|].
    split; [split; [intros _; exact Hg|]|].
    + intros _. exists (build "MOD_DIRECT_ACK" [(bs "id", VNum id)]), None.
      split; [right; left; reflexivity | reflexivity].
    + split; [intros _; exact Hg | reflexivity].
Qed.

Print Assumptions C01_on_frame.
Print Assumptions C01_confinement.
Print Assumptions C01_only_messages_carry_payload.
Print Assumptions C01_no_cross_channel.
Print Assumptions C01_no_cross_channel_bytes.
Print Assumptions inv_router_wf.
Print Assumptions C02_completeness.
Print Assumptions C02_completeness_step.
Print Assumptions C17_direct_exact.
Print Assumptions C17_direct_once.
Print Assumptions C17_direct_by_user.
Print Assumptions C17_client_direct.
Print Assumptions C17_client_direct_ack.
