(* T7: exact characterisation of [route] and of [notify]. *)
From NW Require Import Base.Bytes Model.SchemaTypes Model.Codec Model.MsgInfo Model.Ids Model.Framing Model.Server Gen.Schema Gen.Errors.
From NW Require Import Proofs.ServerLib.

Definition excl_ok (excl : option N) (h : N) : bool :=
  match excl with Some e => negb (h =? e) | None => true end.

(* the connections a routed frame goes to, in emission order *)
Definition route_handles (cfg : scfg) (targets : list nid) (excl : option N) (s : state) : list N :=
  flat_map (fun t => if list_eqb (nd t) (domain cfg)
                     then match alookup (nu t) (router s) with
                          | Some hs => filter (excl_ok excl) hs
                          | None => []
                          end
                     else []) targets.

Definition route_outs (cfg : scfg) (m : msg) (p : option (list N)) (targets : list nid) (excl : option N)
           (s : state) : list out :=
  map (fun h => OSend h m p) (route_handles cfg targets excl s).

Lemma route_inner m p excl hs : forall acc,
  appends acc
    (fold_left (fun acc2 h => match excl with
                              | Some e => if h =? e then acc2 else emit (OSend h m p) acc2
                              | None => emit (OSend h m p) acc2
                              end) hs acc)
    (map (fun h => OSend h m p) (filter (excl_ok excl) hs)).
Proof.
  induction hs as [|h hs IH]; intro acc; cbn [fold_left filter map].
  - apply appends_refl.
  - destruct excl as [e|]; cbn [excl_ok].
    + destruct (h =? e); cbn [negb].
      * apply IH.
      * cbn [map]. change (OSend h m p :: ?l) with ([OSend h m p] ++ l).
        eapply appends_trans; [apply emit_appends | apply IH].
    + cbn [map]. change (OSend h m p :: ?l) with ([OSend h m p] ++ l).
      eapply appends_trans; [apply emit_appends | apply IH].
Qed.

(* T7 *)
Theorem route_exact : forall cfg m p targets excl c,
  appends c (route cfg m p targets excl c) (route_outs cfg m p targets excl (st c)).
Proof.
  intros cfg m p targets excl. unfold route, route_outs, route_handles.
  induction targets as [|t ts IH]; intro c; cbn [fold_left flat_map map].
  - apply appends_refl.
  - rewrite map_app.
    destruct (list_eqb (nd t) (domain cfg)).
    + destruct (alookup (nu t) (router (st c))) as [hs|] eqn:E.
      * pose proof (route_inner m p excl hs c) as Hin.
        eapply appends_trans; [exact Hin|].
        destruct Hin as (Hst & _).
        specialize (IH (fold_left (fun acc2 h => match excl with
                              | Some e => if h =? e then acc2 else emit (OSend h m p) acc2
                              | None => emit (OSend h m p) acc2
                              end) hs c)).
        rewrite Hst in IH. exact IH.
      * cbn [map app]. apply IH.
    + cbn [map app]. apply IH.
Qed.

(* spelled out *)
Corollary route_exact' : forall cfg m p targets excl c,
  let c' := route cfg m p targets excl c in
  st c' = st c /\ script c' = script c /\ hints c' = hints c /\ closing c' = closing c /\
  outs c' = outs c ++
    flat_map (fun t => if list_eqb (nd t) (domain cfg)
                       then match alookup (nu t) (router (st c)) with
                            | Some hs => map (fun h => OSend h m p)
                                             (filter (fun h => match excl with Some e => negb (h =? e) | None => true end) hs)
                            | None => []
                            end
                       else []) targets.
Proof.
  intros cfg m p targets excl c c'.
  destruct (route_exact cfg m p targets excl c) as (H1 & H2 & H3 & H4 & H5).
  repeat split; try assumption.
  fold c' in H5. rewrite H5. f_equal.
  unfold route_outs, route_handles. clear.
  induction targets as [|t ts IH]; cbn [flat_map map]; [reflexivity|].
  rewrite map_app, IH. f_equal.
  destruct (list_eqb (nd t) (domain cfg)); [|reflexivity].
  destruct (alookup (nu t) (router (st c))); reflexivity.
Qed.

Lemma route_outs_neutral cfg m p targets excl s :
  correlation_id schema m = None -> Forall neutral (route_outs cfg m p targets excl s).
Proof.
  intro H. unfold route_outs. apply Forall_forall. intros o Ho.
  apply in_map_iff in Ho as (h & <- & _). exact H.
Qed.

Lemma route_handles_excl cfg targets e s h :
  In h (route_handles cfg targets (Some e) s) -> h <> e.
Proof.
  unfold route_handles. intro H. apply in_flat_map in H as (t & _ & Ht).
  destruct (list_eqb (nd t) (domain cfg)); [|contradiction].
  destruct (alookup (nu t) (router s)); [|contradiction].
  apply filter_In in Ht as (_ & Hk). cbn in Hk.
  intros ->. rewrite N.eqb_refl in Hk. discriminate.
Qed.

(* every routed frame goes to a registered connection of a local target *)
Lemma route_handles_registered cfg targets excl s h :
  In h (route_handles cfg targets excl s) ->
  exists t hs, In t targets /\ nd t = domain cfg /\ alookup (nu t) (router s) = Some hs /\ In h hs.
Proof.
  unfold route_handles. intro H. apply in_flat_map in H as (t & Hin & Ht).
  destruct (list_eqb (nd t) (domain cfg)) eqn:E; [|contradiction].
  destruct (alookup (nu t) (router s)) as [hs|] eqn:Er; [|contradiction].
  apply filter_In in Ht as (Hh & _). apply list_eqb_eq in E.
  exists t, hs. auto.
Qed.

(* ---------- no connection receives two copies ---------- *)

Lemma NoDup_app_intro {A} (a b : list A) :
  NoDup a -> NoDup b -> (forall x, In x a -> In x b -> False) -> NoDup (a ++ b).
Proof.
  induction 1 as [|x a Hx Ha IH]; intros Hb Hd; cbn [app]; [exact Hb|].
  constructor.
  - intro Hin. apply in_app_or in Hin as [Hin|Hin]; [contradiction|].
    apply (Hd x); [left; reflexivity | exact Hin].
  - apply IH; [exact Hb|]. intros y Hy. apply Hd. right. exact Hy.
Qed.

Lemma NoDup_flat_map {A B} (f : A -> list B) (l : list A) :
  NoDup l ->
  (forall x, In x l -> NoDup (f x)) ->
  (forall x y b, In x l -> In y l -> In b (f x) -> In b (f y) -> x = y) ->
  NoDup (flat_map f l).
Proof.
  induction 1 as [|x l Hx Hnd IH]; intros Hf Hdisj; cbn [flat_map]; [constructor|].
  apply NoDup_app_intro.
  - apply Hf. left. reflexivity.
  - apply IH.
    + intros y Hy. apply Hf. right. exact Hy.
    + intros y z b Hy Hz. apply Hdisj; right; assumption.
  - intros b Hb Hin. apply in_flat_map in Hin as (y & Hy & Hby).
    assert (x = y) by (apply (Hdisj x y b); [left; reflexivity | right; exact Hy | exact Hb | exact Hby]).
    subst y. contradiction.
Qed.

Lemma NoDup_filter {A} (f : A -> bool) (l : list A) : NoDup l -> NoDup (filter f l).
Proof.
  induction 1 as [|x l Hx Hl IH]; cbn [filter]; [constructor|].
  destruct (f x); [|exact IH].
  constructor; [|exact IH]. intro Hin. apply filter_In in Hin as [Hin _]. contradiction.
Qed.

(* a router in which every handler list is duplicate-free and no connection is registered
   under two names *)
Definition router_wf (r : list (str * list N)) : Prop :=
  (forall u hs, alookup u r = Some hs -> NoDup hs) /\
  (forall u1 u2 hs1 hs2 h, alookup u1 r = Some hs1 -> alookup u2 r = Some hs2 ->
                           In h hs1 -> In h hs2 -> u1 = u2).

Theorem route_handles_NoDup : forall cfg targets excl s,
  NoDup targets -> router_wf (router s) ->
  NoDup (route_handles cfg targets excl s).
Proof.
  intros cfg targets excl s Ht (Hnd & Hdisj). unfold route_handles.
  apply NoDup_flat_map; [exact Ht | |].
  - intros t _. destruct (list_eqb (nd t) (domain cfg)); [|constructor].
    destruct (alookup (nu t) (router s)) as [hs|] eqn:E; [|constructor].
    apply NoDup_filter. eapply Hnd. exact E.
  - intros t1 t2 h _ _ H1 H2.
    destruct (list_eqb (nd t1) (domain cfg)) eqn:D1; [|contradiction].
    destruct (list_eqb (nd t2) (domain cfg)) eqn:D2; [|contradiction].
    destruct (alookup (nu t1) (router s)) as [hs1|] eqn:E1; [|contradiction].
    destruct (alookup (nu t2) (router s)) as [hs2|] eqn:E2; [|contradiction].
    apply filter_In in H1 as [H1 _]. apply filter_In in H2 as [H2 _].
    pose proof (Hdisj _ _ _ _ _ E1 E2 H1 H2) as Hu.
    apply list_eqb_eq in D1. apply list_eqb_eq in D2.
    destruct t1 as [u1 d1], t2 as [u2 d2]. cbn in *. congruence.
Qed.

(* Corollary of T7: with duplicate-free targets and handler lists, [route] sends at most one copy
   to each connection: the new outputs are [OSend h m p] for pairwise distinct [h]. *)
Corollary broadcast_each_once : forall cfg m p targets excl c,
  NoDup targets -> router_wf (router (st c)) ->
  exists hs, NoDup hs /\
    new_outs c (route cfg m p targets excl c) = map (fun h => OSend h m p) hs /\
    (forall h, excl = Some h -> ~ In h hs).
Proof.
  intros cfg m p targets excl c Ht Hr.
  exists (route_handles cfg targets excl (st c)). split; [|split].
  - apply route_handles_NoDup; assumption.
  - destruct (route_exact cfg m p targets excl c) as (_ & _ & _ & _ & Ho).
    apply new_outs_app. exact Ho.
  - intros h -> Hin. apply route_handles_excl in Hin. congruence.
Qed.

(* the same for nid lists that are duplicate-free only up to [nid_eqb] *)
Lemma nid_eqb_eq a b : nid_eqb a b = true <-> a = b.
Proof.
  unfold nid_eqb. rewrite andb_true_iff, !list_eqb_eq.
  destruct a, b; cbn. split; [intros [-> ->]; reflexivity | intro H; inv H; auto].
Qed.

(* ---------- notify ---------- *)

Definition notify_mod (cfg : scfg) (kind : string) (handler : str) (n : nid) (owner : bool) : list out :=
  if has_mod cfg && op_fev cfg
  then [OMod (McEvent (bs kind) (chan_full handler (domain cfg)) (nid_full n) owner)] else [].

(* [notify]: an optional modulator call (consuming one outcome), then, unless the outcome is MErr,
   the event routed to the targets *)
Lemma notify_spec cfg kind handler n owner targets excl c b c1 :
  notify cfg kind handler n owner targets excl c = (b, c1) ->
  st c1 = st c /\ hints c1 = hints c /\ closing c1 = closing c /\
  outs c1 = outs c ++ notify_mod cfg kind handler n owner ++
            (if b then route_outs cfg (event_msg (bs kind) (chan_full handler (domain cfg)) (nid_full n) owner)
                                  None targets excl (st c)
             else []) /\
  (b = false -> has_mod cfg && op_fev cfg = true /\ head_outcome (script c) = MErr).
Proof.
  unfold notify, notify_mod.
  destruct (has_mod cfg && op_fev cfg) eqn:Em.
  - destruct (next_outcome (emit _ c)) as [o c0'] eqn:En.
    pose proof (next_outcome_emit (OMod (McEvent (bs kind) (chan_full handler (domain cfg)) (nid_full n) owner)) c) as Hh.
    rewrite En in Hh. cbn [fst] in Hh.
    apply next_outcome_spec in En as (S1 & S2 & S3 & S4 & _). cbn [emit st hints outs closing script] in S1, S2, S3, S4.
    destruct (match o with MErr => false | _ => true end) eqn:Eok; intro H; injection H as Hb Hc; subst b c1.
    + destruct (route_exact cfg (event_msg (bs kind) (chan_full handler (domain cfg)) (nid_full n) owner) None targets excl c0')
        as (R1 & R2 & R3 & R4 & R5).
      repeat split; try congruence.
      rewrite R5, S3, S1, <- app_assoc. reflexivity.
    + split; [congruence|]. split; [congruence|]. split; [congruence|]. split.
      * rewrite S3. cbn [app]. reflexivity.
      * intros _. split; [reflexivity|]. rewrite <- Hh. destruct o; try discriminate. reflexivity.
  - intro H. inv H.
    destruct (route_exact cfg (event_msg (bs kind) (chan_full handler (domain cfg)) (nid_full n) owner) None targets excl c)
      as (R1 & R2 & R3 & R4 & R5).
    split; [assumption|]. split; [assumption|]. split; [assumption|]. split; [assumption|]. discriminate.
Qed.

Lemma notify_neutral cfg kind handler n owner targets excl c b c1 :
  notify cfg kind handler n owner targets excl c = (b, c1) ->
  st c1 = st c /\ hints c1 = hints c /\ closing c1 = closing c /\
  exists d, outs c1 = outs c ++ d /\ Forall neutral d.
Proof.
  intro H. apply notify_spec in H as (H1 & H2 & H3 & H4 & _).
  repeat split; try assumption.
  eexists. split; [exact H4|].
  apply Forall_app. split.
  - unfold notify_mod. destruct (has_mod cfg && op_fev cfg); repeat constructor.
  - destruct b; [|constructor]. apply route_outs_neutral. reflexivity.
Qed.

Print Assumptions route_exact.
Print Assumptions route_exact'.
Print Assumptions broadcast_each_once.
Print Assumptions notify_spec.
