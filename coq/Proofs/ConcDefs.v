(* Interleaved model (Model/Conc.v): the predicates the theorems of Proofs/ConcInv.v and Proofs/ConcSmall.v speak about.
   Definitions only. *)
From Coq Require Import List NArith Bool.
From NW Require Import Model.Conc.
Import ListNotations.
Open Scope N_scope.

(* ---------- the two views of membership ---------- *)
(* view 1 (MEMBERS, delivery, events): u is in the member set of the channel object the map holds under ch *)
Definition is_member (g : gst) (u : user) (ch : chan) : Prop :=
  exists o, cmap g ch = Some o /\ In u (members (objs g o)).
(* view 2 (CHANNELS, the disconnect clean-up, the subscription limit): ch is in u's channel index *)
Definition is_listed (g : gst) (u : user) (ch : chan) : Prop := In ch (idx g u).

(* a clean-up round that is still going to remove u from the channel object o mapped under ch *)
Definition round_for (p : pc) (u : user) (ch : chan) (o : oid) : Prop :=
  (exists id, p = PStart (RLeave ch None id)) \/ (exists id, p = PLeaveWait ch o None id) \/ (exists w id, p = PLeaveN1 ch o u w id).
Definition covered (s : cstate) (u : user) (ch : chan) (o : oid) : Prop :=
  exists t k, In (t, k) (tasks s) /\ t_conn k = None /\ t_me k = u /\ (In ch (t_rest k) \/ round_for (t_pc k) u ch o).

(* no request in progress, no clean-up in progress *)
Definition quiescent (s : cstate) : Prop := tasks s = [].

(* what a user relies on (C05): at quiescence the views agree, members are connected users, nothing is left of an
   emptied channel, every channel has one owner who is a member *)
Definition views_agree (g : gst) : Prop :=
  (forall u ch, is_listed g u ch <-> is_member g u ch) /\
  (forall u ch, is_member g u ch -> reg g u <> []) /\
  (forall ch o, cmap g ch = Some o -> members (objs g o) <> []) /\
  (forall ch o, cmap g ch = Some o -> exists w, owner (objs g o) = Some w /\ In w (members (objs g o))).

(* ---------- per-task facts ---------- *)
Definition task_ok (g : gst) (t : tid) (k : task) : Prop :=
  (* a request belongs to a live connection of the user it runs for; a clean-up has no connection *)
  match t_conn k with
  | Some c => cuser g c = Some (t_me k) /\ t_rest k = []
  | None => NoDup (t_rest k) /\
            match t_pc k with
            | PStart (RLeave _ None _) | PLeaveWait _ _ None _ | PLeaveN2 _ _ _ _ => True
            | PLeaveN1 _ _ n _ _ => n = t_me k
            | _ => False
            end
  end /\
  match t_pc k with
  | PJoinNotify ch o created n _ =>
      cmap g ch = Some o /\ In n (members (objs g o)) /\ wl g o = Some t /\ (created = true -> members (objs g o) = [n])
  | PLeaveN1 ch o n w _ =>
      cmap g ch = Some o /\ In n (members (objs g o)) /\ wl g o = Some t /\ w = is_owner (objs g o) n
  | PLeaveN2 ch o _ _ => cmap g ch = Some o /\ wl g o = Some t
  (* a request that waits for an object's lock looked it up under this very name: the object was created for it *)
  | PLeaveWait ch o _ _ | PJoinWait ch o _ _ | PBcastWait ch o _ _ | PMembersWait ch o _
  | PSetAclWait ch o _ _ _ _ | PGetAclWait ch o _ _ => o < next_oid g /\ forall ch', cmap g ch' = Some o -> ch' = ch
  | PDone => False                                   (* finished tasks are removed *)
  | _ => True
  end.

(* ---------- the invariant of every reachable state, whatever the schedule ---------- *)
Record CInv (s : cstate) : Prop := {
  i_fresh : forall o, next_oid (cg s) <= o ->
            members (objs (cg s) o) = [] /\ wl (cg s) o = None /\ forall ch, cmap (cg s) ch <> Some o;
  i_inj : forall ch1 ch2 o, cmap (cg s) ch1 = Some o -> cmap (cg s) ch2 = Some o -> ch1 = ch2;
  i_unmapped_empty : forall o, (forall ch, cmap (cg s) ch <> Some o) -> members (objs (cg s) o) = [];
  i_mapped_nonempty : forall ch o, cmap (cg s) ch = Some o -> members (objs (cg s) o) <> [];
  i_owner : forall ch o, cmap (cg s) ch = Some o ->
            exists w, owner (objs (cg s) o) = Some w /\ In w (members (objs (cg s) o));
  i_nodup_members : forall o, NoDup (members (objs (cg s) o));
  (* the cached delivery list is the member list filtered by the read allow-list, at every moment *)
  i_targets : forall o, targets (objs (cg s) o) = filter (allowed (racl (objs (cg s) o))) (members (objs (cg s) o));
  i_nodup_idx : forall u, NoDup (idx (cg s) u);
  i_nodup_reg : forall u, NoDup (reg (cg s) u);
  i_reg_cuser : forall c u, In c (reg (cg s) u) <-> cuser (cg s) c = Some u;
  i_listed_member : forall u ch, is_listed (cg s) u ch -> is_member (cg s) u ch;
  i_member_listed : forall u ch o, cmap (cg s) ch = Some o -> In u (members (objs (cg s) o)) ->
                    is_listed (cg s) u ch \/ covered s u ch o;
  i_member_connected : forall u ch o, cmap (cg s) ch = Some o -> In u (members (objs (cg s) o)) ->
                       reg (cg s) u <> [] \/ covered s u ch o;
  i_tids : NoDup (map fst (tasks s)) /\ forall t k, In (t, k) (tasks s) -> t < next_tid s;
  i_lock_holder : forall o t, wl (cg s) o = Some t -> exists k, In (t, k) (tasks s) /\ holds (t_pc k) = Some o;
  i_tasks : forall t k, In (t, k) (tasks s) -> task_ok (cg s) t k;
  (* who joins an existing channel is not its owner while the announcement is pending (so a rollback leaves the owner in) *)
  i_join_guest : forall t k ch o n id, In (t, k) (tasks s) -> t_pc k = PJoinNotify ch o false n id -> is_owner (objs (cg s) o) n = false }.

(* the three allow-lists: 1 join, 2 publish, anything else read *)
Definition acl_class (ty : N) : N := if ty =? 1 then 1 else if ty =? 2 then 2 else 3.

(* the source as it is now: both fixes present *)
Definition fixed (cf : ccfg) : Prop := ptr_check cf = true /\ idx_early cf = true.

(* the system after task t (record k) has run one segment with result r *)
Definition after_seg (s : cstate) (t : tid) (k : task) (r : step_res) (hint : N) : cstate :=
  let '(g', p, _) := r in {| cg := g'; tasks := settle t k p hint (tasks s); next_tid := next_tid s |}.

Definition join_pc (p : pc) : Prop :=
  match p with PStart (RJoin _ _ _) | PJoinWait _ _ _ _ | PJoinNotify _ _ _ _ _ => True | _ => False end.
Definition leave_pc (p : pc) : Prop :=
  match p with PStart (RLeave _ _ _) | PLeaveWait _ _ _ _ | PLeaveN1 _ _ _ _ _ | PLeaveN2 _ _ _ _ => True | _ => False end.
Definition other_pc (p : pc) : Prop :=
  match p with
  | PStart (RBcast _ _ _) | PStart (RMembers _ _) | PStart (RChannels _) | PBcastGate _ _ _ | PBcastWait _ _ _ _ | PMembersWait _ _ _ | PDone => True
  | PStart (RGetAcl _ _ _) | PGetAclWait _ _ _ _ => True
  | _ => False
  end.
Definition acl_pc (p : pc) : Prop :=
  match p with PStart (RSetAcl _ _ _ _ _) | PSetAclWait _ _ _ _ _ _ => True | _ => False end.
