(* Pool geometry: when the budget covers twice the top bucket and the per-bucket cap is at least
   one, the top bucket (= the payload limit) is present in the geometry, so every legal payload
   length finds a bucket. *)
From NW Require Import Base.Bytes Model.Pool.

Lemma sizes_fuel_le fuel : forall cur max g, Forall (fun x => x <= max) (sizes_fuel fuel cur max g).
Proof.
  induction fuel as [|f IH]; intros cur max g; cbn [sizes_fuel]; [constructor|].
  destruct (cur <=? max) eqn:E; [|constructor].
  constructor; [apply N.leb_le; exact E | apply IH].
Qed.

Lemma ladder_head min max g : min <= max -> exists r, ladder min max g = min :: r.
Proof.
  intro H. unfold ladder.
  change (sizes_fuel 80 min max g)
    with (if min <=? max then min :: sizes_fuel 79 (min * g) max g else []).
  apply N.leb_le in H. rewrite H. eauto.
Qed.

(* the largest bucket is always the limit itself, on the ladder or not *)
Lemma bucket_sizes_top min max g : min <= max -> exists r, rev (bucket_sizes min max g) = max :: r.
Proof.
  intro H. unfold bucket_sizes.
  destruct (ladder_head min max g H) as [r0 Hl].
  assert (Hle : Forall (fun x => x <= max) (ladder min max g)) by apply sizes_fuel_le.
  destruct (rev (ladder min max g)) as [|last t] eqn:Er.
  - exfalso. apply (f_equal (@rev N)) in Er. rewrite rev_involutive in Er. cbn [rev] in Er. congruence.
  - assert (Hlast : last <= max).
    { rewrite Forall_forall in Hle. apply Hle. apply in_rev. rewrite Er. left. reflexivity. }
    destruct (last <? max) eqn:E.
    + rewrite rev_app_distr. cbn [rev app]. eauto.
    + apply N.ltb_ge in E. rewrite Er. assert (last = max) by lia. subst. eauto.
Qed.

Lemma alloc_head max r budget cap :
  0 < max -> 1 <= cap -> 2 * max <= budget ->
  exists cnt t, alloc (max :: r) budget cap 1 2 = (cnt, max) :: t.
Proof.
  intros Hmax Hcap Hb. cbn [alloc].
  set (target := match r with [] => budget | _ :: _ => N.min (budget * 1 / 2) budget end).
  assert (Ht : max <= target).
  { assert (max <= budget * 1 / 2).
    { rewrite N.mul_1_r. apply N.div_le_lower_bound; lia. }
    subst target. destruct r; lia. }
  assert (Hc : 1 <= N.min (target / max) cap).
  { assert (1 <= target / max) by (apply N.div_le_lower_bound; lia). lia. }
  destruct (0 <? N.min (target / max) cap) eqn:E.
  - eauto.
  - apply N.ltb_ge in E. lia.
Qed.

Lemma bucket_for_last g cnt max len : len <= max -> bucket_for (g ++ [(cnt, max)]) len <> None.
Proof.
  intro H. unfold bucket_for. rewrite filter_app. cbn [filter snd].
  apply N.leb_le in H. rewrite H.
  destruct (filter _ g); cbn [app]; discriminate.
Qed.

(* general form: any limit at least the smallest bucket; no upper bound on the limit is needed *)
Theorem all_lengths_accepted_gen : forall max budget cap len,
  256 <= max -> 1 <= cap -> 2 * max <= budget -> len <= max ->
  bucket_for (geometry 256 max budget cap 2 1 2) len <> None.
Proof.
  intros max budget cap len Hmax Hcap Hb Hlen.
  unfold geometry.
  destruct (bucket_sizes_top 256 max 2 Hmax) as [r Hr]. rewrite Hr.
  destruct (alloc_head max r budget cap) as (cnt & t & Ha); [lia | exact Hcap | exact Hb |].
  rewrite Ha. cbn [rev]. apply bucket_for_last. exact Hlen.
Qed.

(* limit not (necessarily) on the ladder *)
Theorem all_lengths_accepted_offladder : forall max budget cap len,
  256 <= max -> max < 2 ^ 60 -> 1 <= cap -> 2 * max <= budget -> len <= max ->
  bucket_for (geometry 256 max budget cap 2 1 2) len <> None.
Proof.
  intros max budget cap len Hmax _ Hcap Hb Hlen.
  apply all_lengths_accepted_gen; assumption.
Qed.

(* limit on the ladder *)
Theorem all_lengths_accepted : forall k budget cap len,
  (k < 60)%nat -> 1 <= cap -> 2 * (256 * 2 ^ N.of_nat k) <= budget ->
  len <= 256 * 2 ^ N.of_nat k ->
  bucket_for (geometry 256 (256 * 2 ^ N.of_nat k) budget cap 2 1 2) len <> None.
Proof.
  intros k budget cap len _ Hcap Hb Hlen.
  apply all_lengths_accepted_gen; try assumption.
  assert (0 < 2 ^ N.of_nat k) by (apply N.neq_0_lt_0, N.pow_nonzero; discriminate).
  lia.
Qed.

Print Assumptions all_lengths_accepted_gen.
Print Assumptions all_lengths_accepted_offladder.
Print Assumptions all_lengths_accepted.
