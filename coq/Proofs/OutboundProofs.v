(* Outbound writer: prefix/completeness of write_all under arbitrary partial writes, batching
   independence of write_batches, bounded queue specification. *)
From NW Require Import Base.Bytes Model.SchemaTypes Model.Codec Model.Outbound.

Local Open Scope nat_scope.

(* ------------------------------------------------------------------ list helpers *)

Lemma firstn_add_skipn {A} : forall n k (l : list A),
  firstn (n + k) l = firstn n l ++ firstn k (skipn n l).
Proof.
  induction n as [|n IH]; intros k l; [reflexivity|].
  destruct l as [|x l]; cbn [Nat.add firstn skipn app].
  - rewrite firstn_nil. reflexivity.
  - rewrite IH. reflexivity.
Qed.

Lemma concat_flat_map {A B} (f : A -> list (list B)) (l : list A) :
  concat (flat_map f l) = concat (map (fun x => concat (f x)) l).
Proof.
  induction l as [|x l IH]; [reflexivity|].
  cbn [flat_map map concat]. rewrite concat_app, IH. reflexivity.
Qed.

(* ------------------------------------------------------------------ frames *)

Theorem frame_bytes_shape : forall h p,
  frame_bytes (h, Some p) = h ++ p ++ [NL] /\ frame_bytes (h, None) = h.
Proof.
  intros h p. unfold frame_bytes, iovs_of. cbn [fst snd concat]. split.
  - rewrite app_nil_r. reflexivity.
  - apply app_nil_r.
Qed.

Lemma concat_prepare_iovs b : concat (prepare_iovs b) = concat (map frame_bytes b).
Proof. unfold prepare_iovs, frame_bytes. apply concat_flat_map. Qed.

Lemma frames_of_batches bs :
  concat (map (fun b => concat (prepare_iovs b)) bs) = concat (map frame_bytes (concat bs)).
Proof.
  induction bs as [|b r IH]; [reflexivity|].
  cbn [map concat]. rewrite map_app, concat_app, IH, concat_prepare_iovs. reflexivity.
Qed.

(* ------------------------------------------------------------------ 1. advance_slices *)

Lemma advance_slices_concat_gen : forall bufs n,
  concat (advance_slices bufs n) = skipn n (concat bufs).
Proof.
  induction bufs as [|b r IH]; intro n; cbn [advance_slices concat].
  - rewrite skipn_nil. reflexivity.
  - rewrite skipn_app. destruct (Nat.leb_spec (length b) n) as [H|H].
    + replace (skipn n b) with (@nil N) by (symmetry; apply skipn_all2; exact H).
      rewrite IH. reflexivity.
    + cbn [concat]. replace (n - length b) with 0 by lia. reflexivity.
Qed.

Theorem advance_slices_concat : forall bufs n, n <= total bufs ->
  concat (advance_slices bufs n) = skipn n (concat bufs) /\
  total (advance_slices bufs n) = total bufs - n.
Proof.
  intros bufs n _. split; [apply advance_slices_concat_gen|].
  unfold total. rewrite advance_slices_concat_gen, skipn_length. reflexivity.
Qed.

Lemma advance_slices_total : forall bufs n,
  total (advance_slices bufs n) = total bufs - n.
Proof. intros. unfold total. rewrite advance_slices_concat_gen, skipn_length. reflexivity. Qed.

Lemma advance_slices_all : forall bufs, advance_slices bufs (total bufs) = [].
Proof.
  induction bufs as [|b r IH]; [reflexivity|].
  unfold total in *. cbn [advance_slices concat]. rewrite app_length.
  destruct (Nat.leb_spec (length b) (length b + length (concat r))) as [H|H]; [|lia].
  replace (length b + length (concat r) - length b) with (length (concat r)) by lia. exact IH.
Qed.

(* slices that write_all can finish: no slices at all, or at least one byte to write.
   (A non-empty list of empty slices makes the model's loop report a zero-length write.) *)
Definition good (bufs : list (list N)) : Prop := bufs = [] \/ 0 < total bufs.

Lemma advance_slices_good : forall bufs n, n <= total bufs -> good (advance_slices bufs n).
Proof.
  intros bufs n H. destruct (Nat.eq_dec n (total bufs)) as [->|Hne].
  - left. apply advance_slices_all.
  - right. rewrite advance_slices_total. lia.
Qed.

(* ------------------------------------------------------------------ write_all equations *)

Lemma write_all_nil oracle written : write_all oracle [] written = (written, WDone, oracle).
Proof. destruct oracle; reflexivity. Qed.

Lemma write_all_starved bufs written : bufs <> [] -> write_all [] bufs written = (written, WStarved, []).
Proof. destruct bufs; [congruence|reflexivity]. Qed.

Lemma write_all_err o bufs written : bufs <> [] ->
  write_all (WErr :: o) bufs written = (written, WFailed, o).
Proof. destruct bufs; [congruence|reflexivity]. Qed.

Lemma write_all_accept k o bufs written : bufs <> [] ->
  write_all (Accept k :: o) bufs written =
    if Nat.min k (total bufs) =? 0 then (written, WFailed, o)
    else write_all o (advance_slices bufs (Nat.min k (total bufs)))
                   (written ++ firstn (Nat.min k (total bufs)) (concat bufs)).
Proof. destruct bufs; [congruence|reflexivity]. Qed.

Lemma nil_dec (bufs : list (list N)) : {bufs = []} + {bufs <> []}.
Proof. destruct bufs; [left; reflexivity | right; discriminate]. Qed.

(* ------------------------------------------------------------------ 2. prefix invariant *)

Theorem write_all_prefix : forall oracle bufs written w res o',
  write_all oracle bufs written = (w, res, o') ->
  exists k, k <= total bufs /\ w = written ++ firstn k (concat bufs) /\
            (res = WDone -> k = total bufs).
Proof.
  induction oracle as [|e o IH]; intros bufs written w res o' H.
  - destruct (nil_dec bufs) as [->|Hne].
    + rewrite write_all_nil in H. injection H as <- <- <-.
      exists 0. cbn. rewrite app_nil_r. auto.
    + rewrite write_all_starved in H by exact Hne. injection H as <- <- <-.
      exists 0. cbn [firstn]. rewrite app_nil_r. repeat split; [lia|discriminate].
  - destruct (nil_dec bufs) as [->|Hne].
    + rewrite write_all_nil in H. injection H as <- <- <-.
      exists 0. cbn. rewrite app_nil_r. auto.
    + destruct e as [k|].
      * rewrite write_all_accept in H by exact Hne.
        set (n := Nat.min k (total bufs)) in *.
        destruct (Nat.eqb_spec n 0) as [Hz|Hnz].
        -- injection H as <- <- <-. exists 0. cbn [firstn]. rewrite app_nil_r.
           repeat split; [lia|discriminate].
        -- apply IH in H. destruct H as (k' & Hk' & Hw & Hd).
           rewrite advance_slices_total in Hk', Hd.
           rewrite advance_slices_concat_gen in Hw.
           assert (Hn : n <= total bufs) by (subst n; lia).
           exists (n + k'). repeat split.
           ++ lia.
           ++ rewrite Hw, <- app_assoc, firstn_add_skipn. reflexivity.
           ++ intro E. specialize (Hd E). lia.
      * rewrite write_all_err in H by exact Hne. injection H as <- <- <-.
        exists 0. cbn [firstn]. rewrite app_nil_r. repeat split; [lia|discriminate].
Qed.

(* ------------------------------------------------------------------ 3. completeness *)

(* a transport call that makes progress *)
Definition pos (e : wres) : Prop := match e with Accept k => 1 <= k | WErr => False end.

(* REFUTED as literally stated (no condition on the slices): a non-empty list of empty slices
   fails even under an all-positive, long-enough oracle. *)
Example write_all_complete_refuted :
  Forall pos [Accept 1] /\ total [[]] <= length [Accept 1] /\
  write_all [Accept 1] [[]] [] = ([], WFailed, []).
Proof. split; [repeat constructor|split; [cbn; lia|reflexivity]]. Qed.

Theorem write_all_complete : forall oracle bufs written,
  Forall pos oracle -> good bufs -> total bufs <= length oracle ->
  exists used o', oracle = used ++ o' /\ length used <= total bufs /\
    write_all oracle bufs written = (written ++ concat bufs, WDone, o').
Proof.
  induction oracle as [|e o IH]; intros bufs written Hpos Hgood Hlen.
  - destruct Hgood as [->|Hgood]; [|cbn in Hlen; lia].
    exists [], []. cbn. rewrite app_nil_r. repeat split. lia.
  - destruct (nil_dec bufs) as [->|Hne].
    + exists [], (e :: o). cbn. rewrite app_nil_r. repeat split. lia.
    + destruct Hgood as [->|Hgood]; [congruence|].
      inversion Hpos as [|? ? He Ho]; subst.
      destruct e as [k|]; [|contradiction]. cbn [pos] in He.
      rewrite write_all_accept by exact Hne.
      set (n := Nat.min k (total bufs)) in *.
      assert (Hn : 1 <= n <= total bufs) by (subst n; lia).
      destruct (Nat.eqb_spec n 0) as [Hz|_]; [lia|].
      cbn [length] in Hlen.
      destruct (IH (advance_slices bufs n) (written ++ firstn n (concat bufs)) Ho)
        as (used & o' & Eo & Hu & Hw).
      * apply advance_slices_good. lia.
      * rewrite advance_slices_total. lia.
      * exists (Accept k :: used), o'. repeat split.
        -- cbn [app]. rewrite Eo. reflexivity.
        -- rewrite advance_slices_total in Hu. cbn [length]. lia.
        -- rewrite Hw, advance_slices_concat_gen, <- app_assoc, firstn_skipn. reflexivity.
Qed.

(* the form asked for: everything written, exactly once, in order, some leftover oracle *)
Corollary write_all_complete' : forall oracle bufs written,
  Forall pos oracle -> good bufs -> total bufs <= length oracle ->
  exists o', write_all oracle bufs written = (written ++ concat bufs, WDone, o').
Proof.
  intros oracle bufs written H1 H2 H3.
  destruct (write_all_complete oracle bufs written H1 H2 H3) as (_ & o' & _ & _ & H).
  exists o'. exact H.
Qed.

(* one byte per call is enough: oracle of exactly `total bufs` one-byte accepts *)
Corollary write_all_one_byte_per_call : forall bufs written, good bufs ->
  exists o', write_all (repeat (Accept 1) (total bufs)) bufs written = (written ++ concat bufs, WDone, o').
Proof.
  intros bufs written Hg. apply write_all_complete'; [|exact Hg|rewrite repeat_length; lia].
  apply Forall_forall. intros e He. apply repeat_spec in He. subst. cbn. lia.
Qed.

(* failures are never spurious: the consumed part of the oracle is a run of progressing
   accepts followed by the culprit: an error, a zero-length accept, or (only at the very first
   call) a non-empty list of slices with nothing to write *)
Theorem write_all_failed_cause : forall oracle bufs written w o',
  write_all oracle bufs written = (w, WFailed, o') ->
  exists pre e, oracle = pre ++ e :: o' /\ Forall pos pre /\
    (e = WErr \/ e = Accept 0 \/ (pre = [] /\ bufs <> [] /\ total bufs = 0)).
Proof.
  induction oracle as [|e o IH]; intros bufs written w o' H.
  - destruct (nil_dec bufs) as [->|Hne].
    + rewrite write_all_nil in H. discriminate.
    + rewrite write_all_starved in H by exact Hne. discriminate.
  - destruct (nil_dec bufs) as [->|Hne].
    + rewrite write_all_nil in H. discriminate.
    + destruct e as [k|].
      * rewrite write_all_accept in H by exact Hne.
        set (n := Nat.min k (total bufs)) in *.
        destruct (Nat.eqb_spec n 0) as [Hz|Hnz].
        -- injection H as <- <-. exists [], (Accept k). repeat split; [constructor|].
           destruct k as [|k]; [right; left; reflexivity|].
           right; right. repeat split; [exact Hne|]. subst n. lia.
        -- assert (Hn : n <= total bufs) by (subst n; lia).
           apply IH in H. destruct H as (pre & e & Eo & Hpre & Hc).
           exists (Accept k :: pre), e. repeat split.
           ++ cbn [app]. rewrite Eo. reflexivity.
           ++ constructor; [cbn; subst n; lia|exact Hpre].
           ++ destruct Hc as [Hc|[Hc|(_ & Hc1 & Hc2)]]; [left; exact Hc|right; left; exact Hc|].
              exfalso. destruct (advance_slices_good bufs n Hn) as [G|G]; [congruence|lia].
      * rewrite write_all_err in H by exact Hne. injection H as <- <-.
        exists [], WErr. repeat split; [constructor|left; reflexivity].
Qed.

(* the weaker membership form *)
Corollary write_all_failed_in : forall oracle bufs written w o',
  write_all oracle bufs written = (w, WFailed, o') ->
  exists used, oracle = used ++ o' /\
    (In WErr used \/ In (Accept 0) used \/ (bufs <> [] /\ total bufs = 0)).
Proof.
  intros oracle bufs written w o' H.
  apply write_all_failed_cause in H. destruct H as (pre & e & Eo & _ & Hc).
  exists (pre ++ [e]). split; [rewrite <- app_assoc; exact Eo|].
  destruct Hc as [->|[->|(_ & H1 & H2)]].
  - left. apply in_or_app. right. left. reflexivity.
  - right. left. apply in_or_app. right. left. reflexivity.
  - right. right. split; assumption.
Qed.

(* contrapositive: under progressing accepts, well-formed slices never fail (whatever the length
   of the oracle: the only other outcome is starvation) *)
Corollary write_all_never_fails : forall oracle bufs written w res o',
  Forall pos oracle -> good bufs ->
  write_all oracle bufs written = (w, res, o') -> res <> WFailed.
Proof.
  intros oracle bufs written w res o' Hpos Hg H ->.
  apply write_all_failed_cause in H. destruct H as (pre & e & Eo & _ & Hc).
  subst oracle. apply Forall_app in Hpos as [_ Hpos]. inversion Hpos as [|? ? He _]; subst.
  destruct Hc as [->|[->|(_ & H1 & H2)]].
  - exact He.
  - cbn in He. lia.
  - destruct Hg as [G|G]; [congruence|lia].
Qed.

(* ------------------------------------------------------------------ 4. batching independence *)

Definition good_batch (b : list item) : Prop := good (prepare_iovs b).

(* every item contributes at least one byte (true of every real item: a header line ends in NL) *)
Definition wf_item (it : item) : Prop := frame_bytes it <> [].

Lemma header_nonempty_wf it : fst it <> [] -> wf_item it.
Proof.
  destruct it as [h [p|]]; cbn [fst]; intros H E; unfold wf_item in *;
    [rewrite (proj1 (frame_bytes_shape h p)) in E | rewrite (proj2 (frame_bytes_shape h [])) in E].
  - apply app_eq_nil in E as [E _]. congruence.
  - congruence.
Qed.

Lemma payload_wf h p : wf_item (h, Some p).
Proof.
  unfold wf_item. rewrite (proj1 (frame_bytes_shape h p)). intro E.
  apply app_eq_nil in E as [_ E]. apply app_eq_nil in E as [_ E]. discriminate.
Qed.

Lemma wf_items_good_batch b : Forall wf_item b -> good_batch b.
Proof.
  intro H. destruct b as [|it r]; [left; reflexivity|]. right.
  inversion H as [|? ? Hit _]; subst. unfold wf_item in Hit.
  unfold total. rewrite concat_prepare_iovs. cbn [map concat]. rewrite app_length.
  destruct (frame_bytes it); [congruence|cbn; lia].
Qed.

Lemma wf_items_good_batches bs : Forall wf_item (concat bs) -> Forall good_batch bs.
Proof.
  induction bs as [|b r IH]; intro H; [constructor|].
  cbn [concat] in H. apply Forall_app in H as [Hb Hr].
  constructor; [apply wf_items_good_batch; exact Hb | apply IH; exact Hr].
Qed.

(* REFUTED as literally stated (no condition on the items): an item with empty header and no
   payload yields the single empty slice, which the model's write loop reports as a failure
   (or as starvation under the empty oracle, which is long enough for zero bytes). *)
Example write_batches_complete_refuted :
  Forall pos [Accept 1] /\
  length (concat (map (fun b => concat (prepare_iovs b)) [[([], None)]])) <= length [Accept 1] /\
  write_batches [Accept 1] [[([], None)]] [] = ([], WFailed) /\
  write_batches [] [[([], None)]] [] = ([], WStarved).
Proof. split; [repeat constructor|split; [cbn; lia|split; reflexivity]]. Qed.

Theorem write_batches_complete_gen : forall bs oracle written,
  Forall pos oracle -> Forall good_batch bs ->
  length (concat (map (fun b => concat (prepare_iovs b)) bs)) <= length oracle ->
  write_batches oracle bs written = (written ++ concat (map frame_bytes (concat bs)), WDone).
Proof.
  induction bs as [|b r IH]; intros oracle written Hpos Hg Hlen.
  - cbn. rewrite app_nil_r. reflexivity.
  - inversion Hg as [|? ? Hb Hr]; subst.
    cbn [map concat] in Hlen. rewrite app_length in Hlen.
    destruct (write_all_complete oracle (prepare_iovs b) written Hpos Hb)
      as (used & o' & Eo & Hu & Hw); [unfold total; lia|].
    cbn [write_batches]. rewrite Hw. subst oracle.
    apply Forall_app in Hpos as [_ Hpos']. rewrite app_length in Hlen. unfold total in Hu.
    rewrite IH; [|exact Hpos'|exact Hr|lia].
    cbn [concat]. rewrite map_app, concat_app, concat_prepare_iovs, <- app_assoc. reflexivity.
Qed.

Theorem write_batches_complete : forall bs oracle written,
  Forall pos oracle -> Forall wf_item (concat bs) ->
  length (concat (map (fun b => concat (prepare_iovs b)) bs)) <= length oracle ->
  write_batches oracle bs written = (written ++ concat (map frame_bytes (concat bs)), WDone).
Proof.
  intros bs oracle written Hpos Hwf Hlen.
  apply write_batches_complete_gen; [exact Hpos|apply wf_items_good_batches; exact Hwf|exact Hlen].
Qed.

Corollary write_batches_complete_headers : forall bs oracle written,
  Forall pos oracle -> Forall (fun it => fst it <> []) (concat bs) ->
  length (concat (map frame_bytes (concat bs))) <= length oracle ->
  write_batches oracle bs written = (written ++ concat (map frame_bytes (concat bs)), WDone).
Proof.
  intros bs oracle written Hpos Hh Hlen. apply write_batches_complete; [exact Hpos| |].
  - eapply Forall_impl; [|exact Hh]. intros it. apply header_nonempty_wf.
  - rewrite frames_of_batches. exact Hlen.
Qed.

Corollary batching_irrelevant : forall bs1 bs2 o1 o2 written,
  concat bs1 = concat bs2 ->
  Forall wf_item (concat bs1) ->
  Forall pos o1 -> Forall pos o2 ->
  length (concat (map frame_bytes (concat bs1))) <= length o1 ->
  length (concat (map frame_bytes (concat bs1))) <= length o2 ->
  write_batches o1 bs1 written = write_batches o2 bs2 written /\
  write_batches o1 bs1 written = (written ++ concat (map frame_bytes (concat bs1)), WDone).
Proof.
  intros bs1 bs2 o1 o2 written E Hwf H1 H2 L1 L2.
  rewrite (write_batches_complete bs1 o1 written H1 Hwf) by (rewrite frames_of_batches; exact L1).
  rewrite (write_batches_complete bs2 o2 written H2) by
    (rewrite <- ?E, ?frames_of_batches, <- ?E; assumption).
  rewrite E. split; reflexivity.
Qed.

(* ------------------------------------------------------------------ 5. prefix on every outcome *)

Theorem write_batches_prefix : forall bs oracle written w res,
  write_batches oracle bs written = (w, res) ->
  exists k, k <= length (concat (map frame_bytes (concat bs))) /\
    w = written ++ firstn k (concat (map frame_bytes (concat bs))) /\
    (res = WDone -> k = length (concat (map frame_bytes (concat bs)))).
Proof.
  induction bs as [|b r IH]; intros oracle written w res H.
  - cbn in H. injection H as <- <-. exists 0. cbn. rewrite app_nil_r. auto.
  - cbn [write_batches] in H.
    destruct (write_all oracle (prepare_iovs b) written) as [[w1 res1] o1] eqn:Ew.
    apply write_all_prefix in Ew. destruct Ew as (k & Hk & Hw1 & Hd).
    unfold total in Hk, Hd. rewrite concat_prepare_iovs in Hk, Hw1, Hd.
    cbn [concat]. rewrite map_app, concat_app.
    set (fb := concat (map frame_bytes b)) in *.
    set (fr := concat (map frame_bytes (concat r))) in *.
    assert (Hother : res1 <> WDone -> (w, res) = (w1, res1) ->
      exists k0, k0 <= length (fb ++ fr) /\ w = written ++ firstn k0 (fb ++ fr) /\
                 (res = WDone -> k0 = length (fb ++ fr))).
    { intros Hne E. injection E as -> ->. exists k. rewrite app_length. repeat split.
      - lia.
      - rewrite firstn_app. replace (k - length fb) with 0 by lia.
        cbn [firstn]. rewrite app_nil_r. exact Hw1.
      - intro; contradiction. }
    destruct res1.
    + clear Hother. specialize (Hd eq_refl). subst k.
      apply IH in H. destruct H as (k' & Hk' & Hw & Hd'). fold fr in Hk', Hw, Hd'.
      rewrite firstn_all in Hw1.
      exists (length fb + k'). rewrite app_length. repeat split.
      * lia.
      * rewrite firstn_app, firstn_all2 by lia.
        replace (length fb + k' - length fb) with k' by lia.
        rewrite Hw, Hw1, <- app_assoc. reflexivity.
      * intro E. specialize (Hd' E). lia.
    + apply Hother; [discriminate|symmetry; exact H].
    + apply Hother; [discriminate|symmetry; exact H].
Qed.

(* ------------------------------------------------------------------ 6. bounded queue *)

(* holds without any assumption on length q (in particular under length q <= cap) *)
Theorem enqueue_all_spec : forall cap q its q' c,
  enqueue_all cap q its = (q', c) ->
  q' = q ++ firstn (cap - length q) its /\ (c = true <-> cap - length q < length its).
Proof.
  intros cap q its; revert q. induction its as [|it r IH]; intros q q' c H.
  - cbn in H. injection H as <- <-. rewrite firstn_nil, app_nil_r. split; [reflexivity|].
    cbn. split; [discriminate|lia].
  - cbn [enqueue_all] in H. unfold try_send in H.
    destruct (Nat.ltb_spec (length q) cap) as [Hlt|Hge].
    + destruct (enqueue_all cap (q ++ [it]) r) as [q1 c1] eqn:E.
      injection H as <- <-. apply IH in E. destruct E as [Eq Ec].
      rewrite app_length in Eq, Ec. cbn [length] in Eq, Ec.
      replace (cap - length q) with (S (cap - (length q + 1))) by lia.
      cbn [firstn length orb]. split.
      * rewrite Eq, <- app_assoc. reflexivity.
      * rewrite Ec. lia.
    + destruct (enqueue_all cap q r) as [q1 c1] eqn:E.
      injection H as <- <-. apply IH in E. destruct E as [Eq _].
      replace (cap - length q) with 0 in * by lia.
      cbn [firstn orb length] in *. split; [exact Eq|]. split; [lia|reflexivity].
Qed.

(* the statement in the requested form *)
Corollary enqueue_all_spec_bounded : forall cap q its q' c,
  length q <= cap -> enqueue_all cap q its = (q', c) ->
  q' = q ++ firstn (cap - length q) its /\ (c = true <-> cap - length q < length its).
Proof. intros cap q its q' c _. apply enqueue_all_spec. Qed.

(* consequences: never beyond capacity, no close without overflow, no overflow without close *)
Corollary enqueue_all_bounded : forall cap q its q' c,
  length q <= cap -> enqueue_all cap q its = (q', c) -> length q' <= cap.
Proof.
  intros cap q its q' c Hq H. apply enqueue_all_spec in H as [-> _].
  rewrite app_length, firstn_length. lia.
Qed.

Corollary enqueue_all_no_silent_drop : forall cap q its q' c,
  enqueue_all cap q its = (q', c) -> c = false -> q' = q ++ its.
Proof.
  intros cap q its q' c H Hc. apply enqueue_all_spec in H as [-> Hiff].
  rewrite firstn_all2; [reflexivity|].
  destruct (Nat.lt_ge_cases (cap - length q) (length its)) as [Hlt|Hge]; [|exact Hge].
  apply Hiff in Hlt. congruence.
Qed.

(* a family of per-connection queues; sending to connection i *)
Fixpoint upd {A} (l : list A) (i : nat) (x : A) : list A :=
  match l, i with
  | [], _ => []
  | _ :: r, 0 => x :: r
  | y :: r, S i' => y :: upd r i' x
  end.

Definition send_to (cap : nat) (qs : list (list item)) (i : nat) (it : item) : list (list item) * bool :=
  match nth_error qs i with
  | Some q => let '(q', c) := try_send cap q it in (upd qs i q', c)
  | None => (qs, false)
  end.

Lemma nth_error_upd_other {A} : forall (l : list A) i j x, j <> i ->
  nth_error (upd l i x) j = nth_error l j.
Proof.
  induction l as [|y r IH]; intros i j x H; [destruct i; reflexivity|].
  destruct i as [|i], j as [|j]; cbn; try reflexivity; try congruence.
  apply IH. congruence.
Qed.

Lemma nth_error_upd_same {A} : forall (l : list A) i x y,
  nth_error l i = Some y -> nth_error (upd l i x) i = Some x.
Proof.
  induction l as [|z r IH]; intros i x y H; destruct i; cbn in *; try discriminate; [reflexivity|].
  eapply IH. exact H.
Qed.

Lemma upd_length {A} : forall (l : list A) i x, length (upd l i x) = length l.
Proof. induction l as [|y r IH]; intros [|i] x; cbn; auto. Qed.

Theorem try_send_other_queues : forall cap qs i it j, j <> i ->
  nth_error (fst (send_to cap qs i it)) j = nth_error qs j.
Proof.
  intros cap qs i it j H. unfold send_to.
  destruct (nth_error qs i) as [q|]; [|reflexivity].
  destruct (try_send cap q it) as [q' c]. cbn [fst]. apply nth_error_upd_other. exact H.
Qed.

(* the target queue and the close flag depend on the target queue only *)
Theorem send_to_target : forall cap qs i it q,
  nth_error qs i = Some q ->
  nth_error (fst (send_to cap qs i it)) i = Some (fst (try_send cap q it)) /\
  snd (send_to cap qs i it) = snd (try_send cap q it) /\
  length (fst (send_to cap qs i it)) = length qs.
Proof.
  intros cap qs i it q H. unfold send_to. rewrite H.
  destruct (try_send cap q it) as [q' c]. cbn [fst snd].
  repeat split; [eapply nth_error_upd_same; exact H | apply upd_length].
Qed.

(* two families agreeing at index i give the same result at i, whatever the other queues hold *)
Corollary send_to_depends_only_on_target : forall cap qs1 qs2 i it,
  nth_error qs1 i = nth_error qs2 i ->
  nth_error (fst (send_to cap qs1 i it)) i = nth_error (fst (send_to cap qs2 i it)) i /\
  snd (send_to cap qs1 i it) = snd (send_to cap qs2 i it).
Proof.
  intros cap qs1 qs2 i it E.
  destruct (nth_error qs1 i) as [q|] eqn:E1.
  - symmetry in E.
    destruct (send_to_target cap qs1 i it q E1) as (A1 & B1 & _).
    destruct (send_to_target cap qs2 i it q E) as (A2 & B2 & _).
    rewrite A1, A2, B1, B2. split; reflexivity.
  - symmetry in E. unfold send_to. rewrite E1, E. cbn [fst snd]. rewrite E1, E. split; reflexivity.
Qed.

(* ------------------------------------------------------------------ 7. non-vacuity *)

Definition ex_batch : list item :=
  [ ([72; 73; NL], Some [1; NL; 2; NL]);
    ([80; NL], None);
    ([77; 83; 71; NL], Some [NL; NL; 9]) ]%N.

Definition ex_frames : list N :=
  [72; 73; NL; 1; NL; 2; NL; NL;  80; NL;  77; 83; 71; NL; NL; NL; 9; NL]%N.

Example ex_frames_ok : concat (map frame_bytes ex_batch) = ex_frames.
Proof. vm_compute. reflexivity. Qed.

Example ex_partial_writes :
  write_all [Accept 1; Accept 1; Accept 2; Accept 1000] (prepare_iovs ex_batch) [] = (ex_frames, WDone, []).
Proof. vm_compute. reflexivity. Qed.

Example ex_partial_writes_batches :
  write_batches [Accept 1; Accept 1; Accept 2; Accept 1000] [ex_batch] [] = (ex_frames, WDone).
Proof. vm_compute. reflexivity. Qed.

Example ex_failure_prefix :
  write_all [Accept 3; WErr] (prepare_iovs ex_batch) [] = ([72; 73; NL]%N, WFailed, []) /\
  write_batches [Accept 3; WErr] [ex_batch] [] = (firstn 3 ex_frames, WFailed).
Proof. vm_compute. split; reflexivity. Qed.

(* one byte per call, and a different batching of the same items: same stream *)
Example ex_one_byte_rebatched :
  write_batches (repeat (Accept 1) 18) [firstn 1 ex_batch; []; skipn 1 ex_batch] [] = (ex_frames, WDone).
Proof. vm_compute. reflexivity. Qed.

Example ex_enqueue_overflow :
  enqueue_all 2 [([1%N], None)] [([2%N], None); ([3%N], None)] = ([([1%N], None); ([2%N], None)], true).
Proof. vm_compute. reflexivity. Qed.

Print Assumptions frame_bytes_shape.
Print Assumptions advance_slices_concat.
Print Assumptions write_all_prefix.
Print Assumptions write_all_complete.
Print Assumptions write_all_complete'.
Print Assumptions write_all_one_byte_per_call.
Print Assumptions write_all_failed_cause.
Print Assumptions write_all_failed_in.
Print Assumptions write_all_never_fails.
Print Assumptions write_batches_complete_gen.
Print Assumptions write_batches_complete.
Print Assumptions write_batches_complete_headers.
Print Assumptions batching_irrelevant.
Print Assumptions write_batches_prefix.
Print Assumptions enqueue_all_spec.
Print Assumptions enqueue_all_spec_bounded.
Print Assumptions enqueue_all_bounded.
Print Assumptions enqueue_all_no_silent_drop.
Print Assumptions try_send_other_queues.
Print Assumptions send_to_target.
Print Assumptions send_to_depends_only_on_target.
Print Assumptions write_all_complete_refuted.
Print Assumptions write_batches_complete_refuted.
Print Assumptions ex_partial_writes.
Print Assumptions ex_failure_prefix.
