(* Interleaved model: limits and confinement, for every schedule (small invariants, independent of Proofs/ConcInv.v). *)
From Coq Require Import List NArith Bool Lia.
From NW Require Import Model.Conc Proofs.ConcDefs.
Import ListNotations.
Open Scope N_scope.

(* ---------- small library ---------- *)
Lemma len_del_le u (l : list N) : len (del u l) <= len l.
Proof. unfold len, del. induction l; cbn [filter length]; [lia|]. destruct (negb (a =? u)); cbn [length]; lia. Qed.

Lemma len_add_le u (l : list N) : len (add u l) <= len l + 1.
Proof. unfold len, add. destruct (mem u l); [lia|]. rewrite app_length. cbn [length]. lia. Qed.

Lemma len_nil_le (M : N) : len (@nil N) <= M.
Proof. unfold len. cbn [length]. lia. Qed.

Lemma In_del c x (l : list N) : In c (del x l) <-> In c l /\ c <> x.
Proof.
  unfold del. rewrite filter_In. split; intros [H1 H2]; split; auto.
  - intro; subst. rewrite N.eqb_refl in H2. discriminate.
  - apply negb_true_iff. apply N.eqb_neq. exact H2.
Qed.

(* every schedule: a property kept by every step holds after every run *)
Lemma crun_inv cf (P : cstate -> Prop) :
  (forall s e, P s -> P (fst (cstep cf s e))) -> forall es s, P s -> P (fst (crun cf s es)).
Proof.
  intros Hs es. induction es as [|e r IH]; intros s Hp; cbn [crun fst]; [exact Hp|].
  destruct (cstep cf s e) as [s1 o1] eqn:E1. specialize (IH s1).
  destruct (crun cf s1 r) as [s2 o2]. cbn [fst] in *. apply IH. specialize (Hs s e Hp). rewrite E1 in Hs. exact Hs.
Qed.

Ltac unf_set := unfold unlock, lock, put_obj, idx_add, idx_del, unmap, set_objs, set_next, set_cmap, set_idx, set_reg, set_wl, set_cuser in *.
Ltac red_g := cbn [objs next_oid cmap idx reg wl cuser fst snd cg members owner obj_insert obj_remove obj_set_owner] in *.

(* split on the test that decides the result of a step function *)
Ltac hd1 :=
  match goal with
  | |- context [fst (match ?x with _ => _ end)] => destruct x eqn:?
  | |- context [snd (match ?x with _ => _ end)] => destruct x eqn:?
  end; cbn [fst snd].
Ltac unf_steps := unfold join_start, join_locked, join_finish, leave_start, leave_locked, leave_after_n1, leave_after_n2, leave_end,
                         bcast_lookup, bcast_read, members_read; cbv beta iota zeta.

(* dropping a task, cancelling a connection's tasks: only locks change *)
Lemma release_frame g k :
  objs (release_of g k) = objs g /\ idx (release_of g k) = idx g /\ reg (release_of g k) = reg g /\ cuser (release_of g k) = cuser g.
Proof. unfold release_of. destruct (holds (t_pc k)); unf_set; red_g; auto. Qed.

Lemma fold_frame c (l : list (tid * task)) : forall g,
  let g1 := fold_left (fun acc e => if of_conn c (snd e) then release_of acc (snd e) else acc) l g in
  objs g1 = objs g /\ idx g1 = idx g /\ reg g1 = reg g /\ cuser g1 = cuser g.
Proof.
  induction l as [|e r IH]; intro g; cbn [fold_left]; [auto|].
  specialize (IH (if of_conn c (snd e) then release_of g (snd e) else g)). cbv zeta in *.
  destruct IH as (a&b&c0&d). rewrite a, b, c0, d. destruct (of_conn c (snd e)); [apply release_frame|auto].
Qed.

(* ---------- a bound on the lists of a map ---------- *)
Definition Pl {A} (pr : A -> list N) (M : N) (f : N -> A) : Prop := forall x, len (pr (f x)) <= M.
Lemma Pl_upd {A} (pr : A -> list N) M f k v : Pl pr M f -> len (pr v) <= M -> Pl pr M (upd f k v).
Proof. intros H Hv x. unfold upd. destruct (x =? k); auto. Qed.

Ltac side H :=
  cbv beta; red_g;
  try match goal with |- len (del ?n ?l) <= _ => eapply N.le_trans; [apply len_del_le|] end;
  solve [ apply H | apply len_nil_le
        | match goal with |- len (add ?n ?l) <= _ =>
            repeat match goal with Hc : (_ <=? _) = false |- _ => apply N.leb_gt in Hc end;
            pose proof (len_add_le n l); unfold chan, user, oid, conn, tid in *; lia end ].
Ltac rest_split := repeat match goal with |- context [match ?x with _ => _ end] => destruct x eqn:? end.
Ltac leaf H := rest_split; unf_set; red_g; repeat (apply Pl_upd; [|side H]); try exact H.

(* ---------- C14: the subscription limit ---------- *)
Section Subs.
  Variable cf : ccfg.
  Hypothesis He : idx_early cf = true.
  Variables (t : tid) (tc : option conn) (me : user).
  Notation P g := (Pl (fun l => l) (c_max_subs cf) (idx g)).

  Lemma subs_join_locked g ch o created ob id : P g -> P (fst (fst (join_locked cf t tc me g ch o created ob id))).
  Proof. intro H. unf_steps. rewrite He. cbv beta iota zeta. repeat hd1; leaf H. Qed.

  Lemma subs_seg g p ok hint : P g -> P (fst (fst (seg cf t tc me g p ok hint))).
  Proof.
    intro H. destruct p as [[]| | | | | | | | |]; cbn [seg].
    - unfold join_start. repeat hd1; try apply subs_join_locked; leaf H.
    - unf_steps. repeat hd1; leaf H.
    - unf_steps. repeat hd1; leaf H.
    - unf_steps. repeat hd1; leaf H.
    - leaf H.
    - hd1; [apply subs_join_locked|]; leaf H.
    - unf_steps. rewrite He. cbv beta iota zeta. repeat hd1; leaf H.
    - unf_steps. repeat hd1; leaf H.
    - unf_steps. repeat hd1; leaf H.
    - unf_steps. repeat hd1; leaf H.
    - unf_steps. repeat hd1; leaf H.
    - unf_steps. repeat hd1; leaf H.
    - unf_steps. repeat hd1; leaf H.
    - leaf H.
  Qed.
End Subs.

(* ---------- C14: the member limit ---------- *)
Section Mem.
  Variable cf : ccfg.
  Variables (t : tid) (tc : option conn) (me : user).
  Notation P g := (Pl members (c_max_clients cf) (objs g)).

  Lemma mem_join_locked g ch o created ob id : P g -> P (fst (fst (join_locked cf t tc me g ch o created ob id))).
  Proof. intro H. unf_steps. repeat hd1; leaf H. Qed.

  Lemma mem_seg g p ok hint : P g -> P (fst (fst (seg cf t tc me g p ok hint))).
  Proof.
    intro H. destruct p as [[]| | | | | | | | |]; cbn [seg].
    - unfold join_start. repeat hd1; try apply mem_join_locked; leaf H.
    - unf_steps. repeat hd1; leaf H.
    - unf_steps. repeat hd1; leaf H.
    - unf_steps. repeat hd1; leaf H.
    - leaf H.
    - hd1; [apply mem_join_locked|]; leaf H.
    - unf_steps. repeat hd1; leaf H.
    - unf_steps. repeat hd1; leaf H.
    - unf_steps. repeat hd1; leaf H.
    - unf_steps. repeat hd1; leaf H.
    - unf_steps. repeat hd1; leaf H.
    - unf_steps. repeat hd1; leaf H.
    - unf_steps. repeat hd1; leaf H.
    - leaf H.
  Qed.
End Mem.

(* ---------- the router's table and the connections' users: no task touches them ---------- *)
Section Frame.
  Variable cf : ccfg.
  Variables (t : tid) (tc : option conn) (me : user).
  Notation P g0 g := (reg g = reg g0 /\ cuser g = cuser g0).

  Lemma frame_seg g p ok hint : P g (fst (fst (seg cf t tc me g p ok hint))).
  Proof.
    destruct p as [[]| | | | | | | | |]; cbn [seg]; unf_steps; repeat hd1; rest_split; unf_set; red_g; auto.
  Qed.
End Frame.

(* ---------- steps of the system ---------- *)
Lemma cstep_bound {A} (pr : A -> list N) (fld : gst -> N -> A) cf M s e :
  (forall t tc me g p ok hint, Pl pr M (fld g) -> Pl pr M (fld (fst (fst (seg cf t tc me g p ok hint))))) ->
  (forall g g', objs g' = objs g -> idx g' = idx g -> Pl pr M (fld g) -> Pl pr M (fld g')) ->
  (forall g g' u, objs g' = objs g -> idx g' = upd (idx g) u [] -> Pl pr M (fld g) -> Pl pr M (fld g')) ->
  Pl pr M (fld (cg s)) -> Pl pr M (fld (cg (fst (cstep cf s e)))).
Proof.
  intros Hseg Hsame Hwipe H. destruct e as [c u ex|c r|t ok hint|c hint|t]; unfold cstep; cbv zeta.
  - destruct (cuser (cg s) c); [exact H|]. destruct (ex && _); [exact H|]. cbn [fst cg]. eapply Hsame; [| |exact H]; reflexivity.
  - destruct (cuser (cg s) c); exact H.
  - destruct (tlookup t (tasks s)) as [k|]; [|exact H].
    pose proof (Hseg t (t_conn k) (t_me k) (cg s) (t_pc k) ok hint H) as Hs.
    destruct (seg cf t (t_conn k) (t_me k) (cg s) (t_pc k) ok hint) as [[g' p] os]. exact Hs.
  - destruct (cuser (cg s) c) as [u|]; [|exact H].
    destruct (fold_frame c (tasks s) (cg s)) as (Ho&Hi&_&_).
    match type of Ho with objs ?x = _ => set (g1 := x) in * end.
    destruct (isnil _); cbn [fst cg].
    + eapply Hwipe; [| |exact H]; unf_set; red_g; [exact Ho|rewrite Hi; reflexivity].
    + eapply Hsame; [| |exact H]; unf_set; red_g; assumption.
  - destruct (tlookup t (tasks s)) as [k|]; [|exact H]. destruct (t_conn k); [|exact H]. cbn [fst cg].
    destruct (release_frame (cg s) k) as (Ho&Hi&_&_). eapply Hsame; [| |exact H]; assumption.
Qed.

Lemma subs_cstep cf s e : idx_early cf = true ->
  Pl (fun l => l) (c_max_subs cf) (idx (cg s)) -> Pl (fun l => l) (c_max_subs cf) (idx (cg (fst (cstep cf s e)))).
Proof.
  intro He. apply (cstep_bound (fun l => l) idx).
  - intros. apply subs_seg; assumption.
  - intros g g' _ Hi H. rewrite Hi. exact H.
  - intros g g' u _ Hi H. rewrite Hi. apply Pl_upd; [exact H|apply len_nil_le].
Qed.

Lemma mem_cstep cf s e :
  Pl members (c_max_clients cf) (objs (cg s)) -> Pl members (c_max_clients cf) (objs (cg (fst (cstep cf s e)))).
Proof.
  apply (cstep_bound members objs).
  - intros. apply mem_seg; assumption.
  - intros g g' Ho _ H. rewrite Ho. exact H.
  - intros g g' u Ho _ H. rewrite Ho. exact H.
Qed.

(* C14: a user's channel index never exceeds max_subscriptions, whatever is interleaved
   (the check and the insertion sit in one atomic segment once the index is written before the announcement) *)
Theorem conc_subscription_limit cf es u :
  idx_early cf = true -> len (idx (cg (cstate_after cf es)) u) <= c_max_subs cf.
Proof.
  intro He. unfold cstate_after.
  apply (crun_inv cf (fun s => Pl (fun l => l) (c_max_subs cf) (idx (cg s)))).
  - intros s e. apply subs_cstep. exact He.
  - intro x. apply len_nil_le.
Qed.

(* with the index written after the announcement two overlapping JOINs of one user both pass the check *)
Theorem conc_subscription_limit_late_index_refuted :
  exists cf es u, idx_early cf = false /\ c_max_subs cf < len (idx (cg (cstate_after cf es)) u).
Proof.
  exists {| fwd_event := true; fwd_payload := false; ptr_check := true; idx_early := false; c_max_subs := 1; c_max_clients := 10 |}.
  exists [EIdentify 2 20 true; EReq 2 (RJoin 7 None 1); EReq 2 (RJoin 8 None 2); ERun 0 true 0; ERun 1 true 0; ERun 0 true 0; ERun 1 true 0].
  exists 20. split; [reflexivity|]. vm_compute. reflexivity.
Qed.

(* C14: no channel object ever has more members than max_clients_per_channel *)
Theorem conc_member_limit cf es o :
  len (members (objs (cg (cstate_after cf es)) o)) <= c_max_clients cf.
Proof.
  unfold cstate_after.
  apply (crun_inv cf (fun s => Pl members (c_max_clients cf) (objs (cg s)))).
  - intros s e. apply mem_cstep.
  - intro x. apply len_nil_le.
Qed.

(* ---------- the router's table lists exactly the live connections of a user ---------- *)
Definition RegInv (g : gst) : Prop := forall c u, In c (reg g u) <-> cuser g c = Some u.

Lemma RegInv_same g g' : reg g' = reg g -> cuser g' = cuser g -> RegInv g -> RegInv g'.
Proof. intros Hr Hc H c u. rewrite Hr, Hc. apply H. Qed.

Lemma RegInv_identify g g' c u :
  cuser g c = None -> reg g' = upd (reg g) u (reg g u ++ [c]) -> cuser g' = upd (cuser g) c (Some u) -> RegInv g -> RegInv g'.
Proof.
  intros Hn Hr Hc H c' u'. rewrite Hr, Hc. unfold upd.
  destruct (N.eqb_spec u' u) as [Eu|Eu]; destruct (N.eqb_spec c' c) as [Ec|Ec]; subst.
  - split; [reflexivity|]. intros _. apply in_or_app. right. left. reflexivity.
  - rewrite in_app_iff. cbn [In]. rewrite (H c' u). split; [intros [X|[X|[]]]; [exact X|congruence]|auto].
  - split; intro X; [apply H in X; congruence|injection X; congruence].
  - apply H.
Qed.

Lemma RegInv_hangup g g' c u :
  cuser g c = Some u -> reg g' = upd (reg g) u (del c (reg g u)) -> cuser g' = upd (cuser g) c None -> RegInv g -> RegInv g'.
Proof.
  intros Hs Hr Hc H c' u'. rewrite Hr, Hc. unfold upd.
  destruct (N.eqb_spec u' u) as [Eu|Eu]; destruct (N.eqb_spec c' c) as [Ec|Ec]; subst.
  - rewrite In_del. split; [intros [_ X]; congruence|discriminate].
  - rewrite In_del, (H c' u). split; [intros [X _]; exact X|auto].
  - split; intro X; [apply H in X; congruence|discriminate].
  - apply H.
Qed.

Lemma reg_cstep cf s e : RegInv (cg s) -> RegInv (cg (fst (cstep cf s e))).
Proof.
  intro H. destruct e as [c u ex|c r|t ok hint|c hint|t]; unfold cstep; cbv zeta.
  - destruct (cuser (cg s) c) eqn:Hn; [exact H|]. destruct (ex && _); [exact H|]. cbn [fst cg].
    eapply RegInv_identify; [exact Hn| | |exact H]; reflexivity.
  - destruct (cuser (cg s) c); exact H.
  - destruct (tlookup t (tasks s)) as [k|]; [|exact H].
    pose proof (frame_seg cf t (t_conn k) (t_me k) (cg s) (t_pc k) ok hint) as [Hr Hc].
    destruct (seg cf t (t_conn k) (t_me k) (cg s) (t_pc k) ok hint) as [[g' p] os]. cbn [fst cg] in *.
    eapply RegInv_same; eassumption.
  - destruct (cuser (cg s) c) as [u|] eqn:Hs; [|exact H].
    destruct (fold_frame c (tasks s) (cg s)) as (_&_&Hr&Hc).
    match type of Hr with reg ?x = _ => set (g1 := x) in * end.
    assert (H1 : RegInv g1) by (eapply RegInv_same; eassumption).
    assert (Hs1 : cuser g1 c = Some u) by (rewrite Hc; exact Hs).
    destruct (isnil _); cbn [fst cg]; (eapply RegInv_hangup; [exact Hs1| | |exact H1]; reflexivity).
  - destruct (tlookup t (tasks s)) as [k|]; [|exact H]. destruct (t_conn k); [|exact H]. cbn [fst cg].
    destruct (release_frame (cg s) k) as (_&_&Hr&Hc). eapply RegInv_same; eassumption.
Qed.

Lemma reg_reach cf es : RegInv (cg (cstate_after cf es)).
Proof.
  unfold cstate_after. apply (crun_inv cf (fun s => RegInv (cg s))).
  - intros s e. apply reg_cstep.
  - intros c u. cbn. split; [contradiction|discriminate].
Qed.

(* ---------- what a segment sends ---------- *)
Lemma mem_In u l : mem u l = true -> In u l.
Proof. unfold mem. intro H. apply existsb_exists in H. destruct H as (x&Hx&E). apply N.eqb_eq in E. subst. exact Hx. Qed.

Lemma tlookup_In t k l : tlookup t l = Some k -> In (t, k) l.
Proof.
  induction l as [|[a v] r IH]; cbn [tlookup]; [discriminate|]. destruct (t =? a) eqn:E.
  - apply N.eqb_eq in E. subst. intro X. injection X as ->. left. reflexivity.
  - intro X. right. apply IH. exact X.
Qed.

Lemma conns_of_In g us ex c : In c (conns_of g us ex) -> exists u, In u us /\ In c (reg g u) /\ ex <> Some c.
Proof.
  unfold conns_of. rewrite in_flat_map. intros (u&Hu&Hc). apply filter_In in Hc. destruct Hc as [Hc Hx].
  exists u. split; [exact Hu|]. split; [exact Hc|]. destruct ex as [e|]; [|discriminate].
  intro X. injection X as ->. rewrite N.eqb_refl in Hx. discriminate.
Qed.

Lemma Forall_err_out (Q : cout -> Prop) tc id e :
  (forall c r, Q (OClose c r)) -> (forall c i r, Q (OErr c i r)) -> Forall Q (err_out tc id e).
Proof. intros H1 H2. unfold err_out. destruct tc; [|constructor]. destruct (closing_reason e); constructor; auto. Qed.

Ltac outs tac :=
  cbn [snd];
  repeat match goal with
  | |- Forall _ (_ ++ _) => apply Forall_app; split
  | |- Forall _ [] => constructor
  | |- Forall _ (_ :: _) => constructor; [exact I|]
  | |- Forall _ (err_out _ _ _) => apply Forall_err_out; intros; exact I
  | |- Forall _ (match ?x with _ => _ end) => destruct x eqn:?
  | |- Forall _ (map _ _) => apply Forall_forall; let x := fresh "x" in let Hx := fresh "Hx" in
                             intros x Hx; apply in_map_iff in Hx; destruct Hx as (?&<-&?); exact I
  | |- Forall _ (events _ _ _ _ _ _ _) => tac
  end.

(* C01 *)
Definition msg_ok (g : gst) (tc : option conn) (me : user) (p : pc) (x : cout) : Prop :=
  match x with
  | OMsg c ch from payload =>
      from = me /\ exists o, In me (members (objs g o)) /\ In c (conns_of g (members (objs g o)) tc) /\
        ((exists id, p = PStart (RBcast ch payload id)) \/ (exists id, p = PBcastGate ch payload id)
         \/ (exists id, p = PBcastWait ch o payload id))
  | _ => True
  end.

Section Msg.
  Variable cf : ccfg.
  Variables (t : tid) (tc : option conn) (me : user).

  Lemma msg_events g0 p g ts ex k ch n own : Forall (msg_ok g0 tc me p) (events g ts ex k ch n own).
  Proof. unfold events. outs idtac. Qed.

  Lemma msg_bcast_read g p ch o payload id :
    ((exists id, p = PStart (RBcast ch payload id)) \/ (exists id, p = PBcastGate ch payload id)
         \/ (exists id, p = PBcastWait ch o payload id)) ->
    Forall (msg_ok g tc me p) (snd (bcast_read tc me g ch o payload id)).
  Proof.
    intro Hp. unfold bcast_read. cbv zeta. destruct (negb (mem me (members (objs g o)))) eqn:E; cbn [snd]; [outs idtac|].
    apply negb_false_iff in E. apply mem_In in E.
    apply Forall_app. split; [|outs idtac].
    apply Forall_forall. intros x Hx. apply in_map_iff in Hx. destruct Hx as (c&<-&Hc). cbn [msg_ok].
    split; [reflexivity|]. exists o. auto.
  Qed.

  Lemma msg_bcast_lookup g p ch payload id :
    (forall o, (exists id, p = PStart (RBcast ch payload id)) \/ (exists id, p = PBcastGate ch payload id)
         \/ (exists id, p = PBcastWait ch o payload id)) ->
    Forall (msg_ok g tc me p) (snd (bcast_lookup tc me g ch payload id)).
  Proof.
    intro Hp. unfold bcast_lookup. repeat hd1; [apply msg_bcast_read; apply Hp| |]; outs idtac.
  Qed.

  Lemma msg_join_locked g0 p g ch o created ob id : Forall (msg_ok g0 tc me p) (snd (join_locked cf t tc me g ch o created ob id)).
  Proof. unf_steps. repeat hd1; outs ltac:(apply msg_events). Qed.

  Lemma msg_seg g p ok hint : Forall (msg_ok g tc me p) (snd (seg cf t tc me g p ok hint)).
  Proof.
    destruct p as [[]| | | | | | | | |]; cbn [seg].
    - unfold join_start. repeat hd1; try apply msg_join_locked; outs idtac.
    - unf_steps. repeat hd1; outs ltac:(apply msg_events).
    - hd1; [outs idtac|]. apply msg_bcast_lookup. intros o0. left. eexists. reflexivity.
    - unf_steps. repeat hd1; outs ltac:(apply msg_events).
    - outs idtac.
    - hd1; [apply msg_join_locked|outs idtac].
    - unf_steps. repeat hd1; outs ltac:(apply msg_events).
    - unf_steps. repeat hd1; outs ltac:(apply msg_events).
    - unf_steps. repeat hd1; outs ltac:(apply msg_events).
    - unf_steps. repeat hd1; outs ltac:(apply msg_events).
    - hd1; [|outs idtac]. apply msg_bcast_lookup. intros o0. right. left. eexists. reflexivity.
    - hd1; [|outs idtac]. apply msg_bcast_read. right. right. eexists. reflexivity.
    - unf_steps. repeat hd1; outs ltac:(apply msg_events).
    - outs idtac.
  Qed.
End Msg.

(* C01: a MESSAGE goes only to a live connection whose user is, at that very moment, in the member set the publisher
   is in too; never to the publisher's own connection; under the channel name the publisher used *)
Theorem conc_message_confinement cf es e c ch from payload :
  let s := cstate_after cf es in
  In (OMsg c ch from payload) (snd (cstep cf s e)) ->
  exists u o, cuser (cg s) c = Some u /\ In u (members (objs (cg s) o)) /\ In from (members (objs (cg s) o)) /\
              (exists t k ok hint, e = ERun t ok hint /\ In (t, k) (tasks s) /\ t_me k = from /\ t_conn k <> Some c /\
                 ((exists id, t_pc k = PStart (RBcast ch payload id)) \/ (exists id, t_pc k = PBcastGate ch payload id)
                  \/ (exists id, t_pc k = PBcastWait ch o payload id))).
Proof.
  intros s H. pose proof (reg_reach cf es) as HR. fold s in HR.
  destruct e as [c0 u ex|c0 r|t ok hint|c0 hint|t]; unfold cstep in H; cbv zeta in H.
  - destruct (cuser (cg s) c0); [destruct H|]. destruct (ex && _); cbn [snd In] in H; destruct H as [H|[]]; discriminate.
  - destruct (cuser (cg s) c0); destruct H.
  - destruct (tlookup t (tasks s)) as [k|] eqn:Hk; [|destruct H].
    pose proof (msg_seg cf t (t_conn k) (t_me k) (cg s) (t_pc k) ok hint) as Hs.
    destruct (seg cf t (t_conn k) (t_me k) (cg s) (t_pc k) ok hint) as [[g' p] os]. cbn [snd] in *.
    rewrite Forall_forall in Hs. apply Hs in H. cbn [msg_ok] in H.
    destruct H as (-> & o & Hme & Hc & Hp). apply conns_of_In in Hc. destruct Hc as (u & Hu & Hc & Hx).
    exists u, o. split; [apply HR; exact Hc|]. split; [exact Hu|]. split; [exact Hme|].
    exists t, k, ok, hint. split; [reflexivity|]. split; [apply tlookup_In; exact Hk|]. auto.
  - destruct (cuser (cg s) c0); [|destruct H]. destruct (isnil _); destruct H.
  - destruct (tlookup t (tasks s)) as [k|]; [|destruct H]. destruct (t_conn k); destruct H.
Qed.

(* C18 *)
Definition ev_ok (g : gst) (x : cout) : Prop :=
  match x with OEvent c _ _ _ _ => exists u, In c (reg g u) | _ => True end.

Section Ev.
  Variable cf : ccfg.
  Variables (t : tid) (tc : option conn) (me : user).

  Lemma ev_events g g' ts ex k ch n own : reg g' = reg g -> Forall (ev_ok g) (events g' ts ex k ch n own).
  Proof.
    intro Hr. unfold events. apply Forall_forall. intros x Hx. apply in_map_iff in Hx. destruct Hx as (c&<-&Hc).
    apply conns_of_In in Hc. destruct Hc as (u&_&Hc&_). exists u. rewrite <- Hr. exact Hc.
  Qed.

  Lemma ev_join_locked g0 g ch o created ob id : reg g = reg g0 -> Forall (ev_ok g0) (snd (join_locked cf t tc me g ch o created ob id)).
  Proof. intro Hr. unf_steps. repeat hd1; outs ltac:(apply ev_events; rest_split; exact Hr). Qed.

  Lemma ev_seg g p ok hint : Forall (ev_ok g) (snd (seg cf t tc me g p ok hint)).
  Proof.
    destruct p as [[]| | | | | | | | |]; cbn [seg].
    - unfold join_start. repeat hd1; try (apply ev_join_locked; reflexivity); outs idtac.
    - unf_steps. repeat hd1; outs ltac:(apply ev_events; rest_split; reflexivity).
    - unf_steps. repeat hd1; outs idtac.
    - unf_steps. repeat hd1; outs idtac.
    - outs idtac.
    - hd1; [apply ev_join_locked; reflexivity|outs idtac].
    - unf_steps. repeat hd1; outs ltac:(apply ev_events; rest_split; reflexivity).
    - unf_steps. repeat hd1; outs ltac:(apply ev_events; rest_split; reflexivity).
    - unf_steps. repeat hd1; outs ltac:(apply ev_events; rest_split; reflexivity).
    - unf_steps. repeat hd1; outs ltac:(apply ev_events; rest_split; reflexivity).
    - unf_steps. repeat hd1; outs idtac.
    - unf_steps. repeat hd1; outs idtac.
    - unf_steps. repeat hd1; outs idtac.
    - outs idtac.
  Qed.
End Ev.

(* C18: an EVENT goes only to a live connection whose user is in the member set concerned *)
Theorem conc_event_confinement cf es e c kind ch n own :
  let s := cstate_after cf es in
  In (OEvent c kind ch n own) (snd (cstep cf s e)) ->
  exists u, cuser (cg s) c = Some u /\ In c (reg (cg s) u).
Proof.
  intros s H. pose proof (reg_reach cf es) as HR. fold s in HR.
  destruct e as [c0 u ex|c0 r|t ok hint|c0 hint|t]; unfold cstep in H; cbv zeta in H.
  - destruct (cuser (cg s) c0); [destruct H|]. destruct (ex && _); cbn [snd In] in H; destruct H as [H|[]]; discriminate.
  - destruct (cuser (cg s) c0); destruct H.
  - destruct (tlookup t (tasks s)) as [k|] eqn:Hk; [|destruct H].
    pose proof (ev_seg cf t (t_conn k) (t_me k) (cg s) (t_pc k) ok hint) as Hs.
    destruct (seg cf t (t_conn k) (t_me k) (cg s) (t_pc k) ok hint) as [[g' p] os]. cbn [snd] in *.
    rewrite Forall_forall in Hs. apply Hs in H. cbn [ev_ok] in H. destruct H as (u & Hc).
    exists u. split; [apply HR; exact Hc|exact Hc].
  - destruct (cuser (cg s) c0); [|destruct H]. destruct (isnil _); destruct H.
  - destruct (tlookup t (tasks s)) as [k|]; [|destruct H]. destruct (t_conn k); destruct H.
Qed.
