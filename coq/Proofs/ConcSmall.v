(* Interleaved model: limits and confinement, for every schedule (small invariants, independent of Proofs/ConcInv.v). *)
From Coq Require Import List NArith Bool Lia.
From NW Require Import Model.Conc Proofs.ConcDefs.
Import ListNotations.
Open Scope N_scope.

(* ---------- small library ---------- *)
Lemma len_del_le u (l : list N) : len (del u l) <= len l.
Proof. unfold len, del. induction l; cbn [filter length]; [lia|]. destruct (negb (a =? u)); cbn [length]; lia. Qed.

Lemma len_add_le u (l : list N) : len (add u l) <= len l + 1.
Proof. unfold len, add. destruct (mem u l); [lia|]. rewrite app_length. cbn [length]. lia. Qed.

Lemma len_nil_le (M : N) : len (@nil N) <= M.
Proof. unfold len. cbn [length]. lia. Qed.

Lemma In_del c x (l : list N) : In c (del x l) <-> In c l /\ c <> x.
Proof.
  unfold del. rewrite filter_In. split; intros [H1 H2]; split; auto.
  - intro; subst. rewrite N.eqb_refl in H2. discriminate.
  - apply negb_true_iff. apply N.eqb_neq. exact H2.
Qed.

(* a modulator's private push sends nothing but MOD_DIRECT frames *)
Lemma direct_outs_only g ts pl x : In x (direct_outs g ts pl) -> exists c, x = ODirect c pl.
Proof.
  unfold direct_outs. rewrite in_flat_map. intros (u&_&H). apply in_map_iff in H. destruct H as (c&<-&_). exists c. reflexivity.
Qed.

(* every schedule: a property kept by every step holds after every run *)
Lemma crun_inv cf (P : cstate -> Prop) :
  (forall s e, P s -> P (fst (cstep cf s e))) -> forall es s, P s -> P (fst (crun cf s es)).
Proof.
  intros Hs es. induction es as [|e r IH]; intros s Hp; cbn [crun fst]; [exact Hp|].
  destruct (cstep cf s e) as [s1 o1] eqn:E1. specialize (IH s1).
  destruct (crun cf s1 r) as [s2 o2]. cbn [fst] in *. apply IH. specialize (Hs s e Hp). rewrite E1 in Hs. exact Hs.
Qed.

Ltac unf_set := unfold unlock, lock, put_obj, idx_add, idx_del, unmap, set_objs, set_next, set_cmap, set_idx, set_reg, set_wl, set_cuser in *.
Ltac red_g := cbn [objs next_oid cmap idx reg wl cuser fst snd cg members owner jacl pacl racl targets retarget obj_insert obj_remove obj_set_owner obj_set_acl empty_obj] in *.

(* split on the test that decides the result of a step function *)
Ltac hd1 :=
  match goal with
  | |- context [fst (match ?x with _ => _ end)] => destruct x eqn:?
  | |- context [snd (match ?x with _ => _ end)] => destruct x eqn:?
  end; cbn [fst snd].
Ltac unf_steps := unfold join_start, join_locked, join_finish, leave_start, leave_locked, leave_after_n1, leave_after_n2, leave_end,
                         bcast_lookup, bcast_read, members_read, set_acl_locked, get_acl_read; cbv beta iota zeta.

(* dropping a task, cancelling a connection's tasks: only locks change *)
Lemma release_frame g k :
  objs (release_of g k) = objs g /\ idx (release_of g k) = idx g /\ reg (release_of g k) = reg g /\ cuser (release_of g k) = cuser g.
Proof. unfold release_of. destruct (holds (t_pc k)); unf_set; red_g; auto. Qed.

Lemma fold_frame c (l : list (tid * task)) : forall g,
  let g1 := fold_left (fun acc e => if of_conn c (snd e) then release_of acc (snd e) else acc) l g in
  objs g1 = objs g /\ idx g1 = idx g /\ reg g1 = reg g /\ cuser g1 = cuser g.
Proof.
  induction l as [|e r IH]; intro g; cbn [fold_left]; [auto|].
  specialize (IH (if of_conn c (snd e) then release_of g (snd e) else g)). cbv zeta in *.
  destruct IH as (a&b&c0&d). rewrite a, b, c0, d. destruct (of_conn c (snd e)); [apply release_frame|auto].
Qed.

(* ---------- a bound on the lists of a map ---------- *)
Definition Pl {A} (pr : A -> list N) (M : N) (f : N -> A) : Prop := forall x, len (pr (f x)) <= M.
Lemma Pl_upd {A} (pr : A -> list N) M f k v : Pl pr M f -> len (pr v) <= M -> Pl pr M (upd f k v).
Proof. intros H Hv x. unfold upd. destruct (x =? k); auto. Qed.

Ltac side H :=
  cbv beta; red_g;
  try match goal with |- len (del ?n ?l) <= _ => eapply N.le_trans; [apply len_del_le|] end;
  solve [ apply H | apply len_nil_le
        | match goal with |- len (add ?n ?l) <= _ =>
            repeat match goal with Hc : (_ <=? _) = false |- _ => apply N.leb_gt in Hc end;
            pose proof (len_add_le n l); unfold chan, user, oid, conn, tid in *; lia end ].
Ltac rest_split := repeat match goal with |- context [match ?x with _ => _ end] => destruct x eqn:? end.
Ltac leaf H := rest_split; unf_set; red_g; repeat (apply Pl_upd; [|side H]); try exact H.

(* ---------- C14: the subscription limit ---------- *)
Section Subs.
  Variable cf : ccfg.
  Hypothesis He : idx_early cf = true.
  Variables (t : tid) (tc : option conn) (me : user).
  Notation P g := (Pl (fun l => l) (c_max_subs cf) (idx g)).

  Lemma subs_join_locked g ch o created ob id : P g -> P (fst (fst (join_locked cf t tc me g ch o created ob id))).
  Proof. intro H. unf_steps. rewrite He. cbv beta iota zeta. repeat hd1; leaf H. Qed.

  Lemma subs_seg g p ok hint : P g -> P (fst (fst (seg cf t tc me g p ok hint))).
  Proof.
    intro H. destruct p as [[]| | | | | | | | | | |]; cbn [seg]; unfold join_start; repeat hd1;
      first [ apply subs_join_locked; leaf H | unf_steps; rewrite ?He; cbv beta iota zeta; repeat hd1; leaf H ].
  Qed.
End Subs.

(* ---------- C14: the member limit ---------- *)
Section Mem.
  Variable cf : ccfg.
  Variables (t : tid) (tc : option conn) (me : user).
  Notation P g := (Pl members (c_max_clients cf) (objs g)).

  Lemma mem_join_locked g ch o created ob id : P g -> P (fst (fst (join_locked cf t tc me g ch o created ob id))).
  Proof. intro H. unf_steps. repeat hd1; leaf H. Qed.

  Lemma mem_seg g p ok hint : P g -> P (fst (fst (seg cf t tc me g p ok hint))).
  Proof.
    intro H. destruct p as [[]| | | | | | | | | | |]; cbn [seg]; unfold join_start; repeat hd1;
      first [ apply mem_join_locked; leaf H | unf_steps; repeat hd1; leaf H ].
  Qed.
End Mem.

(* ---------- the router's table and the connections' users: no task touches them ---------- *)
Section Frame.
  Variable cf : ccfg.
  Variables (t : tid) (tc : option conn) (me : user).
  Notation P g0 g := (reg g = reg g0 /\ cuser g = cuser g0).

  Lemma frame_seg g p ok hint : P g (fst (fst (seg cf t tc me g p ok hint))).
  Proof.
    destruct p as [[]| | | | | | | | | | |]; cbn [seg]; unf_steps; repeat hd1; rest_split; unf_set; red_g; auto.
  Qed.
End Frame.

(* ---------- steps of the system ---------- *)
Lemma cstep_bound {A} (pr : A -> list N) (fld : gst -> N -> A) cf M s e :
  (forall t tc me g p ok hint, Pl pr M (fld g) -> Pl pr M (fld (fst (fst (seg cf t tc me g p ok hint))))) ->
  (forall g g', objs g' = objs g -> idx g' = idx g -> Pl pr M (fld g) -> Pl pr M (fld g')) ->
  (forall g g' u, objs g' = objs g -> idx g' = upd (idx g) u [] -> Pl pr M (fld g) -> Pl pr M (fld g')) ->
  Pl pr M (fld (cg s)) -> Pl pr M (fld (cg (fst (cstep cf s e)))).
Proof.
  intros Hseg Hsame Hwipe H. destruct e as [c u ex|c r|t ok hint|c hint|t|ts pl]; unfold cstep; cbv zeta; [ | | | | |exact H].
  - destruct (cuser (cg s) c); [exact H|]. destruct (ex && _); [exact H|]. cbn [fst cg]. eapply Hsame; [| |exact H]; reflexivity.
  - destruct (cuser (cg s) c); exact H.
  - destruct (tlookup t (tasks s)) as [k|]; [|exact H].
    pose proof (Hseg t (t_conn k) (t_me k) (cg s) (t_pc k) ok hint H) as Hs.
    destruct (seg cf t (t_conn k) (t_me k) (cg s) (t_pc k) ok hint) as [[g' p] os]. exact Hs.
  - destruct (cuser (cg s) c) as [u|]; [|exact H].
    destruct (fold_frame c (tasks s) (cg s)) as (Ho&Hi&_&_).
    match type of Ho with objs ?x = _ => set (g1 := x) in * end.
    destruct (isnil _); cbn [fst cg].
    + eapply Hwipe; [| |exact H]; unf_set; red_g; [exact Ho|rewrite Hi; reflexivity].
    + eapply Hsame; [| |exact H]; unf_set; red_g; assumption.
  - destruct (tlookup t (tasks s)) as [k|]; [|exact H]. destruct (t_conn k); [|exact H]. cbn [fst cg].
    destruct (release_frame (cg s) k) as (Ho&Hi&_&_). eapply Hsame; [| |exact H]; assumption.
Qed.

Lemma subs_cstep cf s e : idx_early cf = true ->
  Pl (fun l => l) (c_max_subs cf) (idx (cg s)) -> Pl (fun l => l) (c_max_subs cf) (idx (cg (fst (cstep cf s e)))).
Proof.
  intro He. apply (cstep_bound (fun l => l) idx).
  - intros. apply subs_seg; assumption.
  - intros g g' _ Hi H. rewrite Hi. exact H.
  - intros g g' u _ Hi H. rewrite Hi. apply Pl_upd; [exact H|apply len_nil_le].
Qed.

Lemma mem_cstep cf s e :
  Pl members (c_max_clients cf) (objs (cg s)) -> Pl members (c_max_clients cf) (objs (cg (fst (cstep cf s e)))).
Proof.
  apply (cstep_bound members objs).
  - intros. apply mem_seg; assumption.
  - intros g g' Ho _ H. rewrite Ho. exact H.
  - intros g g' u Ho _ H. rewrite Ho. exact H.
Qed.

(* C14: a user's channel index never exceeds max_subscriptions, whatever is interleaved
   (the check and the insertion sit in one atomic segment once the index is written before the announcement) *)
Theorem conc_subscription_limit cf es u :
  idx_early cf = true -> len (idx (cg (cstate_after cf es)) u) <= c_max_subs cf.
Proof.
  intro He. unfold cstate_after.
  apply (crun_inv cf (fun s => Pl (fun l => l) (c_max_subs cf) (idx (cg s)))).
  - intros s e. apply subs_cstep. exact He.
  - intro x. apply len_nil_le.
Qed.

(* with the index written after the announcement two overlapping JOINs of one user both pass the check *)
Theorem conc_subscription_limit_late_index_refuted :
  exists cf es u, idx_early cf = false /\ c_max_subs cf < len (idx (cg (cstate_after cf es)) u).
Proof.
  exists {| fwd_event := true; fwd_payload := false; ptr_check := true; idx_early := false; c_max_subs := 1; c_max_clients := 10 |}.
  exists [EIdentify 2 20 true; EReq 2 (RJoin 7 None 1); EReq 2 (RJoin 8 None 2); ERun 0 true 0; ERun 1 true 0; ERun 0 true 0; ERun 1 true 0].
  exists 20. split; [reflexivity|]. vm_compute. reflexivity.
Qed.

(* C14: no channel object ever has more members than max_clients_per_channel *)
Theorem conc_member_limit cf es o :
  len (members (objs (cg (cstate_after cf es)) o)) <= c_max_clients cf.
Proof.
  unfold cstate_after.
  apply (crun_inv cf (fun s => Pl members (c_max_clients cf) (objs (cg s)))).
  - intros s e. apply mem_cstep.
  - intro x. apply len_nil_le.
Qed.

(* ---------- the router's table lists exactly the live connections of a user ---------- *)
Definition RegInv (g : gst) : Prop := forall c u, In c (reg g u) <-> cuser g c = Some u.

Lemma RegInv_same g g' : reg g' = reg g -> cuser g' = cuser g -> RegInv g -> RegInv g'.
Proof. intros Hr Hc H c u. rewrite Hr, Hc. apply H. Qed.

Lemma RegInv_identify g g' c u :
  cuser g c = None -> reg g' = upd (reg g) u (reg g u ++ [c]) -> cuser g' = upd (cuser g) c (Some u) -> RegInv g -> RegInv g'.
Proof.
  intros Hn Hr Hc H c' u'. rewrite Hr, Hc. unfold upd.
  destruct (N.eqb_spec u' u) as [Eu|Eu]; destruct (N.eqb_spec c' c) as [Ec|Ec]; subst.
  - split; [reflexivity|]. intros _. apply in_or_app. right. left. reflexivity.
  - rewrite in_app_iff. cbn [In]. rewrite (H c' u). split; [intros [X|[X|[]]]; [exact X|congruence]|auto].
  - split; intro X; [apply H in X; congruence|injection X; congruence].
  - apply H.
Qed.

Lemma RegInv_hangup g g' c u :
  cuser g c = Some u -> reg g' = upd (reg g) u (del c (reg g u)) -> cuser g' = upd (cuser g) c None -> RegInv g -> RegInv g'.
Proof.
  intros Hs Hr Hc H c' u'. rewrite Hr, Hc. unfold upd.
  destruct (N.eqb_spec u' u) as [Eu|Eu]; destruct (N.eqb_spec c' c) as [Ec|Ec]; subst.
  - rewrite In_del. split; [intros [_ X]; congruence|discriminate].
  - rewrite In_del, (H c' u). split; [intros [X _]; exact X|auto].
  - split; intro X; [apply H in X; congruence|discriminate].
  - apply H.
Qed.

Lemma reg_cstep cf s e : RegInv (cg s) -> RegInv (cg (fst (cstep cf s e))).
Proof.
  intro H. destruct e as [c u ex|c r|t ok hint|c hint|t|ts pl]; unfold cstep; cbv zeta; [ | | | | |exact H].
  - destruct (cuser (cg s) c) eqn:Hn; [exact H|]. destruct (ex && _); [exact H|]. cbn [fst cg].
    eapply RegInv_identify; [exact Hn| | |exact H]; reflexivity.
  - destruct (cuser (cg s) c); exact H.
  - destruct (tlookup t (tasks s)) as [k|]; [|exact H].
    pose proof (frame_seg cf t (t_conn k) (t_me k) (cg s) (t_pc k) ok hint) as [Hr Hc].
    destruct (seg cf t (t_conn k) (t_me k) (cg s) (t_pc k) ok hint) as [[g' p] os]. cbn [fst cg] in *.
    eapply RegInv_same; eassumption.
  - destruct (cuser (cg s) c) as [u|] eqn:Hs; [|exact H].
    destruct (fold_frame c (tasks s) (cg s)) as (_&_&Hr&Hc).
    match type of Hr with reg ?x = _ => set (g1 := x) in * end.
    assert (H1 : RegInv g1) by (eapply RegInv_same; eassumption).
    assert (Hs1 : cuser g1 c = Some u) by (rewrite Hc; exact Hs).
    destruct (isnil _); cbn [fst cg]; (eapply RegInv_hangup; [exact Hs1| | |exact H1]; reflexivity).
  - destruct (tlookup t (tasks s)) as [k|]; [|exact H]. destruct (t_conn k); [|exact H]. cbn [fst cg].
    destruct (release_frame (cg s) k) as (_&_&Hr&Hc). eapply RegInv_same; eassumption.
Qed.

Lemma reg_reach cf es : RegInv (cg (cstate_after cf es)).
Proof.
  unfold cstate_after. apply (crun_inv cf (fun s => RegInv (cg s))).
  - intros s e. apply reg_cstep.
  - intros c u. cbn. split; [contradiction|discriminate].
Qed.

(* ---------- what a segment sends ---------- *)
Lemma mem_In u l : mem u l = true -> In u l.
Proof. unfold mem. intro H. apply existsb_exists in H. destruct H as (x&Hx&E). apply N.eqb_eq in E. subst. exact Hx. Qed.

Lemma tlookup_In t k l : tlookup t l = Some k -> In (t, k) l.
Proof.
  induction l as [|[a v] r IH]; cbn [tlookup]; [discriminate|]. destruct (t =? a) eqn:E.
  - apply N.eqb_eq in E. subst. intro X. injection X as ->. left. reflexivity.
  - intro X. right. apply IH. exact X.
Qed.

Lemma conns_of_In g us ex c : In c (conns_of g us ex) -> exists u, In u us /\ In c (reg g u) /\ ex <> Some c.
Proof.
  unfold conns_of. rewrite in_flat_map. intros (u&Hu&Hc). apply filter_In in Hc. destruct Hc as [Hc Hx].
  exists u. split; [exact Hu|]. split; [exact Hc|]. destruct ex as [e|]; [|discriminate].
  intro X. injection X as ->. rewrite N.eqb_refl in Hx. discriminate.
Qed.

Lemma Forall_err_out (Q : cout -> Prop) tc id e :
  (forall c r, Q (OClose c r)) -> (forall c i r, Q (OErr c i r)) -> Forall Q (err_out tc id e).
Proof. intros H1 H2. unfold err_out. destruct tc; [|constructor]. destruct (closing_reason e); constructor; auto. Qed.

Ltac outs tac :=
  cbn [snd];
  repeat match goal with
  | |- Forall _ (_ ++ _) => apply Forall_app; split
  | |- Forall _ [] => constructor
  | |- Forall _ (_ :: _) => constructor; [exact I|]
  | |- Forall _ (err_out _ _ _) => apply Forall_err_out; intros; exact I
  | |- Forall _ (match ?x with _ => _ end) => destruct x eqn:?
  | |- Forall _ (map _ _) => apply Forall_forall; let x := fresh "x" in let Hx := fresh "Hx" in
                             intros x Hx; apply in_map_iff in Hx; destruct Hx as (?&<-&?); exact I
  | |- Forall _ (events _ _ _ _ _ _ _) => tac
  end.

(* ---------- C01/C03: the cached delivery list ---------- *)
Definition Pall {A} (Q : A -> Prop) (f : N -> A) : Prop := forall x, Q (f x).
Lemma Pall_upd {A} (Q : A -> Prop) f k v : Pall Q f -> Q v -> Pall Q (upd f k v).
Proof. intros H Hv x. unfold upd. destruct (x =? k); auto. Qed.

Definition tgt_ok (b : cobj) : Prop := targets b = filter (allowed (racl b)) (members b).
Ltac tleaf H := rest_split; unf_set; red_g; repeat (apply Pall_upd; [|unfold tgt_ok; first [reflexivity|apply H]]); try exact H.

Section Tgt.
  Variable cf : ccfg.
  Variables (t : tid) (tc : option conn) (me : user).
  Notation P g := (Pall tgt_ok (objs g)).

  Lemma tgt_join_locked g ch o created ob id : P g -> P (fst (fst (join_locked cf t tc me g ch o created ob id))).
  Proof. intro H. unf_steps. repeat hd1; tleaf H. Qed.

  Lemma tgt_seg g p ok hint : P g -> P (fst (fst (seg cf t tc me g p ok hint))).
  Proof.
    intro H. destruct p as [[]| | | | | | | | | | |]; cbn [seg]; unfold join_start; repeat hd1;
      first [ apply tgt_join_locked; tleaf H | unf_steps; repeat hd1; tleaf H ].
  Qed.
End Tgt.

Lemma tgt_cstep cf s e : Pall tgt_ok (objs (cg s)) -> Pall tgt_ok (objs (cg (fst (cstep cf s e)))).
Proof.
  intro H. destruct e as [c u ex|c r|t ok hint|c hint|t|ts pl]; unfold cstep; cbv zeta; [ | | | | |exact H].
  - destruct (cuser (cg s) c); [exact H|]. destruct (ex && _); exact H.
  - destruct (cuser (cg s) c); exact H.
  - destruct (tlookup t (tasks s)) as [k|]; [|exact H].
    pose proof (tgt_seg cf t (t_conn k) (t_me k) (cg s) (t_pc k) ok hint H) as Hs.
    destruct (seg cf t (t_conn k) (t_me k) (cg s) (t_pc k) ok hint) as [[g' p] os]. exact Hs.
  - destruct (cuser (cg s) c) as [u|]; [|exact H].
    destruct (fold_frame c (tasks s) (cg s)) as (Ho&_&_&_).
    match type of Ho with objs ?x = _ => set (g1 := x) in * end.
    destruct (isnil _); cbn [fst cg]; unf_set; red_g; rewrite Ho; exact H.
  - destruct (tlookup t (tasks s)) as [k|]; [|exact H]. destruct (t_conn k); [|exact H]. cbn [fst cg].
    destruct (release_frame (cg s) k) as (Ho&_&_&_). rewrite Ho. exact H.
Qed.

(* C01/C03: the cached delivery list is, in every reachable state, the member list filtered by the read allow-list *)
Theorem conc_targets_cache cf es o :
  let g := cg (cstate_after cf es) in
  targets (objs g o) = filter (allowed (racl (objs g o))) (members (objs g o)).
Proof.
  cbv zeta. revert o. unfold cstate_after.
  apply (crun_inv cf (fun s => Pall tgt_ok (objs (cg s)))).
  - intros s e. apply tgt_cstep.
  - intro x. reflexivity.
Qed.

(* C01 *)
Definition bcast_pc (p : pc) (ch : chan) (payload : N) (o : oid) : Prop :=
  (exists id, p = PStart (RBcast ch payload id)) \/ (exists id, p = PBcastGate ch payload id)
  \/ (exists id, p = PBcastWait ch o payload id).

Definition msg_ok (g : gst) (tc : option conn) (me : user) (p : pc) (x : cout) : Prop :=
  match x with
  | OMsg c ch from payload =>
      from = me /\ exists o, In me (members (objs g o)) /\ allowed (pacl (objs g o)) me = true /\
        In c (conns_of g (targets (objs g o)) tc) /\ bcast_pc p ch payload o
  | _ => True
  end.

Section Msg.
  Variable cf : ccfg.
  Variables (t : tid) (tc : option conn) (me : user).

  Lemma msg_bcast_read g p ch o payload id :
    bcast_pc p ch payload o -> Forall (msg_ok g tc me p) (snd (bcast_read tc me g ch o payload id)).
  Proof.
    intro Hp. unfold bcast_read. cbv zeta. destruct (negb (mem me (members (objs g o)))) eqn:E; cbn [snd]; [outs idtac|].
    apply negb_false_iff in E. apply mem_In in E.
    destruct (negb (allowed (pacl (objs g o)) me)) eqn:Ea; cbn [snd]; [outs idtac|]. apply negb_false_iff in Ea.
    apply Forall_app. split; [|outs idtac].
    apply Forall_forall. intros x Hx. apply in_map_iff in Hx. destruct Hx as (c&<-&Hc). cbn [msg_ok].
    split; [reflexivity|]. exists o. auto.
  Qed.

  Lemma msg_bcast_lookup g p ch payload id :
    (forall o, bcast_pc p ch payload o) -> Forall (msg_ok g tc me p) (snd (bcast_lookup tc me g ch payload id)).
  Proof.
    intro Hp. unfold bcast_lookup. repeat hd1; [apply msg_bcast_read; apply Hp| |]; outs idtac.
  Qed.

  Lemma msg_join_locked g0 p g ch o created ob id : Forall (msg_ok g0 tc me p) (snd (join_locked cf t tc me g ch o created ob id)).
  Proof. unf_steps. repeat hd1; outs ltac:(unfold events). Qed.

  Lemma msg_seg g p ok hint : Forall (msg_ok g tc me p) (snd (seg cf t tc me g p ok hint)).
  Proof.
    destruct p as [[]| | | | | | | | | | |]; cbn [seg]; unfold join_start; repeat hd1;
      first [ apply msg_join_locked
            | apply msg_bcast_lookup; intros o0; first [left; eexists; reflexivity|right; left; eexists; reflexivity]
            | apply msg_bcast_read; right; right; eexists; reflexivity
            | unfold leave_start, leave_locked, leave_after_n1, leave_after_n2, leave_end, join_finish, members_read,
                     set_acl_locked, get_acl_read; cbv beta iota zeta; repeat hd1; outs ltac:(unfold events) ].
  Qed.
End Msg.

(* C01: a MESSAGE goes only to a live connection whose user is, at that very moment, in the member set the publisher
   is in too; never to the publisher's own connection; under the channel name the publisher used *)
Theorem conc_message_confinement cf es e c ch from payload :
  let s := cstate_after cf es in
  In (OMsg c ch from payload) (snd (cstep cf s e)) ->
  exists u o, cuser (cg s) c = Some u /\ In u (members (objs (cg s) o)) /\ In from (members (objs (cg s) o)) /\
              allowed (racl (objs (cg s) o)) u = true /\ allowed (pacl (objs (cg s) o)) from = true /\
              (exists t k ok hint, e = ERun t ok hint /\ In (t, k) (tasks s) /\ t_me k = from /\ t_conn k <> Some c /\
                 ((exists id, t_pc k = PStart (RBcast ch payload id)) \/ (exists id, t_pc k = PBcastGate ch payload id)
                  \/ (exists id, t_pc k = PBcastWait ch o payload id))).
Proof.
  intros s H. pose proof (reg_reach cf es) as HR. fold s in HR.
  destruct e as [c0 u ex|c0 r|t ok hint|c0 hint|t|ts pl]; unfold cstep in H; cbv zeta in H;
    [ | | | | |exfalso; cbn [snd] in H; apply direct_outs_only in H; destruct H as [? H]; discriminate H].
  - destruct (cuser (cg s) c0); [destruct H|]. destruct (ex && _); cbn [snd In] in H; destruct H as [H|[]]; discriminate.
  - destruct (cuser (cg s) c0); destruct H.
  - destruct (tlookup t (tasks s)) as [k|] eqn:Hk; [|destruct H].
    pose proof (msg_seg cf t (t_conn k) (t_me k) (cg s) (t_pc k) ok hint) as Hs.
    destruct (seg cf t (t_conn k) (t_me k) (cg s) (t_pc k) ok hint) as [[g' p] os]. cbn [snd] in *.
    rewrite Forall_forall in Hs. apply Hs in H. cbn [msg_ok] in H.
    destruct H as (-> & o & Hme & Hpa & Hc & Hp). apply conns_of_In in Hc. destruct Hc as (u & Hu & Hc & Hx).
    pose proof (conc_targets_cache cf es o) as Ht. cbv zeta in Ht. fold s in Ht. rewrite Ht in Hu.
    apply filter_In in Hu. destruct Hu as [Hu Hra].
    exists u, o. split; [apply HR; exact Hc|]. split; [exact Hu|]. split; [exact Hme|]. split; [exact Hra|]. split; [exact Hpa|].
    exists t, k, ok, hint. split; [reflexivity|]. split; [apply tlookup_In; exact Hk|]. auto.
  - destruct (cuser (cg s) c0); [|destruct H]. destruct (isnil _); destruct H.
  - destruct (tlookup t (tasks s)) as [k|]; [|destruct H]. destruct (t_conn k); destruct H.
Qed.

(* C18 *)
Definition ev_ok (g : gst) (x : cout) : Prop :=
  match x with OEvent c _ _ _ _ => exists u, In c (reg g u) | _ => True end.

Section Ev.
  Variable cf : ccfg.
  Variables (t : tid) (tc : option conn) (me : user).

  Lemma ev_events g g' ts ex k ch n own : reg g' = reg g -> Forall (ev_ok g) (events g' ts ex k ch n own).
  Proof.
    intro Hr. unfold events. apply Forall_forall. intros x Hx. apply in_map_iff in Hx. destruct Hx as (c&<-&Hc).
    apply conns_of_In in Hc. destruct Hc as (u&_&Hc&_). exists u. rewrite <- Hr. exact Hc.
  Qed.

  Lemma ev_join_locked g0 g ch o created ob id : reg g = reg g0 -> Forall (ev_ok g0) (snd (join_locked cf t tc me g ch o created ob id)).
  Proof. intro Hr. unf_steps. repeat hd1; outs ltac:(apply ev_events; rest_split; exact Hr). Qed.

  Lemma ev_seg g p ok hint : Forall (ev_ok g) (snd (seg cf t tc me g p ok hint)).
  Proof.
    destruct p as [[]| | | | | | | | | | |]; cbn [seg]; unfold join_start; repeat hd1;
      first [ apply ev_join_locked; reflexivity
            | unf_steps; repeat hd1; outs ltac:(apply ev_events; rest_split; reflexivity) ].
  Qed.
End Ev.

(* C18: an EVENT goes only to a live connection whose user is in the member set concerned *)
Theorem conc_event_confinement cf es e c kind ch n own :
  let s := cstate_after cf es in
  In (OEvent c kind ch n own) (snd (cstep cf s e)) ->
  exists u, cuser (cg s) c = Some u /\ In c (reg (cg s) u).
Proof.
  intros s H. pose proof (reg_reach cf es) as HR. fold s in HR.
  destruct e as [c0 u ex|c0 r|t ok hint|c0 hint|t|ts pl]; unfold cstep in H; cbv zeta in H;
    [ | | | | |exfalso; cbn [snd] in H; apply direct_outs_only in H; destruct H as [? H]; discriminate H].
  - destruct (cuser (cg s) c0); [destruct H|]. destruct (ex && _); cbn [snd In] in H; destruct H as [H|[]]; discriminate.
  - destruct (cuser (cg s) c0); destruct H.
  - destruct (tlookup t (tasks s)) as [k|] eqn:Hk; [|destruct H].
    pose proof (ev_seg cf t (t_conn k) (t_me k) (cg s) (t_pc k) ok hint) as Hs.
    destruct (seg cf t (t_conn k) (t_me k) (cg s) (t_pc k) ok hint) as [[g' p] os]. cbn [snd] in *.
    rewrite Forall_forall in Hs. apply Hs in H. cbn [ev_ok] in H. destruct H as (u & Hc).
    exists u. split; [apply HR; exact Hc|exact Hc].
  - destruct (cuser (cg s) c0); [|destruct H]. destruct (isnil _); destruct H.
  - destruct (tlookup t (tasks s)) as [k|]; [|destruct H]. destruct (t_conn k); destruct H.
Qed.

(* ---------- C03: allow-list reports and updates ---------- *)
Definition aclrep_ok (g : gst) (tc : option conn) (me : user) (p : pc) (x : cout) : Prop :=
  match x with
  | OAcl c id l =>
      tc = Some c /\ exists ch o ty,
        ((p = PStart (RGetAcl ch ty id) /\ cmap g ch = Some o) \/ p = PGetAclWait ch o ty id) /\
        l = acl_of (objs g o) ty /\ is_owner (objs g o) me = true
  | _ => True
  end.

(* no acknowledgement of kind K *)
Definition no_ack (K : N) (x : cout) : Prop :=
  match x with OAck _ _ k => if k =? K then False else True | _ => True end.

Definition set_acl_post (g g' : gst) (o : oid) (ty : N) (adding : bool) (us : list user) : Prop :=
  acl_of (objs g' o) ty = acl_update (acl_of (objs g o) ty) us adding /\
  (forall ty', acl_class ty' <> acl_class ty -> acl_of (objs g' o) ty' = acl_of (objs g o) ty') /\
  members (objs g' o) = members (objs g o) /\ owner (objs g' o) = owner (objs g o) /\
  (forall o', o' <> o -> objs g' o' = objs g o').

Definition sack_ok (g : gst) (tc : option conn) (me : user) (p : pc) (g' : gst) (x : cout) : Prop :=
  match x with
  | OAck c id k =>
      if k =? A_SETACL then
        tc = Some c /\ exists ch o ty adding us,
          ((p = PStart (RSetAcl ch ty adding us id) /\ cmap g ch = Some o) \/ p = PSetAclWait ch o ty adding us id) /\
          is_owner (objs g o) me = true /\ set_acl_post g g' o ty adding us
      else True
  | _ => True
  end.

Lemma no_ack_sack g tc me p g' x : no_ack A_SETACL x -> sack_ok g tc me p g' x.
Proof. destruct x; cbn [no_ack sack_ok]; try (intros; exact I). destruct (kind =? A_SETACL); [contradiction|auto]. Qed.

Lemma upd_same {A} (f : N -> A) k v : upd f k v k = v.
Proof. unfold upd. rewrite N.eqb_refl. reflexivity. Qed.
Lemma upd_other {A} (f : N -> A) k v x : x <> k -> upd f k v x = f x.
Proof. intro H. unfold upd. apply N.eqb_neq in H. rewrite H. reflexivity. Qed.

Lemma acl_of_set_same b ty a : acl_of (obj_set_acl b ty a) ty = a.
Proof. unfold acl_of, obj_set_acl, retarget. cbn [jacl pacl racl]. destruct (ty =? 1); [reflexivity|]. destruct (ty =? 2); reflexivity. Qed.
Lemma acl_of_set_other b ty a ty' : acl_class ty' <> acl_class ty -> acl_of (obj_set_acl b ty a) ty' = acl_of b ty'.
Proof.
  unfold acl_class, acl_of, obj_set_acl, retarget. cbn [jacl pacl racl].
  destruct (ty =? 1); destruct (ty' =? 1); destruct (ty =? 2); destruct (ty' =? 2); intro H; try reflexivity; exfalso; apply H; reflexivity.
Qed.

Section Acl.
  Variable cf : ccfg.
  Variables (t : tid) (tc : option conn) (me : user).

  Lemma rep_get_acl_read g p o ty id :
    (exists ch, (p = PStart (RGetAcl ch ty id) /\ cmap g ch = Some o) \/ p = PGetAclWait ch o ty id) ->
    Forall (aclrep_ok g tc me p) (snd (get_acl_read tc me g o ty id)).
  Proof.
    intros [ch Hp]. unfold get_acl_read. cbv zeta. destruct (negb (is_owner (objs g o) me)) eqn:E; cbn [snd]; [outs idtac|].
    apply negb_false_iff in E. destruct tc as [c|]; [|constructor]. constructor; [|constructor].
    cbn [aclrep_ok]. split; [reflexivity|]. exists ch, o, ty. auto.
  Qed.

  Lemma rep_join_locked g0 p g ch o created ob id : Forall (aclrep_ok g0 tc me p) (snd (join_locked cf t tc me g ch o created ob id)).
  Proof. unf_steps. repeat hd1; outs ltac:(unfold events). Qed.

  Lemma rep_seg g p ok hint : Forall (aclrep_ok g tc me p) (snd (seg cf t tc me g p ok hint)).
  Proof.
    destruct p as [[]| | | | | | | | | | |]; cbn [seg]; unfold join_start; repeat hd1;
      first [ apply rep_join_locked
            | apply rep_get_acl_read; eexists; first [left; split; [reflexivity|eassumption] | right; reflexivity]
            | unfold leave_start, leave_locked, leave_after_n1, leave_after_n2, leave_end, join_finish, members_read,
                     set_acl_locked, bcast_lookup, bcast_read; cbv beta iota zeta; repeat hd1; outs ltac:(unfold events) ].
  Qed.

  Lemma sack_set_acl_locked g p o ty adding us id :
    (exists ch, (p = PStart (RSetAcl ch ty adding us id) /\ cmap g ch = Some o) \/ p = PSetAclWait ch o ty adding us id) ->
    Forall (sack_ok g tc me p (fst (fst (set_acl_locked cf tc me g o ty adding us id))))
           (snd (set_acl_locked cf tc me g o ty adding us id)).
  Proof.
    intros [ch Hp]. unfold set_acl_locked. cbv zeta. destruct (negb (is_owner (objs g o) me)) eqn:E; cbn [fst snd]; [outs idtac|].
    apply negb_false_iff in E. destruct (c_max_clients cf <? _); cbn [fst snd]; [outs idtac|].
    destruct tc as [c|]; [|constructor]. constructor; [|constructor].
    cbn [sack_ok]. change (A_SETACL =? A_SETACL) with true. cbv iota. split; [reflexivity|]. exists ch, o, ty, adding, us.
    split; [exact Hp|]. split; [exact E|]. unfold set_acl_post, put_obj, set_objs. cbn [objs]. rewrite upd_same.
    split; [apply acl_of_set_same|]. split; [intros ty'; apply acl_of_set_other|]. split; [reflexivity|]. split; [reflexivity|].
    intros o' Ho'. apply upd_other. exact Ho'.
  Qed.

  Lemma nack_join_locked K g ch o created ob id : K = A_SETACL -> Forall (no_ack K) (snd (join_locked cf t tc me g ch o created ob id)).
  Proof. intros ->. unf_steps. repeat hd1; outs ltac:(unfold events). Qed.

  Lemma sack_seg g p ok hint :
    Forall (sack_ok g tc me p (fst (fst (seg cf t tc me g p ok hint)))) (snd (seg cf t tc me g p ok hint)).
  Proof.
    assert (nb : forall p' g' l, Forall (no_ack A_SETACL) l -> Forall (sack_ok g tc me p' g') l)
      by (intros p' g' l Hl; eapply Forall_impl; [intros x Hx; apply no_ack_sack; exact Hx|exact Hl]).
    destruct p as [[]| | | | | | | | | | |]; cbn [seg];
      try solve [apply nb; unfold join_start; repeat hd1;
           first [ apply nack_join_locked; reflexivity
                 | unfold leave_start, leave_locked, leave_after_n1, leave_after_n2, leave_end, join_finish, members_read,
                          get_acl_read, bcast_lookup, bcast_read; cbv beta iota zeta; repeat hd1; outs ltac:(unfold events) ]].
    - destruct (cmap g ch) as [o|] eqn:Hc; [|outs idtac]. destruct (lock_free g o); [|outs idtac].
      apply sack_set_acl_locked. exists ch. left. auto.
    - destruct (lock_free g o); [|outs idtac]. apply sack_set_acl_locked. exists ch. right. reflexivity.
  Qed.
End Acl.

(* C03: a reported allow-list is the list as it is at that very step, reported to the owner only *)
Theorem conc_acl_report_is_current cf es e c id l :
  let s := cstate_after cf es in
  In (OAcl c id l) (snd (cstep cf s e)) ->
  exists t k ok hint ch o ty, e = ERun t ok hint /\ In (t, k) (tasks s) /\ t_conn k = Some c /\
    ((t_pc k = PStart (RGetAcl ch ty id) /\ cmap (cg s) ch = Some o) \/ t_pc k = PGetAclWait ch o ty id) /\
    l = acl_of (objs (cg s) o) ty /\ is_owner (objs (cg s) o) (t_me k) = true.
Proof.
  intros s H.
  destruct e as [c0 u ex|c0 r|t ok hint|c0 hint|t|ts pl]; unfold cstep in H; cbv zeta in H;
    [ | | | | |exfalso; cbn [snd] in H; apply direct_outs_only in H; destruct H as [? H]; discriminate H].
  - destruct (cuser (cg s) c0); [destruct H|]. destruct (ex && _); cbn [snd In] in H; destruct H as [H|[]]; discriminate.
  - destruct (cuser (cg s) c0); destruct H.
  - destruct (tlookup t (tasks s)) as [k|] eqn:Hk; [|destruct H].
    pose proof (rep_seg cf t (t_conn k) (t_me k) (cg s) (t_pc k) ok hint) as Hs.
    destruct (seg cf t (t_conn k) (t_me k) (cg s) (t_pc k) ok hint) as [[g' p] os]. cbn [snd] in *.
    rewrite Forall_forall in Hs. apply Hs in H. cbn [aclrep_ok] in H.
    destruct H as (Hc & ch & o & ty & Hp & Hl & Ho).
    exists t, k, ok, hint, ch, o, ty. split; [reflexivity|]. split; [apply tlookup_In; exact Hk|]. auto.
  - destruct (cuser (cg s) c0); [|destruct H]. destruct (isnil _); destruct H.
  - destruct (tlookup t (tasks s)) as [k|]; [|destruct H]. destruct (t_conn k); destruct H.
Qed.

(* C03: an acknowledged update changes exactly the named list, by exactly the named entries; the other two lists, the
   members and the owner stay; only the owner's update is acknowledged *)
Theorem conc_set_acl_exact cf es t ok hint c id :
  let s := cstate_after cf es in
  let s' := fst (cstep cf s (ERun t ok hint)) in
  In (OAck c id A_SETACL) (snd (cstep cf s (ERun t ok hint))) ->
  exists k ch o ty adding us, In (t, k) (tasks s) /\ t_conn k = Some c /\
    ((t_pc k = PStart (RSetAcl ch ty adding us id) /\ cmap (cg s) ch = Some o) \/ t_pc k = PSetAclWait ch o ty adding us id) /\
    is_owner (objs (cg s) o) (t_me k) = true /\
    acl_of (objs (cg s') o) ty = acl_update (acl_of (objs (cg s) o) ty) us adding /\
    (forall ty', acl_class ty' <> acl_class ty -> acl_of (objs (cg s') o) ty' = acl_of (objs (cg s) o) ty') /\
    members (objs (cg s') o) = members (objs (cg s) o) /\ owner (objs (cg s') o) = owner (objs (cg s) o) /\
    (forall o', o' <> o -> objs (cg s') o' = objs (cg s) o').
Proof.
  intros s. unfold cstep. cbv zeta.
  destruct (tlookup t (tasks s)) as [k|] eqn:Hk; [|intros []].
  pose proof (sack_seg cf t (t_conn k) (t_me k) (cg s) (t_pc k) ok hint) as Hs.
  destruct (seg cf t (t_conn k) (t_me k) (cg s) (t_pc k) ok hint) as [[g' p] os]. cbn [fst snd cg] in *. intro H.
  rewrite Forall_forall in Hs. apply Hs in H. cbn [sack_ok] in H. change (A_SETACL =? A_SETACL) with true in H. cbv iota in H.
  destruct H as (Hc & ch & o & ty & adding & us & Hp & Ho & Hpost).
  exists k, ch, o, ty, adding, us. split; [apply tlookup_In; exact Hk|]. split; [exact Hc|]. split; [exact Hp|]. split; [exact Ho|].
  exact Hpost.
Qed.

(* ---------- C03: who is added to a member set ---------- *)
(* a relation between every object before and after *)
Definition Rel (R : cobj -> cobj -> Prop) (f f' : oid -> cobj) : Prop := forall o, R (f o) (f' o).
Lemma Rel_upd R f f' o v : Rel R f f' -> R (f o) v -> Rel R f (upd f' o v).
Proof. intros H Hv x. unfold upd. destruct (N.eqb_spec x o); [subst; exact Hv|apply H]. Qed.

Lemma In_add x n (l : list N) : In x (add n l) -> In x l \/ x = n.
Proof. unfold add. destruct (mem n l); [auto|]. rewrite in_app_iff. cbn [In]. intros [H|[H|[]]]; auto. Qed.

(* objects not yet handed out still have the default join list; the map and the parked allow-list updates
   name only objects already handed out *)
Definition fr_ok (g : gst) : Prop :=
  (forall o, next_oid g <= o -> jacl (objs g o) = []) /\ (forall ch o, cmap g ch = Some o -> o < next_oid g).
Definition pc_lt (n : N) (p : pc) : Prop := match p with PSetAclWait _ o _ _ _ _ => o < n | _ => True end.
Definition no_saw (p : pc) : Prop := match p with PSetAclWait _ _ _ _ _ _ => False | _ => True end.
Definition same_jacl (b b' : cobj) : Prop := jacl b' = jacl b.
Definition quiet (g g' : gst) : Prop :=
  Rel same_jacl (objs g) (objs g') /\ next_oid g' = next_oid g /\ (forall ch o, cmap g' ch = Some o -> cmap g ch = Some o).

Lemma pc_lt_mono n m p : n <= m -> pc_lt n p -> pc_lt m p.
Proof. destruct p; cbn [pc_lt]; auto. unfold oid in *. lia. Qed.
Lemma no_saw_lt n p : no_saw p -> pc_lt n p.
Proof. destruct p; cbn [pc_lt no_saw]; auto. contradiction. Qed.

Lemma fr_quiet g g' : quiet g g' -> fr_ok g -> fr_ok g' /\ next_oid g <= next_oid g'.
Proof.
  intros (Hj&Hn&Hc) (HA&HB). unfold fr_ok. rewrite Hn. split; [split|lia].
  - intros o Ho. rewrite (Hj o). apply HA. exact Ho.
  - intros ch o Hm. apply HB with ch. apply Hc. exact Hm.
Qed.

Ltac cm_tac := let ch' := fresh "ch" in let o' := fresh "o" in let X := fresh "X" in
  intros ch' o'; unfold upd; repeat match goal with |- context [if ?b then _ else _] => destruct b end;
  intro X; first [discriminate X | exact X].
Ltac qleaf := rest_split; unfold quiet; unf_set; red_g;
  (split; [split; [repeat (apply Rel_upd; [|unfold same_jacl; reflexivity]); intro; reflexivity | split; [reflexivity | cm_tac]] | exact I]).

Definition Rj (b b' : cobj) : Prop := forall n, In n (members b') -> In n (members b) \/ allowed (jacl b) n = true.
Ltac rj_side := let n' := fresh "n" in let Hn := fresh "Hn" in
  unfold Rj; red_g; intros n' Hn;
  first [ contradiction Hn
        | left; exact Hn
        | apply In_del in Hn; left; apply Hn
        | apply In_add in Hn; destruct Hn as [Hn| ->]; [left; exact Hn|right];
          match goal with Ha : negb (allowed _ _) = false |- _ => apply negb_false_iff in Ha; exact Ha end ].
Ltac rjleaf := rest_split; unf_set; red_g; repeat (apply Rel_upd; [|rj_side]); intros ? ? ?; left; assumption.

Section Fresh.
  Variable cf : ccfg.
  Variables (t : tid) (tc : option conn) (me : user).

  Lemma q_join_locked g ch o created ob id :
    quiet g (fst (fst (join_locked cf t tc me g ch o created ob id))) /\ no_saw (snd (fst (join_locked cf t tc me g ch o created ob id))).
  Proof. unf_steps. repeat hd1; qleaf. Qed.

  Definition quiet_pc (p : pc) : Prop :=
    match p with PStart (RJoin _ _ _) | PStart (RSetAcl _ _ _ _ _) | PSetAclWait _ _ _ _ _ _ => False | _ => True end.

  Lemma quiet_pc_dec p : quiet_pc p \/ ~ quiet_pc p.
  Proof. destruct p as [[]| | | | | | | | | | |]; cbn [quiet_pc]; tauto. Qed.

  Lemma q_seg g p ok hint : quiet_pc p ->
    quiet g (fst (fst (seg cf t tc me g p ok hint))) /\ no_saw (snd (fst (seg cf t tc me g p ok hint))).
  Proof.
    destruct p as [[]| | | | | | | | | | |]; intro Hq; try contradiction Hq; cbn [seg]; repeat hd1;
      first [ apply q_join_locked | unf_steps; repeat hd1; qleaf ].
  Qed.

  Lemma fr_set_acl_locked g o ty adding us id : o < next_oid g -> fr_ok g ->
    fr_ok (fst (fst (set_acl_locked cf tc me g o ty adding us id))) /\
    next_oid (fst (fst (set_acl_locked cf tc me g o ty adding us id))) = next_oid g /\
    no_saw (snd (fst (set_acl_locked cf tc me g o ty adding us id))).
  Proof.
    intros Ho (HA&HB). unfold set_acl_locked. cbv zeta. repeat hd1; unf_set; red_g; (split; [|split; [reflexivity|exact I]]);
      try (split; assumption).
    unfold fr_ok. red_g. split; [|exact HB]. intros o' Ho'. rewrite upd_other; [apply HA; exact Ho'|]. unfold oid in *. lia.
  Qed.

  Lemma fr_seg g p ok hint : fr_ok g -> pc_lt (next_oid g) p ->
    fr_ok (fst (fst (seg cf t tc me g p ok hint))) /\ next_oid g <= next_oid (fst (fst (seg cf t tc me g p ok hint))) /\
    pc_lt (next_oid (fst (fst (seg cf t tc me g p ok hint)))) (snd (fst (seg cf t tc me g p ok hint))).
  Proof.
    intros Hf Hp.
    assert (Hq : forall g0 (r : step_res), fr_ok g0 -> quiet g0 (fst (fst r)) /\ no_saw (snd (fst r)) ->
                 fr_ok (fst (fst r)) /\ next_oid g0 <= next_oid (fst (fst r)) /\ pc_lt (next_oid (fst (fst r))) (snd (fst r))).
    { intros g0 r H0 [H1 H2]. destruct (fr_quiet _ _ H1 H0) as [H3 H4]. split; [exact H3|]. split; [exact H4|]. apply no_saw_lt. exact H2. }
    assert (Hsa : forall o ty adding us id, o < next_oid g ->
                 let r := set_acl_locked cf tc me g o ty adding us id in
                 fr_ok (fst (fst r)) /\ next_oid g <= next_oid (fst (fst r)) /\ pc_lt (next_oid (fst (fst r))) (snd (fst r))).
    { intros o ty adding us id Ho. cbv zeta. destruct (fr_set_acl_locked g o ty adding us id Ho Hf) as (H1&H2&H3).
      split; [exact H1|]. rewrite H2. split; [lia|]. apply no_saw_lt. exact H3. }
    destruct (quiet_pc_dec p) as [Hd|Hd]; [apply Hq; [exact Hf|apply q_seg; exact Hd]|].
    destruct p as [[]| | | | | | | | | | |]; try (exfalso; apply Hd; exact I); cbn [seg].
    - (* JOIN *) unfold join_start. destruct (cmap g ch) as [o|] eqn:Hc.
      + destruct (lock_free g o); [apply Hq; [exact Hf|apply q_join_locked]|]. cbn [fst snd]. split; [exact Hf|]. split; [lia|exact I].
      + cbv zeta. match goal with |- context [join_locked cf t tc me ?g1 _ _ _ _ _] => set (G1 := g1) end.
        assert (H1 : fr_ok G1 /\ next_oid G1 = next_oid g + 1).
        { destruct Hf as (HA&HB). subst G1. unfold fr_ok. unf_set. red_g. split; [split|reflexivity].
          - intros o' Ho'. rewrite upd_other; [apply HA|]; unfold oid in *; lia.
          - intros ch' o'. unfold upd. destruct (ch' =? ch).
            + intro X. injection X as <-. unfold oid in *. lia.
            + intro X. apply HB in X. unfold oid in *. lia. }
        destruct H1 as [H1 H2]. destruct (Hq G1 (join_locked cf t tc me G1 ch (next_oid g) true ob id) H1 (q_join_locked _ _ _ _ _ _)) as (H3&H4&H5).
        split; [exact H3|]. split; [|exact H5]. unfold oid in *. lia.
    - (* SET-ACL *) destruct Hf as (HA&HB). destruct (cmap g ch) as [o|] eqn:Hc.
      + destruct (lock_free g o); [apply Hsa; apply HB with ch; exact Hc|]. cbn [fst snd pc_lt].
        split; [split; assumption|]. split; [lia|apply HB with ch; exact Hc].
      + cbn [fst snd pc_lt]. split; [split; assumption|]. split; [lia|exact I].
    - cbn [pc_lt] in Hp. destruct (lock_free g o); [apply Hsa; exact Hp|]. cbn [fst snd pc_lt]. split; [exact Hf|]. split; [lia|exact Hp].
  Qed.

  Lemma rj_join_locked g ch o created ob id : Rel Rj (objs g) (objs (fst (fst (join_locked cf t tc me g ch o created ob id)))).
  Proof. unf_steps. repeat hd1; rjleaf. Qed.

  Lemma rj_seg g p ok hint : fr_ok g -> Rel Rj (objs g) (objs (fst (fst (seg cf t tc me g p ok hint)))).
  Proof.
    intros (HA&_). destruct p as [[]| | | | | | | | | | |]; cbn [seg];
      try solve [repeat hd1; first [ apply rj_join_locked | unf_steps; repeat hd1; rjleaf ]].
    unfold join_start. destruct (cmap g ch) as [o|]; [destruct (lock_free g o); [apply rj_join_locked|rjleaf]|].
    cbv zeta. match goal with |- context [join_locked cf t tc me ?g1 _ _ _ _ _] => set (G1 := g1) end.
    pose proof (rj_join_locked G1 ch (next_oid g) true ob id) as H1.
    intros o n Hn. apply H1 in Hn. subst G1. unf_set. red_g. unfold upd in Hn.
    destruct (N.eqb_spec o (next_oid g)) as [->|Hne]; [|exact Hn].
    red_g. right. rewrite HA; [reflexivity|lia].
  Qed.
End Fresh.

Lemma release_frame2 g k : next_oid (release_of g k) = next_oid g /\ cmap (release_of g k) = cmap g.
Proof. unfold release_of. destruct (holds (t_pc k)); unf_set; red_g; auto. Qed.

Lemma fold_frame2 c (l : list (tid * task)) : forall g,
  let g1 := fold_left (fun acc e => if of_conn c (snd e) then release_of acc (snd e) else acc) l g in
  next_oid g1 = next_oid g /\ cmap g1 = cmap g.
Proof.
  induction l as [|e r IH]; intro g; cbn [fold_left]; [auto|].
  specialize (IH (if of_conn c (snd e) then release_of g (snd e) else g)). cbv zeta in *.
  destruct IH as (a&b). rewrite a, b. destruct (of_conn c (snd e)); [apply release_frame2|auto].
Qed.

Lemma fr_same g g' : objs g' = objs g -> next_oid g' = next_oid g -> cmap g' = cmap g -> fr_ok g -> fr_ok g'.
Proof. intros Ho Hn Hc H. unfold fr_ok. rewrite Ho, Hn, Hc. exact H. Qed.

Lemma tset_In t v l x : In x (tset t v l) -> In x l \/ snd x = v.
Proof.
  induction l as [|[a w] r IH]; cbn [tset]; [auto|]. destruct (t =? a); cbn [In].
  - intros [<-|H]; [right; reflexivity|left; right; exact H].
  - intros [<-|H]; [left; left; reflexivity|]. destruct (IH H); auto.
Qed.

Lemma settle_In t k p hint l x :
  In x (settle t k p hint l) -> In x l \/ t_pc (snd x) = p \/ exists ch, t_pc (snd x) = PStart (RLeave ch None 0).
Proof.
  assert (Hs : forall p', In x (tset t (with_pc k p') l) -> In x l \/ t_pc (snd x) = p' \/ exists ch, t_pc (snd x) = PStart (RLeave ch None 0)).
  { intros p' H. apply tset_In in H. destruct H as [H|H]; [left; exact H|right; left; rewrite H; reflexivity]. }
  unfold settle. destruct p; try apply Hs.
  assert (Hr : In x (tremove t l) -> In x l) by (unfold tremove; intro H; apply filter_In in H; apply H).
  destruct (t_conn k); [intro H; left; apply Hr; exact H|]. destruct (t_rest k) as [|c0 r0]; [intro H; left; apply Hr; exact H|].
  destruct (pick_next hint (c0 :: r0)) as [ch r]. intro H. apply tset_In in H.
  destruct H as [H|H]; [left; exact H|right; right; exists ch; rewrite H; reflexivity].
Qed.

Definition SInv (s : cstate) : Prop :=
  fr_ok (cg s) /\ forall t k, In (t, k) (tasks s) -> pc_lt (next_oid (cg s)) (t_pc k).

Lemma sinv_cstep cf s e : SInv s -> SInv (fst (cstep cf s e)).
Proof.
  intros [Hf Ht]. unfold SInv. destruct e as [c u ex|c r|t ok hint|c hint|t|ts pl]; unfold cstep; cbv zeta; [ | | | | |split; assumption].
  - destruct (cuser (cg s) c); [split; assumption|]. destruct (ex && _); [split; assumption|]. cbn [fst]. split; [|exact Ht].
    cbn [cg]. eapply fr_same; [| | |exact Hf]; reflexivity.
  - destruct (cuser (cg s) c); [|split; assumption]. cbn [fst]. split; [exact Hf|]. cbn [cg tasks]. intros t k H.
    apply in_app_or in H. destruct H as [H|[H|[]]]; [apply Ht with t; exact H|]. injection H as <- <-. exact I.
  - destruct (tlookup t (tasks s)) as [k|] eqn:Hk; [|split; assumption].
    pose proof (fr_seg cf t (t_conn k) (t_me k) (cg s) (t_pc k) ok hint Hf (Ht t k (tlookup_In _ _ _ Hk))) as Hs.
    destruct (seg cf t (t_conn k) (t_me k) (cg s) (t_pc k) ok hint) as [[g' p] os]. cbn [fst snd cg tasks] in *.
    destruct Hs as (H1&H2&H3). split; [exact H1|]. intros t' k' H. apply settle_In in H. cbn [snd] in H.
    destruct H as [H|[H|[ch H]]]; [|rewrite H; exact H3|rewrite H; exact I].
    eapply pc_lt_mono; [exact H2|]. apply Ht with t'. exact H.
  - destruct (cuser (cg s) c) as [u|]; [|split; assumption].
    destruct (fold_frame c (tasks s) (cg s)) as (Ho&_&_&_). destruct (fold_frame2 c (tasks s) (cg s)) as (Hn&Hc).
    match type of Ho with objs ?x = _ => set (g1 := x) in * end.
    assert (Hfl : forall t k, In (t, k) (filter (fun e => negb (of_conn c (snd e))) (tasks s)) -> pc_lt (next_oid (cg s)) (t_pc k))
      by (intros t k H; apply filter_In in H; apply Ht with t; apply H).
    destruct (isnil _); cbn [fst cg tasks]; unf_set; red_g; (split; [eapply fr_same; [| | |exact Hf]; assumption|]); rewrite Hn.
    + destruct (idx g1 u) as [|c1 r1]; [exact Hfl|]. destruct (pick_next hint (c1 :: r1)) as [ch r]. intros t k H.
      apply in_app_or in H. destruct H as [H|[H|[]]]; [apply Hfl with t; exact H|]. injection H as <- <-. exact I.
    + exact Hfl.
  - destruct (tlookup t (tasks s)) as [k|]; [|split; assumption]. destruct (t_conn k); [|split; assumption]. cbn [fst cg tasks].
    destruct (release_frame (cg s) k) as (Ho&_&_&_). destruct (release_frame2 (cg s) k) as (Hn&Hc).
    split; [eapply fr_same; [| | |exact Hf]; assumption|]. rewrite Hn. intros t' k' H. unfold tremove in H. apply filter_In in H.
    apply Ht with t'. apply H.
Qed.

Lemma sinv_reach cf es : SInv (cstate_after cf es).
Proof.
  unfold cstate_after. apply (crun_inv cf SInv).
  - intros s e. apply sinv_cstep.
  - split; [split|]; cbn.
    + intros; reflexivity.
    + intros ch o H. discriminate H.
    + intros t k [].
Qed.

(* C03: an admitted JOIN was permitted by the join list at the step that inserted the member *)
Theorem conc_join_respects_list cf es t ok hint o n :
  let s := cstate_after cf es in
  let s' := fst (cstep cf s (ERun t ok hint)) in
  ~ In n (members (objs (cg s) o)) -> In n (members (objs (cg s') o)) ->
  allowed (jacl (objs (cg s) o)) n = true.
Proof.
  intros s. cbv zeta. destruct (sinv_reach cf es) as [Hf _]. fold s in Hf. unfold cstep. cbv zeta.
  destruct (tlookup t (tasks s)) as [k|]; [|intros H1 H2; contradiction].
  pose proof (rj_seg cf t (t_conn k) (t_me k) (cg s) (t_pc k) ok hint Hf) as Hs.
  destruct (seg cf t (t_conn k) (t_me k) (cg s) (t_pc k) ok hint) as [[g' p] os]. cbn [fst snd cg] in *.
  intros H1 H2. destruct (Hs o n H2) as [H|H]; [contradiction|exact H].
Qed.
