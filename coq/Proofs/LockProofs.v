(* Proofs about the lock protocol model (Model/Locks.v):
     1. every current handler program is disciplined; the old CHANNELS(owner) program is not;
     2. no_wedge: disciplined programs never wedge a worker thread, under every schedule;
     3. handlers_never_wedge: corollary for any mix of the current handlers;
     4. the old CHANNELS(owner) program wedges (one-thread and two-thread variants);
     5. cancel_releases: cancelling a parked task releases what it holds. *)
From NW Require Import Base.Bytes Model.Locks.
Import ListNotations.
Local Open Scope nat_scope.

(* ------------------------------------------------------------------ *)
(* 1. discipline of the handler programs                               *)
(* ------------------------------------------------------------------ *)

Lemma disciplined_from_app : forall p q hs ha,
  disciplined_from hs ha p = true -> disciplined q = true ->
  disciplined_from hs ha (p ++ q) = true.
Proof.
  induction p as [|a p IH]; intros q hs ha Hp Hq; simpl in *.
  - destruct hs, ha; try discriminate. exact Hq.
  - destruct a, hs, ha; try discriminate;
      try (apply andb_true_iff in Hp; destruct Hp as [H1 H2]; rewrite H1; simpl); eauto.
Qed.

Lemma disciplined_app : forall p q,
  disciplined p = true -> disciplined q = true -> disciplined (p ++ q) = true.
Proof. intros; apply disciplined_from_app; assumption. Qed.

Lemma disciplined_flat_map : forall (f : nat -> program) cs,
  (forall c, disciplined (f c) = true) -> disciplined (flat_map f cs) = true.
Proof.
  induction cs as [|c cs IH]; intros Hf; simpl.
  - reflexivity.
  - apply disciplined_app; auto.
Qed.

Theorem join_disciplined : forall c, disciplined (p_join c) = true.
Proof. intros c. unfold disciplined; simpl. rewrite !Nat.eqb_refl. reflexivity. Qed.

Theorem leave_disciplined : forall c, disciplined (p_leave c) = true.
Proof. intros c. unfold disciplined; simpl. rewrite !Nat.eqb_refl. reflexivity. Qed.

Theorem channels_disciplined : disciplined p_channels = true.
Proof. reflexivity. Qed.

Theorem read_disciplined : forall c, disciplined (p_read c) = true.
Proof. intros c. unfold disciplined; simpl. rewrite !Nat.eqb_refl. reflexivity. Qed.

Theorem write_disciplined : forall c, disciplined (p_write c) = true.
Proof. intros c. unfold disciplined; simpl. rewrite !Nat.eqb_refl. reflexivity. Qed.

Theorem broadcast_disciplined : forall c, disciplined (p_broadcast c) = true.
Proof. intros c. unfold disciplined; simpl. rewrite !Nat.eqb_refl. reflexivity. Qed.

Theorem channels_owner_disciplined : forall cs, disciplined (p_channels_owner cs) = true.
Proof.
  intros cs. unfold p_channels_owner.
  apply disciplined_app; [reflexivity|].
  apply disciplined_app; [|reflexivity].
  apply disciplined_flat_map. intros c.
  unfold disciplined; simpl. rewrite !Nat.eqb_refl. reflexivity.
Qed.

Theorem disconnect_disciplined : forall cs, disciplined (p_disconnect cs) = true.
Proof.
  intros cs. unfold p_disconnect.
  apply disciplined_app; [reflexivity|].
  apply disciplined_app; [reflexivity|].
  apply disciplined_app; [reflexivity|].
  apply disciplined_flat_map. intros c.
  unfold disciplined; simpl. rewrite !Nat.eqb_refl. reflexivity.
Qed.

Theorem channels_owner_old_not_disciplined : forall c cs,
  disciplined (p_channels_owner_old (c :: cs)) = false.
Proof. intros c cs. reflexivity. Qed.

(* ------------------------------------------------------------------ *)
(* 2. no_wedge                                                         *)
(* ------------------------------------------------------------------ *)

(* -- finite maps / lists -- *)

Lemma nth_error_set_nth_eq : forall A (l : list A) i x y,
  nth_error l i = Some x -> nth_error (set_nth i y l) i = Some y.
Proof. induction l; destruct i; simpl; intros; try discriminate; eauto. Qed.

Lemma nth_error_set_nth_neq : forall A (l : list A) i j y,
  i <> j -> nth_error (set_nth i y l) j = nth_error l j.
Proof. induction l; destruct i, j; simpl; intros; try congruence; eauto. Qed.

Lemma In_remove_key : forall A k' (l : list (nat * A)) k v,
  In (k, v) (remove_key k' l) <-> In (k, v) l /\ k <> k'.
Proof.
  intros. unfold remove_key. rewrite filter_In. simpl.
  rewrite negb_true_iff, Nat.eqb_neq. intuition.
Qed.

Lemma In_set_key : forall A k' v' (l : list (nat * A)) k v,
  In (k, v) (set_key k' v' l) <-> (k = k' /\ v = v') \/ (In (k, v) l /\ k <> k').
Proof.
  intros. unfold set_key. simpl. rewrite In_remove_key.
  split; intros [H|H]; auto.
  - inversion H; auto.
  - destruct H; subst; auto.
Qed.

Lemma lookup_In : forall A k (l : list (nat * A)) v, lookup k l = Some v -> In (k, v) l.
Proof.
  induction l as [|[k' v'] l IH]; simpl; intros v H; [discriminate|].
  destruct (k =? k') eqn:E.
  - apply Nat.eqb_eq in E. inversion H; subst; auto.
  - auto.
Qed.

Lemma lookup_None : forall A k (l : list (nat * A)) v, lookup k l = None -> ~ In (k, v) l.
Proof.
  induction l as [|[k' v'] l IH]; simpl; intros v H; [tauto|].
  destruct (k =? k') eqn:E; [discriminate|].
  apply Nat.eqb_neq in E. intros [H1|H1].
  - inversion H1; congruence.
  - eapply IH; eauto.
Qed.

Lemma lookup_remove_key : forall A k' (l : list (nat * A)) k,
  lookup k (remove_key k' l) = if k =? k' then None else lookup k l.
Proof.
  induction l as [|[k0 v0] l IH]; intros k; simpl.
  - destruct (k =? k'); reflexivity.
  - destruct (k' =? k0) eqn:E0; simpl.
    + apply Nat.eqb_eq in E0; subst k0. rewrite IH.
      destruct (k =? k') eqn:E; reflexivity.
    + rewrite IH. destruct (k =? k0) eqn:E1.
      * apply Nat.eqb_eq in E1; subst k0. rewrite Nat.eqb_sym, E0. reflexivity.
      * reflexivity.
Qed.

Lemma lookup_set_key : forall A k' v' (l : list (nat * A)) k,
  lookup k (set_key k' v' l) = if k =? k' then Some v' else lookup k l.
Proof.
  intros. unfold set_key. simpl. rewrite lookup_remove_key.
  destruct (k =? k'); reflexivity.
Qed.

(* -- the invariant -- *)

Local Arguments set_key : simpl never.
Local Arguments remove_key : simpl never.

Ltac psimpl := cbn [tasks sync_owner chan_lock running t_thread t_prog t_status t_async with_task].

Record Inv (s : lstate) : Prop := {
  (* each sync lock has at most one owner *)
  inv_fun : forall l a b, In (l, a) (sync_owner s) -> In (l, b) (sync_owner s) -> a = b;
  (* the remaining program of each task is a suffix of a disciplined program, from the sync lock
     it holds (exactly [hs]: at most one) and the channel lock it holds *)
  inv_disc : forall i t, nth_error (tasks s) i = Some t ->
     exists hs, disciplined_from hs (t_async t) (t_prog t) = true
                /\ (forall l, In (l, i) (sync_owner s) <-> hs = Some l);
  (* the owner of a sync lock is Ready and is the task its thread is executing *)
  inv_owner : forall l i, In (l, i) (sync_owner s) ->
     exists t, nth_error (tasks s) i = Some t /\ t_status t = Ready
               /\ lookup (t_thread t) (running s) = Some i
}.

Lemma inv_update : forall s i t t' so' cl' run',
  Inv s -> nth_error (tasks s) i = Some t ->
  (forall l a b, In (l, a) so' -> In (l, b) so' -> a = b) ->
  (forall l j, j <> i -> (In (l, j) so' <-> In (l, j) (sync_owner s))) ->
  (exists hs, disciplined_from hs (t_async t') (t_prog t') = true
              /\ forall l, In (l, i) so' <-> hs = Some l) ->
  (forall l, In (l, i) so' -> t_status t' = Ready /\ lookup (t_thread t') run' = Some i) ->
  (forall j tj, j <> i -> nth_error (tasks s) j = Some tj -> t_status tj = Ready ->
                lookup (t_thread tj) (running s) = Some j ->
                lookup (t_thread tj) run' = Some j) ->
  Inv {| tasks := set_nth i t' (tasks s); sync_owner := so'; chan_lock := cl'; running := run' |}.
Proof.
  intros s i t t' so' cl' run' HI Hn Hfun Hoth Hme Hown Hrun.
  constructor; simpl.
  - exact Hfun.
  - intros k tk Hk. destruct (Nat.eq_dec k i) as [->|Hne].
    + rewrite (nth_error_set_nth_eq _ _ _ _ t' Hn) in Hk. inversion Hk; subst tk. exact Hme.
    + rewrite nth_error_set_nth_neq in Hk by congruence.
      destruct (inv_disc s HI k tk Hk) as [hs [Hd Hh]].
      exists hs. split; [exact Hd|]. intros l. rewrite Hoth by exact Hne. apply Hh.
  - intros l k Hin. destruct (Nat.eq_dec k i) as [->|Hne].
    + exists t'. split; [eapply nth_error_set_nth_eq; eauto|]. apply (Hown l Hin).
    + apply Hoth in Hin; [|exact Hne].
      destruct (inv_owner s HI l k Hin) as [tk [Hk [Hr Hl]]].
      exists tk. split; [|split]; auto.
      rewrite nth_error_set_nth_neq by congruence. exact Hk.
Qed.

(* a task that is (or can become) the running task of its thread: every OTHER task that is the
   running task of its own thread lives on a different thread *)
Lemma other_thread : forall s i th j thj,
  thread_free_for s i th = true -> j <> i -> lookup thj (running s) = Some j -> thj <> th.
Proof.
  intros s i th j thj Hfree Hne Hl E. subst thj.
  unfold thread_free_for in Hfree. rewrite Hl in Hfree.
  apply Nat.eqb_eq in Hfree. contradiction.
Qed.

Lemma run_keep_set : forall s i th j thj,
  thread_free_for s i th = true -> j <> i -> lookup thj (running s) = Some j ->
  lookup thj (set_key th i (running s)) = Some j.
Proof.
  intros. rewrite lookup_set_key.
  assert (thj <> th) by (eapply other_thread; eauto).
  apply Nat.eqb_neq in H2. rewrite H2. assumption.
Qed.

Lemma run_keep_yield : forall s i th j thj,
  thread_free_for s i th = true -> j <> i -> lookup thj (running s) = Some j ->
  lookup thj (remove_key th (set_key th i (running s))) = Some j.
Proof.
  intros. rewrite lookup_remove_key, lookup_set_key.
  assert (thj <> th) by (eapply other_thread; eauto).
  apply Nat.eqb_neq in H2. rewrite H2. assumption.
Qed.

Lemma run_keep_remove : forall s i th j thj,
  thread_free_for s i th = true -> j <> i -> lookup thj (running s) = Some j ->
  lookup thj (remove_key th (running s)) = Some j.
Proof.
  intros. rewrite lookup_remove_key.
  assert (thj <> th) by (eapply other_thread; eauto).
  apply Nat.eqb_neq in H2. rewrite H2. assumption.
Qed.

(* an action of the running task that does not touch the sync locks and does not park *)
Lemma inv_advance_plain : forall s i t a rest hold cl',
  Inv s -> nth_error (tasks s) i = Some t -> thread_free_for s i (t_thread t) = true ->
  t_prog t = a :: rest ->
  (forall l, ~ In (l, i) (sync_owner s)) ->
  disciplined_from None hold rest = true ->
  Inv {| tasks := set_nth i {| t_thread := t_thread t; t_prog := rest; t_status := Ready; t_async := hold |} (tasks s);
         sync_owner := sync_owner s; chan_lock := cl';
         running := set_key (t_thread t) i (running s) |}.
Proof.
  intros s i t a rest hold cl' HI Hn Hfree Hp Hnone Hd.
  eapply (inv_update s i t); eauto; psimpl.
  - apply (inv_fun s HI).
  - tauto.
  - exists None. split; [exact Hd|]. intros l. split; [intros H; elim (Hnone l H)|discriminate].
  - intros l H. elim (Hnone l H).
  - intros j tj Hne _ _ Hl. eapply run_keep_set; eauto.
Qed.

(* the running task parks (channel lock busy / modulator call) or keeps its program *)
Lemma inv_yield : forall s i t st prog,
  Inv s -> nth_error (tasks s) i = Some t -> thread_free_for s i (t_thread t) = true ->
  (forall l, ~ In (l, i) (sync_owner s)) ->
  disciplined_from None (t_async t) prog = true ->
  Inv {| tasks := set_nth i {| t_thread := t_thread t; t_prog := prog; t_status := st; t_async := t_async t |} (tasks s);
         sync_owner := sync_owner s; chan_lock := chan_lock s;
         running := remove_key (t_thread t) (set_key (t_thread t) i (running s)) |}.
Proof.
  intros s i t st prog HI Hn Hfree Hnone Hd.
  eapply (inv_update s i t); eauto; psimpl.
  - apply (inv_fun s HI).
  - tauto.
  - exists None. split; [exact Hd|]. intros l. split; [intros H; elim (Hnone l H)|discriminate].
  - intros l H. elim (Hnone l H).
  - intros j tj Hne _ _ Hl. eapply run_keep_yield; eauto.
Qed.

Lemma holds_none : forall (so : list (nat * nat)) i,
  (forall l, In (l, i) so <-> None = Some l) -> forall l, ~ In (l, i) so.
Proof. intros so i H l Hin. apply H in Hin. discriminate. Qed.

Theorem lstep_inv : forall s e s', Inv s -> lstep s e = LOk s' -> Inv s'.
Proof.
  intros s e s' HI Hstep. destruct e as [i|i|i]; unfold lstep in Hstep.
  - (* Run i *)
    destruct (nth_error (tasks s) i) as [t|] eqn:Hn; [|discriminate].
    destruct (inv_disc s HI i t Hn) as [hs [Hd Hh]].
    destruct (t_status t) eqn:Hst; try discriminate.
    destruct (t_prog t) as [|a rest] eqn:Hp.
    + (* completion *)
      simpl in Hd. destruct hs; [discriminate|]. destruct (t_async t) eqn:Ha; [discriminate|].
      pose proof (holds_none _ _ Hh) as Hnone.
      inversion Hstep; subst s'; clear Hstep.
      eapply (inv_update s i t); eauto; psimpl.
      * apply (inv_fun s HI).
      * tauto.
      * exists None. split; [reflexivity|exact Hh].
      * intros l H. elim (Hnone l H).
      * intros j tj Hne _ _ Hl.
        destruct (thread_free_for s i (t_thread t)) eqn:Hfree; [|exact Hl].
        eapply run_keep_remove; eauto.
    + destruct (thread_free_for s i (t_thread t)) eqn:Hfree; simpl in Hstep; [|discriminate].
      destruct a; simpl in Hd.
      * (* SyncAcq l *)
        destruct hs; [discriminate|].
        pose proof (holds_none _ _ Hh) as Hnone.
        destruct (lookup l (sync_owner s)) as [o|] eqn:Hl.
        { destruct (o =? i); discriminate. }
        inversion Hstep; subst s'; clear Hstep. unfold with_task; psimpl.
        eapply (inv_update s i t); eauto; psimpl.
        -- intros l0 a b H1 H2. apply In_set_key in H1. apply In_set_key in H2.
           destruct H1 as [[-> ->]|[H1 N1]], H2 as [[E2 ->]|[H2 N2]]; try congruence.
           eapply (inv_fun s HI); eauto.
        -- intros l0 j Hne. rewrite In_set_key. split.
           ++ intros [[_ E]|[H _]]; [congruence|exact H].
           ++ intros H. right. split; [exact H|]. intros ->. eapply lookup_None; eauto.
        -- exists (Some l). split; [exact Hd|]. intros l0. rewrite In_set_key. split.
           ++ intros [[-> _]|[H _]]; [reflexivity|elim (Hnone _ H)].
           ++ intros E; inversion E; auto.
        -- intros l0 _. split; [reflexivity|]. rewrite lookup_set_key, Nat.eqb_refl. reflexivity.
        -- intros j tj Hne _ _ Hlj. eapply run_keep_set; eauto.
      * (* SyncRel l *)
        destruct hs as [l'|]; [|discriminate].
        apply andb_true_iff in Hd. destruct Hd as [El Hd]. apply Nat.eqb_eq in El. subst l'.
        inversion Hstep; subst s'; clear Hstep. unfold with_task; psimpl.
        eapply (inv_update s i t); eauto; psimpl.
        -- intros l0 a b H1 H2. apply In_remove_key in H1. apply In_remove_key in H2.
           eapply (inv_fun s HI); [apply H1|apply H2].
        -- intros l0 j Hne. rewrite In_remove_key. split; [tauto|].
           intros H. split; [exact H|]. intros ->. apply Hne.
           eapply (inv_fun s HI); [exact H|]. apply Hh. reflexivity.
        -- exists None. split; [exact Hd|]. intros l0. rewrite In_remove_key. split.
           ++ intros [H N]. apply Hh in H. congruence.
           ++ discriminate.
        -- intros l0 H. apply In_remove_key in H. destruct H as [H N]. apply Hh in H. congruence.
        -- intros j tj Hne _ _ Hlj. eapply run_keep_set; eauto.
      * (* AsyncAcqR c *)
        destruct hs; [discriminate|]. destruct (t_async t) eqn:Ha; [discriminate|].
        pose proof (holds_none _ _ Hh) as Hnone.
        destruct (chan_state s c); inversion Hstep; subst s'; clear Hstep; unfold with_task; psimpl.
        -- eapply inv_advance_plain; eauto.
        -- eapply inv_advance_plain; eauto.
        -- rewrite <- Ha. eapply inv_yield; eauto. rewrite Ha. simpl. exact Hd.
      * (* AsyncAcqW c *)
        destruct hs; [discriminate|]. destruct (t_async t) eqn:Ha; [discriminate|].
        pose proof (holds_none _ _ Hh) as Hnone.
        destruct (chan_state s c); inversion Hstep; subst s'; clear Hstep; unfold with_task; psimpl.
        -- eapply inv_advance_plain; eauto.
        -- rewrite <- Ha. eapply inv_yield; eauto. rewrite Ha. simpl. exact Hd.
        -- rewrite <- Ha. eapply inv_yield; eauto. rewrite Ha. simpl. exact Hd.
      * (* AsyncRel c *)
        destruct hs; [discriminate|]. destruct (t_async t) as [c'|] eqn:Ha; [|discriminate].
        apply andb_true_iff in Hd. destruct Hd as [_ Hd].
        pose proof (holds_none _ _ Hh) as Hnone.
        inversion Hstep; subst s'; clear Hstep. unfold with_task; psimpl.
        eapply inv_advance_plain; eauto.
      * (* AwaitMod *)
        destruct hs; [discriminate|].
        pose proof (holds_none _ _ Hh) as Hnone.
        inversion Hstep; subst s'; clear Hstep.
        eapply inv_yield; eauto.
      * (* Reply *)
        destruct hs; [discriminate|].
        pose proof (holds_none _ _ Hh) as Hnone.
        inversion Hstep; subst s'; clear Hstep. unfold with_task; psimpl.
        eapply inv_advance_plain; eauto.
  - (* ModAnswer i *)
    destruct (nth_error (tasks s) i) as [t|] eqn:Hn; [|discriminate].
    destruct (t_status t) eqn:Hst; try discriminate.
    inversion Hstep; subst s'; clear Hstep. unfold with_task; psimpl.
    destruct (inv_disc s HI i t Hn) as [hs [Hd Hh]].
    assert (Hnone : forall l, ~ In (l, i) (sync_owner s)).
    { intros l H. destruct (inv_owner s HI l i H) as [t0 [Hn0 [Hr _]]]. congruence. }
    eapply (inv_update s i t); eauto; psimpl.
    + apply (inv_fun s HI).
    + tauto.
    + intros l H. elim (Hnone l H).
  - (* Cancel i *)
    destruct (nth_error (tasks s) i) as [t|] eqn:Hn; [|discriminate].
    destruct (t_status t) eqn:Hst; try discriminate.
    inversion Hstep; subst s'; clear Hstep.
    eapply (inv_update s i t); eauto; psimpl.
    + intros l a b H1 H2. apply filter_In in H1. apply filter_In in H2.
      eapply (inv_fun s HI); [apply H1|apply H2].
    + intros l j Hne. rewrite filter_In. simpl. rewrite negb_true_iff, Nat.eqb_neq. tauto.
    + exists None. split; [reflexivity|]. intros l. rewrite filter_In. simpl.
      rewrite negb_true_iff, Nat.eqb_neq. split; [tauto|discriminate].
    + intros l H. apply filter_In in H. simpl in H.
      rewrite negb_true_iff, Nat.eqb_neq in H. tauto.
Qed.

(* a blocked thread is never blocked on a stuck owner *)
Theorem blocked_not_stuck : forall s e th l o,
  Inv s -> lstep s e = LBlockedThread th l o -> owner_stuck s th o = false.
Proof.
  intros s e th l o HI Hstep. destruct e as [i|i|i]; unfold lstep in Hstep.
  - destruct (nth_error (tasks s) i) as [t|] eqn:Hn; [|discriminate].
    destruct (t_status t) eqn:Hst; try discriminate.
    destruct (t_prog t) as [|a rest] eqn:Hp; [discriminate|].
    destruct (thread_free_for s i (t_thread t)) eqn:Hfree; simpl in Hstep; [|discriminate].
    destruct a; try discriminate;
      try (destruct (chan_state s c); discriminate).
    destruct (lookup l0 (sync_owner s)) as [o0|] eqn:Hl; [|discriminate].
    destruct (o0 =? i) eqn:Eo; [discriminate|].
    inversion Hstep; subst th l0 o0; clear Hstep.
    apply Nat.eqb_neq in Eo.
    apply lookup_In in Hl.
    destruct (inv_owner s HI l o Hl) as [to [Hno [Hro Hlo]]].
    unfold owner_stuck. rewrite Hno, Hro, Hlo, Nat.eqb_refl. simpl.
    rewrite orb_false_r. apply Nat.eqb_neq.
    eapply other_thread; eauto.
  - destruct (nth_error (tasks s) i) as [t|]; [|discriminate].
    destruct (t_status t); discriminate.
  - destruct (nth_error (tasks s) i) as [t|]; [|discriminate].
    destruct (t_status t); discriminate.
Qed.

Lemma lrun_inv : forall evs s, Inv s -> snd (lrun s evs) = None /\ Inv (fst (lrun s evs)).
Proof.
  induction evs as [|e evs IH]; intros s HI; simpl.
  - split; [reflexivity|exact HI].
  - destruct (lstep s e) eqn:E.
    + apply IH. eapply lstep_inv; eauto.
    + apply IH; exact HI.
    + rewrite (blocked_not_stuck s e _ _ _ HI E). apply IH; exact HI.
Qed.

Lemma inv_init : forall ts,
  Forall (fun tp => disciplined (snd tp) = true) ts -> Inv (mk_tasks ts).
Proof.
  intros ts Hts. constructor; simpl.
  - intros l a b [].
  - intros i t Hn. apply nth_error_In in Hn. apply in_map_iff in Hn.
    destruct Hn as [tp [<- Hin]]. simpl.
    rewrite Forall_forall in Hts. exists None. split; [apply (Hts tp Hin)|].
    intros l. split; [intros []|discriminate].
  - intros l i [].
Qed.

(* MAIN THEOREM: any number of tasks on any threads, all programs disciplined, every schedule:
   no reachable state has a worker thread blocked on a map-shard lock whose holder cannot run *)
Theorem no_wedge : forall (ts : list (nat * program)) (evs : list sev),
  Forall (fun tp => disciplined (snd tp) = true) ts ->
  snd (lrun (mk_tasks ts) evs) = None.
Proof. intros ts evs Hts. apply lrun_inv. apply inv_init. exact Hts. Qed.

(* the same, phrased with In *)
Corollary no_wedge_In : forall (ts : list (nat * program)) (evs : list sev),
  (forall th p, In (th, p) ts -> disciplined p = true) ->
  snd (lrun (mk_tasks ts) evs) = None.
Proof.
  intros ts evs H. apply no_wedge. apply Forall_forall. intros [th p] Hin. simpl. eauto.
Qed.

(* Blocking is transient: whenever a thread is blocked on a sync lock, the owner is the running
   task of another thread, its very next action is the release of that lock, and it can take it. *)
Theorem blocked_owner_releases : forall s e th l o,
  Inv s -> lstep s e = LBlockedThread th l o ->
  exists s', lstep s (Run o) = LOk s' /\ lookup l (sync_owner s') = None.
Proof.
  intros s e th l o HI Hstep.
  assert (Hin : In (l, o) (sync_owner s)).
  { destruct e as [i|i|i]; unfold lstep in Hstep.
    - destruct (nth_error (tasks s) i) as [t|] eqn:Hn; [|discriminate].
      destruct (t_status t) eqn:Hst; try discriminate.
      destruct (t_prog t) as [|a rest] eqn:Hp; [discriminate|].
      destruct (thread_free_for s i (t_thread t)) eqn:Hfree; simpl in Hstep; [|discriminate].
      destruct a; try discriminate;
        try (destruct (chan_state s c); discriminate).
      destruct (lookup l0 (sync_owner s)) as [o0|] eqn:Hl; [|discriminate].
      destruct (o0 =? i) eqn:Eo; [discriminate|].
      inversion Hstep; subst th l0 o0. apply lookup_In; assumption.
    - destruct (nth_error (tasks s) i) as [t|]; [|discriminate].
      destruct (t_status t); discriminate.
    - destruct (nth_error (tasks s) i) as [t|]; [|discriminate].
      destruct (t_status t); discriminate. }
  destruct (inv_owner s HI l o Hin) as [to [Hno [Hro Hlo]]].
  destruct (inv_disc s HI o to Hno) as [hs [Hd Hh]].
  apply Hh in Hin. subst hs.
  destruct (t_prog to) as [|a rest] eqn:Hp; simpl in Hd; [discriminate|].
  destruct a; try discriminate.
  apply andb_true_iff in Hd. destruct Hd as [El _]. apply Nat.eqb_eq in El. subst l0.
  unfold lstep. rewrite Hno, Hro, Hp.
  unfold thread_free_for. rewrite Hlo, Nat.eqb_refl. simpl.
  eexists. split; [reflexivity|]. simpl.
  rewrite lookup_remove_key, Nat.eqb_refl. reflexivity.
Qed.

(* Model note: lstep answers LNoop (not a wedge) when a task re-acquires a sync lock it already
   owns; with DashMap that is a self-deadlock, which lrun therefore does NOT report for
   undisciplined programs: *)
Example self_reacquire_not_reported :
  snd (lrun (mk_tasks [(0, [SyncAcq 0; SyncAcq 0; SyncRel 0; SyncRel 0])]) [Run 0; Run 0; Run 0]) = None.
Proof. vm_compute. reflexivity. Qed.

(* ... but on reachable states of disciplined programs that branch of lstep is dead code *)
Theorem no_self_reacquire : forall s i t l rest,
  Inv s -> nth_error (tasks s) i = Some t -> t_prog t = SyncAcq l :: rest ->
  lookup l (sync_owner s) <> Some i.
Proof.
  intros s i t l rest HI Hn Hp Hl.
  destruct (inv_disc s HI i t Hn) as [hs [Hd Hh]].
  rewrite Hp in Hd. simpl in Hd. destruct hs; [discriminate|].
  apply lookup_In in Hl. apply Hh in Hl. discriminate.
Qed.

(* the invariant holds in every state reached by lrun *)
Theorem reachable_inv : forall ts evs,
  Forall (fun tp => disciplined (snd tp) = true) ts -> Inv (fst (lrun (mk_tasks ts) evs)).
Proof. intros ts evs Hts. apply lrun_inv. apply inv_init. exact Hts. Qed.

(* ------------------------------------------------------------------ *)
(* 3. the current handlers never wedge                                 *)
(* ------------------------------------------------------------------ *)

Inductive handler :=
| HJoin (c : nat) | HLeave (c : nat) | HChannelsOwner (cs : list nat) | HChannels
| HRead (c : nat) | HWrite (c : nat) | HBroadcast (c : nat) | HDisconnect (cs : list nat).

Definition handler_prog (h : handler) : program :=
  match h with
  | HJoin c => p_join c
  | HLeave c => p_leave c
  | HChannelsOwner cs => p_channels_owner cs
  | HChannels => p_channels
  | HRead c => p_read c
  | HWrite c => p_write c
  | HBroadcast c => p_broadcast c
  | HDisconnect cs => p_disconnect cs
  end.

Theorem handler_disciplined : forall h, disciplined (handler_prog h) = true.
Proof.
  destruct h; simpl.
  - apply join_disciplined.
  - apply leave_disciplined.
  - apply channels_owner_disciplined.
  - apply channels_disciplined.
  - apply read_disciplined.
  - apply write_disciplined.
  - apply broadcast_disciplined.
  - apply disconnect_disciplined.
Qed.

(* any number of handler instances (thread, handler), arbitrary arguments, every schedule *)
Theorem handlers_never_wedge : forall (hs : list (nat * handler)) (evs : list sev),
  snd (lrun (mk_tasks (map (fun th => (fst th, handler_prog (snd th))) hs)) evs) = None.
Proof.
  intros hs evs. apply no_wedge. apply Forall_forall.
  intros tp Hin. apply in_map_iff in Hin. destruct Hin as [[th h] [<- _]]. simpl.
  apply handler_disciplined.
Qed.

(* ------------------------------------------------------------------ *)
(* 4. the old CHANNELS(owner) handler wedges                           *)
(* ------------------------------------------------------------------ *)

Definition old_schedule : list sev :=
  [Run 0; Run 0; Run 0; Run 0; Run 0; Run 0;     (* LEAVE: takes channel 0 (write), parks in AwaitMod *)
   Run 1; Run 1; Run 1;                          (* old CHANNELS: IX guard, CH guard, parks on channel 0 *)
   ModAnswer 0;                                  (* the modulator answers LEAVE *)
   Run 0].                                       (* LEAVE needs the IX shard: thread blocked *)

(* both tasks on worker thread 0 *)
Example old_one_thread :
  snd (lrun (mk_tasks [(0, p_leave 0); (0, p_channels_owner_old [0])]) old_schedule) = Some (0, 1, 1).
Proof. vm_compute. reflexivity. Qed.

Theorem old_channels_owner_wedges :
  exists ts evs, ts = [(0, p_leave 0); (0, p_channels_owner_old [0])]
                 /\ snd (lrun (mk_tasks ts) evs) <> None.
Proof.
  exists [(0, p_leave 0); (0, p_channels_owner_old [0])], old_schedule.
  split; [reflexivity|]. rewrite old_one_thread. discriminate.
Qed.

(* the tasks on two different worker threads: thread 0 blocked on IX (lock 1) held by task 1,
   which is parked on channel 0, which is write-held by task 0 *)
Example old_two_threads :
  snd (lrun (mk_tasks [(0, p_leave 0); (1, p_channels_owner_old [0])]) old_schedule) = Some (0, 1, 1).
Proof. vm_compute. reflexivity. Qed.

(* in the model the two-thread wedge cannot be resolved by any continuation: task 1 waits on the
   channel lock with status Ready (not Parked), so Cancel 1 is a no-op; task 0 is Ready (answered),
   so Cancel 0 is a no-op as well; and lrun stops at the first wedge anyway.  The state at the
   wedge: *)
Example old_two_threads_state :
  let s := fst (lrun (mk_tasks [(0, p_leave 0); (1, p_channels_owner_old [0])]) old_schedule) in
  sync_owner s = [(0, 1); (1, 1)] /\ chan_lock s = [(0, RWrite)] /\ running s = []
  /\ map t_status (tasks s) = [Ready; Ready]
  /\ lstep s (Cancel 0) = LNoop /\ lstep s (Cancel 1) = LNoop
  /\ lstep s (Run 0) = LBlockedThread 0 1 1.
Proof. vm_compute. repeat split. Qed.

(* with the fixed handler the same schedule (and every other one) is fine *)
Example new_same_schedule :
  snd (lrun (mk_tasks [(0, p_leave 0); (0, p_channels_owner [0])]) old_schedule) = None.
Proof. vm_compute. reflexivity. Qed.

(* ------------------------------------------------------------------ *)
(* 5. cancellation releases what the task holds                        *)
(* ------------------------------------------------------------------ *)

Definition rw_release (x : rw) : rw :=
  match x with RRead (S (S n)) => RRead (S n) | _ => RFree end.

Theorem cancel_releases : forall s i t,
  nth_error (tasks s) i = Some t -> t_status t = Parked ->
  exists s', lstep s (Cancel i) = LOk s'
    /\ nth_error (tasks s') i = Some {| t_thread := t_thread t; t_prog := []; t_status := Done; t_async := None |}
    /\ (forall l, ~ In (l, i) (sync_owner s'))
    /\ (forall l, lookup l (sync_owner s') <> Some i)
    /\ (forall c, t_async t = Some c ->
          chan_state s' c = rw_release (chan_state s c)
          /\ forall c', c' <> c -> chan_state s' c' = chan_state s c')
    /\ (t_async t = None -> chan_lock s' = chan_lock s).
Proof.
  intros s i t Hn Hst. unfold lstep. rewrite Hn, Hst.
  eexists. split; [reflexivity|]. simpl.
  assert (Hnone : forall l, ~ In (l, i) (filter (fun e => negb (snd e =? i)) (sync_owner s))).
  { intros l H. apply filter_In in H. simpl in H.
    rewrite negb_true_iff, Nat.eqb_neq in H. tauto. }
  split; [eapply nth_error_set_nth_eq; eauto|].
  split; [exact Hnone|].
  split; [intros l H; apply lookup_In in H; elim (Hnone l H)|].
  split.
  - intros c Ha. rewrite Ha. unfold chan_state at 1; psimpl. split.
    + rewrite lookup_set_key, Nat.eqb_refl. reflexivity.
    + intros c' Hne. unfold chan_state; psimpl. rewrite lookup_set_key.
      apply Nat.eqb_neq in Hne. rewrite Hne. reflexivity.
  - intros Ha. rewrite Ha. reflexivity.
Qed.

(* under the invariant, a parked task never owns a sync lock in the first place (so the filter in
   Cancel is the identity on reachable states of disciplined programs) *)
Theorem parked_owns_no_sync : forall s i t l,
  Inv s -> nth_error (tasks s) i = Some t -> t_status t <> Ready -> ~ In (l, i) (sync_owner s).
Proof.
  intros s i t l HI Hn Hst H.
  destruct (inv_owner s HI l i H) as [t0 [Hn0 [Hr _]]]. congruence.
Qed.

Print Assumptions join_disciplined.
Print Assumptions leave_disciplined.
Print Assumptions channels_disciplined.
Print Assumptions read_disciplined.
Print Assumptions write_disciplined.
Print Assumptions broadcast_disciplined.
Print Assumptions channels_owner_disciplined.
Print Assumptions disconnect_disciplined.
Print Assumptions channels_owner_old_not_disciplined.
Print Assumptions no_wedge.
Print Assumptions blocked_owner_releases.
Print Assumptions no_self_reacquire.
Print Assumptions reachable_inv.
Print Assumptions handlers_never_wedge.
Print Assumptions old_channels_owner_wedges.
Print Assumptions old_two_threads.
Print Assumptions old_two_threads_state.
Print Assumptions cancel_releases.
Print Assumptions parked_owns_no_sync.
