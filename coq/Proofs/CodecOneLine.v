(* A successfully serialized message is exactly one line: it ends with NL and contains no other
   NL byte, provided no string value of the message and no schema name contains NL. *)
From NW Require Import Base.Bytes Model.SchemaTypes Gen.Consts Gen.Schema Model.Codec.

Definition fval_no_nl (v : fval) : bool :=
  match v with
  | VStr s | VOStr (Some s) => negb (mem NL s)
  | VVec l => forallb (fun s => negb (mem NL s)) l
  | _ => true
  end.

Definition schema_names_ok (sch : list kschema) : bool :=
  forallb (fun k => negb (mem NL (k_name k)) &&
                    forallb (fun f => negb (mem NL (f_param f))) (k_fields k)) sch.

Lemma schema_names_ok_current : schema_names_ok schema = true.
Proof. vm_compute. reflexivity. Qed.

(* ---------------------------------------------------------------- mem helpers *)

Lemma mem_app x a b : mem x (a ++ b) = mem x a || mem x b.
Proof. unfold mem. apply existsb_app. Qed.

Lemma mem_cons x y l : mem x (y :: l) = (x =? y) || mem x l.
Proof. reflexivity. Qed.

Lemma mem_false_notin x l : mem x l = false <-> ~ In x l.
Proof.
  rewrite <- mem_In. destruct (mem x l); split; intro H; try reflexivity; try discriminate.
  - exfalso. apply H. reflexivity.
Qed.

(* ---------------------------------------------------------------- chunks *)

Definition chunk_ok (c : chunk) : Prop :=
  match c with Bytes l => mem NL l = false | Unescapable => True end.

Lemma run_chunks_app cap : forall a acc b l,
  run_chunks cap acc (a ++ b) = SerOk l ->
  exists mid, run_chunks cap acc a = SerOk mid /\ run_chunks cap mid b = SerOk l.
Proof.
  induction a as [|c a IH]; intros acc b l H.
  - exists acc. split; [reflexivity | exact H].
  - cbn [app run_chunks] in H |- *. destruct c as [bytes|]; [|discriminate].
    destruct (cap <? length (acc ++ bytes))%nat; [discriminate|].
    apply IH. exact H.
Qed.

Lemma run_chunks_no_nl cap : forall cs acc l,
  Forall chunk_ok cs -> run_chunks cap acc cs = SerOk l ->
  exists t, l = acc ++ t /\ mem NL t = false.
Proof.
  induction cs as [|c cs IH]; intros acc l Hok H; cbn [run_chunks] in H.
  - injection H as <-. exists []. split; [rewrite app_nil_r; reflexivity | reflexivity].
  - destruct c as [bytes|]; [|discriminate].
    destruct (cap <? length (acc ++ bytes))%nat; [discriminate|].
    inversion Hok as [|c' cs' Hc Hcs]; subst.
    destruct (IH _ _ Hcs H) as (t & -> & Ht).
    exists (bytes ++ t). split; [rewrite app_assoc; reflexivity|].
    rewrite mem_app. cbn [chunk_ok] in Hc. rewrite Hc, Ht. reflexivity.
Qed.

(* ---------------------------------------------------------------- value formatting *)

Lemma first_free_esc_in cands s : forall e, first_free_esc cands s = Some e -> In e cands.
Proof.
  induction cands as [|c r IH]; intros e H; cbn [first_free_esc] in H; [discriminate|].
  destruct (mem c s).
  - right. apply IH. exact H.
  - injection H as <-. left. reflexivity.
Qed.

Lemma nl_not_ser_escape : mem NL ser_escape_chars = false.
Proof. vm_compute. reflexivity. Qed.

Lemma fmt_str_no_nl s : mem NL s = false -> chunk_ok (chunk_of_opt (fmt_str s)).
Proof.
  intro Hs. unfold fmt_str. destruct s as [|b s']; [vm_compute; reflexivity|].
  destruct (negb (has_space (b :: s'))); [exact Hs|].
  destruct (first_free_esc ser_escape_chars (b :: s')) as [e|] eqn:Ee; [|exact I].
  cbn [chunk_of_opt chunk_ok].
  apply first_free_esc_in in Ee.
  assert (Hne : (NL =? e) = false).
  { apply N.eqb_neq. intros <-. apply mem_In in Ee. rewrite nl_not_ser_escape in Ee. discriminate. }
  rewrite !mem_app, Hs. cbn [mem existsb]. rewrite Hne. reflexivity.
Qed.

Lemma dec_digits_no_nl fuel : forall n acc, mem NL acc = false -> mem NL (dec_digits fuel n acc) = false.
Proof.
  induction fuel as [|f IH]; intros n acc Hacc; cbn [dec_digits]; [exact Hacc|].
  assert (H : mem NL ((48 + n mod 10) :: acc) = false).
  { rewrite mem_cons, Hacc. rewrite orb_false_r. apply N.eqb_neq. unfold NL.
    generalize (n mod 10). intros d. lia. }
  destruct (n / 10 =? 0); [exact H | apply IH; exact H].
Qed.

Lemma fmt_num_no_nl n : mem NL (fmt_num n) = false.
Proof. unfold fmt_num. apply dec_digits_no_nl. reflexivity. Qed.

Lemma fmt_bool_no_nl b : mem NL (fmt_bool b) = false.
Proof. destruct b; vm_compute; reflexivity. Qed.

Lemma vec_chunks_ok l : forall first,
  forallb (fun s => negb (mem NL s)) l = true -> Forall chunk_ok (vec_chunks first l).
Proof.
  induction l as [|s r IH]; intros first H; cbn [vec_chunks]; [constructor|].
  cbn [forallb] in H. apply andb_true_iff in H as [H1 H2]. apply negb_true_iff in H1.
  apply Forall_app. split.
  - destruct first; [constructor|]. constructor; [vm_compute; reflexivity | constructor].
  - cbn [app]. constructor; [apply fmt_str_no_nl; exact H1 | apply IH; exact H2].
Qed.

Lemma hdr_no_nl (param : list N) (c : N) :
  mem NL param = false -> (NL =? c) = false -> mem NL ([SP] ++ param ++ [c]) = false.
Proof.
  intros Hp Hc. rewrite !mem_app, Hp. cbn [mem existsb]. rewrite Hc. reflexivity.
Qed.

Lemma field_chunks_ok f v :
  mem NL (f_param f) = false -> fval_no_nl v = true -> Forall chunk_ok (field_chunks f v).
Proof.
  intros Hp Hv.
  assert (Hhdr : chunk_ok (Bytes ([SP] ++ f_param f ++ [EQ]))).
  { cbn [chunk_ok]. apply hdr_no_nl; [exact Hp | reflexivity]. }
  unfold field_chunks.
  destruct v as [s|n|b|[s|]|[n|]|[b|]|l]; cbn [fval_no_nl] in Hv;
    try (constructor; [exact Hhdr | constructor; [|constructor]]); try constructor.
  - apply fmt_str_no_nl. apply negb_true_iff. exact Hv.
  - apply fmt_num_no_nl.
  - apply fmt_bool_no_nl.
  - apply fmt_str_no_nl. apply negb_true_iff. exact Hv.
  - apply fmt_num_no_nl.
  - apply fmt_bool_no_nl.
  - destruct l as [|s r]; [constructor|].
    apply Forall_app. split.
    + constructor.
      * cbn [chunk_ok]. rewrite !mem_app, Hp, fmt_num_no_nl. reflexivity.
      * constructor; [reflexivity | constructor].
    + apply vec_chunks_ok. exact Hv.
Qed.

(* ---------------------------------------------------------------- canonical order *)

Lemma insert_sorted_in x l : forall y, In y (insert_sorted x l) -> y = x \/ In y l.
Proof.
  induction l as [|z r IH]; intros y H; cbn [insert_sorted] in H.
  - destruct H as [<- | []]. left. reflexivity.
  - destruct (bytes_ltb _ _).
    + destruct H as [<- | H]; [left; reflexivity | right; exact H].
    + destruct H as [<- | H]; [right; left; reflexivity|].
      apply IH in H. destruct H as [-> | H]; [left; reflexivity | right; right; exact H].
Qed.

Lemma sort_fields_in l : forall y, In y (sort_fields l) -> In y l.
Proof.
  induction l as [|x r IH]; intros y H; cbn [sort_fields fold_right] in H; [exact H|].
  apply insert_sorted_in in H. destruct H as [-> | H]; [left; reflexivity | right; apply IH; exact H].
Qed.

Lemma canon_order_in fs vs x : In x (canon_order fs vs) -> In x (combine fs vs).
Proof.
  unfold canon_order. intro H. apply in_app_or in H. destruct H as [H | H].
  - destruct (rev (filter _ (combine fs vs))) as [|y r] eqn:E; [destruct H|].
    destruct H as [<- | []].
    assert (Hin : In y (rev (filter (fun x => list_eqb (f_param (fst x)) str_id) (combine fs vs))))
      by (rewrite E; left; reflexivity).
    apply in_rev in Hin. apply filter_In in Hin. apply Hin.
  - apply sort_fields_in in H. apply filter_In in H. apply H.
Qed.

(* ---------------------------------------------------------------- main theorem *)

Theorem serialize_one_line : forall sch m cap l,
  schema_names_ok sch = true ->
  forallb fval_no_nl (m_fields m) = true ->
  serialize sch m cap = SerOk l ->
  exists body, l = body ++ [NL] /\ mem NL body = false.
Proof.
  intros sch m cap l Hsch Hm H. unfold serialize, msg_chunks in H.
  destruct (nth_error sch (m_kind m)) as [k|] eqn:Ek; [|discriminate].
  apply nth_error_In in Ek.
  unfold schema_names_ok in Hsch. rewrite forallb_forall in Hsch.
  specialize (Hsch k Ek). apply andb_true_iff in Hsch as [Hname Hparams].
  apply negb_true_iff in Hname. rewrite forallb_forall in Hparams.
  rewrite forallb_forall in Hm.
  rewrite app_assoc in H. apply run_chunks_app in H. destruct H as (mid & Hfront & Hlast).
  cbn [run_chunks] in Hlast. destruct (cap <? length (mid ++ [NL]))%nat; [discriminate|].
  injection Hlast as <-.
  exists mid. split; [reflexivity|].
  apply run_chunks_no_nl in Hfront.
  - destruct Hfront as (t & -> & Ht). exact Ht.
  - apply Forall_app. split.
    + constructor; [exact Hname | constructor].
    + apply Forall_forall. intros c Hc. apply in_flat_map in Hc. destruct Hc as ([f v] & Hx & Hc).
      apply canon_order_in in Hx.
      pose proof (in_combine_l _ _ _ _ Hx) as Hf. pose proof (in_combine_r _ _ _ _ Hx) as Hv.
      cbn [fst snd] in Hc.
      assert (Hall : Forall chunk_ok (field_chunks f v)).
      { apply field_chunks_ok.
        - apply negb_true_iff. apply Hparams. exact Hf.
        - apply Hm. exact Hv. }
      rewrite Forall_forall in Hall. apply Hall. exact Hc.
Qed.

Print Assumptions serialize_one_line.
Print Assumptions schema_names_ok_current.
