(* C18 : membership events.  Exact outputs of a JOIN (h_join) and of a LEAVE / disconnect clean-up
   (leave_core) on a state satisfying the invariant: which EVENT frames go to which connections,
   exactly once each, in which order, and the one-step replay property for a bystander. *)
From NW Require Import Base.Bytes Model.SchemaTypes Model.Codec Model.MsgInfo Model.Ids Model.Framing Model.Server Gen.Schema Gen.Errors.
From NW Require Import Proofs.ServerLib Proofs.ServerRoute.
From NW Require Import Proofs.ServerInvBase Proofs.ServerInv Proofs.ServerInvCor.

(* ====================================================================== *)
(* Part 0 : the invariant gives a well-formed router                       *)
(* ====================================================================== *)

Theorem Inv_router_wf cfg s : Inv cfg s -> router_wf (router s).
Proof.
  intros (_ & HN & _). split.
  - intros u hs E. exact (proj2 (cn_ne _ _ _ HN u hs E)).
  - intros u1 u2 hs1 hs2 h E1 E2 H1 H2.
    assert (K1 : In h (rt_of (router s) u1)) by (unfold rt_of; rewrite E1; exact H1).
    assert (K2 : In h (rt_of (router s) u2)) by (unfold rt_of; rewrite E2; exact H2).
    apply (cn_rt _ _ _ HN) in K1. apply (cn_rt _ _ _ HN) in K2.
    destruct K1 as (cn1 & L1 & _ & N1). destruct K2 as (cn2 & L2 & _ & N2).
    rewrite L1 in L2. injection L2 as <-. rewrite N1 in N2. injection N2 as N2. exact N2.
Qed.

(* ====================================================================== *)
(* Part 1 : routing to the members of a channel                            *)
(* ====================================================================== *)

(* h' is a registered connection of one of the targets *)
Definition conn_of (s : state) (targets : list nid) (h' : N) : Prop :=
  exists t us, In t targets /\ alookup (nu t) (router s) = Some us /\ In h' us.

Lemma route_handles_router cfg targets excl s s' :
  router s' = router s -> route_handles cfg targets excl s' = route_handles cfg targets excl s.
Proof. intro H. unfold route_handles. rewrite H. reflexivity. Qed.

Lemma conn_of_router s s' targets h' : router s' = router s -> conn_of s' targets h' <-> conn_of s targets h'.
Proof. intro H. unfold conn_of. rewrite H. reflexivity. Qed.

Lemma route_handles_In cfg targets excl s h' :
  (forall t, In t targets -> nd t = domain cfg) ->
  In h' (route_handles cfg targets excl s) <-> excl <> Some h' /\ conn_of s targets h'.
Proof.
  intro Hloc. unfold route_handles, conn_of. rewrite in_flat_map. split.
  - intros (t & Ht & Hin).
    destruct (list_eqb (nd t) (domain cfg)); [|destruct Hin].
    destruct (alookup (nu t) (router s)) as [us|] eqn:E; [|destruct Hin].
    apply filter_In in Hin as [Hin Hex]. split.
    + intros ->. cbn [excl_ok] in Hex. rewrite N.eqb_refl in Hex. discriminate.
    + exists t, us. auto.
  - intros (Hex & t & us & Ht & E & Hin). exists t. split; [exact Ht|].
    rewrite (proj2 (list_eqb_eq _ _) (Hloc t Ht)), E. apply filter_In. split; [exact Hin|].
    destruct excl as [e|]; cbn [excl_ok]; [|reflexivity].
    apply negb_true_iff. apply N.eqb_neq. intros ->. apply Hex. reflexivity.
Qed.

(* THE reusable lemma: a frame routed to a duplicate-free list of local targets goes exactly once to
   every connection (other than the excluded one) of every target, and nowhere else. *)
Lemma route_members_exact cfg m p targets excl s :
  NoDup targets -> router_wf (router s) -> (forall t, In t targets -> nd t = domain cfg) ->
  exists hs, route_outs cfg m p targets excl s = map (fun h' => OSend h' m p) hs /\
             NoDup hs /\
             forall h', In h' hs <-> excl <> Some h' /\ conn_of s targets h'.
Proof.
  intros Hnd Hwf Hloc. exists (route_handles cfg targets excl s).
  split; [reflexivity|]. split; [apply route_handles_NoDup; assumption|].
  intro h'. apply route_handles_In. exact Hloc.
Qed.

(* counting form: in [map (OSend _ m p) hs] with NoDup hs, each member of hs occurs exactly once *)
Definition sends_to (h : N) (os : list out) : list (msg * option (list N)) :=
  flat_map (fun o => match o with OSend h' m p => if h' =? h then [(m, p)] else [] | _ => [] end) os.

Lemma sends_to_app h a b : sends_to h (a ++ b) = sends_to h a ++ sends_to h b.
Proof. unfold sends_to. apply flat_map_app. Qed.

Lemma sends_to_cons h o l : sends_to h (o :: l) = sends_to h [o] ++ sends_to h l.
Proof. apply (sends_to_app h [o] l). Qed.

Lemma sends_to_map_notin h m p hs : ~ In h hs -> sends_to h (map (fun h' => OSend h' m p) hs) = [].
Proof.
  induction hs as [|x hs IH]; intro Hn; [reflexivity|].
  cbn [map]. rewrite sends_to_cons.
  rewrite IH by (intro K; apply Hn; right; exact K).
  unfold sends_to; cbn [flat_map]. destruct (N.eqb_spec x h) as [->|E]; [|reflexivity].
  exfalso. apply Hn. left. reflexivity.
Qed.

Lemma sends_to_map_once h m p hs : NoDup hs -> In h hs -> sends_to h (map (fun h' => OSend h' m p) hs) = [(m, p)].
Proof.
  induction 1 as [|x hs Hx Hnd IH]; intro Hin; [destruct Hin|].
  cbn [map]. rewrite sends_to_cons.
  destruct Hin as [->|Hin].
  - rewrite sends_to_map_notin by exact Hx. unfold sends_to; cbn [flat_map]. rewrite N.eqb_refl. reflexivity.
  - rewrite IH by exact Hin. unfold sends_to; cbn [flat_map].
    destruct (N.eqb_spec x h) as [->|E]; [contradiction | reflexivity].
Qed.

Lemma sends_to_mod h l : (forall o, In o l -> exists mc, o = OMod mc) -> sends_to h l = [].
Proof.
  induction l as [|o l IH]; intro H; [reflexivity|].
  rewrite sends_to_cons.
  rewrite IH by (intros o' Ho'; apply H; right; exact Ho').
  destruct (H o (or_introl eq_refl)) as [mc ->]. reflexivity.
Qed.

Lemma notify_mod_is_mod cfg kind hd n ow o : In o (notify_mod cfg kind hd n ow) -> exists mc, o = OMod mc.
Proof.
  unfold notify_mod. destruct (has_mod cfg && op_fev cfg); [|intros []].
  intros [<-|[]]. eexists. reflexivity.
Qed.

Lemma sends_to_notify_mod h cfg kind hd n ow : sends_to h (notify_mod cfg kind hd n ow) = [].
Proof. apply sends_to_mod. apply notify_mod_is_mod. Qed.

(* ====================================================================== *)
(* Part 2 : JOIN                                                           *)
(* ====================================================================== *)

Definition join_ack (m : msg) : msg :=
  build "JOIN_ACK" [(bs "id", VNum (get_num m "id")); (bs "channel", VStr (get_str m "channel"))].

(* structure of h_join: either refused before anything happened, or one notify then commit / roll back *)
Lemma h_join_cases cfg h me m c :
  (exists e, h_join cfg h me m c = (c, Some e)) \/
  exists hd n, chan_parse (get_str m "channel") = Some (hd, domain cfg) /\
    let ch := match alookup hd (chans (st c)) with Some c0 => c0 | None => new_chan cfg end in
    let created := match alookup hd (chans (st c)) with Some _ => false | None => true end in
    (n = me \/ (nd n = domain cfg /\ has_connection (st c) (nu n) = true /\ is_owner ch me = true)) /\
    nmem n (ch_members ch) = false /\
    exists okn c1,
      notify cfg "MEMBER_JOINED" hd n created (ch_members (insert_member ch n)) (Some h) c = (okn, c1) /\
      h_join cfg h me m c =
        if okn
        then (emit (OSend h (join_ack m) None)
                   (with_st (index_add (nu n) (get_str m "channel") (put_chan hd (insert_member ch n) (st c1))) c1), None)
        else (c1, Some PInternal).
Proof.
  unfold h_join, local, join_ack.
  destruct (chan_parse (get_str m "channel")) as [[hd dom]|] eqn:Hp; [|left; eexists; reflexivity].
  set (ch := match alookup hd (chans (st c)) with Some c0 => c0 | None => new_chan cfg end).
  set (created := match alookup hd (chans (st c)) with Some _ => false | None => true end).
  destruct (match get_ostr m "on_behalf" with
            | Some s => match nid_parse s with Some n => Some (Some n) | None => None end
            | None => Some None end) as [ob|]; [|left; eexists; reflexivity].
  destruct (list_eqb_spec dom (domain cfg)) as [->|Hd]; cbn [negb]; [|left; eexists; reflexivity].
  destruct (_ && (max_channels cfg <=? _)); [left; eexists; reflexivity|].
  set (who := match ob with Some n => _ | None => _ end).
  assert (Hwho : (exists e, who = inl e) \/
                 (exists n, who = inr n /\
                    (n = me \/ (nd n = domain cfg /\ has_connection (st c) (nu n) = true /\ is_owner ch me = true)))).
  { subst who. destruct ob as [n|]; [|right; exists me; split; [reflexivity | left; reflexivity]].
    destruct (is_owner ch me) eqn:Ho; cbn [negb]; [|left; eexists; reflexivity].
    destruct (list_eqb_spec (nd n) (domain cfg)) as [Hn|Hn]; cbn [negb orb]; [|left; eexists; reflexivity].
    destruct (has_connection (st c) (nu n)) eqn:Hc; cbn [negb]; [|left; eexists; reflexivity].
    right. exists n. split; [reflexivity|]. right. repeat split; assumption. }
  clearbody who.
  destruct Hwho as [[e ->]|(n & -> & Hn)]; [left; eexists; reflexivity|].
  destruct (acl_allowed (ch_join ch) n); cbn [negb]; [|left; eexists; reflexivity].
  destruct (nmem n (ch_members ch)) eqn:Hm; [left; eexists; reflexivity|].
  destruct (ch_max_clients ch <=? _); [left; eexists; reflexivity|].
  destruct (max_subs cfg <=? _);
    [left; eexists; reflexivity|].
  right. exists hd, n. split; [reflexivity|]. cbv zeta. split; [exact Hn|]. split; [exact Hm|].
  destruct (notify cfg "MEMBER_JOINED" _ _ _ _ _ _) as [okn c1] eqn:En.
  exists okn, c1. split; [reflexivity|].
  destruct okn; reflexivity.
Qed.

Lemma neq_Some_sym (h h' : N) : Some h <> Some h' <-> h' <> h.
Proof. split; intros H K; apply H; congruence. Qed.

(* B1 *)
Theorem C18_join_events cfg h me m c c' :
  Inv cfg (st c) -> nd me = domain cfg ->
  h_join cfg h me m c = (c', None) ->
  exists hd n hs,
    chan_parse (get_str m "channel") = Some (hd, domain cfg) /\
    let ch := match alookup hd (chans (st c)) with Some c0 => c0 | None => new_chan cfg end in
    let created := match alookup hd (chans (st c)) with Some _ => false | None => true end in
    let ev := event_msg (bs "MEMBER_JOINED") (chan_full hd (domain cfg)) (nid_full n) created in
    (n = me \/ (nd n = domain cfg /\ has_connection (st c) (nu n) = true /\ is_owner ch me = true)) /\
    ~ In n (ch_members ch) /\ nd n = domain cfg /\
    ch_members (insert_member ch n) = ch_members ch ++ [n] /\
    st c' = index_add (nu n) (get_str m "channel") (put_chan hd (insert_member ch n) (st c)) /\
    new_outs c c' =
      notify_mod cfg "MEMBER_JOINED" hd n created ++
      map (fun h' => OSend h' ev None) hs ++
      [OSend h (join_ack m) None] /\
    NoDup hs /\
    (forall h', In h' hs <-> h' <> h /\ conn_of (st c) (ch_members ch ++ [n]) h').
Proof.
  intros HI Hme Hj.
  destruct (h_join_cases cfg h me m c) as [[e He]|(hd & n & Hp & K)]; [congruence|].
  cbv zeta in K. destruct K as (Hwho & Hm & okn & c1 & Hn & Hres).
  rewrite Hj in Hres. destruct okn; [|discriminate]. injection Hres as Hc'. subst c'.
  set (ch := match alookup hd (chans (st c)) with Some c0 => c0 | None => new_chan cfg end) in *.
  set (created := match alookup hd (chans (st c)) with Some _ => false | None => true end) in *.
  assert (Hnin : ~ In n (ch_members ch)) by (apply nmem_false; exact Hm).
  assert (Hnd : nd n = domain cfg) by (destruct Hwho as [->|(K & _)]; assumption).
  assert (Hmem : ch_members (insert_member ch n) = ch_members ch ++ [n]).
  { unfold insert_member. cbn [retarget ch_members]. apply nadd_fresh. exact Hm. }
  assert (Hch : (ch_members ch = [] \/ chan_ok cfg ch)).
  { subst ch. destruct (alookup hd (chans (st c))) as [c0|] eqn:E; [right | left; reflexivity].
    destruct HI as (HC & _). exact (ci_chan _ _ _ _ HC hd c0 E). }
  assert (Hnodup : NoDup (ch_members ch ++ [n])).
  { apply NoDup_snoc; [|exact Hnin]. destruct Hch as [->|Hok]; [constructor | exact (co_nodup _ _ Hok)]. }
  assert (Hloc : forall t, In t (ch_members ch ++ [n]) -> nd t = domain cfg).
  { intros t Ht. apply in_app_or in Ht as [Ht|[<-|[]]]; [|exact Hnd].
    destruct Hch as [He|Hok]; [rewrite He in Ht; destruct Ht|]. exact (proj1 (co_local _ _ Hok t Ht)). }
  apply notify_spec in Hn as (S1 & S2 & S3 & S4 & _).
  rewrite Hmem in S4.
  destruct (route_members_exact cfg (event_msg (bs "MEMBER_JOINED") (chan_full hd (domain cfg)) (nid_full n) created)
              None (ch_members ch ++ [n]) (Some h) (st c) Hnodup (Inv_router_wf _ _ HI) Hloc)
    as (hs & Hro & Hnd' & Hin).
  exists hd, n, hs. split; [exact Hp|]. cbv zeta.
  split; [exact Hwho|]. split; [exact Hnin|]. split; [exact Hnd|]. split; [exact Hmem|].
  split; [cbn [emit st with_st]; rewrite S1; reflexivity|].
  split.
  - apply new_outs_app. cbn [emit outs with_st]. rewrite S4, Hro, <- !app_assoc. reflexivity.
  - split; [exact Hnd'|]. intro h'. rewrite Hin, neq_Some_sym. reflexivity.
Qed.

(* reading of B1: the only EVENT frames among the new outputs are the MEMBER_JOINED ones, each
   connection in hs gets exactly one frame (that event), the requester gets exactly the JOIN_ACK,
   nobody else gets anything; the modulator call, when present, comes first. *)
Lemma kind_join_ack_not_event m : is_kind (join_ack m) "EVENT" = false.
Proof. reflexivity. Qed.

Corollary C18_join_each_once cfg h me m c c' :
  Inv cfg (st c) -> nd me = domain cfg ->
  h_join cfg h me m c = (c', None) ->
  exists hd n,
    chan_parse (get_str m "channel") = Some (hd, domain cfg) /\
    let ch := match alookup hd (chans (st c)) with Some c0 => c0 | None => new_chan cfg end in
    let created := match alookup hd (chans (st c)) with Some _ => false | None => true end in
    let ev := event_msg (bs "MEMBER_JOINED") (chan_full hd (domain cfg)) (nid_full n) created in
    (forall h', h' <> h -> conn_of (st c) (ch_members ch ++ [n]) h' -> sends_to h' (new_outs c c') = [(ev, None)]) /\
    (forall h', h' <> h -> ~ conn_of (st c) (ch_members ch ++ [n]) h' -> sends_to h' (new_outs c c') = []) /\
    sends_to h (new_outs c c') = [(join_ack m, None)] /\
    (forall h' m' p, In (OSend h' m' p) (new_outs c c') -> is_kind m' "EVENT" = true ->
                     m' = ev /\ p = None /\ h' <> h /\ conn_of (st c) (ch_members ch ++ [n]) h') /\
    (forall mc, In (OMod mc) (new_outs c c') ->
                mc = McEvent (bs "MEMBER_JOINED") (chan_full hd (domain cfg)) (nid_full n) created /\
                has_mod cfg && op_fev cfg = true /\
                exists rest, new_outs c c' = OMod mc :: rest /\ ~ In (OMod mc) rest).
Proof.
  intros HI Hme Hj.
  destruct (C18_join_events cfg h me m c c' HI Hme Hj) as (hd & n & hs & Hp & K).
  cbv zeta in K. destruct K as (_ & _ & _ & _ & _ & Ho & Hnd & Hin).
  exists hd, n. split; [exact Hp|]. cbv zeta. rewrite Ho.
  split; [|split; [|split; [|split]]].
  - intros h' Hne Hc. rewrite !sends_to_app, sends_to_notify_mod.
    rewrite sends_to_map_once by (try exact Hnd; apply Hin; auto).
    unfold sends_to; cbn [flat_map app]. destruct (N.eqb_spec h h'); [congruence | reflexivity].
  - intros h' Hne Hc. rewrite !sends_to_app, sends_to_notify_mod.
    rewrite sends_to_map_notin by (intro K; apply Hin in K; tauto).
    unfold sends_to; cbn [flat_map app]. destruct (N.eqb_spec h h'); [congruence | reflexivity].
  - rewrite !sends_to_app, sends_to_notify_mod.
    rewrite sends_to_map_notin by (intro K; apply Hin in K; tauto).
    unfold sends_to; cbn [flat_map app]. rewrite N.eqb_refl. reflexivity.
  - intros h' m' p Hi Hk. apply in_app_or in Hi as [Hi|Hi].
    { apply notify_mod_is_mod in Hi as [mc Hi]. discriminate. }
    apply in_app_or in Hi as [Hi|[Hi|[]]].
    + apply in_map_iff in Hi as (x & Hx & Hxi). injection Hx as -> <- <-.
      apply Hin in Hxi. tauto.
    + injection Hi as <- <- <-. rewrite kind_join_ack_not_event in Hk. discriminate.
  - intros mc Hi. unfold notify_mod in *.
    destruct (has_mod cfg && op_fev cfg).
    + cbn [app] in *. destruct Hi as [Hi|Hi].
      * injection Hi as <-. split; [reflexivity|]. split; [reflexivity|]. eexists. split; [reflexivity|].
        intro K. apply in_app_or in K as [K|[K|[]]]; [|discriminate].
        apply in_map_iff in K as (x & Hx & _). discriminate.
      * apply in_app_or in Hi as [Hi|[Hi|[]]]; [|discriminate].
        apply in_map_iff in Hi as (x & Hx & _). discriminate.
    + cbn [app] in Hi. apply in_app_or in Hi as [Hi|[Hi|[]]]; [|discriminate].
      apply in_map_iff in Hi as (x & Hx & _). discriminate.
Qed.

(* a refused JOIN: state unchanged, no frame sent to anybody; the only possible output is the single
   modulator call of a notification the modulator answered with MErr *)
Theorem C18_join_refused cfg h me m c c' e :
  h_join cfg h me m c = (c', Some e) ->
  st c' = st c /\
  (forall h' m' p, ~ In (OSend h' m' p) (new_outs c c')) /\
  (new_outs c c' = [] \/
   exists hd n created,
     new_outs c c' = [OMod (McEvent (bs "MEMBER_JOINED") (chan_full hd (domain cfg)) (nid_full n) created)] /\
     e = PInternal /\ has_mod cfg && op_fev cfg = true /\ head_outcome (script c) = MErr).
Proof.
  intro Hj. split; [exact (refused_join_changes_nothing _ _ _ _ _ _ _ Hj)|].
  destruct (h_join_cases cfg h me m c) as [[e' He]|(hd & n & Hp & K)].
  - rewrite Hj in He. injection He as -> _. rewrite new_outs_refl. split; [intros ? ? ? []|left; reflexivity].
  - cbv zeta in K. destruct K as (_ & _ & okn & c1 & Hn & Hres).
    rewrite Hj in Hres. destruct okn; [discriminate|]. injection Hres as -> ->.
    apply notify_spec in Hn as (_ & _ & _ & S4 & S5). destruct (S5 eq_refl) as [Hmod Hhead].
    rewrite app_nil_r in S4. apply new_outs_app in S4. rewrite S4.
    unfold notify_mod. rewrite Hmod. split.
    + intros h' m' p [K|[]]. discriminate.
    + right. do 3 eexists. split; [reflexivity|]. auto.
Qed.

(* ====================================================================== *)
(* Part 3 : LEAVE                                                          *)
(* ====================================================================== *)

Definition leave_ack (id : N) : msg := build "LEAVE_ACK" [(bs "id", VNum id)].
Definition ack_out (req : option N) (id : N) : list out :=
  match req with Some h => [OSend h (leave_ack id) None] | None => [] end.

(* the re-elected owner: the hinted member if it remains, else the first remaining member *)
Definition pick_of (hi : list (str * nid)) (hd : str) (rest : list nid) (n : nid) : nid :=
  match alookup hd hi with
  | Some o => if nmem o rest then o else hd_default rest n
  | None => hd_default rest n
  end.

Lemma pick_of_In hi hd rest n : rest <> [] -> In (pick_of hi hd rest n) rest.
Proof.
  intro Hne. unfold pick_of. destruct (alookup hd hi) as [o|]; [|apply hd_default_In; exact Hne].
  destruct (nmem o rest) eqn:E; [apply nmem_In; exact E | apply hd_default_In; exact Hne].
Qed.

Definition pick_opt (hi : list (str * nid)) (hd : str) (ch : chan) (n : nid) : option nid :=
  if is_owner ch n && negb (isempty (ndel n (ch_members ch)))
  then Some (pick_of hi hd (ndel n (ch_members ch)) n) else None.

Lemma route_outs_router cfg m p targets excl s s' :
  router s' = router s -> route_outs cfg m p targets excl s' = route_outs cfg m p targets excl s.
Proof. intro H. unfold route_outs. rewrite (route_handles_router _ _ _ _ _ H). reflexivity. Qed.

Lemma leave_core_exact cfg req id me hd dom cf ob c :
  let n := match ob with Some n => n | None => me end in
  let r := leave_core cfg req id me hd dom cf ob c in
  (exists e, r = (c, Some e)) \/
  exists ch ok_left ok_joined,
    dom = domain cfg /\ alookup hd (chans (st c)) = Some ch /\ nmem n (ch_members ch) = true /\
    (ob <> None -> is_owner ch me = true) /\
    let rest := ndel n (ch_members ch) in
    let chf := chan_full hd (domain cfg) in
    let popt := pick_opt (hints c) hd ch n in
    (ok_left = false -> has_mod cfg && op_fev cfg = true /\ head_outcome (script c) = MErr) /\
    (ok_joined = false -> popt <> None /\ has_mod cfg && op_fev cfg = true) /\
    snd r = (if ok_left && ok_joined then None else Some PInternal) /\
    st (fst r) = leave_st hd cf n ch popt (st c) /\
    hints (fst r) = hints c /\ closing (fst r) = closing c /\
    new_outs c (fst r) =
      notify_mod cfg "MEMBER_LEFT" hd n (is_owner ch n) ++
      (if ok_left
       then route_outs cfg (event_msg (bs "MEMBER_LEFT") chf (nid_full n) (is_owner ch n)) None (ch_members ch) req (st c)
       else []) ++
      match popt with
      | Some pick => notify_mod cfg "MEMBER_JOINED" hd pick true ++
                     (if ok_joined
                      then route_outs cfg (event_msg (bs "MEMBER_JOINED") chf (nid_full pick) true) None rest None (st c)
                      else [])
      | None => []
      end ++
      (if ok_left then ack_out req id else []).
Proof.
  intros n r. assert (Hr : r = leave_core cfg req id me hd dom cf ob c) by reflexivity.
  clearbody r. revert Hr. unfold leave_core, local.
  destruct (list_eqb_spec dom (domain cfg)) as [->|Hd]; cbn [negb]; [|intros ->; left; eexists; reflexivity].
  destruct (alookup hd (chans (st c))) as [ch|] eqn:Hch; [|intros ->; left; eexists; reflexivity].
  set (who := match ob with Some n0 => _ | None => _ end).
  assert (Hwho : (exists e, who = inl e) \/ (who = inr n /\ (ob <> None -> is_owner ch me = true))).
  { subst who n. destruct ob as [n0|]; [|right; split; [reflexivity | congruence]].
    destruct (is_owner ch me); cbn [negb]; [right; split; [reflexivity | reflexivity] | left; eexists; reflexivity]. }
  clearbody who. destruct Hwho as [[e ->]|[-> Hown]]; [intros ->; left; eexists; reflexivity|].
  cbv iota beta.
  destruct (nmem n (ch_members ch)) eqn:Hm; cbn [negb]; [|intros ->; left; eexists; reflexivity].
  destruct (notify cfg "MEMBER_LEFT" _ _ _ _ _ _) as [ok_left c1] eqn:En1.
  apply notify_spec in En1 as (A1 & A2 & A3 & A4 & A5).
  cbv zeta.
  change (ch_members (remove_member ch n)) with (ndel n (ch_members ch)).
  change (build "LEAVE_ACK" [(bs "id", VNum id)]) with (leave_ack id).
  rewrite A2. fold (pick_of (hints c) hd (ndel n (ch_members ch)) n).
  intro Hr. right. exists ch, ok_left.
  destruct (isempty (ndel n (ch_members ch))) eqn:Hemp; [|destruct (is_owner ch n) eqn:Hwo].
  - exists true. unfold pick_opt. rewrite Hemp. cbn [negb]. rewrite andb_false_r.
    split; [reflexivity|]. split; [reflexivity|]. split; [exact Hm|]. split; [exact Hown|].
    split; [exact A5|]. split; [discriminate|].
    destruct ok_left, req; cbn [negb andb] in Hr; subst r; unfold ok, fail; cbn [fst snd emit with_st st hints closing outs];
    (split; [reflexivity|]; split; [unfold leave_st; rewrite Hemp, A1; reflexivity|]; split; [exact A2|]; split; [exact A3|];
     apply new_outs_app; cbn [emit outs with_st ack_out app]; rewrite A4, ?app_nil_r, <- ?app_assoc; reflexivity).
  - revert Hr.
    destruct (notify cfg "MEMBER_JOINED" _ _ _ _ _ _) as [okj c2] eqn:En2. intro Hr.
    apply notify_spec in En2 as (B1 & B2 & B3 & B4 & B5).
    cbn [st with_st hints closing outs script] in B1, B2, B3, B4, B5.
    change (ch_members (set_owner (remove_member ch n) ?p)) with (ndel n (ch_members ch)) in B4.
    rewrite (route_outs_router _ _ _ _ _ (st c)) in B4
      by (cbn [put_chan router]; rewrite index_del_router, A1; reflexivity).
    exists okj. unfold pick_opt. rewrite Hemp, Hwo. cbn [negb andb].
    split; [reflexivity|]. split; [reflexivity|]. split; [exact Hm|]. split; [exact Hown|].
    split; [exact A5|]. split; [intro K; split; [congruence | exact (proj1 (B5 K))]|].
    destruct ok_left, req, okj; cbn [negb andb] in Hr; subst r; unfold ok, fail; cbn [fst snd emit with_st st hints closing outs];
    (split; [reflexivity|]; split; [rewrite B1; unfold leave_st; rewrite Hemp, A1; reflexivity|];
     split; [congruence|]; split; [congruence|];
     apply new_outs_app; cbn [emit outs with_st ack_out app]; rewrite B4, A4, ?app_nil_r, <- ?app_assoc; reflexivity).
  - exists true. unfold pick_opt. rewrite Hwo. cbn [andb].
    split; [reflexivity|]. split; [reflexivity|]. split; [exact Hm|]. split; [exact Hown|].
    split; [exact A5|]. split; [discriminate|].
    destruct ok_left, req; cbn [negb andb] in Hr; subst r; unfold ok, fail; cbn [fst snd emit with_st st hints closing outs];
    (split; [reflexivity|]; split; [unfold leave_st; rewrite Hemp, A1; reflexivity|]; split; [exact A2|]; split; [exact A3|];
     apply new_outs_app; cbn [emit outs with_st ack_out app]; rewrite A4, ?app_nil_r, <- ?app_assoc; reflexivity).
Qed.

Lemma none_neq_some (h' : N) : (@None N <> Some h') <-> True.
Proof. split; [trivial | discriminate]. Qed.

(* every outcome of leave_core on an invariant state, with the routed frames resolved to connections *)
Theorem C18_leave_general cfg req id me hd dom cf ob c :
  Inv cfg (st c) ->
  let n := match ob with Some n => n | None => me end in
  let r := leave_core cfg req id me hd dom cf ob c in
  (exists e, r = (c, Some e)) \/
  exists ch hs1 hs2 ok_left ok_joined,
    dom = domain cfg /\ alookup hd (chans (st c)) = Some ch /\ In n (ch_members ch) /\
    (ob <> None -> is_owner ch me = true) /\
    let rest := ndel n (ch_members ch) in
    let chf := chan_full hd (domain cfg) in
    let was_owner := is_owner ch n in
    let popt := pick_opt (hints c) hd ch n in
    NoDup hs1 /\ (forall h', In h' hs1 <-> req <> Some h' /\ conn_of (st c) (ch_members ch) h') /\
    NoDup hs2 /\ (forall h', In h' hs2 <-> conn_of (st c) rest h') /\
    (ok_left = false -> has_mod cfg && op_fev cfg = true /\ head_outcome (script c) = MErr) /\
    (ok_joined = false -> popt <> None /\ has_mod cfg && op_fev cfg = true) /\
    snd r = (if ok_left && ok_joined then None else Some PInternal) /\
    st (fst r) = leave_st hd cf n ch popt (st c) /\
    new_outs c (fst r) =
      notify_mod cfg "MEMBER_LEFT" hd n was_owner ++
      (if ok_left
       then map (fun h' => OSend h' (event_msg (bs "MEMBER_LEFT") chf (nid_full n) was_owner) None) hs1
       else []) ++
      match popt with
      | Some pick => notify_mod cfg "MEMBER_JOINED" hd pick true ++
                     (if ok_joined
                      then map (fun h' => OSend h' (event_msg (bs "MEMBER_JOINED") chf (nid_full pick) true) None) hs2
                      else [])
      | None => []
      end ++
      (if ok_left then ack_out req id else []).
Proof.
  intros HI n r.
  destruct (leave_core_exact cfg req id me hd dom cf ob c) as [He|(ch & ok_left & ok_joined & K)]; [left; exact He|].
  fold n r in K. cbv zeta in K.
  destruct K as (Hd & Hch & Hm & Hown & Hl & Hj & Hres & Hst & _ & _ & Ho).
  right.
  pose proof HI as (HC & _). pose proof (ci_chan _ _ _ _ HC hd ch Hch) as Hok.
  pose proof (Inv_router_wf _ _ HI) as Hwf.
  assert (Hloc : forall t, In t (ch_members ch) -> nd t = domain cfg)
    by (intros t Ht; exact (proj1 (co_local _ _ Hok t Ht))).
  assert (Hloc2 : forall t, In t (ndel n (ch_members ch)) -> nd t = domain cfg)
    by (intros t Ht; apply In_ndel in Ht; apply Hloc; tauto).
  exists ch, (route_handles cfg (ch_members ch) req (st c)),
         (route_handles cfg (ndel n (ch_members ch)) None (st c)), ok_left, ok_joined.
  split; [exact Hd|]. split; [exact Hch|]. split; [apply nmem_In; exact Hm|]. split; [exact Hown|].
  cbv zeta.
  split; [apply route_handles_NoDup; [exact (co_nodup _ _ Hok) | exact Hwf]|].
  split; [intro h'; apply route_handles_In; exact Hloc|].
  split; [apply route_handles_NoDup; [apply ServerRoute.NoDup_filter; exact (co_nodup _ _ Hok) | exact Hwf]|].
  split; [intro h'; rewrite route_handles_In by exact Hloc2; rewrite none_neq_some; tauto|].
  split; [exact Hl|]. split; [exact Hj|]. split; [exact Hres|]. split; [exact Hst|].
  exact Ho.
Qed.

(* B2 : a successful LEAVE / clean-up *)
Theorem C18_leave_events cfg req id me hd dom cf ob c c' :
  Inv cfg (st c) ->
  leave_core cfg req id me hd dom cf ob c = (c', None) ->
  let n := match ob with Some n => n | None => me end in
  exists ch hs1,
    dom = domain cfg /\ alookup hd (chans (st c)) = Some ch /\ In n (ch_members ch) /\
    (ob <> None -> is_owner ch me = true) /\
    let chf := chan_full hd (domain cfg) in
    let was_owner := is_owner ch n in
    let rest := ndel n (ch_members ch) in
    let ev_left := event_msg (bs "MEMBER_LEFT") chf (nid_full n) was_owner in
    NoDup hs1 /\
    (forall h', In h' hs1 <-> req <> Some h' /\ conn_of (st c) (ch_members ch) h') /\
    st c' = leave_st hd cf n ch (pick_opt (hints c) hd ch n) (st c) /\
    match pick_opt (hints c) hd ch n with
    | None =>
        (* no re-election: n was not the owner, or nobody remains (the channel is deleted) *)
        (was_owner = false \/ rest = []) /\
        new_outs c c' =
          notify_mod cfg "MEMBER_LEFT" hd n was_owner ++
          map (fun h' => OSend h' ev_left None) hs1 ++
          ack_out req id
    | Some pick =>
        (* the owner left and members remain: [pick] is announced as the new owner *)
        was_owner = true /\ In pick rest /\
        pick = pick_of (hints c) hd rest n /\
        alookup hd (chans (st c')) = Some (left_chan ch n (Some pick)) /\
        ch_owner (left_chan ch n (Some pick)) = Some pick /\
        ch_members (left_chan ch n (Some pick)) = rest /\
        exists hs2,
          NoDup hs2 /\ (forall h', In h' hs2 <-> conn_of (st c) rest h') /\
          new_outs c c' =
            notify_mod cfg "MEMBER_LEFT" hd n true ++
            map (fun h' => OSend h' ev_left None) hs1 ++
            notify_mod cfg "MEMBER_JOINED" hd pick true ++
            map (fun h' => OSend h' (event_msg (bs "MEMBER_JOINED") chf (nid_full pick) true) None) hs2 ++
            ack_out req id
    end.
Proof.
  intros HI Hlv n.
  destruct (C18_leave_general cfg req id me hd dom cf ob c HI) as [[e He]|K]; [congruence|].
  fold n in K. rewrite Hlv in K. cbn [fst snd] in K.
  destruct K as (ch & hs1 & hs2 & ok_left & ok_joined & Hd & Hch & Hin & Hown & K). cbv zeta in K.
  destruct K as (N1 & I1 & N2 & I2 & _ & _ & Hres & Hst & Ho).
  destruct ok_left; [|discriminate]. destruct ok_joined; [|discriminate].
  exists ch, hs1. split; [exact Hd|]. split; [exact Hch|]. split; [exact Hin|]. split; [exact Hown|].
  cbv zeta. split; [exact N1|]. split; [exact I1|]. split; [exact Hst|].
  unfold pick_opt in *.
  destruct (is_owner ch n) eqn:Hwo; cbn [andb] in *.
  - destruct (isempty (ndel n (ch_members ch))) eqn:Hemp; cbn [negb] in *.
    + split; [right; apply isempty_true; exact Hemp|]. rewrite Ho. cbn [app]. reflexivity.
    + assert (Hne : ndel n (ch_members ch) <> []) by (apply isempty_false; exact Hemp).
      split; [reflexivity|]. split; [apply pick_of_In; exact Hne|]. split; [reflexivity|].
      split.
      { rewrite Hst, leave_st_chans, list_eqb_refl, left_chan_members, Hemp. reflexivity. }
      split; [reflexivity|]. split; [reflexivity|].
      exists hs2. split; [exact N2|]. split; [exact I2|].
      rewrite Ho, <- !app_assoc. reflexivity.
  - split; [left; reflexivity|]. rewrite Ho. cbn [app]. reflexivity.
Qed.

Lemma kind_leave_ack_not_event id : is_kind (leave_ack id) "EVENT" = false.
Proof. reflexivity. Qed.

Lemma In_send_mod cfg kind hd n ow h' m' p : ~ In (OSend h' m' p) (notify_mod cfg kind hd n ow).
Proof. intro K. apply notify_mod_is_mod in K as [mc K]. discriminate. Qed.

Lemma In_send_ack req id h' m' p : In (OSend h' m' p) (ack_out req id) -> is_kind m' "EVENT" = false.
Proof.
  destruct req as [h|]; [|intros []]. intros [K|[]]. injection K as _ <- _. apply kind_leave_ack_not_event.
Qed.

(* reading of B2: the EVENT frames of a successful leave are exactly the stated ones *)
Corollary C18_leave_only_events cfg req id me hd dom cf ob c c' :
  Inv cfg (st c) ->
  leave_core cfg req id me hd dom cf ob c = (c', None) ->
  let n := match ob with Some n => n | None => me end in
  exists ch,
    alookup hd (chans (st c)) = Some ch /\
    let chf := chan_full hd (domain cfg) in
    let rest := ndel n (ch_members ch) in
    forall h' m' p, In (OSend h' m' p) (new_outs c c') -> is_kind m' "EVENT" = true ->
      p = None /\
      ((m' = event_msg (bs "MEMBER_LEFT") chf (nid_full n) (is_owner ch n) /\
        req <> Some h' /\ conn_of (st c) (ch_members ch) h') \/
       (exists pick, pick_opt (hints c) hd ch n = Some pick /\
          m' = event_msg (bs "MEMBER_JOINED") chf (nid_full pick) true /\ conn_of (st c) rest h')).
Proof.
  intros HI Hlv n.
  destruct (C18_leave_events cfg req id me hd dom cf ob c c' HI Hlv) as (ch & hs1 & K).
  fold n in K. destruct K as (_ & Hch & _ & _ & K). cbv zeta in K. destruct K as (_ & I1 & _ & K).
  exists ch. split; [exact Hch|]. cbv zeta. intros h' m' p Hi Hk.
  destruct (pick_opt (hints c) hd ch n) as [pick|].
  - destruct K as (_ & _ & _ & _ & _ & _ & hs2 & _ & I2 & Ho). rewrite Ho in Hi.
    apply in_app_or in Hi as [Hi|Hi]; [exfalso; exact (In_send_mod _ _ _ _ _ _ _ _ Hi)|].
    apply in_app_or in Hi as [Hi|Hi].
    { apply in_map_iff in Hi as (x & Hx & Hxi). injection Hx as -> <- <-. split; [reflexivity|].
      left. apply I1 in Hxi. tauto. }
    apply in_app_or in Hi as [Hi|Hi]; [exfalso; exact (In_send_mod _ _ _ _ _ _ _ _ Hi)|].
    apply in_app_or in Hi as [Hi|Hi].
    { apply in_map_iff in Hi as (x & Hx & Hxi). injection Hx as -> <- <-. split; [reflexivity|].
      right. exists pick. split; [reflexivity|]. split; [reflexivity|]. apply I2. exact Hxi. }
    apply In_send_ack in Hi. congruence.
  - destruct K as (_ & Ho). rewrite Ho in Hi.
    apply in_app_or in Hi as [Hi|Hi]; [exfalso; exact (In_send_mod _ _ _ _ _ _ _ _ Hi)|].
    apply in_app_or in Hi as [Hi|Hi].
    { apply in_map_iff in Hi as (x & Hx & Hxi). injection Hx as -> <- <-. split; [reflexivity|].
      left. apply I1 in Hxi. tauto. }
    apply In_send_ack in Hi. congruence.
Qed.

(* the failure returns of leave_core.  Either the request is refused before anything happens, or a
   modulator event forwarding answered MErr: the result is PInternal, BUT the member is removed all the
   same (the state is the one of a successful leave) and part of the outputs has been produced. *)
Theorem C18_leave_failed cfg req id me hd dom cf ob c c' e :
  Inv cfg (st c) ->
  leave_core cfg req id me hd dom cf ob c = (c', Some e) ->
  let n := match ob with Some n => n | None => me end in
  c' = c \/
  exists ch hs1 hs2,
    dom = domain cfg /\ alookup hd (chans (st c)) = Some ch /\ In n (ch_members ch) /\
    let chf := chan_full hd (domain cfg) in
    let was_owner := is_owner ch n in
    let rest := ndel n (ch_members ch) in
    let popt := pick_opt (hints c) hd ch n in
    let mod_left := OMod (McEvent (bs "MEMBER_LEFT") chf (nid_full n) was_owner) in
    let mod_joined (pick : nid) := OMod (McEvent (bs "MEMBER_JOINED") chf (nid_full pick) true) in
    e = PInternal /\ has_mod cfg && op_fev cfg = true /\
    st c' = leave_st hd cf n ch popt (st c) /\
    NoDup hs1 /\ (forall h', In h' hs1 <-> req <> Some h' /\ conn_of (st c) (ch_members ch) h') /\
    NoDup hs2 /\ (forall h', In h' hs2 <-> conn_of (st c) rest h') /\
    ((* the MEMBER_LEFT forwarding failed: no MEMBER_LEFT event, no LEAVE_ACK; a re-election is still announced *)
     (head_outcome (script c) = MErr /\
      exists ok_joined : bool,
      new_outs c c' =
        [mod_left] ++
        match popt with
        | Some pick => [mod_joined pick] ++
                       (if ok_joined
                        then map (fun h' => OSend h' (event_msg (bs "MEMBER_JOINED") chf (nid_full pick) true) None) hs2
                        else [])
        | None => []
        end)
     \/
     (* MEMBER_LEFT went through, the MEMBER_JOINED forwarding of the re-election failed *)
     (exists pick, popt = Some pick /\
      new_outs c c' =
        [mod_left] ++
        map (fun h' => OSend h' (event_msg (bs "MEMBER_LEFT") chf (nid_full n) was_owner) None) hs1 ++
        [mod_joined pick] ++ ack_out req id)).
Proof.
  intros HI Hlv n.
  destruct (C18_leave_general cfg req id me hd dom cf ob c HI) as [[e' He]|K].
  { left. rewrite Hlv in He. congruence. }
  right. fold n in K. rewrite Hlv in K. cbn [fst snd] in K.
  destruct K as (ch & hs1 & hs2 & ok_left & ok_joined & Hd & Hch & Hin & Hown & K). cbv zeta in K.
  destruct K as (N1 & I1 & N2 & I2 & Hl & Hj & Hres & Hst & Ho).
  exists ch, hs1, hs2. split; [exact Hd|]. split; [exact Hch|]. split; [exact Hin|]. cbv zeta.
  assert (Hmod : has_mod cfg && op_fev cfg = true).
  { destruct ok_left; [|exact (proj1 (Hl eq_refl))]. destruct ok_joined; [discriminate|]. exact (proj2 (Hj eq_refl)). }
  split; [destruct (ok_left && ok_joined); congruence|]. split; [exact Hmod|]. split; [exact Hst|].
  split; [exact N1|]. split; [exact I1|]. split; [exact N2|]. split; [exact I2|].
  unfold notify_mod in Ho. rewrite Hmod in Ho.
  destruct ok_left.
  - right. destruct ok_joined; [discriminate|]. destruct (Hj eq_refl) as [Hp _].
    destruct (pick_opt (hints c) hd ch n) as [pick|]; [|congruence].
    exists pick. split; [reflexivity|]. rewrite Ho. cbn [app]. rewrite ?app_nil_r. reflexivity.
  - left. split; [exact (proj2 (Hl eq_refl))|]. exists ok_joined. rewrite Ho. cbn [app].
    rewrite ?app_nil_r. reflexivity.
Qed.

(* ====================================================================== *)
(* Part 4 : one-step replay                                                *)
(* ====================================================================== *)

(* a client-side membership view, updated by the EVENT frames it receives *)
Definition apply_event (l : list str) (ev : msg) : list str :=
  match get_ostr ev "nid" with
  | Some x => if list_eqb (get_str ev "kind") (bs "MEMBER_JOINED") then sadd x l
              else if list_eqb (get_str ev "kind") (bs "MEMBER_LEFT") then sdel x l
              else l
  | None => l
  end.

(* the EVENT frames written to connection hb, in order *)
Definition events_to (hb : N) (os : list out) : list msg :=
  flat_map (fun o => match o with
                     | OSend h' ev _ => if (h' =? hb) && is_kind ev "EVENT" then [ev] else []
                     | _ => []
                     end) os.

Lemma events_to_sends hb os :
  events_to hb os = map fst (filter (fun mp => is_kind (fst mp) "EVENT") (sends_to hb os)).
Proof.
  unfold events_to, sends_to. induction os as [|o os IH]; [reflexivity|].
  cbn [flat_map]. rewrite filter_app, map_app, <- IH. f_equal.
  destruct o as [h' ev p| | | |]; try reflexivity.
  destruct (h' =? hb); cbn [andb filter map]; [|reflexivity].
  cbn [fst]. destruct (is_kind ev "EVENT"); reflexivity.
Qed.

Lemma kind_event k cf x o : is_kind (event_msg k cf x o) "EVENT" = true.
Proof. reflexivity. Qed.

Lemma apply_joined l cf x o :
  apply_event l (event_msg (bs "MEMBER_JOINED") cf x o) = sadd x l.
Proof. reflexivity. Qed.

Lemma apply_left l cf x o :
  apply_event l (event_msg (bs "MEMBER_LEFT") cf x o) = sdel x l.
Proof. reflexivity. Qed.

(* nid_full is injective on nids of one domain with a non-empty user part *)
Lemma nid_full_inj_local a b :
  nd a = nd b -> nu a <> [] -> nu b <> [] -> nid_full a = nid_full b -> a = b.
Proof.
  destruct a as [ua da], b as [ub db]. unfold nid_full. cbn [nu nd]. intros <- Ha Hb H.
  destruct ua as [|x ua]; [congruence|]. destruct ub as [|y ub]; [congruence|].
  apply app_inv_tail in H. rewrite H. reflexivity.
Qed.

Lemma map_nid_full_ndel cfg ch n x :
  chan_ok cfg ch -> In n (ch_members ch) ->
  In x (map nid_full (ndel n (ch_members ch))) <-> x <> nid_full n /\ In x (map nid_full (ch_members ch)).
Proof.
  intros Hok Hn. rewrite !in_map_iff. split.
  - intros (t & <- & Ht). apply In_ndel in Ht as [Hne Ht]. split; [|exists t; auto].
    intro K. apply Hne. destruct (co_local _ _ Hok t Ht) as [D1 U1]. destruct (co_local _ _ Hok n Hn) as [D2 U2].
    apply nid_full_inj_local; congruence.
  - intros (Hne & t & <- & Ht). exists t. split; [reflexivity|]. apply In_ndel. split; [congruence | exact Ht].
Qed.

(* B3, JOIN: every connection hb <> h of a member of the channel before the join receives exactly one
   EVENT frame, and replaying it on the member list before the join yields the member list after it *)
Theorem C18_replay_join cfg h me m c c' :
  Inv cfg (st c) -> nd me = domain cfg ->
  h_join cfg h me m c = (c', None) ->
  exists hd n,
    chan_parse (get_str m "channel") = Some (hd, domain cfg) /\
    let ch := match alookup hd (chans (st c)) with Some c0 => c0 | None => new_chan cfg end in
    let created := match alookup hd (chans (st c)) with Some _ => false | None => true end in
    let ev := event_msg (bs "MEMBER_JOINED") (chan_full hd (domain cfg)) (nid_full n) created in
    alookup hd (chans (st c')) = Some (insert_member ch n) /\
    ch_members (insert_member ch n) = ch_members ch ++ [n] /\
    forall hb, hb <> h -> conn_of (st c) (ch_members ch ++ [n]) hb ->
      events_to hb (new_outs c c') = [ev] /\
      forall x, In x (fold_left apply_event (events_to hb (new_outs c c')) (map nid_full (ch_members ch))) <->
                In x (map nid_full (ch_members (insert_member ch n))).
Proof.
  intros HI Hme Hj.
  destruct (C18_join_events cfg h me m c c' HI Hme Hj) as (hd & n & hs & Hp & K).
  cbv zeta in K.
  destruct K as (_ & _ & _ & Hmem & Hst & Ho & Hnd & Hin).
  exists hd, n. split; [exact Hp|]. cbv zeta.
  split; [rewrite Hst, index_add_chans, alookup_put_chan, list_eqb_refl; reflexivity|].
  split; [exact Hmem|].
  intros hb Hne Hc.
  assert (Hs : sends_to hb (new_outs c c') = sends_to hb (new_outs c c')) by reflexivity.
  rewrite Ho in Hs at 2.
  rewrite !sends_to_app, sends_to_notify_mod in Hs.
  rewrite sends_to_map_once in Hs by (try exact Hnd; apply Hin; auto).
  assert (Hack : sends_to hb [OSend h (join_ack m) None] = []).
  { unfold sends_to; cbn [flat_map app]. destruct (N.eqb_spec h hb); [congruence | reflexivity]. }
  rewrite Hack in Hs. cbn [app] in Hs.
  assert (He : events_to hb (new_outs c c') =
               [event_msg (bs "MEMBER_JOINED") (chan_full hd (domain cfg)) (nid_full n)
                  match alookup hd (chans (st c)) with Some _ => false | None => true end]).
  { rewrite events_to_sends, Hs. cbn [filter fst]. rewrite kind_event. reflexivity. }
  split; [exact He|].
  intro x. rewrite He. cbn [fold_left]. rewrite apply_joined, Hmem, map_app, In_sadd, in_app_iff.
  cbn [map In]. intuition congruence.
Qed.

Lemma sends_to_ack_out hb req id : req <> Some hb -> sends_to hb (ack_out req id) = [].
Proof.
  intro H. destruct req as [h|]; [|reflexivity].
  unfold sends_to, ack_out; cbn [flat_map app]. destruct (N.eqb_spec h hb); [congruence | reflexivity].
Qed.

Lemma conn_of_sub s l l' h' : (forall t, In t l -> In t l') -> conn_of s l h' -> conn_of s l' h'.
Proof. intros H (t & us & Ht & K). exists t, us. split; [apply H; exact Ht | exact K]. Qed.

(* B3, LEAVE: every connection hb (other than the requester) of a member that stays in the channel
   receives the MEMBER_LEFT event, then the MEMBER_JOINED event of the re-elected owner if any, and
   nothing else of kind EVENT; replaying them on the member list before gives the member list after *)
Theorem C18_replay_leave cfg req id me hd dom cf ob c c' :
  Inv cfg (st c) ->
  leave_core cfg req id me hd dom cf ob c = (c', None) ->
  let n := match ob with Some n => n | None => me end in
  exists ch,
    alookup hd (chans (st c)) = Some ch /\ In n (ch_members ch) /\
    let chf := chan_full hd (domain cfg) in
    let rest := ndel n (ch_members ch) in
    let popt := pick_opt (hints c) hd ch n in
    let ev_left := event_msg (bs "MEMBER_LEFT") chf (nid_full n) (is_owner ch n) in
    forall hb, req <> Some hb -> conn_of (st c) rest hb ->
      alookup hd (chans (st c')) = Some (left_chan ch n popt) /\
      ch_members (left_chan ch n popt) = rest /\
      events_to hb (new_outs c c') =
        ev_left :: match popt with
                   | Some pick => [event_msg (bs "MEMBER_JOINED") chf (nid_full pick) true]
                   | None => []
                   end /\
      forall x, In x (fold_left apply_event (events_to hb (new_outs c c')) (map nid_full (ch_members ch))) <->
                In x (map nid_full rest).
Proof.
  intros HI Hlv n.
  destruct (C18_leave_events cfg req id me hd dom cf ob c c' HI Hlv) as (ch & hs1 & K).
  fold n in K. destruct K as (Hd & Hch & Hin & _ & K). cbv zeta in K.
  destruct K as (N1 & I1 & Hst & K).
  exists ch. split; [exact Hch|]. split; [exact Hin|]. cbv zeta.
  intros hb Hreq Hc.
  pose proof HI as (HC & _). pose proof (ci_chan _ _ _ _ HC hd ch Hch) as Hok.
  assert (Hne : isempty (ndel n (ch_members ch)) = false).
  { apply isempty_false. destruct Hc as (t & _ & Ht & _). intro E. rewrite E in Ht. destruct Ht. }
  assert (Hc1 : In hb hs1).
  { apply I1. split; [exact Hreq|]. revert Hc. apply conn_of_sub. intros t Ht. apply In_ndel in Ht. tauto. }
  split.
  { rewrite Hst, leave_st_chans, list_eqb_refl, left_chan_members, Hne. reflexivity. }
  split; [apply left_chan_members|].
  destruct (pick_opt (hints c) hd ch n) as [pick|] eqn:Hpo.
  - destruct K as (Hwo & Hpick & _ & _ & _ & _ & hs2 & N2 & I2 & Ho).
    assert (He : events_to hb (new_outs c c') =
                 [event_msg (bs "MEMBER_LEFT") (chan_full hd (domain cfg)) (nid_full n) (is_owner ch n);
                  event_msg (bs "MEMBER_JOINED") (chan_full hd (domain cfg)) (nid_full pick) true]).
    { rewrite events_to_sends, Ho, !sends_to_app, !sends_to_notify_mod, sends_to_ack_out by exact Hreq.
      rewrite !sends_to_map_once by (try assumption; apply I2; exact Hc).
      cbn [app filter fst]. rewrite !kind_event. reflexivity. }
    split; [exact He|]. intro x. rewrite He. cbn [fold_left]. rewrite apply_left, apply_joined.
    rewrite In_sadd, In_sdel, (map_nid_full_ndel cfg ch n x Hok Hin).
    split; [|tauto]. intros [->|H]; [|exact H].
    apply (map_nid_full_ndel cfg ch n _ Hok Hin). apply in_map. exact Hpick.
  - destruct K as (_ & Ho).
    assert (He : events_to hb (new_outs c c') =
                 [event_msg (bs "MEMBER_LEFT") (chan_full hd (domain cfg)) (nid_full n) (is_owner ch n)]).
    { rewrite events_to_sends, Ho, !sends_to_app, !sends_to_notify_mod, sends_to_ack_out by exact Hreq.
      rewrite !sends_to_map_once by assumption.
      cbn [app filter fst]. rewrite !kind_event. reflexivity. }
    split; [exact He|]. intro x. rewrite He. cbn [fold_left]. rewrite apply_left.
    rewrite In_sdel, (map_nid_full_ndel cfg ch n x Hok Hin). reflexivity.
Qed.

(* ====================================================================== *)
(* Part 5 : a concrete trace (the hypotheses are satisfiable, the shapes are the stated ones) *)
(* ====================================================================== *)
Module EvWitness.
  Definition wcfg : scfg :=
    {| domain := bs "localhost"; has_mod := true; op_auth := true; op_fbp := false; op_fev := true; op_spp := false;
       proto := []; max_clients := 10; max_subs := 10; max_payload_cfg := 1000; max_inflight := 10; max_message := 1000;
       keepalive := 60; min_keepalive := 1; max_conns := 10; pool_budget := 100000; max_channels := 100 |}.
  Definition m_connect := build "CONNECT" [(bs "version", VNum 1); (bs "heartbeat_interval", VNum 0)].
  Definition m_auth := build "AUTH" [(bs "token", VStr (bs "t"))].
  Definition m_join (i : N) (ch : string) := build "JOIN" [(bs "id", VNum i); (bs "channel", VStr (bs ch))].
  Definition m_leave (i : N) (ch : string) := build "LEAVE" [(bs "id", VNum i); (bs "channel", VStr (bs ch))].
  Definition login (h : N) (u : string) : list op :=
    [Open h; Frame h m_connect None [] []; Frame h m_auth None [MAuthSuccess (bs u)] []].
  (* alice has connections 1 and 2, bob has connection 3; alice creates !c, bob joins, alice leaves *)
  Definition wops : list op :=
    login 1 "alice" ++ login 2 "alice" ++ login 3 "bob" ++
    [Frame 1 (m_join 1 "!c@localhost") None [] [];
     Frame 3 (m_join 2 "!c@localhost") None [] [];
     Frame 1 (m_leave 3 "!c@localhost") None [] []].
  Definition chf := bs "!c@localhost".
  Definition alice := {| nu := bs "alice"; nd := bs "localhost" |}.
  Definition bob := {| nu := bs "bob"; nd := bs "localhost" |}.

  (* bob's JOIN: modulator call first, one event to each of alice's two connections, then the ack;
     alice's LEAVE on connection 1 (she owns !c): MEMBER_LEFT to her other connection and to bob,
     then the re-election of bob announced to bob, then the ack *)
  Example join_then_owner_leave :
    skipn 10 (run wcfg init wops) =
    [ [OMod (McEvent (bs "MEMBER_JOINED") chf (nid_full bob) false);
       OSend 1 (event_msg (bs "MEMBER_JOINED") chf (nid_full bob) false) None;
       OSend 2 (event_msg (bs "MEMBER_JOINED") chf (nid_full bob) false) None;
       OSend 3 (join_ack (m_join 2 "!c@localhost")) None];
      [OMod (McEvent (bs "MEMBER_LEFT") chf (nid_full alice) true);
       OSend 2 (event_msg (bs "MEMBER_LEFT") chf (nid_full alice) true) None;
       OSend 3 (event_msg (bs "MEMBER_LEFT") chf (nid_full alice) true) None;
       OMod (McEvent (bs "MEMBER_JOINED") chf (nid_full bob) true);
       OSend 3 (event_msg (bs "MEMBER_JOINED") chf (nid_full bob) true) None;
       OSend 1 (leave_ack 3) None] ].
  Proof. vm_compute. reflexivity. Qed.

  (* the failure path of C18_leave_failed: the modulator answers MErr to the MEMBER_LEFT forwarding.
     The request fails (INTERNAL_SERVER_ERROR, connection 1 closed), no MEMBER_LEFT event and no ack are
     sent, yet alice IS removed and bob is told he is the owner now. *)
  Definition wops_fail : list op :=
    firstn 11 wops ++ [Frame 1 (m_leave 3 "!c@localhost") None [MErr] []].
  Example failed_leave_still_leaves :
    skipn 11 (run wcfg init wops_fail) =
      [ [OMod (McEvent (bs "MEMBER_LEFT") chf (nid_full alice) true);
         OMod (McEvent (bs "MEMBER_JOINED") chf (nid_full bob) true);
         OSend 3 (event_msg (bs "MEMBER_JOINED") chf (nid_full bob) true) None;
         OClose 1 (err_msg None "INTERNAL_SERVER_ERROR")] ] /\
    option_map ch_members (alookup (bs "c") (chans (run_state wcfg init wops_fail))) = Some [bob] /\
    option_map ch_owner (alookup (bs "c") (chans (run_state wcfg init wops_fail))) = Some (Some bob).
  Proof. vm_compute. repeat split. Qed.
End EvWitness.

Print Assumptions Inv_router_wf.
Print Assumptions route_members_exact.
Print Assumptions h_join_cases.
Print Assumptions C18_join_events.
Print Assumptions C18_join_each_once.
Print Assumptions C18_join_refused.
Print Assumptions leave_core_exact.
Print Assumptions C18_leave_general.
Print Assumptions C18_leave_events.
Print Assumptions C18_leave_only_events.
Print Assumptions C18_leave_failed.
Print Assumptions C18_replay_join.
Print Assumptions C18_replay_leave.
Print Assumptions EvWitness.join_then_owner_leave.
Print Assumptions EvWitness.failed_leave_still_leaves.
