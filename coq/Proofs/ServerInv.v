(* State invariant of the server model (Model/Server.v) and its preservation by every op. *)
From NW Require Import Base.Bytes Model.SchemaTypes Model.Codec Model.Ids Model.Framing Model.Server.
From NW Require Import Proofs.ServerInvBase.

(* ====================================================================== *)
(* Part A : the invariant                                                  *)
(* ====================================================================== *)

Definition idx_of (ix : list (str * list str)) (u : str) : list str :=
  match alookup u ix with Some l => l | None => [] end.
Definition rt_of (r : list (str * list N)) (u : str) : list N :=
  match alookup u r with Some l => l | None => [] end.
Definition uid (cfg : scfg) (u : str) : nid := {| nu := u; nd := domain cfg |}.

Record chan_ok (cfg : scfg) (ch : chan) : Prop := {
  co_targets : ch_targets ch = filter (acl_allowed (ch_read ch)) (ch_members ch);
  co_nonempty : ch_members ch <> [];
  co_owner : exists o, ch_owner ch = Some o /\ In o (ch_members ch);
  co_local : forall n, In n (ch_members ch) -> nd n = domain cfg /\ nu n <> [];
  co_nodup : NoDup (ch_members ch) }.

(* channels + reverse index; P restricts the users for which the two views must agree
   (P = everybody in a quiescent state; P = "not me" while leave_all detaches me) *)
Record ChanInv (P : str -> Prop) (cfg : scfg) (cs : list (str * chan)) (ix : list (str * list str)) : Prop := {
  ci_chan : forall hd ch, alookup hd cs = Some ch -> chan_ok cfg ch;
  ci_fwd : forall u cf, P u -> In cf (idx_of ix u) ->
           exists hd ch, chan_parse cf = Some (hd, domain cfg) /\ alookup hd cs = Some ch /\ In (uid cfg u) (ch_members ch);
  ci_bwd : forall u hd ch, P u -> alookup hd cs = Some ch -> In (uid cfg u) (ch_members ch) ->
           In (chan_full hd (domain cfg)) (idx_of ix u);
  ci_ne : forall u l, alookup u ix = Some l -> l <> [] /\ NoDup l }.

Record ConnInv (cfg : scfg) (r : list (str * list N)) (cs : list (N * conn)) : Prop := {
  cn_rt : forall u h, In h (rt_of r u) <->
          exists cn, nlookup h cs = Some cn /\ c_phase cn = Authenticated /\ c_nid cn = Some (uid cfg u);
  cn_ne : forall u hs, alookup u r = Some hs -> hs <> [] /\ NoDup hs;
  cn_conn : forall h cn, nlookup h cs = Some cn ->
            (c_phase cn = Authenticated <-> c_nid cn <> None) /\
            forall n, c_nid cn = Some n -> nd n = domain cfg /\ nu n <> [] }.

Definition Linked (P : str -> Prop) (cs : list (str * chan)) (r : list (str * list N)) : Prop :=
  forall hd ch n, P (nu n) -> alookup hd cs = Some ch -> In n (ch_members ch) -> rt_of r (nu n) <> [].

Definition InvP (P : str -> Prop) (cfg : scfg) (s : state) : Prop :=
  ChanInv P cfg (chans s) (inch s) /\ ConnInv cfg (router s) (conns s) /\ Linked P (chans s) (router s).

Definition Inv (cfg : scfg) (s : state) : Prop := InvP (fun _ => True) cfg s.

Lemma uid_local cfg n : nd n = domain cfg -> uid cfg (nu n) = n.
Proof. intro H. unfold uid. rewrite <- H. symmetry. apply nid_eta. Qed.

(* ====================================================================== *)
(* Part B : what the setters do to look-ups                                *)
(* ====================================================================== *)

Lemma alookup_put_chan k h ch s :
  alookup k (chans (put_chan h ch s)) = if list_eqb k h then Some ch else alookup k (chans s).
Proof.
  unfold put_chan; cbn [chans].
  apply (alookup_upsert k h ch (fun e => if list_eqb (fst e) h then (h, ch) else e) (chans s)).
  intro e; reflexivity.
Qed.

Lemma alookup_del_chan k h s :
  alookup k (chans (del_chan h s)) = if list_eqb k h then None else alookup k (chans s).
Proof. unfold del_chan; cbn [chans]. apply alookup_aremove. Qed.

Lemma alookup_index_add k u cf s :
  alookup k (inch (index_add u cf s)) =
    if list_eqb k u then Some (sadd cf (idx_of (inch s) u)) else alookup k (inch s).
Proof.
  unfold index_add, idx_of, set_inch; cbn [inch].
  destruct (alookup u (inch s)) as [l|] eqn:E.
  - rewrite (alookup_map_upd k u (sadd cf l) _ (inch s)) by (intro e; reflexivity).
    rewrite E. reflexivity.
  - rewrite alookup_app. cbn [alookup].
    destruct (list_eqb_spec k u) as [E1|E1].
    + subst k. rewrite E. reflexivity.
    + destruct (alookup k (inch s)); reflexivity.
Qed.

Definition idel (cf : str) (o : option (list str)) : option (list str) :=
  match o with
  | Some l => if isempty (sdel cf l) then None else Some (sdel cf l)
  | None => None
  end.

Lemma alookup_index_del k u cf s :
  alookup k (inch (index_del u cf s)) =
    if list_eqb k u then idel cf (alookup u (inch s)) else alookup k (inch s).
Proof.
  unfold index_del, idel.
  destruct (alookup u (inch s)) as [l|] eqn:E.
  - unfold set_inch; cbn [inch]. destruct (isempty (sdel cf l)) eqn:Ee.
    + apply alookup_aremove.
    + rewrite (alookup_map_upd k u (sdel cf l) _ (inch s)) by (intro e; reflexivity).
      rewrite E. reflexivity.
  - destruct (list_eqb_spec k u) as [E1|E1]; [subst k; exact E | reflexivity].
Qed.

Lemma index_add_chans u cf s : chans (index_add u cf s) = chans s.
Proof. reflexivity. Qed.
Lemma index_add_router u cf s : router (index_add u cf s) = router s.
Proof. reflexivity. Qed.
Lemma index_add_conns u cf s : conns (index_add u cf s) = conns s.
Proof. reflexivity. Qed.
Lemma index_del_chans u cf s : chans (index_del u cf s) = chans s.
Proof. unfold index_del. destruct (alookup u (inch s)); reflexivity. Qed.
Lemma index_del_router u cf s : router (index_del u cf s) = router s.
Proof. unfold index_del. destruct (alookup u (inch s)); reflexivity. Qed.
Lemma index_del_conns u cf s : conns (index_del u cf s) = conns s.
Proof. unfold index_del. destruct (alookup u (inch s)); reflexivity. Qed.

(* ====================================================================== *)
(* Part C : channel-level preservation lemmas                              *)
(* ====================================================================== *)

Lemma retarget_members ch : ch_members (retarget ch) = ch_members ch.
Proof. reflexivity. Qed.

Lemma chan_ok_new_member cfg ch n :
  (ch_members ch = [] /\ ch_owner ch = None \/ chan_ok cfg ch) ->
  ~ In n (ch_members ch) -> nd n = domain cfg -> nu n <> [] ->
  chan_ok cfg (insert_member ch n) /\ ch_members (insert_member ch n) = ch_members ch ++ [n].
Proof.
  intros Hch Hn Hd Hu.
  assert (Hm : ch_members (insert_member ch n) = ch_members ch ++ [n]).
  { unfold insert_member. cbn [retarget ch_members]. apply nadd_fresh. apply nmem_false. exact Hn. }
  split; [|exact Hm].
  constructor.
  - reflexivity.
  - rewrite Hm. destruct (ch_members ch); discriminate.
  - rewrite Hm. unfold insert_member; cbn [retarget ch_owner].
    destruct Hch as [[_ Ho]|Hok].
    + rewrite Ho. exists n. split; [reflexivity|]. apply in_or_app. right. left. reflexivity.
    + destruct (co_owner _ _ Hok) as (o & Ho & Hin). rewrite Ho. exists o. split; [reflexivity|].
      apply in_or_app. left. exact Hin.
  - rewrite Hm. intros x Hx. apply in_app_or in Hx. destruct Hx as [Hx|[<-|[]]].
    + destruct Hch as [[He _]|Hok]; [rewrite He in Hx; destruct Hx|]. exact (co_local _ _ Hok x Hx).
    + split; assumption.
  - rewrite Hm. apply NoDup_snoc; [|exact Hn].
    destruct Hch as [[He _]|Hok]; [rewrite He; constructor | exact (co_nodup _ _ Hok)].
Qed.

(* replacing a channel by one with the same member list *)
Lemma ChanInv_put_same P cfg cs ix hd ch ch' cs' :
  ChanInv P cfg cs ix ->
  alookup hd cs = Some ch -> ch_members ch' = ch_members ch -> chan_ok cfg ch' ->
  (forall k, alookup k cs' = if list_eqb k hd then Some ch' else alookup k cs) ->
  ChanInv P cfg cs' ix.
Proof.
  intros [Hc Hf Hb Hn] Hch Hm Hok Hcs'. constructor.
  - intros k c0. rewrite Hcs'. destruct (list_eqb_spec k hd) as [->|E].
    + intro H; injection H as <-. exact Hok.
    + apply Hc.
  - intros u cf Pu Hin. destruct (Hf u cf Pu Hin) as (hd0 & ch0 & Hp & Hl & Hi).
    destruct (list_eqb_spec hd0 hd) as [->|E].
    + exists hd, ch'. split; [exact Hp|]. split.
      * rewrite Hcs', list_eqb_refl. reflexivity.
      * rewrite Hm. rewrite Hch in Hl. injection Hl as <-. exact Hi.
    + exists hd0, ch0. split; [exact Hp|]. split; [|exact Hi].
      rewrite Hcs'. apply list_eqb_false in E. rewrite E. exact Hl.
  - intros u k c0 Pu. rewrite Hcs'. destruct (list_eqb_spec k hd) as [->|E].
    + intro H; injection H as <-. rewrite Hm. apply (Hb u hd ch Pu Hch).
    + apply (Hb u k c0 Pu).
  - exact Hn.
Qed.

Lemma Linked_put_same P cs r hd ch ch' cs' :
  Linked P cs r ->
  alookup hd cs = Some ch -> ch_members ch' = ch_members ch ->
  (forall k, alookup k cs' = if list_eqb k hd then Some ch' else alookup k cs) ->
  Linked P cs' r.
Proof.
  intros HL Hch Hm Hcs' k c0 n Pn. rewrite Hcs'. destruct (list_eqb_spec k hd) as [->|E].
  - intro H; injection H as <-. rewrite Hm. apply (HL hd ch n Pn Hch).
  - apply (HL k c0 n Pn).
Qed.

(* JOIN *)
Lemma ChanInv_join P cfg cs ix hd cf n ch cs' ix' :
  ChanInv P cfg cs ix ->
  chan_parse cf = Some (hd, domain cfg) ->
  ch = match alookup hd cs with Some c0 => c0 | None => new_chan cfg end ->
  ~ In n (ch_members ch) -> nd n = domain cfg -> nu n <> [] ->
  (forall k, alookup k cs' = if list_eqb k hd then Some (insert_member ch n) else alookup k cs) ->
  (forall k, alookup k ix' = if list_eqb k (nu n) then Some (sadd cf (idx_of ix (nu n))) else alookup k ix) ->
  ChanInv P cfg cs' ix'.
Proof.
  intros [Hc Hf Hb Hn] Hp Hch Hnin Hd Hu Hcs' Hix'.
  pose proof (chan_parse_full _ _ _ Hp) as Hcf.
  assert (Hpre : ch_members ch = [] /\ ch_owner ch = None \/ chan_ok cfg ch).
  { subst ch. destruct (alookup hd cs) as [c0|] eqn:E.
    - right. exact (Hc hd c0 E).
    - left. split; reflexivity. }
  destruct (chan_ok_new_member cfg ch n Hpre Hnin Hd Hu) as [Hok Hm].
  assert (Hidx : forall u, idx_of ix' u = if list_eqb u (nu n) then sadd cf (idx_of ix u) else idx_of ix u).
  { intro u. unfold idx_of at 1. rewrite Hix'. destruct (list_eqb_spec u (nu n)) as [->|E]; reflexivity. }
  assert (Hold : forall c0, alookup hd cs = Some c0 -> c0 = ch).
  { intros c0 E. subst ch. rewrite E. reflexivity. }
  constructor.
  - intros k c0. rewrite Hcs'. destruct (list_eqb_spec k hd) as [->|E].
    + intro H; injection H as <-. exact Hok.
    + apply Hc.
  - intros u cf0 Pu. rewrite Hidx. intro Hin.
    assert (Hcase : (u = nu n /\ cf0 = cf) \/ In cf0 (idx_of ix u)).
    { destruct (list_eqb_spec u (nu n)) as [->|E]; [|right; exact Hin].
      apply In_sadd in Hin. destruct Hin as [->|Hin]; [left; split; reflexivity | right; exact Hin]. }
    destruct Hcase as [[-> ->]|Hin0].
    + exists hd, (insert_member ch n). split; [exact Hp|]. split.
      * rewrite Hcs', list_eqb_refl. reflexivity.
      * rewrite Hm, (uid_local cfg n Hd). apply in_or_app. right. left. reflexivity.
    + destruct (Hf u cf0 Pu Hin0) as (hd0 & ch0 & Hp0 & Hl0 & Hi0).
      destruct (list_eqb_spec hd0 hd) as [->|E].
      * exists hd, (insert_member ch n). split; [exact Hp0|]. split.
        -- rewrite Hcs', list_eqb_refl. reflexivity.
        -- rewrite Hm. apply in_or_app. left. rewrite <- (Hold ch0 Hl0). exact Hi0.
      * exists hd0, ch0. split; [exact Hp0|]. split; [|exact Hi0].
        rewrite Hcs'. apply list_eqb_false in E. rewrite E. exact Hl0.
  - intros u k c0 Pu. rewrite Hcs', Hidx. destruct (list_eqb_spec k hd) as [->|E].
    + intro H; injection H as <-. rewrite Hm. intro Hi. apply in_app_or in Hi.
      destruct Hi as [Hi|[Hi|[]]].
      * assert (Hl : alookup hd cs = Some ch).
        { destruct (alookup hd cs) as [c0|] eqn:E0; [rewrite (Hold c0 eq_refl); reflexivity|].
          subst ch. destruct Hi. }
        pose proof (Hb u hd ch Pu Hl Hi) as Hin.
        destruct (list_eqb u (nu n)); [apply In_sadd; right; exact Hin | exact Hin].
      * assert (u = nu n) as -> by (rewrite Hi; reflexivity).
        rewrite list_eqb_refl. apply In_sadd. left. symmetry. exact Hcf.
    + intros Hl Hi. pose proof (Hb u k c0 Pu Hl Hi) as Hin.
      destruct (list_eqb u (nu n)); [apply In_sadd; right; exact Hin | exact Hin].
  - intros u l. rewrite Hix'. destruct (list_eqb_spec u (nu n)) as [->|E].
    + intro H; injection H as <-. split; [apply sadd_nonempty|]. apply NoDup_sadd.
      unfold idx_of. destruct (alookup (nu n) ix) as [l0|] eqn:E0; [exact (proj2 (Hn _ _ E0)) | constructor].
    + apply Hn.
Qed.

Lemma Linked_join P cfg cs r hd n ch cs' :
  Linked P cs r ->
  ch = match alookup hd cs with Some c0 => c0 | None => new_chan cfg end ->
  ch_members (insert_member ch n) = ch_members ch ++ [n] ->
  rt_of r (nu n) <> [] ->
  (forall k, alookup k cs' = if list_eqb k hd then Some (insert_member ch n) else alookup k cs) ->
  Linked P cs' r.
Proof.
  intros HL Hch Hm Hrt Hcs' k c0 x Px. rewrite Hcs'. destruct (list_eqb_spec k hd) as [->|E].
  - intro H; injection H as <-. rewrite Hm. intro Hi. apply in_app_or in Hi.
    destruct Hi as [Hi|[<-|[]]]; [|exact Hrt].
    destruct (alookup hd cs) as [c1|] eqn:E0.
    + subst ch. exact (HL hd c1 x Px E0 Hi).
    + subst ch. destruct Hi.
  - apply (HL k c0 x Px).
Qed.

(* LEAVE *)
Lemma idx_idel ix ix' u0 cf :
  (forall k, alookup k ix' = if list_eqb k u0 then idel cf (alookup u0 ix) else alookup k ix) ->
  forall u, idx_of ix' u = if list_eqb u u0 then sdel cf (idx_of ix u) else idx_of ix u.
Proof.
  intros Hix' u. unfold idx_of at 1. rewrite Hix'.
  destruct (list_eqb_spec u u0) as [->|E]; [|reflexivity].
  unfold idx_of, idel. destruct (alookup u0 ix) as [l|]; [|reflexivity].
  destruct (isempty (sdel cf l)) eqn:Ee; [|reflexivity].
  apply isempty_true in Ee. symmetry. exact Ee.
Qed.

Lemma ChanInv_leave P cfg cs ix hd cf n ch ch' cs' ix' :
  ChanInv P cfg cs ix ->
  chan_parse cf = Some (hd, domain cfg) ->
  alookup hd cs = Some ch -> In n (ch_members ch) ->
  ch_members ch' = ndel n (ch_members ch) ->
  (ch_members ch' <> [] -> chan_ok cfg ch') ->
  (forall k, alookup k cs' = if list_eqb k hd then (if isempty (ch_members ch') then None else Some ch')
                             else alookup k cs) ->
  (forall k, alookup k ix' = if list_eqb k (nu n) then idel cf (alookup (nu n) ix) else alookup k ix) ->
  ChanInv P cfg cs' ix'.
Proof.
  intros [Hc Hf Hb Hn] Hp Hch Hin Hm Hok Hcs' Hix'.
  pose proof (chan_parse_full _ _ _ Hp) as Hcf.
  pose proof (idx_idel ix ix' (nu n) cf Hix') as Hidx.
  pose proof (co_local _ _ (Hc hd ch Hch) n Hin) as [Hnd Hnu].
  constructor.
  - intros k c0. rewrite Hcs'. destruct (list_eqb_spec k hd) as [->|E]; [|apply Hc].
    destruct (isempty (ch_members ch')) eqn:Ee; [discriminate|].
    intro H; injection H as <-. apply Hok. apply isempty_false. exact Ee.
  - intros u cf0 Pu. rewrite Hidx. intro Hi.
    assert (Hi0 : In cf0 (idx_of ix u) /\ (u = nu n -> cf0 <> cf)).
    { destruct (list_eqb_spec u (nu n)) as [->|E].
      - apply In_sdel in Hi. destruct Hi as [Hne Hi]. split; [exact Hi | intros _; exact Hne].
      - split; [exact Hi | intro; contradiction]. }
    destruct Hi0 as [Hi0 Hne].
    destruct (Hf u cf0 Pu Hi0) as (hd0 & ch0 & Hp0 & Hl0 & Hm0).
    destruct (list_eqb_spec hd0 hd) as [->|E].
    + rewrite Hch in Hl0. injection Hl0 as <-.
      assert (Hun : uid cfg u <> n).
      { intro K. apply Hne; [rewrite <- K; reflexivity|].
        rewrite (chan_parse_full _ _ _ Hp0). symmetry. exact Hcf. }
      assert (Hi' : In (uid cfg u) (ch_members ch')).
      { rewrite Hm. apply In_ndel. split; assumption. }
      exists hd, ch'. split; [exact Hp0|]. split; [|exact Hi'].
      rewrite Hcs', list_eqb_refl.
      destruct (isempty (ch_members ch')) eqn:Ee; [|reflexivity].
      apply isempty_true in Ee. rewrite Ee in Hi'. destruct Hi'.
    + exists hd0, ch0. split; [exact Hp0|]. split; [|exact Hm0].
      rewrite Hcs'. apply list_eqb_false in E. rewrite E. exact Hl0.
  - intros u k c0 Pu. rewrite Hcs', Hidx. destruct (list_eqb_spec k hd) as [->|E].
    + destruct (isempty (ch_members ch')) eqn:Ee; [discriminate|].
      intro H; injection H as <-. rewrite Hm. intro Hi. apply In_ndel in Hi. destruct Hi as [Hne Hi].
      pose proof (Hb u hd ch Pu Hch Hi) as Hi1.
      destruct (list_eqb_spec u (nu n)) as [->|E1]; [|exact Hi1].
      exfalso. apply Hne. apply uid_local. exact Hnd.
    + intros Hl Hi. pose proof (Hb u k c0 Pu Hl Hi) as Hi1.
      destruct (list_eqb_spec u (nu n)) as [->|E1]; [|exact Hi1].
      apply In_sdel. split; [|exact Hi1].
      rewrite Hcf. intro K. apply chan_full_inj in K. contradiction.
  - intros u l. rewrite Hix'. destruct (list_eqb_spec u (nu n)) as [->|E]; [|apply Hn].
    unfold idel. destruct (alookup (nu n) ix) as [l0|] eqn:E0; [|discriminate].
    destruct (isempty (sdel cf l0)) eqn:Ee; [discriminate|].
    intro H; injection H as <-. split; [apply isempty_false; exact Ee|].
    apply NoDup_filter. exact (proj2 (Hn _ _ E0)).
Qed.

Lemma Linked_shrink P cs r hd ch ch' cs' :
  Linked P cs r ->
  alookup hd cs = Some ch -> (forall x, In x (ch_members ch') -> In x (ch_members ch)) ->
  (forall k, alookup k cs' = if list_eqb k hd then (if isempty (ch_members ch') then None else Some ch')
                             else alookup k cs) ->
  Linked P cs' r.
Proof.
  intros HL Hch Hsub Hcs' k c0 x Px. rewrite Hcs'. destruct (list_eqb_spec k hd) as [->|E].
  - destruct (isempty (ch_members ch')); [discriminate|].
    intro H; injection H as <-. intro Hi. exact (HL hd ch x Px Hch (Hsub x Hi)).
  - apply (HL k c0 x Px).
Qed.

(* the channel that remains after member n left, with an optional re-elected owner *)
Definition left_chan (ch : chan) (n : nid) (pick : option nid) : chan :=
  match pick with
  | Some p => set_owner (remove_member ch n) (Some p)
  | None => remove_member ch n
  end.

Lemma left_chan_members ch n pick : ch_members (left_chan ch n pick) = ndel n (ch_members ch).
Proof. destruct pick; reflexivity. Qed.

Lemma left_chan_ok cfg ch n pick :
  chan_ok cfg ch ->
  match pick with Some p => In p (ndel n (ch_members ch)) | None => is_owner ch n = false end ->
  ndel n (ch_members ch) <> [] ->
  chan_ok cfg (left_chan ch n pick).
Proof.
  intros Hok Hpick Hne. constructor.
  - destruct pick; reflexivity.
  - rewrite left_chan_members. exact Hne.
  - rewrite left_chan_members. destruct pick as [p|]; cbn [left_chan set_owner remove_member retarget ch_owner].
    + exists p. split; [reflexivity | exact Hpick].
    + rewrite Hpick. destruct (co_owner _ _ Hok) as (o & Ho & Hi). exists o. split; [exact Ho|].
      apply In_ndel. split; [|exact Hi]. intros ->.
      unfold is_owner in Hpick. rewrite Ho, nid_eqb_refl in Hpick. discriminate.
  - rewrite left_chan_members. intros x Hx. apply In_ndel in Hx. exact (co_local _ _ Hok x (proj2 Hx)).
  - rewrite left_chan_members. apply NoDup_filter. exact (co_nodup _ _ Hok).
Qed.

(* ---------- LEAVE at the level of states ---------- *)
Definition leave_st (hd cf : str) (n : nid) (ch : chan) (pick : option nid) (s : state) : state :=
  let s1 := index_del (nu n) cf s in
  if isempty (ndel n (ch_members ch)) then del_chan hd s1 else put_chan hd (left_chan ch n pick) s1.

Lemma leave_st_router hd cf n ch pick s : router (leave_st hd cf n ch pick s) = router s.
Proof.
  unfold leave_st. destruct (isempty _); cbn [del_chan put_chan router]; apply index_del_router.
Qed.

Lemma leave_st_conns hd cf n ch pick s : conns (leave_st hd cf n ch pick s) = conns s.
Proof.
  unfold leave_st. destruct (isempty _); cbn [del_chan put_chan conns]; apply index_del_conns.
Qed.

Lemma leave_st_chans hd cf n ch pick s k :
  alookup k (chans (leave_st hd cf n ch pick s)) =
    if list_eqb k hd then (if isempty (ch_members (left_chan ch n pick)) then None else Some (left_chan ch n pick))
    else alookup k (chans s).
Proof.
  unfold leave_st. rewrite left_chan_members. destruct (isempty _).
  - rewrite alookup_del_chan, index_del_chans. reflexivity.
  - rewrite alookup_put_chan, index_del_chans. reflexivity.
Qed.

Lemma leave_st_inch hd cf n ch pick s k :
  alookup k (inch (leave_st hd cf n ch pick s)) =
    if list_eqb k (nu n) then idel cf (alookup (nu n) (inch s)) else alookup k (inch s).
Proof.
  unfold leave_st. destruct (isempty _); cbn [del_chan put_chan inch]; apply alookup_index_del.
Qed.

Lemma leave_st_inv P cfg s hd cf n ch pick :
  InvP P cfg s ->
  chan_parse cf = Some (hd, domain cfg) ->
  alookup hd (chans s) = Some ch -> In n (ch_members ch) ->
  (ndel n (ch_members ch) <> [] ->
   match pick with Some p => In p (ndel n (ch_members ch)) | None => is_owner ch n = false end) ->
  InvP P cfg (leave_st hd cf n ch pick s).
Proof.
  intros (HC & HN & HL) Hp Hch Hin Hpick.
  split; [|split].
  - apply (ChanInv_leave P cfg (chans s) (inch s) hd cf n ch (left_chan ch n pick)); try assumption.
    + apply left_chan_members.
    + rewrite left_chan_members. intro Hne. apply left_chan_ok; [exact (ci_chan _ _ _ _ HC hd ch Hch) | exact (Hpick Hne) | exact Hne].
    + intro k. apply leave_st_chans.
    + intro k. apply leave_st_inch.
  - rewrite leave_st_router, leave_st_conns. exact HN.
  - rewrite leave_st_router.
    apply (Linked_shrink P (chans s) (router s) hd ch (left_chan ch n pick)); try assumption.
    + rewrite left_chan_members. intros x Hx. apply In_ndel in Hx. exact (proj2 Hx).
    + intro k. apply leave_st_chans.
Qed.

(* ====================================================================== *)
(* Part E : handler specifications                                         *)
(* ====================================================================== *)

Lemma with_st_st s c : st (with_st s c) = s.
Proof. reflexivity. Qed.

Lemma hd_default_In l (d : nid) : l <> [] -> In (hd_default l d) l.
Proof. destruct l; [congruence|]. intros _. left. reflexivity. Qed.


Lemma leave_core_spec cfg req id me hd dom cf ob c :
  let n := match ob with Some n => n | None => me end in
  let c' := fst (leave_core cfg req id me hd dom cf ob c) in
  (st c' = st c /\
     (list_eqb dom (domain cfg) = false \/ alookup hd (chans (st c)) = None \/
      exists ch, alookup hd (chans (st c)) = Some ch /\
                 ((ob <> None /\ is_owner ch me = false) \/ nmem n (ch_members ch) = false)))
  \/ (exists ch pick, list_eqb dom (domain cfg) = true /\ alookup hd (chans (st c)) = Some ch /\
        nmem n (ch_members ch) = true /\
        (ndel n (ch_members ch) <> [] ->
         match pick with Some p => In p (ndel n (ch_members ch)) | None => is_owner ch n = false end) /\
        st c' = leave_st hd cf n ch pick (st c)).
Proof.
  intros n c'. subst c'. unfold leave_core, local.
  destruct (list_eqb dom (domain cfg)) eqn:Hl; cbn [negb];
    [|left; split; [reflexivity | left; reflexivity]].
  destruct (alookup hd (chans (st c))) as [ch|] eqn:Hch;
    [|left; split; [reflexivity | right; left; reflexivity]].
  destruct ob as [nb|]; cbv zeta in n; subst n.
  1: destruct (is_owner ch me) eqn:Ho; cbn [negb];
       [| left; split; [reflexivity | right; right; exists ch; split; [reflexivity | left; split; [discriminate | first [exact Ho | reflexivity]]]]].
  1: clear Ho.
  all: cbv iota beta.
  all: (destruct (nmem _ (ch_members ch)) eqn:Hm; cbn [negb];
        [| left; split; [reflexivity| right; right; exists ch; split; [reflexivity| right; first [exact Hm | reflexivity]]]]).
  all: right.
  all: destruct (notify cfg "MEMBER_LEFT" _ _ _ _ _ _) as [ok_left c1] eqn:En1; apply notify_st' in En1.
  all: cbv zeta.
  all: change (ch_members (remove_member ch ?x)) with (ndel x (ch_members ch)).
  all: exists ch.
  all: destruct (isempty (ndel _ (ch_members ch))) eqn:Hemp.
  all: [> exists None | | exists None | ].
  all: try (split; [reflexivity|]; split; [reflexivity|]; split; [first [exact Hm | reflexivity]|]; split;
       [intro Hne; apply isempty_true in Hemp; contradiction|];
       cbv iota beta; destruct ok_left, req; cbn [negb fst fail ok st emit with_st];
       unfold leave_st; rewrite Hemp, En1; reflexivity).
  all: destruct (is_owner ch _) eqn:Hwo.
  all: [> | exists None | | exists None].
  all: try (split; [reflexivity|]; split; [reflexivity|]; split; [first [exact Hm | reflexivity]|]; split;
       [intros _; first [exact Hwo | reflexivity]|];
       cbv iota beta; destruct ok_left, req; cbn [negb fst fail ok st emit with_st];
       unfold leave_st; rewrite Hemp, En1; reflexivity).
  all: match goal with |- context [notify _ _ _ ?p _ _ _ _] => set (pick := p) end.
  all: destruct (notify cfg "MEMBER_JOINED" _ _ _ _ _ _) as [okj c2] eqn:En2; apply notify_st' in En2;
       cbn [st with_st] in En2.
  all: exists (Some pick).
  all: (split; [reflexivity|]; split; [reflexivity|]; split; [first [exact Hm | reflexivity]|]; split;
       [intros _; subst pick; destruct (alookup hd (hints c1)) as [o|];
         [destruct (nmem o _) eqn:Ho2; [apply nmem_In; exact Ho2|]|];
         apply hd_default_In; apply isempty_false; exact Hemp |]).
  all: destruct ok_left, req, okj; cbn [negb fst fail ok st emit with_st]; rewrite En2;
       unfold leave_st; rewrite Hemp, En1; reflexivity.
Qed.

Lemma h_join_spec cfg h me m c :
  match snd (h_join cfg h me m c) with
  | Some _ => st (fst (h_join cfg h me m c)) = st c
  | None =>
      exists hd n, chan_parse (get_str m "channel") = Some (hd, domain cfg) /\
        let ch := match alookup hd (chans (st c)) with Some c0 => c0 | None => new_chan cfg end in
        (n = me \/ (nd n = domain cfg /\ has_connection (st c) (nu n) = true /\ is_owner ch me = true)) /\
        nmem n (ch_members ch) = false /\
        st (fst (h_join cfg h me m c)) =
          index_add (nu n) (get_str m "channel") (put_chan hd (insert_member ch n) (st c))
  end.
Proof.
  unfold h_join, local.
  destruct (chan_parse (get_str m "channel")) as [[hd dom]|] eqn:Hp; [|reflexivity].
  set (ch := match alookup hd (chans (st c)) with Some c0 => c0 | None => new_chan cfg end).
  destruct (match get_ostr m "on_behalf" with
            | Some s => match nid_parse s with Some n => Some (Some n) | None => None end
            | None => Some None end) as [ob|]; [|reflexivity].
  destruct (list_eqb_spec dom (domain cfg)) as [->|Hd]; cbn [negb]; [|reflexivity].
  destruct (_ && (max_channels cfg <=? _)); [reflexivity|].
  set (who := match ob with Some n => _ | None => _ end).
  assert (Hwho : (exists e, who = inl e) \/
                 (exists n, who = inr n /\
                    (n = me \/ (nd n = domain cfg /\ has_connection (st c) (nu n) = true /\ is_owner ch me = true)))).
  { subst who. destruct ob as [n|]; [|right; exists me; split; [reflexivity | left; reflexivity]].
    destruct (is_owner ch me) eqn:Ho; cbn [negb]; [|left; eexists; reflexivity].
    destruct (list_eqb_spec (nd n) (domain cfg)) as [Hn|Hn]; cbn [negb orb]; [|left; eexists; reflexivity].
    destruct (has_connection (st c) (nu n)) eqn:Hc; cbn [negb]; [|left; eexists; reflexivity].
    right. exists n. split; [reflexivity|]. right. repeat split; assumption. }
  clearbody who.
  destruct Hwho as [[e ->]|(n & -> & Hn)]; [reflexivity|].
  destruct (acl_allowed (ch_join ch) n); cbn [negb]; [|reflexivity].
  destruct (nmem n (ch_members ch)) eqn:Hm; [reflexivity|].
  destruct (ch_max_clients ch <=? _); [reflexivity|].
  destruct (max_subs cfg <=? _); [reflexivity|].
  destruct (notify cfg "MEMBER_JOINED" _ _ _ _ _ _) as [okn c1] eqn:En. apply notify_st' in En.
  destruct okn; cbn [negb]; [|exact En].
  cbn [snd fst ok emit st with_st].
  exists hd, n. split; [reflexivity|]. split; [exact Hn|]. split; [exact Hm|].
  rewrite En. reflexivity.
Qed.

Ltac destr_inner :=
  match goal with
  | |- context [match ?x with _ => _ end] =>
      lazymatch x with
      | context [match _ with _ => _ end] => fail
      | _ => destruct x eqn:?
      end
  end.

Ltac st_blast :=
  cbv zeta; unfold next_outcome; cbn [script emit];
  repeat (destr_inner; cbn [fst snd st emit ok fail negb script]);
  rewrite ?route_st, ?emit_st; cbn [st]; try reflexivity.

Lemma h_broadcast_st cfg h me m pl c : st (fst (h_broadcast cfg h me m pl c)) = st c.
Proof. unfold h_broadcast, local. st_blast. Qed.

Lemma h_get_acl_st cfg h me m c : st (fst (h_get_acl cfg h me m c)) = st c.
Proof. unfold h_get_acl, local. st_blast. Qed.

Lemma h_get_config_st h me m c : st (fst (h_get_config h me m c)) = st c.
Proof. unfold h_get_config. st_blast. Qed.

Lemma h_channels_st h me m c : st (fst (h_channels h me m c)) = st c.
Proof. reflexivity. Qed.

Lemma h_members_st cfg h me m c : st (fst (h_members cfg h me m c)) = st c.
Proof. unfold h_members, local. st_blast. Qed.

Lemma h_mod_direct_st cfg h me m pl c : st (fst (h_mod_direct cfg h me m pl c)) = st c.
Proof. unfold h_mod_direct. st_blast. Qed.

Lemma h_set_acl_spec cfg h me m c :
  st (fst (h_set_acl cfg h me m c)) = st c \/
  exists hd ch ty a, alookup hd (chans (st c)) = Some ch /\
     st (fst (h_set_acl cfg h me m c)) = put_chan hd (set_acl ch ty a) (st c).
Proof.
  unfold h_set_acl, local. cbv zeta.
  repeat (destr_inner; cbn [fst snd st emit ok fail negb with_st]); try (left; reflexivity).
  right. eauto 10.
Qed.

Lemma h_set_config_spec cfg h me m c :
  st (fst (h_set_config cfg h me m c)) = st c \/
  exists hd ch mc mp, alookup hd (chans (st c)) = Some ch /\
     st (fst (h_set_config cfg h me m c)) = put_chan hd (set_config ch mc mp) (st c).
Proof.
  unfold h_set_config, local. cbv zeta.
  repeat (destr_inner; cbn [fst snd st emit ok fail negb with_st]); try (left; reflexivity).
  right. eauto 10.
Qed.

Lemma has_connection_rt s u : has_connection s u = true <-> rt_of (router s) u <> [].
Proof.
  unfold has_connection, rt_of. destruct (alookup u (router s)) as [hs|].
  - rewrite negb_true_iff. apply isempty_false.
  - split; [discriminate | congruence].
Qed.

Lemma InvP_put_same P cfg s hd ch ch' :
  InvP P cfg s -> alookup hd (chans s) = Some ch ->
  ch_members ch' = ch_members ch -> chan_ok cfg ch' ->
  InvP P cfg (put_chan hd ch' s).
Proof.
  intros (HC & HN & HL) Hch Hm Hok. split; [|split].
  - apply (ChanInv_put_same P cfg (chans s) (inch s) hd ch ch'); try assumption.
    intro k. apply alookup_put_chan.
  - exact HN.
  - apply (Linked_put_same P (chans s) (router s) hd ch ch'); try assumption.
    intro k. apply alookup_put_chan.
Qed.

Lemma chan_ok_set_acl cfg ch ty a : chan_ok cfg ch -> chan_ok cfg (set_acl ch ty a).
Proof.
  intros [H1 H2 H3 H4 H5]. constructor; try assumption. reflexivity.
Qed.

Lemma chan_ok_set_config cfg ch mc mp : chan_ok cfg ch -> chan_ok cfg (set_config ch mc mp).
Proof.
  intros [H1 H2 H3 H4 H5]. constructor; assumption.
Qed.

Lemma rt_nonempty_user cfg r cs u : ConnInv cfg r cs -> rt_of r u <> [] -> u <> [].
Proof.
  intros HN Hrt. apply nonempty_In in Hrt. destruct Hrt as [h Hh].
  apply (cn_rt _ _ _ HN) in Hh. destruct Hh as (cn & Hl & _ & Hn).
  destruct (cn_conn _ _ _ HN h cn Hl) as [_ K]. exact (proj2 (K _ Hn)).
Qed.

Lemma InvP_join P cfg s hd cf n :
  InvP P cfg s ->
  chan_parse cf = Some (hd, domain cfg) ->
  let ch := match alookup hd (chans s) with Some c0 => c0 | None => new_chan cfg end in
  nmem n (ch_members ch) = false -> nd n = domain cfg ->
  rt_of (router s) (nu n) <> [] ->
  InvP P cfg (index_add (nu n) cf (put_chan hd (insert_member ch n) s)).
Proof.
  intros (HC & HN & HL) Hp ch Hm Hd Hrt.
  apply nmem_false in Hm.
  pose proof (rt_nonempty_user _ _ _ _ HN Hrt) as Hu.
  split; [|split].
  - apply (ChanInv_join P cfg (chans s) (inch s) hd cf n ch); try assumption; try reflexivity.
    + intro k. rewrite index_add_chans. apply alookup_put_chan.
    + intro k. rewrite alookup_index_add. reflexivity.
  - exact HN.
  - apply (Linked_join P cfg (chans s) (router s) hd n ch); try assumption; try reflexivity.
    + assert (Hpre : ch_members ch = [] /\ ch_owner ch = None \/ chan_ok cfg ch).
      { subst ch. destruct (alookup hd (chans s)) as [c0|] eqn:E.
        - right. exact (ci_chan _ _ _ _ HC hd c0 E).
        - left. split; reflexivity. }
      exact (proj2 (chan_ok_new_member cfg ch n Hpre Hm Hd Hu)).
    + intro k. rewrite index_add_chans. apply alookup_put_chan.
Qed.

Lemma h_leave_inv P cfg h me m c :
  InvP P cfg (st c) -> InvP P cfg (st (fst (h_leave cfg h me m c))).
Proof.
  intro HI. unfold h_leave.
  destruct (chan_parse (get_str m "channel")) as [[hd dom]|] eqn:Hp; [|exact HI].
  assert (Hgen : forall ob, InvP P cfg (st (fst (leave_core cfg (Some h) (get_num m "id") me hd dom (get_str m "channel") ob c)))).
  { intro ob.
    destruct (leave_core_spec cfg (Some h) (get_num m "id") me hd dom (get_str m "channel") ob c)
      as [[-> _]|(ch & pick & Hl & Hch & Hm & Hpick & ->)]; [exact HI|].
    apply list_eqb_eq in Hl. subst dom.
    apply leave_st_inv; try assumption. apply nmem_In. exact Hm. }
  destruct (get_ostr m "on_behalf") as [s|]; [|apply Hgen].
  destruct (nid_parse s) as [n|]; [apply Hgen | exact HI].
Qed.

Lemma dispatch_auth_inv cfg h me m p c :
  Inv cfg (st c) -> nd me = domain cfg -> rt_of (router (st c)) (nu me) <> [] ->
  Inv cfg (st (fst (dispatch_auth cfg h me m p c))).
Proof.
  intros HI Hd Hrt. unfold dispatch_auth. cbv zeta.
  destruct (is_kind m "BROADCAST"); [rewrite h_broadcast_st; exact HI|].
  destruct (is_kind m "GET_CHAN_ACL"); [rewrite h_get_acl_st; exact HI|].
  destruct (is_kind m "GET_CHAN_CONFIG"); [rewrite h_get_config_st; exact HI|].
  destruct (is_kind m "JOIN").
  { pose proof (h_join_spec cfg h me m c) as Hs.
    destruct (snd (h_join cfg h me m c)); [rewrite Hs; exact HI|].
    destruct Hs as (hd & n & Hp & Hwho & Hm & ->).
    apply InvP_join; try assumption.
    - destruct Hwho as [->|(Hn & _)]; assumption.
    - destruct Hwho as [->|(_ & Hc & _)]; [exact Hrt|]. apply has_connection_rt. exact Hc. }
  destruct (is_kind m "LEAVE"); [apply h_leave_inv; exact HI|].
  destruct (is_kind m "CHANNELS"); [exact HI|].
  destruct (is_kind m "MEMBERS"); [rewrite h_members_st; exact HI|].
  destruct (is_kind m "MOD_DIRECT"); [rewrite h_mod_direct_st; exact HI|].
  destruct (is_kind m "SET_CHAN_ACL").
  { destruct (h_set_acl_spec cfg h me m c) as [->|(hd & ch & ty & a & Hch & ->)]; [exact HI|].
    apply (InvP_put_same _ cfg (st c) hd ch); try assumption; [reflexivity|].
    apply chan_ok_set_acl. destruct HI as (HC & _). exact (ci_chan _ _ _ _ HC hd ch Hch). }
  destruct (is_kind m "SET_CHAN_CONFIG").
  { destruct (h_set_config_spec cfg h me m c) as [->|(hd & ch & mc & mp & Hch & ->)]; [exact HI|].
    apply (InvP_put_same _ cfg (st c) hd ch); try assumption; [reflexivity|].
    apply chan_ok_set_config. destruct HI as (HC & _). exact (ci_chan _ _ _ _ HC hd ch Hch). }
  exact HI.
Qed.

(* ====================================================================== *)
(* Part D : connections and router                                         *)
(* ====================================================================== *)

Lemma ConnInv_set_unauth cfg r cs h cn' :
  ConnInv cfg r cs ->
  (forall cn, nlookup h cs = Some cn -> c_phase cn <> Authenticated) ->
  c_phase cn' <> Authenticated -> c_nid cn' = None ->
  ConnInv cfg r (nset h cn' cs).
Proof.
  intros [Hrt Hne Hcn] Hold Hph Hnid. constructor.
  - intros u h'. rewrite Hrt. split; intros (cn & Hl & Ha & Hn).
    + exists cn. split; [|split; assumption]. rewrite nlookup_nset.
      destruct (N.eqb_spec h' h) as [->|E]; [|exact Hl]. exfalso. exact (Hold cn Hl Ha).
    + rewrite nlookup_nset in Hl. destruct (N.eqb_spec h' h) as [->|E].
      * injection Hl as <-. contradiction.
      * exists cn. split; [exact Hl|split; assumption].
  - exact Hne.
  - intros h' cn. rewrite nlookup_nset. destruct (N.eqb_spec h' h) as [->|E]; [|apply Hcn].
    intro H; injection H as <-. split.
    + split; [intro; contradiction | intro K; congruence].
    + intros n K. congruence.
Qed.

Lemma InvP_set_unauth P cfg s h cn' :
  InvP P cfg s ->
  (forall cn, nlookup h (conns s) = Some cn -> c_phase cn <> Authenticated) ->
  c_phase cn' <> Authenticated -> c_nid cn' = None ->
  InvP P cfg (set_conns (nset h cn' (conns s)) s).
Proof.
  intros (HC & HN & HL) H1 H2 H3. split; [exact HC|]. split; [|exact HL].
  apply ConnInv_set_unauth; assumption.
Qed.

Lemma register_spec u h ex s s2 :
  register u h ex s = Some s2 ->
  chans s2 = chans s /\ inch s2 = inch s /\ conns s2 = conns s /\
  forall k, alookup k (router s2) = if list_eqb k u then Some (rt_of (router s) u ++ [h]) else alookup k (router s).
Proof.
  unfold register. destruct (ex && _); [discriminate|].
  intro H; injection H as <-. cbn [set_router chans inch conns router].
  repeat split. intro k. unfold rt_of.
  destruct (alookup u (router s)) as [hs|] eqn:E.
  - rewrite (alookup_map_upd k u (hs ++ [h]) _ (router s)) by (intro e; reflexivity).
    rewrite E. reflexivity.
  - rewrite alookup_app. cbn [alookup app].
    destruct (list_eqb_spec k u) as [->|E1].
    + rewrite E. reflexivity.
    + destruct (alookup k (router s)); reflexivity.
Qed.

Lemma ConnInv_register cfg r cs r' h cn n hb :
  ConnInv cfg r cs ->
  nlookup h cs = Some cn -> c_phase cn <> Authenticated ->
  nd n = domain cfg -> nu n <> [] ->
  (forall k, alookup k r' = if list_eqb k (nu n) then Some (rt_of r (nu n) ++ [h]) else alookup k r) ->
  ConnInv cfg r' (nset h {| c_phase := Authenticated; c_nid := Some n; c_hb := hb |} cs).
Proof.
  intros [Hrt Hne Hcn] Hl Hph Hd Hu Hr'.
  assert (Hrt' : forall u, rt_of r' u = if list_eqb u (nu n) then rt_of r (nu n) ++ [h] else rt_of r u).
  { intro u. unfold rt_of at 1. rewrite Hr'. destruct (list_eqb_spec u (nu n)) as [->|E]; reflexivity. }
  assert (Hnot : forall u, ~ In h (rt_of r u)).
  { intros u Hi. apply Hrt in Hi. destruct Hi as (cn0 & Hl0 & Ha & _). congruence. }
  constructor.
  - intros u h'. rewrite Hrt'. split.
    + intro Hi.
      assert (Hc : (u = nu n /\ h' = h) \/ In h' (rt_of r u)).
      { destruct (list_eqb_spec u (nu n)) as [->|E]; [|right; exact Hi].
        apply in_app_or in Hi. destruct Hi as [Hi|[<-|[]]]; [right; exact Hi | left; split; reflexivity]. }
      destruct Hc as [[-> ->]|Hi0].
      * eexists. split; [rewrite nlookup_nset, N.eqb_refl; reflexivity|]. cbn [c_phase c_nid].
        split; [reflexivity|]. rewrite (uid_local cfg n Hd). reflexivity.
      * assert (h' <> h) by (intros ->; exact (Hnot u Hi0)).
        apply Hrt in Hi0. destruct Hi0 as (cn0 & Hl0 & Ha & Hn0). exists cn0.
        split; [|split; assumption]. rewrite nlookup_nset.
        destruct (N.eqb_spec h' h); [contradiction | exact Hl0].
    + intros (cn0 & Hl0 & Ha & Hn0). rewrite nlookup_nset in Hl0.
      destruct (N.eqb_spec h' h) as [->|E].
      * injection Hl0 as <-. cbn [c_nid] in Hn0. injection Hn0 as Hn0.
        assert (u = nu n) as -> by (rewrite Hn0; reflexivity).
        rewrite list_eqb_refl. apply in_or_app. right. left. reflexivity.
      * assert (Hi : In h' (rt_of r u)) by (apply Hrt; exists cn0; auto).
        destruct (list_eqb_spec u (nu n)) as [->|E1]; [apply in_or_app; left; exact Hi | exact Hi].
  - intros u hs. rewrite Hr'. destruct (list_eqb_spec u (nu n)) as [->|E]; [|apply Hne].
    intro H; injection H as <-. split; [destruct (rt_of r (nu n)); discriminate|].
    apply NoDup_snoc; [|apply Hnot].
    unfold rt_of. destruct (alookup (nu n) r) as [hs|] eqn:E0; [exact (proj2 (Hne _ _ E0)) | constructor].
  - intros h' cn0. rewrite nlookup_nset. destruct (N.eqb_spec h' h) as [->|E]; [|apply Hcn].
    intro H; injection H as <-. cbn [c_phase c_nid]. split.
    + split; [discriminate | reflexivity].
    + intros n0 K. injection K as <-. split; assumption.
Qed.

Lemma InvP_register P cfg s s2 h cn n hb ex :
  InvP P cfg s ->
  nlookup h (conns s) = Some cn -> c_phase cn <> Authenticated ->
  nd n = domain cfg -> nu n <> [] ->
  register (nu n) h ex s = Some s2 ->
  InvP P cfg (set_conns (nset h {| c_phase := Authenticated; c_nid := Some n; c_hb := hb |} (conns s2)) s2).
Proof.
  intros (HC & HN & HL) Hl Hph Hd Hu Hreg.
  destruct (register_spec _ _ _ _ _ Hreg) as (E1 & E2 & E3 & Hr').
  unfold InvP. cbn [set_conns chans inch router conns]. rewrite E1, E2, E3.
  split; [exact HC|]. split.
  - apply (ConnInv_register cfg (router s) (conns s) (router s2) h cn n hb); assumption.
  - intros hd ch x Px Hch Hi. specialize (HL hd ch x Px Hch Hi).
    unfold rt_of. rewrite Hr'. destruct (list_eqb_spec (nu x) (nu n)) as [E|E]; [|exact HL].
    destruct (rt_of (router s) (nu n)); discriminate.
Qed.

(* removing a connection *)
Lemma ConnInv_drop_unauth cfg r cs h cn :
  ConnInv cfg r cs -> nlookup h cs = Some cn -> c_nid cn = None ->
  ConnInv cfg r (nremove h cs).
Proof.
  intros [Hrt Hne Hcn] Hl Hnid.
  assert (Hph : c_phase cn <> Authenticated).
  { intro K. apply (proj1 (Hcn h cn Hl)) in K. contradiction. }
  constructor.
  - intros u h'. rewrite Hrt. split; intros (cn0 & Hl0 & Ha & Hn).
    + exists cn0. split; [|split; assumption]. rewrite nlookup_nremove.
      destruct (N.eqb_spec h' h) as [->|E]; [|exact Hl0]. congruence.
    + rewrite nlookup_nremove in Hl0. destruct (h' =? h); [discriminate|].
      exists cn0. auto.
  - exact Hne.
  - intros h' cn0. rewrite nlookup_nremove. destruct (h' =? h); [discriminate | apply Hcn].
Qed.

Lemma ConnInv_drop_auth cfg r cs r' h cn me :
  ConnInv cfg r cs -> nlookup h cs = Some cn -> c_nid cn = Some me ->
  let hs' := filter (fun x => negb (x =? h)) (rt_of r (nu me)) in
  (forall k, alookup k r' = if list_eqb k (nu me) then (if isempty hs' then None else Some hs') else alookup k r) ->
  ConnInv cfg r' (nremove h cs).
Proof.
  intros [Hrt Hne Hcn] Hl Hnid hs' Hr'.
  destruct (Hcn h cn Hl) as [Hph Hloc]. destruct (Hloc me Hnid) as [Hd Hu].
  assert (Hrt' : forall u, rt_of r' u = if list_eqb u (nu me) then hs' else rt_of r u).
  { intro u. unfold rt_of at 1. rewrite Hr'. destruct (list_eqb_spec u (nu me)) as [->|E]; [|reflexivity].
    destruct (isempty hs') eqn:Ee; [|reflexivity]. apply isempty_true in Ee. symmetry; exact Ee. }
  assert (Hin' : forall x, In x hs' <-> x <> h /\ In x (rt_of r (nu me))).
  { intro x. unfold hs'. rewrite filter_In, negb_true_iff, N.eqb_neq. tauto. }
  constructor.
  - intros u h'. rewrite Hrt'. split.
    + intro Hi.
      assert (Hi0 : In h' (rt_of r u) /\ h' <> h).
      { destruct (list_eqb_spec u (nu me)) as [->|E].
        - apply Hin' in Hi. tauto.
        - split; [exact Hi|]. intros ->. apply Hrt in Hi. destruct Hi as (cn0 & Hl0 & _ & Hn0).
          rewrite Hl in Hl0. injection Hl0 as <-. rewrite Hnid in Hn0. injection Hn0 as Hn0.
          apply E. rewrite Hn0. reflexivity. }
      destruct Hi0 as [Hi0 Hneq]. apply Hrt in Hi0. destruct Hi0 as (cn0 & Hl0 & Ha & Hn0).
      exists cn0. split; [|auto]. rewrite nlookup_nremove.
      destruct (N.eqb_spec h' h); [contradiction | exact Hl0].
    + intros (cn0 & Hl0 & Ha & Hn0). rewrite nlookup_nremove in Hl0.
      destruct (N.eqb_spec h' h) as [->|E]; [discriminate|].
      assert (Hi : In h' (rt_of r u)) by (apply Hrt; exists cn0; auto).
      destruct (list_eqb_spec u (nu me)) as [->|E1]; [apply Hin'; auto | exact Hi].
  - intros u hs. rewrite Hr'. destruct (list_eqb_spec u (nu me)) as [->|E]; [|apply Hne].
    destruct (isempty hs') eqn:Ee; [discriminate|]. intro H; injection H as <-.
    split; [apply isempty_false; exact Ee|]. apply NoDup_filter.
    unfold rt_of. destruct (alookup (nu me) r) as [hs|] eqn:E0; [exact (proj2 (Hne _ _ E0)) | constructor].
  - intros h' cn0. rewrite nlookup_nremove. destruct (h' =? h); [discriminate | apply Hcn].
Qed.

(* ====================================================================== *)
(* Part F : leave_all, teardown                                            *)
(* ====================================================================== *)

(* loop invariant of leave_all: me is detached (no index entry, (e)/(g) suspended for me) and
   every channel me still belongs to is named by a pending channel id *)
Definition Detached (cfg : scfg) (me : nid) (s0 : state) (pending : list str) (s : state) : Prop :=
  InvP (fun u => u <> nu me) cfg s /\
  alookup (nu me) (inch s) = None /\
  router s = router s0 /\ conns s = conns s0 /\
  forall hd ch, alookup hd (chans s) = Some ch -> In me (ch_members ch) ->
                exists cf, In cf pending /\ chan_parse cf = Some (hd, domain cfg).

Definition leave_all_body (cfg : scfg) (me : nid) (acc : ctx) (cf : str) : ctx :=
  match chan_parse cf with
  | Some (hd, dom) => fst (leave_core cfg None 0 me hd dom cf None acc)
  | None => acc
  end.

Lemma leave_all_step cfg me s0 cf rest acc :
  Detached cfg me s0 (cf :: rest) (st acc) ->
  Detached cfg me s0 rest (st (leave_all_body cfg me acc cf)).
Proof.
  intros (HI & Hix & Hr & Hc & Hw). unfold leave_all_body.
  destruct (chan_parse cf) as [[hd dom]|] eqn:Hp.
  2:{ split; [exact HI|]. split; [exact Hix|]. split; [exact Hr|]. split; [exact Hc|].
      intros hd ch Hch Hi. destruct (Hw hd ch Hch Hi) as (cf' & [<-|Hin] & Hp'); [congruence|].
      exists cf'. split; assumption. }
  destruct (leave_core_spec cfg None 0 me hd dom cf None acc)
    as [[-> Hwhy]|(ch & pick & Hl & Hch & Hm & Hpick & ->)].
  - split; [exact HI|]. split; [exact Hix|]. split; [exact Hr|]. split; [exact Hc|].
    intros hd' ch' Hch' Hi. destruct (Hw hd' ch' Hch' Hi) as (cf' & [<-|Hin] & Hp'); [|exists cf'; split; assumption].
    exfalso. rewrite Hp in Hp'. injection Hp' as -> ->.
    destruct Hwhy as [Hl|[Hn|(ch0 & Hch0 & [[K _]|Hm])]].
    + rewrite list_eqb_refl in Hl. discriminate.
    + congruence.
    + apply K; reflexivity.
    + rewrite Hch' in Hch0. injection Hch0 as <-. apply nmem_false in Hm. contradiction.
  - apply list_eqb_eq in Hl. subst dom. apply nmem_In in Hm.
    split; [apply leave_st_inv; assumption|].
    split; [rewrite leave_st_inch, list_eqb_refl, Hix; reflexivity|].
    split; [rewrite leave_st_router; exact Hr|].
    split; [rewrite leave_st_conns; exact Hc|].
    intros hd' ch' Hch' Hi. rewrite leave_st_chans in Hch'.
    destruct (list_eqb_spec hd' hd) as [->|E].
    + exfalso. destruct (isempty _); [discriminate|]. injection Hch' as <-.
      rewrite left_chan_members in Hi. apply In_ndel in Hi. destruct Hi as [K _]. apply K; reflexivity.
    + destruct (Hw hd' ch' Hch' Hi) as (cf' & [<-|Hin] & Hp'); [congruence|].
      exists cf'. split; assumption.
Qed.

Lemma leave_all_loop cfg me s0 cfs : forall acc,
  Detached cfg me s0 cfs (st acc) ->
  Detached cfg me s0 [] (st (fold_left (leave_all_body cfg me) cfs acc)).
Proof.
  induction cfs as [|cf rest IH]; intros acc HD; cbn [fold_left]; [exact HD|].
  apply IH. apply leave_all_step. exact HD.
Qed.

Lemma leave_all_spec cfg me c :
  InvP (fun u => u <> nu me) cfg (st c) ->
  (forall hd ch, alookup hd (chans (st c)) = Some ch -> In me (ch_members ch) ->
                 exists cf, In cf (idx_of (inch (st c)) (nu me)) /\ chan_parse cf = Some (hd, domain cfg)) ->
  Detached cfg me (st c) [] (st (leave_all cfg me c)).
Proof.
  intros HI Hw. unfold leave_all.
  destruct (alookup (nu me) (inch (st c))) as [cfs|] eqn:E.
  - change (fold_left _ cfs ?a) with (fold_left (leave_all_body cfg me) cfs a).
    apply leave_all_loop. unfold set_inch. cbn [st with_st chans inch router conns].
    destruct HI as (HC & HN & HL).
    split; [|split; [|split; [reflexivity|split; [reflexivity|]]]].
    + split; [|split; assumption]. cbn [chans inch].
      destruct HC as [Hc Hf Hb Hn]. 
      assert (Hidx : forall u, u <> nu me -> idx_of (aremove (nu me) (inch (st c))) u = idx_of (inch (st c)) u).
      { intros u Hu. unfold idx_of. rewrite alookup_aremove. apply list_eqb_false in Hu. rewrite Hu. reflexivity. }
      constructor.
      * exact Hc.
      * intros u cf Pu. rewrite (Hidx u Pu). apply Hf. exact Pu.
      * intros u hd ch Pu. rewrite (Hidx u Pu). apply Hb. exact Pu.
      * intros u l. rewrite alookup_aremove. destruct (list_eqb u (nu me)); [discriminate | apply Hn].
    + cbn [inch]. rewrite alookup_aremove, list_eqb_refl. reflexivity.
    + cbn [chans]. intros hd ch Hch Hi. specialize (Hw hd ch Hch Hi). unfold idx_of in Hw. rewrite E in Hw. exact Hw.
  - split; [exact HI|]. split; [exact E|]. split; [reflexivity|]. split; [reflexivity|].
    intros hd ch Hch Hi. specialize (Hw hd ch Hch Hi). unfold idx_of in Hw. rewrite E in Hw. exact Hw.
Qed.

(* once me belongs to no channel, the suspended clauses hold again *)
Lemma reattach cfg me s s0 :
  nd me = domain cfg -> Detached cfg me s0 [] s -> Inv cfg s.
Proof.
  intros Hd ((HC & HN & HL) & Hix & _ & _ & Hw).
  assert (Hno : forall hd ch, alookup hd (chans s) = Some ch -> ~ In me (ch_members ch)).
  { intros hd ch Hch Hi. destruct (Hw hd ch Hch Hi) as (cf & [] & _). }
  destruct HC as [Hc Hf Hb Hn].
  split; [|split; [exact HN|]].
  - constructor.
    + exact Hc.
    + intros u cf _. destruct (list_eqb_spec u (nu me)) as [->|E]; [|apply Hf; exact E].
      unfold idx_of. rewrite Hix. intros [].
    + intros u hd ch _ Hch Hi. destruct (list_eqb_spec u (nu me)) as [->|E]; [|apply (Hb u hd ch E Hch Hi)].
      exfalso. rewrite (uid_local cfg me Hd) in Hi. exact (Hno hd ch Hch Hi).
    + exact Hn.
  - intros hd ch n _ Hch Hi. destruct (list_eqb_spec (nu n) (nu me)) as [E|E]; [|apply (HL hd ch n E Hch Hi)].
    exfalso. destruct (co_local _ _ (Hc hd ch Hch) n Hi) as [Hdn _].
    assert (n = me).
    { rewrite (nid_eta n), (nid_eta me), E, Hdn, Hd. reflexivity. }
    subst n. exact (Hno hd ch Hch Hi).
Qed.

Lemma ChanInv_weaken (P P' : str -> Prop) cfg cs ix :
  (forall u, P' u -> P u) -> ChanInv P cfg cs ix -> ChanInv P' cfg cs ix.
Proof.
  intros HP [Hc Hf Hb Hn]. constructor.
  - exact Hc.
  - intros u cf Pu. apply Hf, HP, Pu.
  - intros u hd ch Pu. apply Hb, HP, Pu.
  - exact Hn.
Qed.

Lemma member_witness cfg cs ix me :
  ChanInv (fun _ => True) cfg cs ix -> nd me = domain cfg ->
  forall hd ch, alookup hd cs = Some ch -> In me (ch_members ch) ->
    exists cf, In cf (idx_of ix (nu me)) /\ chan_parse cf = Some (hd, domain cfg).
Proof.
  intros [Hc Hf Hb Hn] Hd hd ch Hch Hi.
  rewrite <- (uid_local cfg me Hd) in Hi.
  pose proof (Hb (nu me) hd ch I Hch Hi) as Hin.
  exists (chan_full hd (domain cfg)). split; [exact Hin|].
  destruct (Hf (nu me) _ I Hin) as (hd' & ch' & Hp & _ & _).
  pose proof (chan_parse_full _ _ _ Hp) as K. apply chan_full_inj in K. subst hd'. exact Hp.
Qed.

Lemma teardown_spec cfg h c :
  Inv cfg (st c) ->
  Inv cfg (st (teardown cfg h c)) /\
  (forall cn n, nlookup h (conns (st c)) = Some cn -> c_nid cn = Some n ->
     filter (fun x => negb (x =? h)) (rt_of (router (st c)) (nu n)) = [] ->
     let s' := st (teardown cfg h c) in
     alookup (nu n) (inch s') = None /\ alookup (nu n) (router s') = None /\
     forall hd ch, alookup hd (chans s') = Some ch -> ~ In n (ch_members ch)).
Proof.
  intro HI. pose proof HI as (HC & HN & HL). unfold teardown.
  destruct (nlookup h (conns (st c))) as [cn|] eqn:Hl; [|split; [exact HI | intros; discriminate]].
  destruct (c_nid cn) as [me|] eqn:Hnid.
  2:{ cbn [st with_st]. split; [|intros ? ? H K; injection H as <-; congruence].
      split; [exact HC|]. split; [|exact HL].
      apply (ConnInv_drop_unauth cfg _ _ h cn); assumption. }
  cbn [st with_st set_conns router].
  destruct (cn_conn _ _ _ HN h cn Hl) as [Hph Hloc]. destruct (Hloc me Hnid) as [Hd Hu].
  assert (Hin : In h (rt_of (router (st c)) (nu me))).
  { apply (cn_rt _ _ _ HN). exists cn. split; [exact Hl|]. split.
    - apply Hph. congruence.
    - rewrite (uid_local cfg me Hd). exact Hnid. }
  assert (Hrt : rt_of (router (st c)) (nu me) =
                match alookup (nu me) (router (st c)) with Some hs => hs | None => [] end) by reflexivity.
  destruct (alookup (nu me) (router (st c))) as [hs|] eqn:Er; [|rewrite Hrt in Hin; destruct Hin].
  set (hs' := filter (fun x => negb (x =? h)) hs).
  destruct (isempty hs') eqn:Ee.
  - (* last connection of me *)
    match goal with |- context [leave_all _ _ ?x] => set (c1 := x) end.
    assert (HD : Detached cfg me (st c1) [] (st (leave_all cfg me c1))).
    { apply leave_all_spec.
      - subst c1. unfold InvP, set_router, set_conns; cbn [st with_st chans inch router conns].
        split; [apply (ChanInv_weaken (fun _ => True)); [trivial | exact HC]|]. split.
        + apply (ConnInv_drop_auth cfg (router (st c)) (conns (st c)) _ h cn me); try assumption.
          intro k. rewrite Hrt. fold hs'. rewrite Ee. apply alookup_aremove.
        + intros hd ch n Pn Hch Hi. unfold rt_of. rewrite alookup_aremove.
          apply list_eqb_false in Pn. rewrite Pn. exact (HL hd ch n I Hch Hi).
      - subst c1. unfold set_router, set_conns; cbn [st with_st chans inch router conns].
        apply member_witness; assumption. }
    split; [exact (reattach cfg me _ _ Hd HD)|].
    intros cn0 n H K _. injection H as <-. rewrite Hnid in K. injection K as <-.
    destruct HD as (_ & Hix & Hr & _ & Hw). cbv zeta. split; [exact Hix|]. split.
    + rewrite Hr. subst c1. unfold set_router, set_conns; cbn [st with_st router]. rewrite alookup_aremove, list_eqb_refl. reflexivity.
    + intros hd ch Hch Hi. destruct (Hw hd ch Hch Hi) as (cf & [] & _).
  - (* me keeps another connection *)
    unfold set_router, set_conns; cbn [st with_st chans inch router conns]. split.
    + split; [exact HC|]. cbn [chans inch router conns]. 
      assert (Hr' : forall k, alookup k (map (fun e : str * list N => if list_eqb (fst e) (nu me) then (fst e, hs') else e) (router (st c))) =
                             if list_eqb k (nu me) then Some hs' else alookup k (router (st c))).
      { intro k. rewrite (alookup_map_upd k (nu me) hs').
        - rewrite Er. reflexivity.
        - intros [k0 v0]. cbn [fst]. destruct (list_eqb_spec k0 (nu me)) as [->|E]; reflexivity. }
      split.
      * apply (ConnInv_drop_auth cfg (router (st c)) (conns (st c)) _ h cn me); try assumption.
        intro k. rewrite Hrt. fold hs'. rewrite Ee. apply Hr'.
      * intros hd ch n _ Hch Hi. unfold rt_of. rewrite Hr'.
        destruct (list_eqb_spec (nu n) (nu me)) as [E|E]; [apply isempty_false; exact Ee|].
        exact (HL hd ch n I Hch Hi).
    + intros cn0 n H K Hf. exfalso. injection H as <-. rewrite Hnid in K. injection K as <-.
      rewrite Hrt in Hf. fold hs' in Hf. rewrite Hf in Ee. discriminate.
Qed.

(* ====================================================================== *)
(* Part G : frames, closes, steps                                          *)
(* ====================================================================== *)

Lemma set_conn_st h cn c : st (set_conn h cn c) = set_conns (nset h cn (conns (st c))) (st c).
Proof. reflexivity. Qed.

Lemma on_frame_inv cfg h m p c : Inv cfg (st c) -> Inv cfg (st (on_frame cfg h m p c)).
Proof.
  intro HI. unfold on_frame.
  destruct (nlookup h (conns (st c))) as [cn|] eqn:Hl; [|exact HI].
  destruct (existsb _ _); [exact HI|].
  assert (Hold : c_phase cn <> Authenticated ->
                 forall cn0, nlookup h (conns (st c)) = Some cn0 -> c_phase cn0 <> Authenticated).
  { intros K cn0 H. rewrite Hl in H. injection H as <-. exact K. }
  destruct (c_phase cn) eqn:Hph.
  - (* Connecting *)
    destruct (is_kind m "CONNECT"); [|rewrite notify_error_st; exact HI].
    destruct (negb _); [rewrite notify_error_st; exact HI|].
    cbv zeta. rewrite set_conn_st, emit_st.
    apply InvP_set_unauth; [exact HI | apply Hold; discriminate | discriminate | reflexivity].
  - (* Connected *)
    destruct (is_kind m "AUTH").
    { destruct (negb (auth_required cfg)); [rewrite notify_error_st; exact HI|].
      cbv zeta. destruct (next_outcome _) as [o c1] eqn:En. apply next_outcome_st' in En. rewrite emit_st in En.
      destruct o; rewrite ?notify_error_st, ?emit_st, ?En; try exact HI.
      destruct (make_local_nid (domain cfg) u) as [n|] eqn:Hn. 2:{ rewrite notify_error_st, En; exact HI. }
      apply make_local_nid_spec in Hn. destruct Hn as (Hd & Hu & Hne).
      destruct (register (nu n) h false (st c)) as [s2|] eqn:Hreg; [|rewrite En; exact HI].
      rewrite set_conn_st, emit_st, with_st_st.
      apply (InvP_register _ cfg (st c) s2 h cn n (c_hb cn) false); try assumption; congruence. }
    destruct (is_kind m "IDENTIFY"); [|rewrite notify_error_st; exact HI].
    destruct (auth_required cfg); [rewrite notify_error_st; exact HI|].
    destruct (make_local_nid (domain cfg) (trim (get_str m "username"))) as [n|] eqn:Hn;
      [|rewrite notify_error_st; exact HI].
    apply make_local_nid_spec in Hn. destruct Hn as (Hd & Hu & Hne).
    destruct (register (nu n) h true (st c)) as [s2|] eqn:Hreg; [|rewrite notify_error_st; exact HI].
    rewrite set_conn_st, emit_st, with_st_st.
    apply (InvP_register _ cfg (st c) s2 h cn n (c_hb cn) true); try assumption; congruence.
  - (* Authenticated *)
    destruct (is_kind m "PONG"); [exact HI|].
    destruct (max_inflight cfg =? 0); [rewrite drop_conn_st; exact HI|].
    destruct (c_nid cn) as [me|] eqn:Hnid; [|exact HI].
    destruct (dispatch_auth cfg h me m p c) as [c1 r] eqn:Ed.
    assert (HI1 : Inv cfg (st c1)).
    { pose proof HI as (_ & HN & _).
      destruct (cn_conn _ _ _ HN h cn Hl) as [_ Hloc]. destruct (Hloc me Hnid) as [Hd Hu].
      pose proof (dispatch_auth_inv cfg h me m p c HI Hd) as K. rewrite Ed in K. apply K.
      apply nonempty_In. exists h. apply (cn_rt _ _ _ HN). exists cn.
      split; [exact Hl|]. split; [exact Hph|]. rewrite (uid_local cfg me Hd). exact Hnid. }
    destruct r; [rewrite notify_error_st|]; exact HI1.
Qed.

Lemma on_item_inv cfg h it c : Inv cfg (st c) -> Inv cfg (st (on_item cfg h it c)).
Proof.
  intro HI. destruct it; cbn [on_item]; rewrite ?request_close_st, ?drop_conn_st; try exact HI.
  apply on_frame_inv. exact HI.
Qed.

Lemma teardown_inv cfg h c : Inv cfg (st c) -> Inv cfg (st (teardown cfg h c)).
Proof. intro HI. exact (proj1 (teardown_spec cfg h c HI)). Qed.

Lemma flush_closes_inv cfg c : Inv cfg (st c) -> Inv cfg (st (flush_closes cfg c)).
Proof.
  intro HI. unfold flush_closes. cbn [st].
  apply (fold_left_ind (fun a => Inv cfg (st a))); [|exact HI].
  intros a x Ha. apply teardown_inv. exact Ha.
Qed.

(* The only op that can break the invariant: re-opening a handler whose connection is
   currently authenticated (the model overwrites the connection record but leaves the
   router entry behind).  [op_ok] excludes exactly that. *)
Definition op_ok (cfg : scfg) (s : state) (o : op) : Prop :=
  match o with
  | Open h => (max_conns cfg <=? N.of_nat (length (conns s))) = true \/
              forall cn, nlookup h (conns s) = Some cn -> c_phase cn <> Authenticated
  | _ => True
  end.

Theorem inv_init : forall cfg, Inv cfg init.
Proof.
  intro cfg. split; [|split].
  - constructor; cbn; intros; try discriminate; try contradiction.
  - constructor.
    + intros u h. cbn. split; [intros [] | intros (cn & H & _); discriminate].
    + cbn; intros; discriminate.
    + cbn; intros; discriminate.
  - intros hd ch n _ H. discriminate.
Qed.

Theorem inv_step : forall cfg s o, Inv cfg s -> op_ok cfg s o -> Inv cfg (fst (step cfg s o)).
Proof.
  intros cfg s o HI Hok. destruct o as [h|h m p sc hi|h|h bytes sc hi|h sc hi|ts pl]; cbn [step].
  - destruct (max_conns cfg <=? N.of_nat (length (conns s))) eqn:E; cbn [fst]; [exact HI|].
    cbn [op_ok] in Hok. destruct Hok as [K|K]; [congruence|].
    apply InvP_set_unauth; [exact HI | exact K | discriminate | reflexivity].
  - cbn [fst]. apply flush_closes_inv, on_frame_inv. exact HI.
  - cbn [fst]. destruct (nlookup h (conns s)); [|exact HI].
    apply flush_closes_inv. rewrite request_close_st. exact HI.
  - cbn [fst]. destruct (nlookup h (conns s)); [|exact HI].
    apply flush_closes_inv.
    apply (fold_left_ind (fun a => Inv cfg (st a))); [|exact HI].
    intros a x Ha. apply on_item_inv. exact Ha.
  - cbn [fst]. apply teardown_inv. exact HI.
  - exact HI.
Qed.

Fixpoint ops_ok (cfg : scfg) (s : state) (ops : list op) : Prop :=
  match ops with
  | [] => True
  | o :: r => op_ok cfg s o /\ ops_ok cfg (fst (step cfg s o)) r
  end.

Theorem inv_run : forall cfg ops s, Inv cfg s -> ops_ok cfg s ops -> Inv cfg (run_state cfg s ops).
Proof.
  intros cfg ops. induction ops as [|o r IH]; intros s HI Hok; cbn [run_state]; [exact HI|].
  destruct Hok as [H1 H2]. apply IH; [|exact H2]. apply inv_step; assumption.
Qed.

Theorem inv_reachable : forall cfg ops, ops_ok cfg init ops -> Inv cfg (run_state cfg init ops).
Proof. intros cfg ops H. apply inv_run; [apply inv_init | exact H]. Qed.
