(* GROUP D -- resource limits of the server model (Model/Server.v):
     D1  C14_connections     : the connection table never exceeds max_conns; every way a connection
                               ends removes its entry
     D2  C14_subscriptions   : the per-user channel index is bounded by max_subs (exactly: the gate
                               of JOIN also applies to a user's first subscription)
     D3  C14_channel_capacity_at_admission, C14_payload, ChanCaps
     D4  C14_acl_entries
   Every invariant is stated as a one-step preservation lemma plus the reachable corollary. *)
From NW Require Import Base.Bytes Model.SchemaTypes Model.Codec Model.MsgInfo Model.Ids Model.Framing Model.Server Gen.Schema Gen.Errors.
From NW Require Import Proofs.ServerInvBase Proofs.ServerInv Proofs.ServerUniq Proofs.ServerInvCor.
(* not imported (name clashes with ServerInvBase): used qualified *)
From NW Require Proofs.ServerLib Proofs.ServerRoute Proofs.ServerHandlers Proofs.ServerSteps Proofs.ServerPhases.

(* ====================================================================== *)
(* generic run lemma                                                       *)
(* ====================================================================== *)
Lemma run_state_ind (P : state -> Prop) cfg :
  (forall s o, P s -> P (fst (step cfg s o))) ->
  forall ops s, P s -> P (run_state cfg s ops).
Proof.
  intros Hstep ops. induction ops as [|o r IH]; intros s H; cbn [run_state]; [exact H|].
  apply IH, Hstep, H.
Qed.

(* the same, for invariants that need Inv (and hence op_ok) *)
Lemma run_state_ind_inv (P : state -> Prop) cfg :
  (forall s o, Inv cfg s -> op_ok cfg s o -> P s -> P (fst (step cfg s o))) ->
  forall ops s, Inv cfg s -> ops_ok cfg s ops -> P s -> P (run_state cfg s ops).
Proof.
  intros Hstep ops. induction ops as [|o r IH]; intros s HI Hok H; cbn [run_state]; [exact H|].
  destruct Hok as [H1 H2]. apply IH; [apply inv_step; assumption | exact H2 | apply Hstep; assumption].
Qed.

(* ====================================================================== *)
(* D1 : connections                                                        *)
(* ====================================================================== *)
Lemma nremove_length {A} h (l : list (N * A)) : (length (nremove h l) <= length l)%nat.
Proof.
  unfold nremove. induction l as [|[k v] l IH]; cbn [filter fst length]; [lia|].
  destruct (h =? k); cbn [negb length]; lia.
Qed.

Lemma nset_length {A} h (v : A) l : (length (nset h v l) <= S (length l))%nat.
Proof. unfold nset. cbn [length]. pose proof (nremove_length h l). lia. Qed.

(* overwriting an EXISTING key never lengthens the table (no key-uniqueness needed:
   the filter removes at least the entry that the look-up found) *)
Lemma nset_existing_length {A} h (v v' : A) l :
  nlookup h l = Some v -> (length (nset h v' l) <= length l)%nat.
Proof.
  unfold nset. cbn [length].
  induction l as [|[k w] l IH]; cbn [nlookup]; [discriminate|].
  unfold nremove in *. cbn [filter fst].
  destruct (h =? k) eqn:E; cbn [negb length].
  - intros _. pose proof (nremove_length h l) as K. unfold nremove in K. lia.
  - intro H. specialize (IH H). lia.
Qed.

Lemma on_frame_conns_len cfg h m p c :
  (length (conns (st (on_frame cfg h m p c))) <= length (conns (st c)))%nat.
Proof.
  unfold on_frame.
  destruct (nlookup h (conns (st c))) as [cn|] eqn:Hl; [|lia].
  destruct (existsb _ _); [lia|].
  assert (Hset : forall cn' s2, conns s2 = conns (st c) ->
            (length (conns (set_conns (nset h cn' (conns s2)) s2)) <= length (conns (st c)))%nat).
  { intros cn' s2 E. cbn [set_conns conns]. rewrite E. exact (nset_existing_length h cn cn' _ Hl). }
  destruct (c_phase cn).
  - destruct (is_kind m "CONNECT"); [|rewrite notify_error_st; lia].
    destruct (negb _); [rewrite notify_error_st; lia|].
    cbv zeta. rewrite set_conn_st, emit_st. apply Hset; reflexivity.
  - destruct (is_kind m "AUTH").
    { destruct (negb (auth_required cfg)); [rewrite notify_error_st; lia|].
      cbv zeta. destruct (next_outcome _) as [o c1] eqn:En. apply next_outcome_st' in En. rewrite emit_st in En.
      destruct o; rewrite ?notify_error_st, ?emit_st, ?En; try lia.
      destruct (make_local_nid (domain cfg) u) as [n|]; [|rewrite notify_error_st, En; lia].
      destruct (register (nu n) h false (st c)) as [s2|] eqn:Hreg; [|rewrite En; lia].
      rewrite set_conn_st, emit_st, with_st_st. apply Hset.
      exact (proj1 (proj2 (proj2 (register_spec _ _ _ _ _ Hreg)))). }
    destruct (is_kind m "IDENTIFY"); [|rewrite notify_error_st; lia].
    destruct (auth_required cfg); [rewrite notify_error_st; lia|].
    destruct (make_local_nid (domain cfg) (trim (get_str m "username"))) as [n|];
      [|rewrite notify_error_st; lia].
    destruct (register (nu n) h true (st c)) as [s2|] eqn:Hreg; [|rewrite notify_error_st; lia].
    rewrite set_conn_st, emit_st, with_st_st. apply Hset.
    exact (proj1 (proj2 (proj2 (register_spec _ _ _ _ _ Hreg)))).
  - destruct (is_kind m "PONG"); [lia|].
    destruct (max_inflight cfg =? 0); [rewrite drop_conn_st; lia|].
    destruct (c_nid cn) as [me|]; [|lia].
    pose proof (ServerPhases.dispatch_auth_conns cfg h me m p c) as K.
    destruct (dispatch_auth cfg h me m p c) as [c1 r]. cbn [fst] in K.
    destruct r; [rewrite notify_error_st|]; rewrite K; lia.
Qed.

Lemma on_item_conns_len cfg h it c :
  (length (conns (st (on_item cfg h it c))) <= length (conns (st c)))%nat.
Proof.
  destruct it; cbn [on_item]; rewrite ?request_close_st, ?drop_conn_st; try lia.
  apply on_frame_conns_len.
Qed.

(* what teardown does to the connection table *)
Lemma teardown_conns cfg h c :
  conns (st (teardown cfg h c)) =
    match nlookup h (conns (st c)) with Some _ => nremove h (conns (st c)) | None => conns (st c) end.
Proof.
  unfold teardown. destruct (nlookup h (conns (st c))) as [cn|]; [|reflexivity].
  destruct (c_nid cn) as [me|]; [|reflexivity].
  cbn [with_st st set_conns router].
  destruct (alookup (nu me) (router (st c))) as [hs|]; [|reflexivity].
  destruct (isempty (filter (fun x => negb (x =? h)) hs)); [|reflexivity].
  rewrite ServerPhases.leave_all_conns. reflexivity.
Qed.

Lemma teardown_nlookup cfg h c k :
  nlookup k (conns (st (teardown cfg h c))) = if k =? h then None else nlookup k (conns (st c)).
Proof.
  rewrite teardown_conns. destruct (nlookup h (conns (st c))) as [cn|] eqn:E.
  - apply ServerInvBase.nlookup_nremove.
  - destruct (N.eqb_spec k h) as [->|Hne]; [exact E | reflexivity].
Qed.

Lemma teardown_conns_len cfg h c :
  (length (conns (st (teardown cfg h c))) <= length (conns (st c)))%nat.
Proof.
  rewrite teardown_conns. destruct (nlookup h (conns (st c))); [apply nremove_length | lia].
Qed.

Lemma flush_closes_conns_len cfg c :
  (length (conns (st (flush_closes cfg c))) <= length (conns (st c)))%nat.
Proof.
  unfold flush_closes. cbn [st].
  apply (fold_left_ind (fun a => (length (conns (st a)) <= length (conns (st c)))%nat)); [|lia].
  intros a x Ha. pose proof (teardown_conns_len cfg x a). lia.
Qed.

(* every op other than Open never lengthens the connection table *)
Lemma step_conns_len cfg s o :
  (forall h, o <> Open h) ->
  (length (conns (fst (step cfg s o))) <= length (conns s))%nat.
Proof.
  intro Hno. destruct o as [h|h m p sc hi|h|h bytes sc hi|h sc hi|ts pl]; cbn [step fst].
  - exfalso. exact (Hno h eq_refl).
  - match goal with |- context [on_frame cfg h m p ?c0] => set (c := c0) end.
    pose proof (flush_closes_conns_len cfg (on_frame cfg h m p c)).
    pose proof (on_frame_conns_len cfg h m p c). cbn [st c] in *. lia.
  - destruct (nlookup h (conns s)); [|cbn [st]; lia].
    match goal with |- context [flush_closes cfg ?c0] => pose proof (flush_closes_conns_len cfg c0) as K end.
    rewrite request_close_st in K. cbn [st] in K. exact K.
  - destruct (nlookup h (conns s)); [|cbn [st]; lia].
    match goal with |- context [flush_closes cfg ?c0] => pose proof (flush_closes_conns_len cfg c0) as K end.
    assert (K2 : forall items c9, (length (conns (st (fold_left (fun acc it => on_item cfg h it acc) items c9)))
                                  <= length (conns (st c9)))%nat).
    { intros items c9. apply (fold_left_ind (fun a => (length (conns (st a)) <= length (conns (st c9)))%nat)); [|lia].
      intros a it Ha. pose proof (on_item_conns_len cfg h it a). lia. }
    match type of K with context [fold_left _ ?items ?c0] => specialize (K2 items c0) end.
    cbn [st] in K2. lia.
  - match goal with |- context [teardown cfg h ?c0] => pose proof (teardown_conns_len cfg h c0) as K end.
    cbn [st] in K. exact K.
  - lia.
Qed.

Definition ConnLimit (cfg : scfg) (s : state) : Prop := N.of_nat (length (conns s)) <= max_conns cfg.

Theorem C14_connections_step : forall cfg s o,
  ConnLimit cfg s -> ConnLimit cfg (fst (step cfg s o)).
Proof.
  intros cfg s o H. unfold ConnLimit in *.
  destruct o as [h|h m p sc hi|h|h bytes sc hi|h sc hi|ts pl].
  1:{ cbn [step]. destruct (max_conns cfg <=? N.of_nat (length (conns s))) eqn:E; cbn [fst]; [exact H|].
      apply N.leb_gt in E. cbn [set_conns conns].
      pose proof (nset_length h {| c_phase := Connecting; c_nid := None; c_hb := 0 |} (conns s)). lia. }
  all: match goal with |- context [step ?cf ?s0 ?o] =>
         assert (K : (length (conns (fst (step cf s0 o))) <= length (conns s0))%nat)
           by (apply step_conns_len; intros h0; discriminate) end; lia.
Qed.

Theorem C14_connections_run : forall cfg ops s,
  ConnLimit cfg s -> ConnLimit cfg (run_state cfg s ops).
Proof. intros cfg ops. apply run_state_ind. intros s o. apply C14_connections_step. Qed.

(* holds for ALL op sequences (no op_ok side condition needed) *)
Theorem C14_connections : forall cfg ops,
  N.of_nat (length (conns (run_state cfg init ops))) <= max_conns cfg.
Proof. intros cfg ops. apply C14_connections_run. unfold ConnLimit. cbn [init conns length]. lia. Qed.

Corollary C14_connections_nat : forall cfg ops,
  (length (conns (run_state cfg init ops)) <= N.to_nat (max_conns cfg))%nat.
Proof. intros cfg ops. pose proof (C14_connections cfg ops). lia. Qed.

(* the refusal *)
Theorem C14_open_refused : forall cfg s h,
  max_conns cfg <= N.of_nat (length (conns s)) ->
  step cfg s (Open h) = (s, [OOverloaded h]).
Proof. intros cfg s h H. cbn [step]. apply N.leb_le in H. rewrite H. reflexivity. Qed.

Theorem C14_open_accepted : forall cfg s h,
  N.of_nat (length (conns s)) < max_conns cfg ->
  snd (step cfg s (Open h)) = [] /\
  nlookup h (conns (fst (step cfg s (Open h)))) = Some {| c_phase := Connecting; c_nid := None; c_hb := 0 |}.
Proof.
  intros cfg s h H. cbn [step]. apply N.leb_gt in H. rewrite H. cbn [fst snd set_conns conns].
  split; [reflexivity|]. rewrite ServerInvBase.nlookup_nset, N.eqb_refl. reflexivity.
Qed.

(* ====================================================================== *)
(* the JOIN specification WITH its admission gates                         *)
(* ====================================================================== *)
Lemma h_join_gates cfg h me m c :
  match snd (h_join cfg h me m c) with
  | Some _ => st (fst (h_join cfg h me m c)) = st c
  | None =>
      exists hd n, chan_parse (get_str m "channel") = Some (hd, domain cfg) /\
        let ch := match alookup hd (chans (st c)) with Some c0 => c0 | None => new_chan cfg end in
        (n = me \/ (nd n = domain cfg /\ has_connection (st c) (nu n) = true /\ is_owner ch me = true)) /\
        acl_allowed (ch_join ch) n = true /\
        nmem n (ch_members ch) = false /\
        (ch_max_clients ch <=? N.of_nat (length (ch_members ch))) = false /\
        (max_subs cfg <=? N.of_nat (length (match alookup (nu n) (inch (st c)) with Some l => l | None => [] end))) = false /\
        st (fst (h_join cfg h me m c)) =
          index_add (nu n) (get_str m "channel") (put_chan hd (insert_member ch n) (st c))
  end.
Proof.
  unfold h_join, local.
  destruct (chan_parse (get_str m "channel")) as [[hd dom]|] eqn:Hp; [|reflexivity].
  set (ch := match alookup hd (chans (st c)) with Some c0 => c0 | None => new_chan cfg end).
  destruct (match get_ostr m "on_behalf" with
            | Some s => match nid_parse s with Some n => Some (Some n) | None => None end
            | None => Some None end) as [ob|]; [|reflexivity].
  destruct (list_eqb_spec dom (domain cfg)) as [->|Hd]; cbn [negb]; [|reflexivity].
  destruct (_ && (max_channels cfg <=? _)); [reflexivity|].
  set (who := match ob with Some n => _ | None => _ end).
  assert (Hwho : (exists e, who = inl e) \/
                 (exists n, who = inr n /\
                    (n = me \/ (nd n = domain cfg /\ has_connection (st c) (nu n) = true /\ is_owner ch me = true)))).
  { subst who. destruct ob as [n|]; [|right; exists me; split; [reflexivity | left; reflexivity]].
    destruct (is_owner ch me) eqn:Ho; cbn [negb]; [|left; eexists; reflexivity].
    destruct (list_eqb_spec (nd n) (domain cfg)) as [Hn|Hn]; cbn [negb orb]; [|left; eexists; reflexivity].
    destruct (has_connection (st c) (nu n)) eqn:Hc; cbn [negb]; [|left; eexists; reflexivity].
    right. exists n. split; [reflexivity|]. right. repeat split; assumption. }
  clearbody who.
  destruct Hwho as [[e ->]|(n & -> & Hn)]; [reflexivity|].
  destruct (acl_allowed (ch_join ch) n) eqn:Hacl; cbn [negb]; [|reflexivity].
  destruct (nmem n (ch_members ch)) eqn:Hm; [reflexivity|].
  destruct (ch_max_clients ch <=? _) eqn:Hcap; [reflexivity|].
  destruct (max_subs cfg <=? N.of_nat (length (match alookup (nu n) (inch (st c)) with Some l => l | None => [] end)))
    eqn:Hsub; [reflexivity|].
  destruct (notify cfg "MEMBER_JOINED" _ _ _ _ _ _) as [okn c1] eqn:En. apply notify_st' in En.
  destruct okn; cbn [negb]; [|exact En].
  cbn [snd fst ok emit st with_st].
  exists hd, n. split; [reflexivity|]. split; [exact Hn|]. split; [exact Hacl|]. split; [exact Hm|].
  split; [exact Hcap|]. split; [exact Hsub|].
  rewrite En. reflexivity.
Qed.

(* ====================================================================== *)
(* D2 : subscriptions                                                      *)
(* ====================================================================== *)
Definition SubsInv (cfg : scfg) (s : state) : Prop :=
  forall u l, alookup u (inch s) = Some l -> N.of_nat (length l) <= max_subs cfg.

Lemma sadd_length x l : (length (sadd x l) <= S (length l))%nat.
Proof. unfold sadd. destruct (smem x l); [lia|]. rewrite app_length. cbn [length]. lia. Qed.

Lemma sdel_length x l : (length (sdel x l) <= length l)%nat.
Proof.
  unfold sdel. induction l as [|y l IH]; cbn [filter length]; [lia|].
  destruct (negb (list_eqb x y)); cbn [length]; lia.
Qed.

Lemma SubsInv_inch cfg s s' : inch s' = inch s -> SubsInv cfg s -> SubsInv cfg s'.
Proof. intros E H u l. rewrite E. apply H. Qed.

Lemma SubsInv_index_del cfg u cf s : SubsInv cfg s -> SubsInv cfg (index_del u cf s).
Proof.
  intros H k l. rewrite alookup_index_del. destruct (list_eqb k u); [|apply H].
  unfold idel. destruct (alookup u (inch s)) as [l0|] eqn:E; [|discriminate].
  destruct (isempty (sdel cf l0)); [discriminate|]. intro K; injection K as <-.
  pose proof (H u l0 E). pose proof (sdel_length cf l0). lia.
Qed.

(* an accepted index_add: the gate of h_join *)
Lemma SubsInv_index_add cfg u cf s :
  (max_subs cfg <=? N.of_nat (length (match alookup u (inch s) with Some l => l | None => [] end))) = false ->
  SubsInv cfg s -> SubsInv cfg (index_add u cf s).
Proof.
  intros Hg H k l. rewrite alookup_index_add. destruct (list_eqb k u); [|apply H].
  intro K; injection K as <-. unfold idx_of. apply N.leb_gt in Hg.
  destruct (alookup u (inch s)) as [l0|].
  - pose proof (sadd_length cf l0). lia.
  - cbn [length] in *. pose proof (sadd_length cf []). cbn [length] in *. lia.
Qed.

Lemma SubsInv_leave_st cfg hd cf n ch pick s : SubsInv cfg s -> SubsInv cfg (leave_st hd cf n ch pick s).
Proof.
  intro H. unfold leave_st. destruct (isempty _).
  - apply (SubsInv_inch cfg (index_del (nu n) cf s)); [reflexivity | apply SubsInv_index_del, H].
  - apply (SubsInv_inch cfg (index_del (nu n) cf s)); [reflexivity | apply SubsInv_index_del, H].
Qed.

Lemma leave_core_subs cfg req id me hd dom cf ob c :
  SubsInv cfg (st c) -> SubsInv cfg (st (fst (leave_core cfg req id me hd dom cf ob c))).
Proof.
  intro H.
  destruct (leave_core_spec cfg req id me hd dom cf ob c) as [[-> _]|(ch & pick & _ & _ & _ & _ & ->)];
    [exact H | apply SubsInv_leave_st; exact H].
Qed.

Lemma h_leave_subs cfg h me m c : SubsInv cfg (st c) -> SubsInv cfg (st (fst (h_leave cfg h me m c))).
Proof.
  intro H. unfold h_leave.
  destruct (chan_parse (get_str m "channel")) as [[hd dom]|]; [|exact H].
  destruct (get_ostr m "on_behalf") as [s|]; [|apply leave_core_subs; exact H].
  destruct (nid_parse s); [apply leave_core_subs; exact H | exact H].
Qed.

Lemma dispatch_auth_subs cfg h me m p c :
  SubsInv cfg (st c) -> SubsInv cfg (st (fst (dispatch_auth cfg h me m p c))).
Proof.
  intro H. unfold dispatch_auth. cbv zeta.
  destruct (is_kind m "BROADCAST"); [rewrite h_broadcast_st; exact H|].
  destruct (is_kind m "GET_CHAN_ACL"); [rewrite h_get_acl_st; exact H|].
  destruct (is_kind m "GET_CHAN_CONFIG"); [rewrite h_get_config_st; exact H|].
  destruct (is_kind m "JOIN").
  { pose proof (h_join_gates cfg h me m c) as Hs.
    destruct (snd (h_join cfg h me m c)); [rewrite Hs; exact H|].
    destruct Hs as (hd & n & _ & _ & _ & _ & _ & Hg & ->).
    apply SubsInv_index_add; [exact Hg|].
    apply (SubsInv_inch cfg (st c)); [reflexivity | exact H]. }
  destruct (is_kind m "LEAVE"); [apply h_leave_subs; exact H|].
  destruct (is_kind m "CHANNELS"); [exact H|].
  destruct (is_kind m "MEMBERS"); [rewrite h_members_st; exact H|].
  destruct (is_kind m "MOD_DIRECT"); [rewrite h_mod_direct_st; exact H|].
  destruct (is_kind m "SET_CHAN_ACL").
  { destruct (h_set_acl_spec cfg h me m c) as [->|(hd & ch & ty & a & _ & ->)];
      [exact H | apply (SubsInv_inch cfg (st c)); [reflexivity | exact H]]. }
  destruct (is_kind m "SET_CHAN_CONFIG").
  { destruct (h_set_config_spec cfg h me m c) as [->|(hd & ch & mc & mp & _ & ->)];
      [exact H | apply (SubsInv_inch cfg (st c)); [reflexivity | exact H]]. }
  exact H.
Qed.

Lemma register_inch u h ex s s2 : register u h ex s = Some s2 -> inch s2 = inch s.
Proof. intro H. exact (proj1 (proj2 (register_spec _ _ _ _ _ H))). Qed.
Lemma register_chans u h ex s s2 : register u h ex s = Some s2 -> chans s2 = chans s.
Proof. intro H. exact (proj1 (register_spec _ _ _ _ _ H)). Qed.

(* a generic lemma for invariants that only read [chans] and [inch]: on_frame *)
Lemma on_frame_ci (P : state -> Prop) cfg h m p c :
  (forall s s', chans s' = chans s -> inch s' = inch s -> P s -> P s') ->
  (forall me c0, P (st c0) -> P (st (fst (dispatch_auth cfg h me m p c0)))) ->
  P (st c) -> P (st (on_frame cfg h m p c)).
Proof.
  intros Hext Hdisp H. unfold on_frame.
  destruct (nlookup h (conns (st c))) as [cn|]; [|exact H].
  destruct (existsb _ _); [exact H|].
  destruct (c_phase cn).
  - destruct (is_kind m "CONNECT"); [|rewrite notify_error_st; exact H].
    destruct (negb _); [rewrite notify_error_st; exact H|].
    cbv zeta. rewrite set_conn_st, emit_st. apply (Hext (st c)); [reflexivity | reflexivity | exact H].
  - destruct (is_kind m "AUTH").
    { destruct (negb (auth_required cfg)); [rewrite notify_error_st; exact H|].
      cbv zeta. destruct (next_outcome _) as [o c1] eqn:En. apply next_outcome_st' in En. rewrite emit_st in En.
      destruct o; rewrite ?notify_error_st, ?emit_st, ?En; try exact H.
      destruct (make_local_nid (domain cfg) u) as [n|]; [|rewrite notify_error_st, En; exact H].
      destruct (register (nu n) h false (st c)) as [s2|] eqn:Hreg; [|rewrite En; exact H].
      rewrite set_conn_st, emit_st, with_st_st.
      apply (Hext (st c)); [exact (register_chans _ _ _ _ _ Hreg) | exact (register_inch _ _ _ _ _ Hreg) | exact H]. }
    destruct (is_kind m "IDENTIFY"); [|rewrite notify_error_st; exact H].
    destruct (auth_required cfg); [rewrite notify_error_st; exact H|].
    destruct (make_local_nid (domain cfg) (trim (get_str m "username"))) as [n|];
      [|rewrite notify_error_st; exact H].
    destruct (register (nu n) h true (st c)) as [s2|] eqn:Hreg; [|rewrite notify_error_st; exact H].
    rewrite set_conn_st, emit_st, with_st_st.
    apply (Hext (st c)); [exact (register_chans _ _ _ _ _ Hreg) | exact (register_inch _ _ _ _ _ Hreg) | exact H].
  - destruct (is_kind m "PONG"); [exact H|].
    destruct (max_inflight cfg =? 0); [rewrite drop_conn_st; exact H|].
    destruct (c_nid cn) as [me|]; [|exact H].
    pose proof (Hdisp me c H) as K.
    destruct (dispatch_auth cfg h me m p c) as [c1 r]. cbn [fst] in K.
    destruct r; [rewrite notify_error_st|]; exact K.
Qed.

(* ... teardown, given what leave_core and dropping one index entry do *)
Lemma teardown_ci (P : state -> Prop) cfg h c :
  (forall s s', chans s' = chans s -> inch s' = inch s -> P s -> P s') ->
  (forall s u, P s -> P (set_inch (aremove u (inch s)) s)) ->
  (forall id me hd dom cf ob c0, P (st c0) -> P (st (fst (leave_core cfg None id me hd dom cf ob c0)))) ->
  P (st c) -> P (st (teardown cfg h c)).
Proof.
  intros Hext Hrem Hleave H. unfold teardown.
  destruct (nlookup h (conns (st c))) as [cn|]; [|exact H].
  assert (H0 : P (set_conns (nremove h (conns (st c))) (st c))).
  { apply (Hext (st c)); [reflexivity | reflexivity | exact H]. }
  destruct (c_nid cn) as [me|]; [|exact H0].
  cbn [st with_st]. destruct (alookup (nu me) _) as [hs|]; [|exact H0].
  destruct (isempty _).
  - unfold leave_all. cbn [st with_st].
    match goal with |- context [alookup (nu me) (inch ?s0)] => set (s1 := s0) end.
    assert (H1 : P s1) by (apply (Hext (set_conns (nremove h (conns (st c))) (st c))); [reflexivity | reflexivity | exact H0]).
    destruct (alookup (nu me) (inch s1)) as [cfs|]; [|exact H1].
    apply (fold_left_ind (fun a => P (st a))).
    + intros a cf Ha. destruct (chan_parse cf) as [[hd dom]|]; [|exact Ha]. apply Hleave. exact Ha.
    + cbn [st with_st]. apply Hrem. exact H1.
  - cbn [st with_st]. apply (Hext (set_conns (nremove h (conns (st c))) (st c))); [reflexivity | reflexivity | exact H0].
Qed.

(* ... and a whole step *)
Lemma step_ci (P : state -> Prop) cfg s o :
  (forall s s', chans s' = chans s -> inch s' = inch s -> P s -> P s') ->
  (forall s u, P s -> P (set_inch (aremove u (inch s)) s)) ->
  (forall id me hd dom cf ob c0, P (st c0) -> P (st (fst (leave_core cfg None id me hd dom cf ob c0)))) ->
  (forall h me m p c0, P (st c0) -> P (st (fst (dispatch_auth cfg h me m p c0)))) ->
  P s -> P (fst (step cfg s o)).
Proof.
  intros Hext Hrem Hleave Hdisp H.
  assert (Hfl : forall c0, P (st c0) -> P (st (flush_closes cfg c0))).
  { intros c0 H0. unfold flush_closes. cbn [st].
    apply (fold_left_ind (fun a => P (st a))); [|exact H0].
    intros a x Ha. apply teardown_ci; assumption. }
  assert (Hfr : forall h m p c0, P (st c0) -> P (st (on_frame cfg h m p c0))).
  { intros h m p c0 H0. apply on_frame_ci; [exact Hext | intros me c1; apply Hdisp | exact H0]. }
  destruct o as [h|h m p sc hi|h|h bytes sc hi|h sc hi|ts pl]; cbn [step].
  - destruct (max_conns cfg <=? _); cbn [fst]; [exact H|].
    apply (Hext s); [reflexivity | reflexivity | exact H].
  - cbn [fst]. apply Hfl, Hfr. exact H.
  - cbn [fst]. destruct (nlookup h (conns s)); [|exact H].
    apply Hfl. rewrite request_close_st. exact H.
  - cbn [fst]. destruct (nlookup h (conns s)); [|exact H].
    apply Hfl.
    apply (fold_left_ind (fun a => P (st a))); [|exact H].
    intros a it Ha. destruct it; cbn [on_item]; rewrite ?request_close_st, ?drop_conn_st; try exact Ha.
    apply Hfr. exact Ha.
  - cbn [fst]. apply teardown_ci; assumption.
  - exact H.
Qed.

Theorem C14_subscriptions_step : forall cfg s o, SubsInv cfg s -> SubsInv cfg (fst (step cfg s o)).
Proof.
  intros cfg s o. apply step_ci.
  - intros s0 s' _ E. apply SubsInv_inch. exact E.
  - intros s0 u H k l. cbn [set_inch inch]. rewrite alookup_aremove. destruct (list_eqb k u); [discriminate | apply H].
  - intros. apply leave_core_subs. assumption.
  - intros. apply dispatch_auth_subs. assumption.
Qed.

Theorem C14_subscriptions_run : forall cfg ops s, SubsInv cfg s -> SubsInv cfg (run_state cfg s ops).
Proof. intros cfg ops. apply run_state_ind. intros s o. apply C14_subscriptions_step. Qed.

(* holds for ALL op sequences *)
Theorem C14_subscriptions : forall cfg ops u l,
  alookup u (inch (run_state cfg init ops)) = Some l -> N.of_nat (length l) <= max_subs cfg.
Proof. intros cfg ops. apply C14_subscriptions_run. intros u l H. discriminate. Qed.

Corollary C14_subscriptions_pos : forall cfg ops u l,
  0 < max_subs cfg ->
  alookup u (inch (run_state cfg init ops)) = Some l -> N.of_nat (length l) <= max_subs cfg.
Proof. intros cfg ops u l _ H. exact (C14_subscriptions cfg ops u l H). Qed.

(* the bound is exact also for max_subs = 0: the gate is consulted on a user's FIRST join as well
   (a user without an index entry counts as having 0 subscriptions), so every JOIN is refused *)
Definition subs0_cfg : scfg :=
  {| domain := bs "localhost"; has_mod := false; op_auth := false; op_fbp := false; op_fev := false; op_spp := false;
     proto := []; max_clients := 10; max_subs := 0; max_payload_cfg := 1000; max_inflight := 10; max_message := 1000;
     keepalive := 60; min_keepalive := 10; max_conns := 10; pool_budget := 100000; max_channels := 100 |}.
Definition subs0_ops : list op :=
  [Open 1;
   Frame 1 (build "CONNECT" [(bs "version", VNum 1); (bs "heartbeat_interval", VNum 0)]) None [] [];
   Frame 1 (build "IDENTIFY" [(bs "username", VStr (bs "alice"))]) None [] [];
   Frame 1 (build "JOIN" [(bs "id", VNum 1); (bs "channel", VStr (bs "!room@localhost"))]) None [] []].

(* with max_subs = 0 the first JOIN is refused with POLICY_VIOLATION (not recoverable, so the
   connection is closed); neither the index nor the channel table gets an entry *)
Example C14_subscriptions_zero_first_join_refused :
  ops_ok subs0_cfg init subs0_ops /\
  max_subs subs0_cfg = 0 /\
  last (run subs0_cfg init subs0_ops) [] = [OClose 1 (err_msg (Some 1) "POLICY_VIOLATION")] /\
  inch (run_state subs0_cfg init subs0_ops) = [] /\
  inch (run_state subs0_cfg init (removelast subs0_ops)) = [] /\
  chans (run_state subs0_cfg init subs0_ops) = [] /\ conns (run_state subs0_cfg init subs0_ops) = [].
Proof. vm_compute. repeat split; try exact I; right; intros cn K; discriminate. Qed.

(* ====================================================================== *)
(* D3 : channel capacity at admission, payload bound, per-channel caps     *)
(* ====================================================================== *)
Theorem C14_channel_capacity_at_admission : forall cfg h me m c,
  snd (h_join cfg h me m c) = None ->
  exists hd n, chan_parse (get_str m "channel") = Some (hd, domain cfg) /\
    let ch := match alookup hd (chans (st c)) with Some c0 => c0 | None => new_chan cfg end in
    let c' := fst (h_join cfg h me m c) in
    N.of_nat (length (ch_members ch)) < ch_max_clients ch /\
    alookup hd (chans (st c')) = Some (insert_member ch n) /\
    ch_members (insert_member ch n) = ch_members ch ++ [n] /\
    ch_max_clients (insert_member ch n) = ch_max_clients ch /\
    N.of_nat (length (ch_members (insert_member ch n))) <= ch_max_clients (insert_member ch n).
Proof.
  intros cfg h me m c Hok. pose proof (h_join_gates cfg h me m c) as Hs. rewrite Hok in Hs.
  destruct Hs as (hd & n & Hp & Hwho & Hacl & Hm & Hcap & Hsub & Hst).
  exists hd, n. split; [exact Hp|]. cbv zeta.
  set (ch := match alookup hd (chans (st c)) with Some c0 => c0 | None => new_chan cfg end) in *.
  apply N.leb_gt in Hcap.
  assert (Hmem : ch_members (insert_member ch n) = ch_members ch ++ [n]).
  { unfold insert_member. cbn [retarget ch_members]. apply nadd_fresh. exact Hm. }
  split; [exact Hcap|]. split.
  - rewrite Hst, index_add_chans, alookup_put_chan, list_eqb_refl. reflexivity.
  - split; [exact Hmem|]. split; [reflexivity|].
    rewrite Hmem, app_length. cbn [length insert_member retarget ch_max_clients]. lia.
Qed.

(* capacity is checked at admission only: the owner may later lower max_clients below the
   current member count, so  length (ch_members ch) <= ch_max_clients ch  is NOT an invariant *)
Definition cap_ops : list op :=
  [Open 1;
   Frame 1 (build "CONNECT" [(bs "version", VNum 1); (bs "heartbeat_interval", VNum 0)]) None [] [];
   Frame 1 (build "IDENTIFY" [(bs "username", VStr (bs "alice"))]) None [] [];
   Frame 1 (build "JOIN" [(bs "id", VNum 1); (bs "channel", VStr (bs "!room@localhost"))]) None [] [];
   Open 2;
   Frame 2 (build "CONNECT" [(bs "version", VNum 1); (bs "heartbeat_interval", VNum 0)]) None [] [];
   Frame 2 (build "IDENTIFY" [(bs "username", VStr (bs "bob"))]) None [] [];
   Frame 2 (build "JOIN" [(bs "id", VNum 1); (bs "channel", VStr (bs "!room@localhost"))]) None [] [];
   Frame 1 (build "SET_CHAN_CONFIG" [(bs "id", VNum 2); (bs "channel", VStr (bs "!room@localhost"));
                                     (bs "max_clients", VNum 1); (bs "max_payload_size", VNum 0)]) None [] []].

Example C14_capacity_not_invariant :
  let s := run_state cex_cfg init cap_ops in
  ops_ok cex_cfg init cap_ops /\
  last (run cex_cfg init cap_ops) [] = [OSend 1 (build "SET_CHAN_CONFIG_ACK" [(bs "id", VNum 2)]) None] /\
  exists ch, alookup (bs "room") (chans s) = Some ch /\
             length (ch_members ch) = 2%nat /\ ch_max_clients ch = 1.
Proof.
  vm_compute. split; [|split; [reflexivity|]].
  - repeat split; try exact I; right; intros cn K; discriminate.
  - eexists. split; [reflexivity|]. split; reflexivity.
Qed.

(* ---------- payload ---------- *)
Theorem C14_payload : forall cfg h me m payload c hd dom ch,
  snd (h_broadcast cfg h me m payload c) = None ->
  chan_parse (get_str m "channel") = Some (hd, dom) ->
  alookup hd (chans (st c)) = Some ch ->
  N.of_nat (length (ServerSteps.eff_payload cfg payload (script c))) <= ch_max_payload ch.
Proof.
  intros cfg h me m payload c hd dom ch Hok Hp Hch.
  unfold h_broadcast in Hok. rewrite Hp in Hok. cbv zeta in Hok.
  unfold ServerSteps.eff_payload, ServerLib.head_outcome.
  unfold next_outcome in Hok. cbn [emit script] in Hok.
  destruct (has_mod cfg).
  - destruct (script c) as [|o r]; [|destruct o]; cbn [st emit] in Hok; try discriminate.
    all: destruct (negb (local cfg dom)); [discriminate|].
    all: rewrite Hch in Hok.
    all: destruct (negb (nmem me (ch_members ch))); [discriminate|].
    all: destruct (negb (acl_allowed (ch_pub ch) me)); [discriminate|].
    all: match type of Hok with context [?a <? ?x] => destruct (a <? x) eqn:E end;
         [discriminate|].
    all: apply N.ltb_ge in E; exact E.
  - destruct (negb (local cfg dom)); [discriminate|].
    rewrite Hch in Hok.
    destruct (negb (nmem me (ch_members ch))); [discriminate|].
    destruct (negb (acl_allowed (ch_pub ch) me)); [discriminate|].
    destruct (ch_max_payload ch <? N.of_nat (length payload)) eqn:E; [discriminate|].
    apply N.ltb_ge in E; exact E.
Qed.

(* an acknowledged broadcast always resolved a local channel of which the sender is a member *)
Theorem C14_payload_resolves : forall cfg h me m payload c,
  snd (h_broadcast cfg h me m payload c) = None ->
  exists hd ch, chan_parse (get_str m "channel") = Some (hd, domain cfg) /\
    alookup hd (chans (st c)) = Some ch /\ nmem me (ch_members ch) = true /\
    acl_allowed (ch_pub ch) me = true /\
    N.of_nat (length (ServerSteps.eff_payload cfg payload (script c))) <= ch_max_payload ch.
Proof.
  intros cfg h me m payload c Hok.
  destruct (chan_parse (get_str m "channel")) as [[hd dom]|] eqn:Hp.
  2:{ unfold h_broadcast in Hok. rewrite Hp in Hok. discriminate. }
  assert (Hrest : list_eqb dom (domain cfg) = true /\
                  exists ch, alookup hd (chans (st c)) = Some ch /\ nmem me (ch_members ch) = true /\
                             acl_allowed (ch_pub ch) me = true).
  { pose proof Hok as Hok'. unfold h_broadcast in Hok'. rewrite Hp in Hok'. cbv zeta in Hok'.
    unfold next_outcome in Hok'. cbn [emit script] in Hok'. unfold local in Hok'.
    destruct (has_mod cfg).
    - destruct (script c) as [|o r]; [|destruct o]; cbn [st emit] in Hok'; try discriminate.
      all: destruct (list_eqb dom (domain cfg)); cbn [negb] in Hok'; [|discriminate].
      all: destruct (alookup hd (chans (st c))) as [ch|]; [|discriminate].
      all: destruct (nmem me (ch_members ch)) eqn:Hm; cbn [negb] in Hok'; [|discriminate].
      all: destruct (acl_allowed (ch_pub ch) me) eqn:Ha; cbn [negb] in Hok'; [|discriminate].
      all: split; [reflexivity|]; eexists; split; [reflexivity|]; split; assumption.
    - destruct (list_eqb dom (domain cfg)); cbn [negb] in Hok'; [|discriminate].
      destruct (alookup hd (chans (st c))) as [ch|]; [|discriminate].
      destruct (nmem me (ch_members ch)) eqn:Hm; cbn [negb] in Hok'; [|discriminate].
      destruct (acl_allowed (ch_pub ch) me) eqn:Ha; cbn [negb] in Hok'; [|discriminate].
      split; [reflexivity|]; eexists; split; [reflexivity|]; split; assumption. }
  destruct Hrest as (Hd & ch & Hch & Hm & Ha). apply list_eqb_eq in Hd. subst dom.
  exists hd, ch. repeat split; try assumption.
  exact (C14_payload cfg h me m payload c hd (domain cfg) ch Hok Hp Hch).
Qed.

(* ---------- per-channel limits never exceed the configured caps ---------- *)
Definition cap_ok (cfg : scfg) (ch : chan) : Prop :=
  ch_max_payload ch <= max_payload_cfg cfg /\ ch_max_clients ch <= max_clients cfg.

Definition ChanCaps (cfg : scfg) (s : state) : Prop :=
  forall hd ch, alookup hd (chans s) = Some ch ->
    ch_max_payload ch <= max_payload_cfg cfg /\ ch_max_clients ch <= max_clients cfg.

Lemma ChanCaps_chans cfg s s' : chans s' = chans s -> ChanCaps cfg s -> ChanCaps cfg s'.
Proof. intros E H hd ch. rewrite E. apply H. Qed.

Lemma ChanCaps_put cfg hd ch s : cap_ok cfg ch -> ChanCaps cfg s -> ChanCaps cfg (put_chan hd ch s).
Proof.
  intros Hc H k c0. rewrite alookup_put_chan. destruct (list_eqb k hd); [|apply H].
  intro K; injection K as <-. exact Hc.
Qed.

Lemma ChanCaps_del cfg hd s : ChanCaps cfg s -> ChanCaps cfg (del_chan hd s).
Proof. intros H k c0. rewrite alookup_del_chan. destruct (list_eqb k hd); [discriminate | apply H]. Qed.

Lemma cap_ok_new cfg : cap_ok cfg (new_chan cfg).
Proof. unfold cap_ok, new_chan. cbn [ch_max_payload ch_max_clients]. lia. Qed.
Lemma cap_ok_insert cfg ch n : cap_ok cfg ch -> cap_ok cfg (insert_member ch n).
Proof. intro H. exact H. Qed.
Lemma cap_ok_left cfg ch n pick : cap_ok cfg ch -> cap_ok cfg (left_chan ch n pick).
Proof. intro H. destruct pick; exact H. Qed.
Lemma cap_ok_set_acl cfg ch ty a : cap_ok cfg ch -> cap_ok cfg (set_acl ch ty a).
Proof. intro H. exact H. Qed.
Lemma cap_ok_set_config cfg ch mc mp :
  mc <= max_clients cfg -> mp <= max_payload_cfg cfg -> cap_ok cfg ch -> cap_ok cfg (set_config ch mc mp).
Proof.
  intros H1 H2 [H3 H4]. unfold cap_ok, set_config. cbn [ch_max_payload ch_max_clients].
  destruct (0 <? mc); destruct (0 <? mp); lia.
Qed.

Lemma ChanCaps_leave_st cfg hd cf n ch pick s :
  alookup hd (chans s) = Some ch -> ChanCaps cfg s -> ChanCaps cfg (leave_st hd cf n ch pick s).
Proof.
  intros Hch H k c0. rewrite leave_st_chans. destruct (list_eqb k hd); [|apply H].
  destruct (isempty _); [discriminate|]. intro K; injection K as <-.
  apply cap_ok_left. exact (H hd ch Hch).
Qed.

Lemma leave_core_caps cfg req id me hd dom cf ob c :
  ChanCaps cfg (st c) -> ChanCaps cfg (st (fst (leave_core cfg req id me hd dom cf ob c))).
Proof.
  intro H.
  destruct (leave_core_spec cfg req id me hd dom cf ob c) as [[-> _]|(ch & pick & _ & Hch & _ & _ & ->)];
    [exact H | apply ChanCaps_leave_st; assumption].
Qed.

Lemma h_leave_caps cfg h me m c : ChanCaps cfg (st c) -> ChanCaps cfg (st (fst (h_leave cfg h me m c))).
Proof.
  intro H. unfold h_leave.
  destruct (chan_parse (get_str m "channel")) as [[hd dom]|]; [|exact H].
  destruct (get_ostr m "on_behalf") as [s|]; [|apply leave_core_caps; exact H].
  destruct (nid_parse s); [apply leave_core_caps; exact H | exact H].
Qed.

(* SET_CHAN_CONFIG with its gates *)
Lemma h_set_config_gates cfg h me m c :
  match snd (h_set_config cfg h me m c) with
  | Some _ => st (fst (h_set_config cfg h me m c)) = st c
  | None =>
      exists hd ch, chan_parse (get_str m "channel") = Some (hd, domain cfg) /\
        alookup hd (chans (st c)) = Some ch /\ is_owner ch me = true /\
        get_num m "max_clients" <= max_clients cfg /\
        get_num m "max_payload_size" <= max_payload_cfg cfg /\
        st (fst (h_set_config cfg h me m c)) =
          put_chan hd (set_config ch (get_num m "max_clients") (get_num m "max_payload_size")) (st c)
  end.
Proof.
  unfold h_set_config, local. cbv zeta.
  destruct (chan_parse (get_str m "channel")) as [[hd dom]|]; [|reflexivity].
  destruct (list_eqb_spec dom (domain cfg)) as [->|Hd]; cbn [negb]; [|reflexivity].
  destruct (max_clients cfg <? get_num m "max_clients") eqn:E1; [reflexivity|].
  destruct (max_payload_cfg cfg <? get_num m "max_payload_size") eqn:E2; [reflexivity|].
  destruct (alookup hd (chans (st c))) as [ch|] eqn:Hch; [|reflexivity].
  destruct (is_owner ch me) eqn:Ho; cbn [negb]; [|reflexivity].
  cbn [snd fst ok emit st with_st].
  apply N.ltb_ge in E1, E2.
  exists hd, ch. repeat split; assumption.
Qed.

Lemma dispatch_auth_caps cfg h me m p c :
  ChanCaps cfg (st c) -> ChanCaps cfg (st (fst (dispatch_auth cfg h me m p c))).
Proof.
  intro H. unfold dispatch_auth. cbv zeta.
  destruct (is_kind m "BROADCAST"); [rewrite h_broadcast_st; exact H|].
  destruct (is_kind m "GET_CHAN_ACL"); [rewrite h_get_acl_st; exact H|].
  destruct (is_kind m "GET_CHAN_CONFIG"); [rewrite h_get_config_st; exact H|].
  destruct (is_kind m "JOIN").
  { pose proof (h_join_spec cfg h me m c) as Hs.
    destruct (snd (h_join cfg h me m c)); [rewrite Hs; exact H|].
    destruct Hs as (hd & n & _ & _ & _ & ->).
    apply (ChanCaps_chans cfg (put_chan hd (insert_member
             match alookup hd (chans (st c)) with Some c0 => c0 | None => new_chan cfg end n) (st c)));
      [reflexivity|].
    apply ChanCaps_put; [|exact H]. apply cap_ok_insert.
    destruct (alookup hd (chans (st c))) as [c0|] eqn:E; [exact (H hd c0 E) | apply cap_ok_new]. }
  destruct (is_kind m "LEAVE"); [apply h_leave_caps; exact H|].
  destruct (is_kind m "CHANNELS"); [exact H|].
  destruct (is_kind m "MEMBERS"); [rewrite h_members_st; exact H|].
  destruct (is_kind m "MOD_DIRECT"); [rewrite h_mod_direct_st; exact H|].
  destruct (is_kind m "SET_CHAN_ACL").
  { destruct (h_set_acl_spec cfg h me m c) as [->|(hd & ch & ty & a & Hch & ->)]; [exact H|].
    apply ChanCaps_put; [|exact H]. apply cap_ok_set_acl. exact (H hd ch Hch). }
  destruct (is_kind m "SET_CHAN_CONFIG").
  { pose proof (h_set_config_gates cfg h me m c) as Hs.
    destruct (snd (h_set_config cfg h me m c)); [rewrite Hs; exact H|].
    destruct Hs as (hd & ch & _ & Hch & _ & H1 & H2 & ->).
    apply ChanCaps_put; [|exact H]. apply cap_ok_set_config; [exact H1 | exact H2 | exact (H hd ch Hch)]. }
  exact H.
Qed.

Lemma on_frame_caps cfg h m p c : ChanCaps cfg (st c) -> ChanCaps cfg (st (on_frame cfg h m p c)).
Proof.
  apply on_frame_ci.
  - intros s0 s' E _. apply ChanCaps_chans. exact E.
  - intros me c0. apply dispatch_auth_caps.
Qed.

Theorem ChanCaps_step : forall cfg s o, ChanCaps cfg s -> ChanCaps cfg (fst (step cfg s o)).
Proof.
  intros cfg s o. apply step_ci.
  - intros s0 s' E _. apply ChanCaps_chans. exact E.
  - intros s0 u H. exact H.
  - intros. apply leave_core_caps. assumption.
  - intros. apply dispatch_auth_caps. assumption.
Qed.

Theorem ChanCaps_run : forall cfg ops s, ChanCaps cfg s -> ChanCaps cfg (run_state cfg s ops).
Proof. intros cfg ops. apply run_state_ind. intros s o. apply ChanCaps_step. Qed.

Theorem ChanCaps_reachable : forall cfg ops, ChanCaps cfg (run_state cfg init ops).
Proof. intros cfg ops. apply ChanCaps_run. intros hd ch H. discriminate. Qed.

(* hence: every acknowledged broadcast payload is within the configured cap *)
Corollary C14_payload_cfg : forall cfg h me m payload c,
  ChanCaps cfg (st c) ->
  snd (h_broadcast cfg h me m payload c) = None ->
  N.of_nat (length (ServerSteps.eff_payload cfg payload (script c))) <= max_payload_cfg cfg.
Proof.
  intros cfg h me m payload c HC Hok.
  destruct (C14_payload_resolves cfg h me m payload c Hok) as (hd & ch & _ & Hch & _ & _ & Hle).
  pose proof (proj1 (HC hd ch Hch)). lia.
Qed.

Corollary C14_payload_reachable : forall cfg ops h me m payload sc hi os cl,
  let c := {| st := run_state cfg init ops; script := sc; hints := hi; outs := os; closing := cl |} in
  snd (h_broadcast cfg h me m payload c) = None ->
  N.of_nat (length (ServerSteps.eff_payload cfg payload sc)) <= max_payload_cfg cfg.
Proof.
  intros cfg ops h me m payload sc hi os cl c Hok.
  apply (C14_payload_cfg cfg h me m payload c); [apply ChanCaps_reachable | exact Hok].
Qed.

(* ====================================================================== *)
(* D4 : ACL entries                                                        *)
(* ====================================================================== *)
Lemma h_set_acl_gates cfg h me m c :
  match snd (h_set_acl cfg h me m c) with
  | Some _ => st (fst (h_set_acl cfg h me m c)) = st c
  | None =>
      exists hd ch ns, chan_parse (get_str m "channel") = Some (hd, domain cfg) /\
        parse_nids (get_vec m "nids") = Some ns /\
        alookup hd (chans (st c)) = Some ch /\ is_owner ch me = true /\
        let a := acl_update (get_acl ch (get_str m "type")) ns (list_eqb (get_str m "action") (bs "add")) in
        acl_total a <= ch_max_clients ch /\
        st (fst (h_set_acl cfg h me m c)) = put_chan hd (set_acl ch (get_str m "type") a) (st c)
  end.
Proof.
  unfold h_set_acl, local. cbv zeta.
  destruct (chan_parse (get_str m "channel")) as [[hd dom]|]; [|reflexivity].
  destruct (parse_nids (get_vec m "nids")) as [ns|]; [|reflexivity].
  destruct (list_eqb_spec dom (domain cfg)) as [->|Hd]; cbn [negb]; [|reflexivity].
  destruct (alookup hd (chans (st c))) as [ch|] eqn:Hch; [|reflexivity].
  destruct (is_owner ch me) eqn:Ho; cbn [negb]; [|reflexivity].
  destruct (ch_max_clients ch <? acl_total _) eqn:E; [reflexivity|].
  cbn [snd fst ok emit st with_st]. apply N.ltb_ge in E.
  exists hd, ch, ns. repeat split; assumption.
Qed.

Theorem C14_acl_entries : forall cfg h me m c,
  snd (h_set_acl cfg h me m c) = None ->
  exists hd ch ns a,
    chan_parse (get_str m "channel") = Some (hd, domain cfg) /\
    parse_nids (get_vec m "nids") = Some ns /\
    alookup hd (chans (st c)) = Some ch /\
    a = acl_update (get_acl ch (get_str m "type")) ns (list_eqb (get_str m "action") (bs "add")) /\
    acl_total a <= ch_max_clients ch /\
    st (fst (h_set_acl cfg h me m c)) = put_chan hd (set_acl ch (get_str m "type") a) (st c) /\
    alookup hd (chans (st (fst (h_set_acl cfg h me m c)))) = Some (set_acl ch (get_str m "type") a) /\
    ch_max_clients (set_acl ch (get_str m "type") a) = ch_max_clients ch.
Proof.
  intros cfg h me m c Hok. pose proof (h_set_acl_gates cfg h me m c) as Hs. rewrite Hok in Hs.
  destruct Hs as (hd & ch & ns & Hp & Hn & Hch & _ & Hle & Hst). cbv zeta in Hle, Hst.
  exists hd, ch, ns, (acl_update (get_acl ch (get_str m "type")) ns (list_eqb (get_str m "action") (bs "add"))).
  repeat split; try assumption.
  rewrite Hst, alookup_put_chan, list_eqb_refl. reflexivity.
Qed.

Definition acl_type (ty : str) : Prop := ty = bs "join" \/ ty = bs "publish" \/ ty = bs "read".

(* for the three ACL types the stored list is the one that was checked *)
Theorem get_set_acl : forall ch ty a, acl_type ty -> get_acl (set_acl ch ty a) ty = a.
Proof. intros ch ty a [-> | [-> | ->] ]; reflexivity. Qed.

(* ... and the two others are untouched *)
Theorem get_set_acl_other : forall ch ty ty' a,
  acl_type ty -> acl_type ty' -> ty <> ty' -> get_acl (set_acl ch ty a) ty' = get_acl ch ty'.
Proof.
  intros ch ty ty' a [-> | [-> | ->] ] [-> | [-> | ->] ] Hne; try reflexivity; exfalso; apply Hne; reflexivity.
Qed.

(* for any other type string get_acl falls through to the READ list while set_acl stores nothing *)
Theorem set_acl_unknown : forall ch ty a,
  ~ acl_type ty ->
  get_acl ch ty = ch_read ch /\
  ch_join (set_acl ch ty a) = ch_join ch /\ ch_pub (set_acl ch ty a) = ch_pub ch /\
  ch_read (set_acl ch ty a) = ch_read ch /\
  get_acl (set_acl ch ty a) ty = ch_read ch /\
  (ch_targets ch = filter (acl_allowed (ch_read ch)) (ch_members ch) -> set_acl ch ty a = ch).
Proof.
  intros ch ty a Hty. unfold acl_type in Hty.
  assert (H1 : list_eqb ty (bs "join") = false) by (apply list_eqb_false; tauto).
  assert (H2 : list_eqb ty (bs "publish") = false) by (apply list_eqb_false; tauto).
  assert (H3 : list_eqb ty (bs "read") = false) by (apply list_eqb_false; tauto).
  unfold get_acl, set_acl, retarget, targets_of. cbn [ch_join ch_pub ch_read ch_members ch_owner ch_max_clients ch_max_payload].
  rewrite H1, H2, H3. repeat split.
  intro Ht. destruct ch as [f1 f2 f3 f4 f5 f6 f7 f8].
  cbn [ch_join ch_pub ch_read ch_members ch_owner ch_max_clients ch_max_payload ch_targets] in *.
  rewrite <- Ht. reflexivity.
Qed.

(* a SET_CHAN_ACL with an unknown type that passes the check against the READ list is acknowledged
   and changes nothing (model level: only reachable through the [Frame] op with a hand-built message;
   the schema constrains "type" to join/publish/read (XEnum) for decoded frames) *)
Definition acl_ops (ty : string) : list op :=
  [Open 1;
   Frame 1 (build "CONNECT" [(bs "version", VNum 1); (bs "heartbeat_interval", VNum 0)]) None [] [];
   Frame 1 (build "IDENTIFY" [(bs "username", VStr (bs "alice"))]) None [] [];
   Frame 1 (build "JOIN" [(bs "id", VNum 1); (bs "channel", VStr (bs "!room@localhost"))]) None [] [];
   Frame 1 (build "SET_CHAN_ACL" [(bs "id", VNum 2); (bs "channel", VStr (bs "!room@localhost"));
                                  (bs "type", VStr (bs ty)); (bs "action", VStr (bs "add"));
                                  (bs "nids", VVec [bs "bob@localhost"; bs "carol@localhost"])]) None [] []].

Example C14_acl_unknown_type_acked_noop :
  last (run cex_cfg init (acl_ops "bogus")) [] = [OSend 1 (build "SET_CHAN_ACL_ACK" [(bs "id", VNum 2)]) None] /\
  run_state cex_cfg init (acl_ops "bogus") = run_state cex_cfg init (removelast (acl_ops "bogus")).
Proof. vm_compute. split; reflexivity. Qed.

(* like channel capacity, the ACL bound is checked when the ACL is set: a later SET_CHAN_CONFIG may
   lower max_clients below acl_total, so  acl_total (ch_join ch) <= ch_max_clients ch  is not an invariant *)
Example C14_acl_bound_not_invariant :
  let ops := acl_ops "join" ++
    [Frame 1 (build "SET_CHAN_CONFIG" [(bs "id", VNum 3); (bs "channel", VStr (bs "!room@localhost"));
                                       (bs "max_clients", VNum 1); (bs "max_payload_size", VNum 0)]) None [] []] in
  exists ch, alookup (bs "room") (chans (run_state cex_cfg init ops)) = Some ch /\
             acl_total (ch_join ch) = 2 /\ ch_max_clients ch = 1.
Proof. vm_compute. eexists. split; [reflexivity|]. split; reflexivity. Qed.

(* ====================================================================== *)
(* D1, second part : every way a connection ends removes its entry         *)
(* ====================================================================== *)
Theorem C14_hangup_removes : forall cfg s h sc hi,
  nlookup h (conns (fst (step cfg s (Hangup h sc hi)))) = None.
Proof. intros cfg s h sc hi. cbn [step fst]. rewrite teardown_nlookup, N.eqb_refl. reflexivity. Qed.

(* ... and leaves the other entries alone *)
Theorem C14_hangup_others : forall cfg s h sc hi k,
  k <> h -> nlookup k (conns (fst (step cfg s (Hangup h sc hi)))) = nlookup k (conns s).
Proof.
  intros cfg s h sc hi k Hne. cbn [step fst]. rewrite teardown_nlookup.
  apply N.eqb_neq in Hne. rewrite Hne. reflexivity.
Qed.

(* [o] ends connection [h] *)
Definition ends (h : N) (o : out) : Prop := (exists m, o = OClose h m) \/ o = ODrop h.
Definition noend (o : out) : Prop := forall h, ~ ends h o.
(* every end-of-connection output so far has its handler queued for teardown *)
Definition Tracked (c : ctx) : Prop := forall h o, In o (outs c) -> ends h o -> In h (closing c).

Lemma neutral_noend o : ServerLib.neutral o -> noend o.
Proof. intros H h [[m ->]| ->]; exact H. Qed.

Lemma send_noend h m p : noend (OSend h m p).
Proof. intros k [[m' K]|K]; discriminate. Qed.
Lemma mod_noend mc : noend (OMod mc).
Proof. intros k [[m' K]|K]; discriminate. Qed.

Lemma Tracked_ext c c' d :
  outs c' = outs c ++ d -> Forall noend d -> (forall h, In h (closing c) -> In h (closing c')) ->
  Tracked c -> Tracked c'.
Proof.
  intros Ho Hd Hc H h o Hin He. rewrite Ho in Hin. apply in_app_or in Hin. destruct Hin as [Hin|Hin].
  - apply Hc. exact (H h o Hin He).
  - rewrite Forall_forall in Hd. exfalso. exact (Hd o Hin h He).
Qed.

Lemma Tracked_same c c' : outs c' = outs c -> closing c' = closing c -> Tracked c -> Tracked c'.
Proof. intros Ho Hc H h o. rewrite Ho, Hc. apply H. Qed.

Lemma Tracked_emit o c : noend o -> Tracked c -> Tracked (emit o c).
Proof.
  intros Hn H. apply (Tracked_ext c _ [o]); [reflexivity | constructor; [exact Hn | constructor] | auto | exact H].
Qed.

Lemma Tracked_with_st s c : Tracked c -> Tracked (with_st s c).
Proof. apply Tracked_same; reflexivity. Qed.
Lemma Tracked_set_conn h cn c : Tracked c -> Tracked (set_conn h cn c).
Proof. apply Tracked_same; reflexivity. Qed.

Lemma Tracked_request_close h m c : Tracked c -> Tracked (request_close h m c).
Proof.
  intro H. unfold request_close. destruct (existsb _ _); [exact H|].
  intros k o Hin He. cbn [outs closing] in *. apply in_app_or in Hin. apply in_or_app.
  destruct Hin as [Hin|[<-|[]]]; [left; exact (H k o Hin He)|right].
  destruct He as [[m' K]|K]; [|discriminate]. injection K as E _. left. exact E.
Qed.

Lemma Tracked_drop_conn h c : Tracked c -> Tracked (drop_conn h c).
Proof.
  intro H. unfold drop_conn. destruct (existsb _ _); [exact H|].
  intros k o Hin He. cbn [outs closing] in *. apply in_app_or in Hin. apply in_or_app.
  destruct Hin as [Hin|[<-|[]]]; [left; exact (H k o Hin He)|right].
  destruct He as [[m' K]|K]; [discriminate|]. injection K as E. left. exact E.
Qed.

Lemma Tracked_notify_error h e c : Tracked c -> Tracked (notify_error h e c).
Proof.
  intro H. unfold notify_error. destruct e as [id reason|].
  - destruct (is_recoverable reason); [apply Tracked_emit; [apply send_noend | exact H] | apply Tracked_request_close, H].
  - apply Tracked_request_close, H.
Qed.

Lemma one_reply_noend h i d : ServerHandlers.one_reply h i d -> Forall noend d.
Proof.
  intros (d1 & a & d2 & -> & H1 & H2 & _). apply Forall_app. split.
  - eapply Forall_impl; [|exact H1]. apply neutral_noend.
  - constructor; [apply send_noend|]. eapply Forall_impl; [|exact H2]. apply neutral_noend.
Qed.

Lemma hspec_tracked late h i c r : ServerHandlers.hspec late h i c r -> Tracked c -> Tracked (fst r).
Proof.
  intros (d & (_ & _ & Hcl & Ho) & Hd) H.
  apply (Tracked_ext c _ d Ho); [|rewrite Hcl; auto | exact H].
  assert (Hn : Forall ServerLib.neutral d -> Forall noend d).
  { intro K. eapply Forall_impl; [|exact K]. apply neutral_noend. }
  destruct (snd r) as [[[j|] reason|]|].
  - apply Hn, Hd.
  - apply Hn, Hd.
  - destruct Hd as [Hd|[_ Hd]]; [apply Hn, Hd | exact (one_reply_noend _ _ _ Hd)].
  - exact (one_reply_noend _ _ _ Hd).
Qed.

Lemma on_frame_tracked cfg h m p c : Tracked c -> Tracked (on_frame cfg h m p c).
Proof.
  intro H. unfold on_frame.
  destruct (nlookup h (conns (st c))) as [cn|]; [|exact H].
  destruct (existsb _ _); [exact H|].
  destruct (c_phase cn).
  - destruct (is_kind m "CONNECT"); [|apply Tracked_notify_error; exact H].
    destruct (negb _); [apply Tracked_notify_error; exact H|].
    cbv zeta. apply Tracked_set_conn, Tracked_emit; [apply send_noend | exact H].
  - destruct (is_kind m "AUTH").
    { destruct (negb (auth_required cfg)); [apply Tracked_notify_error; exact H|].
      cbv zeta. destruct (next_outcome _) as [o c1] eqn:En.
      assert (H1 : Tracked c1).
      { apply ServerLib.next_outcome_spec in En. destruct En as (_ & _ & E3 & E4 & _).
        eapply Tracked_same; [exact E3 | exact E4 | apply Tracked_emit; [apply mod_noend | exact H]]. }
      destruct o; try (apply Tracked_notify_error; exact H1);
        try (apply Tracked_emit; [apply send_noend | exact H1]).
      destruct (make_local_nid (domain cfg) u) as [n|]; [|apply Tracked_notify_error; exact H1].
      destruct (register (nu n) h false (st c1)) as [s2|]; [|exact H1].
      apply Tracked_set_conn, Tracked_emit; [apply send_noend | apply Tracked_with_st, H1]. }
    destruct (is_kind m "IDENTIFY"); [|apply Tracked_notify_error; exact H].
    destruct (auth_required cfg); [apply Tracked_notify_error; exact H|].
    destruct (make_local_nid (domain cfg) (trim (get_str m "username"))) as [n|];
      [|apply Tracked_notify_error; exact H].
    destruct (register (nu n) h true (st c)) as [s2|]; [|apply Tracked_notify_error; exact H].
    apply Tracked_set_conn, Tracked_emit; [apply send_noend | apply Tracked_with_st, H].
  - destruct (is_kind m "PONG"); [exact H|].
    destruct (max_inflight cfg =? 0); [apply Tracked_drop_conn; exact H|].
    destruct (c_nid cn) as [me|]; [|exact H].
    pose proof (hspec_tracked _ _ _ _ _ (ServerHandlers.dispatch_auth_spec cfg h me m p c) H) as K.
    destruct (dispatch_auth cfg h me m p c) as [c1 r]. cbn [fst] in K.
    destruct r; [apply Tracked_notify_error|]; exact K.
Qed.

Lemma on_item_tracked cfg h it c : Tracked c -> Tracked (on_item cfg h it c).
Proof.
  intro H. destruct it; cbn [on_item];
    first [apply on_frame_tracked | apply Tracked_request_close | apply Tracked_drop_conn | idtac]; exact H.
Qed.

(* teardown is quiet: it keeps [closing] and appends only events / modulator calls *)
Definition Quiet (c c' : ctx) : Prop :=
  closing c' = closing c /\ exists d, outs c' = outs c ++ d /\ Forall ServerLib.neutral d.

Lemma Quiet_refl c : Quiet c c.
Proof. split; [reflexivity|]. exists []. rewrite app_nil_r. split; [reflexivity | constructor]. Qed.

Lemma Quiet_trans c1 c2 c3 : Quiet c1 c2 -> Quiet c2 c3 -> Quiet c1 c3.
Proof.
  intros (A1 & d1 & A2 & A3) (B1 & d2 & B2 & B3). split; [congruence|].
  exists (d1 ++ d2). split; [rewrite B2, A2, app_assoc; reflexivity | apply Forall_app; split; assumption].
Qed.

Lemma Quiet_same c c' : outs c' = outs c -> closing c' = closing c -> Quiet c c'.
Proof. intros Ho Hc. split; [exact Hc|]. exists []. rewrite app_nil_r. split; [exact Ho | constructor]. Qed.

Lemma leave_all_quiet cfg me c : Quiet c (leave_all cfg me c).
Proof.
  unfold leave_all. destruct (alookup (nu me) (inch (st c))) as [cfs|]; [|apply Quiet_refl].
  set (c0 := with_st _ c).
  assert (H0 : Quiet c c0) by (apply Quiet_same; reflexivity).
  clearbody c0. revert c0 H0.
  induction cfs as [|cf cfs IH]; intros c0 H0; cbn [fold_left]; [exact H0|].
  apply IH. destruct (chan_parse cf) as [[hd dom]|]; [|exact H0].
  apply (Quiet_trans c c0); [exact H0|].
  destruct (ServerHandlers.leave_core_quiet cfg 0 me hd dom cf None c0) as (d & (_ & _ & E3 & E4) & Hd).
  split; [exact E3|]. exists d. split; [exact E4 | exact Hd].
Qed.

Lemma teardown_quiet cfg h c : Quiet c (teardown cfg h c).
Proof.
  unfold teardown. destruct (nlookup h (conns (st c))) as [cn|]; [|apply Quiet_refl].
  destruct (c_nid cn) as [me|]; [|apply Quiet_same; reflexivity].
  destruct (alookup (nu me) _) as [hs|]; [|apply Quiet_same; reflexivity].
  destruct (isempty _); [|apply Quiet_same; reflexivity].
  match goal with |- Quiet c (leave_all cfg me ?x) => apply (Quiet_trans c x); [apply Quiet_same; reflexivity | apply leave_all_quiet] end.
Qed.

Lemma teardowns_quiet cfg l : forall c, Quiet c (fold_left (fun acc h => teardown cfg h acc) l c).
Proof.
  induction l as [|x l IH]; intro c; cbn [fold_left]; [apply Quiet_refl|].
  apply (Quiet_trans c (teardown cfg x c)); [apply teardown_quiet | apply IH].
Qed.

Lemma teardowns_nlookup cfg k l : forall c,
  nlookup k (conns (st (fold_left (fun acc h => teardown cfg h acc) l c))) =
    if existsb (N.eqb k) l then None else nlookup k (conns (st c)).
Proof.
  induction l as [|x l IH]; intro c; cbn [fold_left existsb]; [reflexivity|].
  rewrite IH, teardown_nlookup. destruct (k =? x); cbn [orb]; destruct (existsb (N.eqb k) l); reflexivity.
Qed.

(* what flush_closes does to the connection table: exactly the queued handlers disappear *)
Lemma flush_closes_nlookup cfg c k :
  nlookup k (conns (st (flush_closes cfg c))) =
    if existsb (N.eqb k) (closing c) then None else nlookup k (conns (st c)).
Proof. unfold flush_closes. cbn [st]. apply teardowns_nlookup. Qed.

Lemma flush_closes_ends cfg c h o :
  Tracked c -> In o (outs (flush_closes cfg c)) -> ends h o ->
  nlookup h (conns (st (flush_closes cfg c))) = None.
Proof.
  intros HT Hin He. rewrite flush_closes_nlookup.
  assert (Hc : In h (closing c)).
  { unfold flush_closes in Hin. cbn [outs] in Hin.
    destruct (teardowns_quiet cfg (closing c) c) as (_ & d & Ho & Hd).
    rewrite Ho in Hin. apply in_app_or in Hin. destruct Hin as [Hin|Hin]; [exact (HT h o Hin He)|].
    rewrite Forall_forall in Hd. exfalso. exact (neutral_noend o (Hd o Hin) h He). }
  assert (E : existsb (N.eqb h) (closing c) = true).
  { apply existsb_exists. exists h. split; [exact Hc | apply N.eqb_refl]. }
  rewrite E. reflexivity.
Qed.

Lemma Tracked_start s sc hi : Tracked {| st := s; script := sc; hints := hi; outs := []; closing := [] |}.
Proof. intros h o []. Qed.

(* every OClose / ODrop output of a step (whatever the op) names a connection that is gone afterwards *)
Theorem C14_closed_connections_removed : forall cfg s o h o',
  In o' (snd (step cfg s o)) -> ends h o' ->
  nlookup h (conns (fst (step cfg s o))) = None.
Proof.
  intros cfg s o h o' Hin He.
  destruct o as [h0|h0 m p sc hi|h0|h0 bytes sc hi|h0 sc hi|ts pl]; cbn [step] in *.
  - exfalso. destruct (max_conns cfg <=? _); cbn [snd] in Hin; [|destruct Hin].
    destruct Hin as [<-|[]]. destruct He as [[m' K]|K]; discriminate.
  - cbn [fst snd] in *. eapply flush_closes_ends; [|exact Hin | exact He].
    apply on_frame_tracked, Tracked_start.
  - cbn [fst snd] in *. destruct (nlookup h0 (conns s)); [|destruct Hin].
    eapply flush_closes_ends; [|exact Hin | exact He].
    apply Tracked_request_close, Tracked_start.
  - cbn [fst snd] in *. destruct (nlookup h0 (conns s)); [|destruct Hin].
    eapply flush_closes_ends; [|exact Hin | exact He].
    apply (fold_left_ind Tracked); [|apply Tracked_start].
    intros a it Ha. apply on_item_tracked. exact Ha.
  - exfalso. cbn [fst snd] in *.
    match type of Hin with In _ (outs (teardown cfg h0 ?c0)) => destruct (teardown_quiet cfg h0 c0) as (_ & d & Ho & Hd) end.
    rewrite Ho in Hin. cbn [outs app] in Hin. rewrite Forall_forall in Hd.
    exact (neutral_noend o' (Hd o' Hin) h He).
  - exfalso. cbn [snd] in Hin. unfold direct_outs in Hin. apply in_flat_map in Hin.
    destruct Hin as (t & _ & Hin). destruct (alookup t (router s)); [|destruct Hin].
    apply in_map_iff in Hin. destruct Hin as (x & <- & _). exact (send_noend _ _ _ h He).
Qed.

Corollary C14_close_removes : forall cfg s o h m,
  In (OClose h m) (snd (step cfg s o)) -> nlookup h (conns (fst (step cfg s o))) = None.
Proof. intros cfg s o h m Hin. apply (C14_closed_connections_removed cfg s o h _ Hin). left. eexists. reflexivity. Qed.

Corollary C14_drop_removes : forall cfg s o h,
  In (ODrop h) (snd (step cfg s o)) -> nlookup h (conns (fst (step cfg s o))) = None.
Proof. intros cfg s o h Hin. apply (C14_closed_connections_removed cfg s o h _ Hin). right. reflexivity. Qed.

(* ====================================================================== *)
(* everything together                                                     *)
(* ====================================================================== *)
Definition Limits (cfg : scfg) (s : state) : Prop := ConnLimit cfg s /\ SubsInv cfg s /\ ChanCaps cfg s.

Theorem C14_limits_step : forall cfg s o, Limits cfg s -> Limits cfg (fst (step cfg s o)).
Proof.
  intros cfg s o (H1 & H2 & H3).
  split; [apply C14_connections_step, H1 | split; [apply C14_subscriptions_step, H2 | apply ChanCaps_step, H3]].
Qed.

(* no side condition on the ops is needed; in particular it holds under [ops_ok] *)
Theorem C14_limits_reachable : forall cfg ops,
  let s := run_state cfg init ops in
  N.of_nat (length (conns s)) <= max_conns cfg /\
  (length (conns s) <= N.to_nat (max_conns cfg))%nat /\
  (forall u l, alookup u (inch s) = Some l -> N.of_nat (length l) <= max_subs cfg) /\
  (forall hd ch, alookup hd (chans s) = Some ch ->
     ch_max_payload ch <= max_payload_cfg cfg /\ ch_max_clients ch <= max_clients cfg).
Proof.
  intros cfg ops. cbv zeta.
  split; [apply C14_connections|]. split; [apply C14_connections_nat|].
  split; [apply C14_subscriptions | apply ChanCaps_reachable].
Qed.

Corollary C14_limits_reachable_ok : forall cfg ops,
  ops_ok cfg init ops ->
  let s := run_state cfg init ops in Inv cfg s /\ Limits cfg s.
Proof.
  intros cfg ops Hok. cbv zeta. split; [apply inv_reachable, Hok|].
  destruct (C14_limits_reachable cfg ops) as (H1 & _ & H2 & H3).
  split; [exact H1 | split; [exact H2 | exact H3]].
Qed.

Print Assumptions nset_existing_length.
Print Assumptions C14_connections_step.
Print Assumptions C14_connections.
Print Assumptions C14_connections_nat.
Print Assumptions C14_open_refused.
Print Assumptions C14_open_accepted.
Print Assumptions C14_hangup_removes.
Print Assumptions C14_hangup_others.
Print Assumptions flush_closes_nlookup.
Print Assumptions C14_closed_connections_removed.
Print Assumptions C14_close_removes.
Print Assumptions C14_drop_removes.
Print Assumptions h_join_gates.
Print Assumptions C14_subscriptions_step.
Print Assumptions C14_subscriptions.
Print Assumptions C14_subscriptions_pos.
Print Assumptions C14_subscriptions_zero_first_join_refused.
Print Assumptions C14_channel_capacity_at_admission.
Print Assumptions C14_capacity_not_invariant.
Print Assumptions C14_payload.
Print Assumptions C14_payload_resolves.
Print Assumptions h_set_config_gates.
Print Assumptions on_frame_caps.
Print Assumptions ChanCaps_step.
Print Assumptions ChanCaps_reachable.
Print Assumptions C14_payload_cfg.
Print Assumptions C14_payload_reachable.
Print Assumptions h_set_acl_gates.
Print Assumptions C14_acl_entries.
Print Assumptions get_set_acl.
Print Assumptions get_set_acl_other.
Print Assumptions set_acl_unknown.
Print Assumptions C14_acl_unknown_type_acked_noop.
Print Assumptions C14_acl_bound_not_invariant.
Print Assumptions C14_limits_step.
Print Assumptions C14_limits_reachable.
Print Assumptions C14_limits_reachable_ok.
