(* Uniform specification of the ten authenticated request handlers: what they append to [outs],
   that they leave [conns], [router] and [closing] alone, and the shape of the error they return. *)
From NW Require Import Base.Bytes Model.SchemaTypes Model.Codec Model.MsgInfo Model.Ids Model.Framing Model.Server Gen.Schema Gen.Errors.
From NW Require Import Proofs.ServerLib Proofs.ServerRoute.

(* [c1] extends [c]: connection table, router and pending closes untouched, [d] appended to the outputs *)
Definition ext (c c1 : ctx) (d : list out) : Prop :=
  conns (st c1) = conns (st c) /\ router (st c1) = router (st c) /\ closing c1 = closing c /\
  outs c1 = outs c ++ d.

Lemma ext_refl c : ext c c [].
Proof. unfold ext. rewrite app_nil_r. auto. Qed.

Lemma ext_trans c c1 c2 d1 d2 : ext c c1 d1 -> ext c1 c2 d2 -> ext c c2 (d1 ++ d2).
Proof.
  unfold ext. intros (A1 & A2 & A3 & A4) (B1 & B2 & B3 & B4).
  repeat split; try congruence. rewrite B4, A4, app_assoc. reflexivity.
Qed.

Lemma appends_ext c c1 d : appends c c1 d -> ext c c1 d.
Proof. unfold appends, ext. intros (A1 & _ & _ & A4 & A5). rewrite A1. auto. Qed.

Lemma ext_emit o c : ext c (emit o c) [o].
Proof. apply appends_ext, emit_appends. Qed.

Lemma ext_with_st s c : conns s = conns (st c) -> router s = router (st c) -> ext c (with_st s c) [].
Proof. intros H1 H2. unfold ext, with_st. cbn. rewrite app_nil_r. auto. Qed.

Lemma ext_next_outcome c o c1 : next_outcome c = (o, c1) -> ext c c1 [].
Proof.
  intro H. apply next_outcome_spec in H as (S1 & _ & S3 & S4 & _).
  unfold ext. rewrite S1, S3, S4, app_nil_r. auto.
Qed.

Lemma ext_notify cfg kind handler n owner targets excl c b c1 :
  notify cfg kind handler n owner targets excl c = (b, c1) ->
  exists d, ext c c1 d /\ Forall neutral d /\ st c1 = st c /\ hints c1 = hints c.
Proof.
  intro H. apply notify_neutral in H as (H1 & H2 & H3 & d & H4 & H5).
  exists d. unfold ext. rewrite H1. auto.
Qed.

(* state updates that keep connections and router *)
Lemma index_del_conns u cf s : conns (index_del u cf s) = conns s.
Proof. unfold index_del. destruct (alookup u (inch s)); reflexivity. Qed.
Lemma index_del_router u cf s : router (index_del u cf s) = router s.
Proof. unfold index_del. destruct (alookup u (inch s)); reflexivity. Qed.

(* ---------- the reply discipline ---------- *)

Definition one_reply (h i : N) (d : list out) : Prop :=
  exists d1 a d2, d = d1 ++ OSend h a None :: d2 /\ Forall neutral d1 /\ Forall neutral d2 /\
                  correlation_id schema a = Some i.

Definition hspec (late : bool) (h i : N) (c : ctx) (r : hres) : Prop :=
  exists d, ext c (fst r) d /\
    match snd r with
    | None => one_reply h i d
    | Some (PErr (Some j) _) => j = i /\ Forall neutral d
    | Some (PErr None reason) => is_recoverable reason = false /\ Forall neutral d
    | Some PInternal => Forall neutral d \/ (late = true /\ one_reply h i d)
    end.

Lemma hspec_fail_none late h i c c1 d reason :
  ext c c1 d -> Forall neutral d -> is_recoverable reason = false ->
  hspec late h i c (fail c1 (PErr None reason)).
Proof. intros H1 H2 H3. exists d. cbn. auto. Qed.

Lemma hspec_fail_some late h i c c1 d reason :
  ext c c1 d -> Forall neutral d ->
  hspec late h i c (fail c1 (PErr (Some i) reason)).
Proof. intros H1 H2. exists d. cbn. auto. Qed.

Lemma hspec_fail_internal late h i c c1 d :
  ext c c1 d -> Forall neutral d ->
  hspec late h i c (fail c1 PInternal).
Proof. intros H1 H2. exists d. cbn. auto. Qed.

Lemma hspec_ok_emit late h i c c1 d a :
  ext c c1 d -> Forall neutral d -> correlation_id schema a = Some i ->
  hspec late h i c (ok (emit (OSend h a None) c1)).
Proof.
  intros H1 H2 H3. exists (d ++ [OSend h a None]). cbn [fst snd ok]. split.
  - eapply ext_trans; [exact H1 | apply ext_emit].
  - exists d, a, []. auto.
Qed.

Ltac fail0 := first [ apply (hspec_fail_none _ _ _ _ _ []); [apply ext_refl | constructor | reflexivity]
                    | apply (hspec_fail_some _ _ _ _ _ []); [apply ext_refl | constructor] ].

Lemma one_reply_mid h i a d1 d2 :
  Forall neutral d1 -> Forall neutral d2 -> correlation_id schema a = Some i ->
  one_reply h i ((d1 ++ [OSend h a None]) ++ d2).
Proof.
  intros H1 H2 H3. exists d1, a, d2. rewrite <- app_assoc. auto.
Qed.

Ltac use_notify :=
  match goal with
  | H : notify _ _ _ _ _ _ _ _ = (_, _) |- _ =>
      let d := fresh "d" in let He := fresh "He" in let Hn := fresh "Hn" in
      let Hs := fresh "Hs" in let Hh := fresh "Hh" in
      apply ext_notify in H as (d & He & Hn & Hs & Hh)
  end.

Ltac use_next :=
  match goal with
  | H : next_outcome _ = (_, _) |- _ =>
      let He := fresh "He" in pose proof (ext_next_outcome _ _ _ H) as He; clear H
  end.

Ltac solve_st :=
  cbn [conns router del_chan put_chan set_inch index_add];
  rewrite ?index_del_conns, ?index_del_router; reflexivity.

(* prove [ext c X ?d] for X built from emit / with_st / route over contexts related by [ext] hypotheses *)
Ltac solve_ext :=
  lazymatch goal with
  | |- ext ?c ?c _ => apply ext_refl
  | |- ext ?c (emit ?o ?x) _ => eapply (ext_trans c x); [solve_ext | apply ext_emit]
  | |- ext ?c (with_st ?s ?x) _ => eapply (ext_trans c x); [solve_ext | apply ext_with_st; solve_st]
  | |- ext ?c (route ?cfg ?m ?p ?ts ?e ?x) _ =>
      eapply (ext_trans c x); [solve_ext | apply appends_ext, route_exact]
  | |- ext ?c ?x _ =>
      match goal with
      | H : ext ?c0 x _ |- _ => eapply (ext_trans c c0); [solve_ext | exact H]
      end
  end.

Ltac solve_neutral :=
  repeat (apply Forall_app; split);
  first [ assumption | apply Forall_nil | apply route_outs_neutral; reflexivity
        | (apply Forall_cons; [exact I | apply Forall_nil]) ].

Ltac reply_last :=
  eexists _, _, []; split; [reflexivity | split; [solve_neutral | split; [apply Forall_nil | reflexivity]]].

Ltac leaf :=
  unfold hspec; eexists; split; [cbn [fst ok fail]; solve_ext |];
  cbn [snd ok fail];
  lazymatch goal with
  | |- one_reply _ _ _ => reply_last
  | |- _ /\ _ => split; [reflexivity | solve_neutral]
  | |- _ \/ _ => first [ left; solve_neutral | right; split; [reflexivity | reply_last] ]
  end.

Section Specs.
  Variable cfg : scfg.

  Lemma h_join_spec h me m c : hspec false h (get_num m "id") c (h_join cfg h me m c).
  Proof.
    unfold h_join. cbv zeta.
    repeat (break_match; cbv beta iota); repeat use_notify. all: leaf.
  Qed.

  (* a handler run that produces no reply at all (the disconnect clean-up) *)
  Definition qspec (c : ctx) (r : hres) : Prop := exists d, ext c (fst r) d /\ Forall neutral d.

  Lemma leave_core_spec h id me hd dom cf ob c :
    hspec true h id c (leave_core cfg (Some h) id me hd dom cf ob c).
  Proof.
    unfold leave_core. cbv zeta.
    repeat (break_match; cbv beta iota); repeat use_notify.
    all: leaf.
  Qed.

  Ltac qleaf := unfold qspec; eexists; split; [cbn [fst ok fail]; solve_ext | solve_neutral].

  Lemma leave_core_quiet id me hd dom cf ob c :
    qspec c (leave_core cfg None id me hd dom cf ob c).
  Proof.
    unfold leave_core. cbv zeta.
    repeat (break_match; cbv beta iota); repeat use_notify.
    all: qleaf.
  Qed.

  Lemma h_leave_spec h me m c : hspec true h (get_num m "id") c (h_leave cfg h me m c).
  Proof.
    unfold h_leave. cbv zeta.
    repeat (break_match; cbv beta iota); try apply leave_core_spec; leaf.
  Qed.

  Lemma h_channels_spec h me m c : hspec false h (get_num m "id") c (h_channels h me m c).
  Proof. unfold h_channels. cbv zeta. leaf. Qed.

  Lemma h_members_spec h me m c : hspec false h (get_num m "id") c (h_members cfg h me m c).
  Proof. unfold h_members. cbv zeta. repeat (break_match; cbv beta iota); leaf. Qed.

  Lemma h_get_acl_spec h me m c : hspec false h (get_num m "id") c (h_get_acl cfg h me m c).
  Proof. unfold h_get_acl. cbv zeta. repeat (break_match; cbv beta iota); leaf. Qed.

  Lemma h_set_acl_spec h me m c : hspec false h (get_num m "id") c (h_set_acl cfg h me m c).
  Proof. unfold h_set_acl. cbv zeta. repeat (break_match; cbv beta iota); leaf. Qed.

  Lemma h_get_config_spec h me m c : hspec false h (get_num m "id") c (h_get_config h me m c).
  Proof. unfold h_get_config. cbv zeta. repeat (break_match; cbv beta iota); leaf. Qed.

  Lemma h_set_config_spec h me m c : hspec false h (get_num m "id") c (h_set_config cfg h me m c).
  Proof. unfold h_set_config. cbv zeta. repeat (break_match; cbv beta iota); leaf. Qed.

  Lemma h_mod_direct_spec h me m pl c i :
    get_onum m "id" = Some i -> hspec false h i c (h_mod_direct cfg h me m pl c).
  Proof.
    intro Hi. unfold h_mod_direct. rewrite Hi. cbv zeta.
    repeat (break_match; cbv beta iota); repeat use_next; leaf.
  Qed.

  Lemma h_broadcast_spec h me m pl c : hspec false h (get_num m "id") c (h_broadcast cfg h me m pl c).
  Proof.
    unfold h_broadcast. cbv zeta.
    repeat (break_match; cbv beta iota); repeat use_next.
    all: try leaf.
    all: unfold hspec; eexists; (split; [cbn [fst ok fail]; solve_ext |]); cbn [snd ok fail];
      apply one_reply_mid; [solve_neutral | solve_neutral | reflexivity].
  Qed.

  Lemma hspec_weaken late h i c r : hspec false h i c r -> hspec late h i c r.
  Proof.
    intros (d & He & Hm). exists d. split; [exact He|].
    destruct (snd r) as [[[j|] reason|]|]; try exact Hm.
    destruct Hm as [Hm|[Hm _]]; [left; exact Hm | discriminate].
  Qed.

  Lemma get_onum_num m p i : get_onum m p = Some i -> get_num m p = i.
  Proof.
    unfold get_onum, get_num. destruct (getf m p) as [[ | | | |[n|]| | ]|]; intro H; congruence.
  Qed.

  Lemma h_mod_direct_spec' h me m pl c : hspec false h (get_num m "id") c (h_mod_direct cfg h me m pl c).
  Proof.
    destruct (get_onum m "id") as [i|] eqn:Hi.
    - rewrite (get_onum_num _ _ _ Hi). apply h_mod_direct_spec. exact Hi.
    - unfold h_mod_direct. rewrite Hi. repeat (break_match; cbv beta iota); leaf.
  Qed.

  (* every authenticated request, whatever its kind and parameters *)
  Lemma dispatch_auth_spec h me m p c :
    hspec (is_kind m "LEAVE") h (get_num m "id") c (dispatch_auth cfg h me m p c).
  Proof.
    unfold dispatch_auth. cbv zeta.
    destruct (is_kind m "BROADCAST"); [apply hspec_weaken, h_broadcast_spec|].
    destruct (is_kind m "GET_CHAN_ACL"); [apply hspec_weaken, h_get_acl_spec|].
    destruct (is_kind m "GET_CHAN_CONFIG"); [apply hspec_weaken, h_get_config_spec|].
    destruct (is_kind m "JOIN"); [apply hspec_weaken, h_join_spec|].
    destruct (is_kind m "LEAVE"); [apply h_leave_spec|].
    destruct (is_kind m "CHANNELS"); [apply hspec_weaken, h_channels_spec|].
    destruct (is_kind m "MEMBERS"); [apply hspec_weaken, h_members_spec|].
    destruct (is_kind m "MOD_DIRECT"); [apply hspec_weaken, h_mod_direct_spec'|].
    destruct (is_kind m "SET_CHAN_ACL"); [apply hspec_weaken, h_set_acl_spec|].
    destruct (is_kind m "SET_CHAN_CONFIG"); [apply hspec_weaken, h_set_config_spec|].
    leaf.
  Qed.
End Specs.

Print Assumptions dispatch_auth_spec.
Print Assumptions leave_core_quiet.
