"""Generic check for the properties decided on the server model (Model/Server.v):
proof gate (Props/<id>.vo + Print Assumptions) + correspondence of the real in-process server with
the model on generated histories (only the frames relevant to the property are compared) +
monitors on the implementation's traces."""
import json
import os

import serverlib as sl
import srvmon
from common import (coqchk, Rng, assumptions, coq_eval, coq_make, harness_build, hygiene, load_known, log, regen, seed,
                    write_evidence, write_replay, TRUSTED_BASE, VERIF)

ERR = ["ERROR"]
# property -> (frame kinds compared, modulator call tags compared, compare closes, monitor tags)
SPEC = {
    "C01": (["MESSAGE", "BROADCAST_ACK"] + ERR, [1], True, ["C01"]),
    "C02": (["MESSAGE", "BROADCAST_ACK"] + ERR, [1], True, ["C02"]),
    "C03": (["CHAN_ACL", "SET_CHAN_ACL_ACK", "JOIN_ACK", "MESSAGE", "BROADCAST_ACK"] + ERR, [], True, ["C03"]),
    "C04": (["SET_CHAN_ACL_ACK", "CHAN_ACL", "SET_CHAN_CONFIG_ACK", "CHAN_CONFIG", "MEMBERS_ACK", "JOIN_ACK", "LEAVE_ACK", "EVENT", "BROADCAST_ACK"] + ERR, [2], True, ["C04"]),
    "C05": (["CHANNELS_ACK", "MEMBERS_ACK", "JOIN_ACK", "LEAVE_ACK", "EVENT"] + ERR, [2], True, ["C05"]),
    "C06": (["CONNECT_ACK", "IDENTIFY_ACK", "AUTH_ACK"] + ERR, [0], True, []),
    "C07": (["IDENTIFY_ACK", "AUTH_ACK", "MESSAGE", "EVENT"] + ERR, [0, 1, 3], True, ["C07"]),
    "C08": (["MESSAGE", "BROADCAST_ACK"] + ERR, [1], True, ["C08"]),
    "C09": (["AUTH_ACK", "IDENTIFY_ACK", "CONNECT_ACK"] + ERR, [0], True, ["C09"]),
    "C12": ([], [], True, ["C12"]),
    "C14": (["JOIN_ACK", "SET_CHAN_ACL_ACK", "SET_CHAN_CONFIG_ACK", "CHAN_CONFIG", "BROADCAST_ACK", "CONNECT_ACK"] + ERR, [], True, ["C14"]),
    "C17": (["MOD_DIRECT", "MOD_DIRECT_ACK"] + ERR, [3], True, ["C17"]),
    "C18": (["EVENT", "JOIN_ACK", "LEAVE_ACK"] + ERR, [2], True, ["C18"]),
}


def kinds_term(kinds):
    return "[" + ";".join('bs "%s"' % k for k in kinds) + "]"


# share of modulator histories run through the real S2M/M2S wire path (sl.to_via)
VIA_PROPS = {"C06": 0.5, "C08": 0.6, "C09": 0.6, "C17": 0.5, "C01": 0.3, "C02": 0.3, "C05": 0.2, "C18": 0.3, "C04": 0.2}


def gen_histories(r, n, prop, lo=10, hi=36):
    cases = []
    for i in range(n):
        mod = "rand"
        if prop in ("C08",):
            mod = r.choice([m for m in sl.MOD_CONFIGS if m and "fwd-broadcast-payload" in m["ops"] and "auth" not in m["ops"]])
        if prop in ("C09",):
            mod = sl.MOD_CONFIGS[-1] if r.random() < 0.8 else None
        if prop in ("C17",):
            mod = r.choice([m for m in sl.MOD_CONFIGS if m and "send-private-payload" in m["ops"] and "auth" not in m["ops"]] + [None])
        if prop in ("C07", "C03", "C04") and r.random() < 0.7:
            mod = None
        cfg = sl.base_cfg(r, mod)
        if prop == "C14":
            cfg.update({"max_clients": r.choice([0, 1, 2]), "max_subs": r.choice([0, 1, 2]), "max_conns": r.choice([1, 2, 3]),
                        "max_inflight": r.choice([0, 1, 2]), "max_channels": r.choice([0, 1, 2])})
        g = sl.Gen(r, cfg)
        ops = g.build(r.randint(lo, hi))
        if prop == "C05" or r.random() < 0.25:
            ops = ops + srvmon.audit_ops(g)
        case = {"cfg": cfg, "ops": ops}
        if prop in VIA_PROPS and cfg["mod"] and r.random() < VIA_PROPS[prop]:
            case = sl.to_via(case)
        cases.append(case)
    return cases


def load_corpus(prop):
    out = []
    d = os.path.join(VERIF, "corpus", prop)
    if os.path.isdir(d):
        for fn in sorted(os.listdir(d)):
            with open(os.path.join(d, fn)) as f:
                out += json.load(f)
    return out


def shrink(case, fails):
    """delta-debugging on the op list (keeps opens); `fails(case) -> bool`"""
    ops = case["ops"]
    n = 2
    budget = 40
    while len(ops) > 2 and budget > 0:
        chunk = max(1, len(ops) // n)
        reduced = False
        for i in range(0, len(ops), chunk):
            cand = ops[:i] + ops[i + chunk:]
            budget -= 1
            if budget <= 0:
                break
            if cand and fails({"cfg": case["cfg"], "ops": cand}):
                ops = cand
                n = max(n - 1, 2)
                reduced = True
                break
        if not reduced:
            if chunk == 1:
                break
            n = min(n * 2, len(ops))
    return {"cfg": case["cfg"], "ops": ops}


CONC_PROPS = {"C01", "C02", "C03", "C04", "C05", "C06", "C07", "C12", "C14", "C17", "C18"}      # properties whose check includes the interleaved stage (lib/conclib.py)


def run(prop, theorems, tier, replay=None, extra_gen=None, known_classifier=None, rule_note="", link=(), extra_stage=None):
    thorough = tier == "thorough"
    r = Rng(seed())
    kinds, mk, cl, tags = SPEC[prop]
    broken = []
    ok_tr, tr_out = regen()
    if not ok_tr:
        broken.append("translator: " + tr_out)
    hyg = hygiene()
    if hyg:
        broken.append("forbidden vernacular: " + "; ".join(hyg))
    ok_model, mk1 = coq_make(["Conf/ServerConf.vo"])
    ok_props, mk2 = coq_make(["Props/%s.vo" % prop]) if ok_model else (False, mk1)
    closed = {}
    if ok_props:
        closed, aout = assumptions(prop, theorems, "Props.%s" % prop)
        if closed is None:
            ok_props, mk2, closed = False, aout, {}
    if not ok_props:
        broken.append("Props/%s.vo does not compile: %s" % (prop, (mk2 or "")[-1500:]))
    else:
        op = [t for t in theorems if closed.get(t) != "closed"]
        if op:
            broken.append("not closed under the global context: %s" % op)
    if thorough and ok_props:
        okc, summ = coqchk(prop)
        if not okc:
            broken.append("independent checker: " + summ)
    okb, bout = harness_build("debug")
    if not okb:
        rp = write_replay(prop, "harness_build", {"what": "harness does not build against /repo", "log": bout[-4000:]})
        write_evidence(prop, tier, {"obligations": len(theorems), "discharged": 0, "checker_cmd": "make", "trusted_base": TRUSTED_BASE}, [], 1)
        print(f"VIOLATION property={prop} replay={rp} no-failing-input-found")
        return 1

    known = {k["id"]: k for k in load_known(prop)}
    known_seen = {}
    violations, disagreements = [], []
    stats = {"histories": 0, "ops": 0, "op_kinds": {}, "frames_observed": {}, "mod_configs": {}, "closed_connections": 0}
    samples = []
    distinct = set()

    def observe(cases, tag):
        obs, hout = sl.run_histories(cases, "debug", tag=tag, timeout=1500)
        if obs is None:
            violations.append((prop, "server harness crashed or hung (whole worker wedged?): " + hout[-400:], cases[0] if cases else {}, 0))
            return None
        return obs

    def monitor(case, ob):
        v = []
        if "ops" not in ob:
            return [(prop, "setup error: " + str(ob)[:200], 0)]
        v += srvmon.Tracker(case, ob).run()
        v += srvmon.audit_check(case, ob)
        v += srvmon.acl_check(case, ob)
        v += srvmon.stalled_resume_check(case, ob)
        for t, o in enumerate(ob["ops"]):
            for k, e in o.get("ended", {}).items():
                if e.get("panicked"):
                    v.append(("PANIC", f"connection task {k} panicked", t))
        also = set(case.get("also", []))      # a directed history may name further monitors whose verdicts bear on this property
        return [x for x in v if x[0] in tags or x[0] in also or x[0] == "PANIC"]

    def search(cases, tag):
        obs = observe(cases, tag)
        if obs is None:
            return
        stats["histories"] += len(cases)
        for c, ob in zip(cases, obs):
            key = json.dumps(c["ops"], sort_keys=True)
            if "ops" in ob and any(o["conns"] for o in ob["ops"]):
                distinct.add(key)
            stats["ops"] += len(c["ops"])
            mname = "none" if not c["cfg"]["mod"] else "+".join(c["cfg"]["mod"]["ops"]) + (" via-s2m-link" if c["cfg"]["mod"].get("via") else "")
            stats["mod_configs"][mname] = stats["mod_configs"].get(mname, 0) + 1
            for op in c["ops"]:
                kind = op["t"] if op["t"] != "send" else bytes.fromhex(op["bytes"]).split(b" ")[0].decode("latin1")[:24]
                stats["op_kinds"][kind] = stats["op_kinds"].get(kind, 0) + 1
            for o in ob.get("ops", []):
                for v in o["conns"].values():
                    stats["closed_connections"] += 1 if v["closed"] else 0
                    for f in v["frames"]:
                        if "undecodable" not in f:
                            n = sl.frame_name(f)
                            if n == "ERROR":
                                n = "ERROR:" + bytes.fromhex(sl.frame_get(f, "reason")).decode()
                            stats["frames_observed"][n] = stats["frames_observed"].get(n, 0) + 1
            for (tagv, what, t) in monitor(c, ob):
                kid = known_classifier(tagv, what, c, ob, t) if known_classifier else None
                if kid and kid in known:
                    known_seen.setdefault(kid, c)
                else:
                    violations.append((tagv, what, c, t))
        if ok_model:
            terms, flags = sl.conf_terms(cases, obs)
            kargs = "%s [%s] %s " % (kinds_term(kinds), ";".join(str(x) for x in mk), "true" if cl else "false")
            terms = [(t.replace("conf_case_x ", "conf_case_kx " + kargs, 1) if t.startswith("conf_case_x ") else t.replace("conf_case ", "conf_case_k " + kargs, 1))
                     if t != "false" else t for t in terms]
            bad, cout = coq_eval(sl.PRELUDE, terms, kind="bool", tag=tag + "c")
            if bad is None:
                broken.append("correspondence could not be evaluated: " + cout[-600:])
            else:
                for i in bad:
                    disagreements.append({"case": cases[i], "parsable": flags[i]})
        if not samples and cases:
            samples.append({"cfg": cases[0]["cfg"], "ops": cases[0]["ops"][:6]})

    link_stats = {}

    def link_search(lcases, ccases, tag):
        """modulator-link stage (lib/linklib.py): real S2M/M2S dispatchers and real S2mClient vs Model/Link.v"""
        import linklib as ll
        okl, mkl = coq_make(["Conf/LinkConf.vo"])
        if not okl:
            broken.append("Conf/LinkConf.vo does not compile: " + (mkl or "")[-800:])
        want = set(tags) | {prop, "PANIC"}
        if lcases:
            obs, hout = ll.run_link(lcases, tag=tag + "l")
            if obs is None:
                violations.append((prop, "link harness crashed or hung: " + hout[-300:], lcases[0], 0))
            else:
                link_stats["link_histories"] = link_stats.get("link_histories", 0) + len(lcases)
                link_stats["link_chunks"] = link_stats.get("link_chunks", 0) + sum(len(c["ops"]) for c in lcases)
                for c, ob in zip(lcases, obs):
                    k = c["kind"] + (" secret" if c["cfg"]["secret"] else " no-secret")
                    link_stats.setdefault("link_kinds", {})
                    link_stats["link_kinds"][k] = link_stats["link_kinds"].get(k, 0) + 1
                    for o in ob.get("ops", []):
                        for f in o["frames"]:
                            if "undecodable" not in f:
                                n = sl.frame_name(f)
                                if n == "ERROR":
                                    n = "ERROR:" + bytes.fromhex(sl.frame_get(f, "reason")).decode()
                                link_stats.setdefault("link_frames_observed", {})
                                link_stats["link_frames_observed"][n] = link_stats["link_frames_observed"].get(n, 0) + 1
                    for (tagv, what, t) in (ll.conc_monitor(c, ob) if c.get("conc") else ll.link_monitor(c, ob)):
                        if tagv in want:
                            violations.append((tagv, what, c, t))
                if okl:
                    seq = [(c, ob) for c, ob in zip(lcases, obs) if not c.get("conc")]
                    con = [(c, ob) for c, ob in zip(lcases, obs) if c.get("conc")]
                    lcases = [c for c, _ in seq] + [c for c, _ in con]
                    terms = ll.link_conf_terms([c for c, _ in seq], [o for _, o in seq]) + ll.conc_conf_terms([c for c, _ in con], [o for _, o in con])
                    bad, cout = coq_eval(ll.PRELUDE, terms, kind="bool", tag=tag + "lc")
                    if bad is None:
                        broken.append("link correspondence could not be evaluated: " + cout[-600:])
                    else:
                        for i in bad:
                            disagreements.append({"case": lcases[i], "parsable": True})
        if ccases:
            obs, hout = ll.run_client(ccases, tag=tag + "k")
            if obs is None:
                violations.append((prop, "s2mclient harness crashed or hung: " + hout[-300:], ccases[0], 0))
            else:
                link_stats["client_cases"] = link_stats.get("client_cases", 0) + len(ccases)
                for c, ob in zip(ccases, obs):
                    for call, o in zip(c["calls"], ob.get("calls", [])):
                        key = call["call"] + " -> " + (o["result"] if isinstance(o["result"], str) else sorted(o["result"])[0])
                        link_stats.setdefault("client_results", {})
                        link_stats["client_results"][key] = link_stats["client_results"].get(key, 0) + 1
                    for (tagv, what, t) in ll.client_monitor(c, ob):
                        if tagv in want:
                            violations.append((tagv, what, c, t))
                if okl:
                    terms, index = ll.client_conf_terms(ccases, obs)
                    bad, cout = coq_eval(ll.PRELUDE, terms, kind="bool", tag=tag + "kc")
                    if bad is None:
                        broken.append("client correspondence could not be evaluated: " + cout[-600:])
                    else:
                        for ci in sorted(set(index[b][0] for b in bad)):
                            disagreements.append({"case": ccases[ci], "parsable": True})

    conc_stats = {}

    def conc_search(ccases, tag):
        """interleaved stage (lib/conclib.py): requests suspended in parked modulator calls / waiting for channel locks while
        others run, connections go away and names come back.  The real server's observation must be explained by SOME
        schedule of Model/Conc.v (Conf/ConcConf.conc_case, decided by coqc); interleaving-aware monitors judge the traces."""
        import conclib as cl
        okc, mkc = coq_make(["Conf/ConcConf.vo"])
        if not okc:
            broken.append("Conf/ConcConf.vo does not compile: " + (mkc or "")[-800:])
        if not ccases:
            return
        obs, spinning, blocked = cl.run_conc(ccases, tag + "i")
        for i in blocked:
            violations.append((prop, "the server process does not come back and is asleep: a blocked worker (same-thread deadlock?)", ccases[i], 0))
        if spinning:
            conc_stats["histories_skipped_runtime_never_idle"] = conc_stats.get("histories_skipped_runtime_never_idle", 0) + len(spinning)
        keep = [i for i in range(len(ccases)) if i not in spinning and i not in blocked]
        ccases, obs = [ccases[i] for i in keep], [obs[i] for i in keep]
        want = set(tags) | {prop, "PANIC"}
        conc_stats["interleaved_histories"] = conc_stats.get("interleaved_histories", 0) + len(ccases)
        conc_stats["interleaved_ops"] = conc_stats.get("interleaved_ops", 0) + sum(len(c["ops"]) for c in ccases)
        for c, ob in zip(ccases, obs):
            conc_stats.setdefault("interleaved_families", {})
            conc_stats["interleaved_families"][c["conc"]] = conc_stats["interleaved_families"].get(c["conc"], 0) + 1
            conc_stats["parked_calls"] = conc_stats.get("parked_calls", 0) + sum(1 for op in c["ops"] for x in (op.get("script") or []) if isinstance(x, dict) and "park" in x)
            for (tagv, what, t) in cl.monitor(c, ob) + [x for x in srvmon.audit_check(c, ob)]:
                if tagv == "K01a":
                    if prop == "C01" and "K01a" in known:
                        known_seen.setdefault("K01a", c)
                    elif prop == "C01":
                        violations.append(("C01", what, c, t))
                elif tagv in want:
                    violations.append((tagv, what, c, t))
        if okc:
            terms = [cl.case_term(c, ob) for c, ob in zip(ccases, obs)]
            vals, cout = coq_eval(cl.PRELUDE, terms, kind="N", tag=tag + "ic")
            if vals is None:
                broken.append("interleaved correspondence could not be evaluated: " + cout[-600:])
            else:
                # 1: some schedule of the model explains the observation; 0: none does; 2: undecided within the search budget
                conc_stats["interleaved_explained"] = conc_stats.get("interleaved_explained", 0) + sum(1 for v in vals if v == 1)
                conc_stats["interleaved_undecided_within_budget"] = conc_stats.get("interleaved_undecided_within_budget", 0) + sum(1 for v in vals if v == 2)
                for i, v in enumerate(vals):
                    if v == 0:
                        disagreements.append({"case": ccases[i], "parsable": True})

    if replay:
        with open(replay) as f:
            rj = json.load(f)
        rc = rj.get("cases", [])
        search([c for c in rc if "kind" not in c and "calls" not in c and "ops" in c and "cfg" in c and not c.get("conc")], "r")
        if prop in CONC_PROPS:
            conc_search([c for c in rc if c.get("conc") and "ops" in c and "cfg" in c], "r")
        if extra_stage and any("ops" not in c for c in rc):
            extra_stage(thorough, violations, link_stats)      # (a boot / contention witness is re-run, not replayed)
        link_search([c for c in rc if "kind" in c], [c for c in rc if "calls" in c], "r")
    else:
        corpus = load_corpus(prop)
        n = 1500 if thorough else 160
        cases = corpus + gen_histories(r, n, prop) + (extra_gen(r, thorough) if extra_gen else [])
        search(cases, "q")
        if link:
            import linklib as ll
            link_search((ll.gen_link_histories(r, 1500 if thorough else 150) + ll.gen_conc_link_histories(r, 400 if thorough else 40)) if "link" in link else [],
                        ll.gen_client_cases(r, 600 if thorough else 60) if "client" in link else [], "q")
        if extra_stage:
            extra_stage(thorough, violations, link_stats)
        if prop in CONC_PROPS:
            import conclib as cl
            conc_search(cl.histories(r, thorough), "q")
        if (broken or disagreements) and not violations:
            log("proof/correspondence broken; extended search", (broken or [""])[0][:300])
            more = gen_histories(Rng(seed() + 7919), 300, prop, 10, 40)
            for d in disagreements[:20]:
                if "kind" not in d["case"] and "calls" not in d["case"] and not d["case"].get("conc"):
                    more.append(d["case"])
            search(more, "x")
            if prop in CONC_PROPS:
                import conclib as cl
                conc_search(cl.histories(Rng(seed() + 15485863), True), "x")
            if link:
                link_search((ll.gen_link_histories(Rng(seed() + 104729), 600) + ll.gen_conc_link_histories(Rng(seed() + 104729), 200)) if "link" in link else [],
                            ll.gen_client_cases(Rng(seed() + 104729), 300) if "client" in link else [], "x")

    coverage = {
        "obligations": len(theorems), "discharged": len([t for t in theorems if closed.get(t) == "closed"]),
        "checker_cmd": "python3 translator/gen.py && make -C coq -j16 Props/%s.vo Conf/ServerConf.vo && coqc work/assm_%s.v (Print Assumptions)" % (prop, prop),
        "trusted_base": TRUSTED_BASE, "theorems": theorems, "print_assumptions": closed,
        "evaluations": stats["histories"], "distinct_nontrivial": len(distinct),
        "rule": "random mostly-valid client histories (opens, CONNECT/IDENTIFY or AUTH, joins incl. on-behalf, leaves, broadcasts with binary payloads, listings with boundary page values, ACL/config changes, direct messages, odd/out-of-phase frames, hangups; scripted modulator outcomes) run against the real in-process server under virtual time; the Coq model replays the same ops and coqc decides agreement on the frames relevant to this property (%s); distinct non-trivial = distinct op lists in which at least one frame was received. %s" % (", ".join(kinds) or "all", rule_note),
        "traces_validated_against_impl": stats["histories"], "disagreements": len(disagreements),
        "distribution": dict(dict(stats, **link_stats), **conc_stats), "samples": samples, "known_findings_reproduced": sorted(known_seen), "exhaustive": False,
    }
    assum = ["Model/Server.v is hand-written (sequential semantics: one client action processed to quiescence, modulator calls answered immediately from a script); tied to the code by the correspondence; HashSet iteration order (new-owner pick, clean-up order) is an oracle input taken from the observation",
             "tokio scheduling, async_lock::RwLock, DashMap atomicity are modelled, not verified; cross-thread interleavings are outside the sequential theorems"]
    if violations:
        tagv, what, c, t = violations[0]
        rp = write_replay(prop, "violation", {"what": what, "op_index": t, "cases": [c], "all": [w for _, w, _, _ in violations[:20]], "broken": broken})
        write_evidence(prop, tier, coverage, assum, len(violations))
        print(f"VIOLATION property={prop} replay={rp}")
        log(what)
        return 1
    if broken or disagreements:
        rp = write_replay(prop, "broken", {"what": "no failing input found; the following no longer checks", "broken": broken,
                                           "correspondence": "Conf/ServerConf.conf_case_k (%s)%s" % (",".join(kinds), "; Conf/ConcConf.conc_case (interleaved histories)" if any(d["case"].get("conc") for d in disagreements) else ""),
                                           "cases": [d["case"] for d in disagreements[:5]]})
        write_evidence(prop, tier, coverage, assum, 1)
        print(f"VIOLATION property={prop} replay={rp} no-failing-input-found")
        return 1
    for kid in sorted(known):
        if kid in known_seen:
            print(f"KNOWN-FINDING: property={prop} {kid} {known[kid]['what']}")
    write_evidence(prop, tier, coverage, assum, 0)
    return 0
