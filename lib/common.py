"""Shared machinery of bin/check: translator run, Coq build, hygiene gates, harness build/run,
Coq-side case evaluation (vm_compute in coqc shards), evidence, verdict lines."""
import concurrent.futures
import glob
import hashlib
import json
import os
import random
import re
import shutil
import subprocess
import sys
import time

VERIF = os.path.dirname(os.path.dirname(os.path.abspath(__file__)))
REPO = os.environ.get("VERIF_REPO", "/repo")
COQ = os.path.join(VERIF, "coq")
HARNESS = os.path.join(VERIF, "harness")
WORK = os.path.join(VERIF, "work")
REPLAYS = os.path.join(WORK, "replays")
EVID = os.path.join(VERIF, "evidence")

ENV = dict(os.environ)
ENV.update({"CARGO_NET_OFFLINE": "true", "RUSTFLAGS": "--cfg tokio_unstable --cfg narwhal_verif"})

T0 = time.time()


def log(*a):
    print("[check]", *a, file=sys.stderr, flush=True)


def sh(cmd, cwd=None, timeout=1200, env=None, inp=None):
    try:
        p = subprocess.run(cmd, cwd=cwd, env=env or ENV, stdout=subprocess.PIPE, stderr=subprocess.STDOUT,
                           timeout=timeout, input=inp, text=True, shell=isinstance(cmd, str))
        return p.returncode, p.stdout
    except subprocess.TimeoutExpired as e:
        out = e.stdout if isinstance(e.stdout, str) else (e.stdout or b"").decode("utf-8", "replace")
        return 124, (out or "") + "\n[timeout]"


class Rng(random.Random):
    """the single PRNG; seeded from VERIF_SEED"""
    pass


def seed():
    try:
        return int(os.environ.get("VERIF_SEED", "1"))
    except ValueError:
        return 1


# ------------------------------------------------------------------ translator / coq

def regen():
    rc, out = sh([sys.executable, os.path.join(VERIF, "translator/gen.py")], timeout=120)
    return rc == 0, out.strip()


def coq_makefile():
    mk = os.path.join(COQ, "Makefile")
    cp = os.path.join(COQ, "_CoqProject")
    if not os.path.exists(mk) or os.path.getmtime(mk) < os.path.getmtime(cp):
        rc, out = sh("coq_makefile -f _CoqProject -o Makefile", cwd=COQ, timeout=120)
        if rc != 0:
            return False, out
    return True, ""


def coq_make(targets, timeout=1500):
    """full .vo build of the given targets (and their dependencies); returns (ok, log)"""
    ok, out = coq_makefile()
    if not ok:
        return False, out
    rc, out = sh(["make", "-j16"] + list(targets), cwd=COQ, timeout=timeout)
    return rc == 0, out


FORBIDDEN = re.compile(
    r"\b(Admitted|admit|Axiom|Axioms|Parameter|Parameters|Conjecture|Conjectures|Abort All|Admit Obligations|"
    r"Unset Guard Checking|Unset Positivity Checking|Unset Universe Checking|bypass_check|native_compute|"
    r"type-in-type|impredicative-set)\b")


def strip_coq_comments(src):
    out = []
    depth = 0
    i = 0
    while i < len(src):
        if src.startswith("(*", i):
            depth += 1
            i += 2
        elif src.startswith("*)", i) and depth > 0:
            depth -= 1
            i += 2
        else:
            if depth == 0:
                out.append(src[i])
            i += 1
    return "".join(out)


def hygiene():
    """no Admitted/Axiom/... anywhere in the development (comments and strings excluded)"""
    bad = []
    for p in glob.glob(os.path.join(COQ, "**/*.v"), recursive=True):
        with open(p, encoding="utf-8") as f:
            src = strip_coq_comments(f.read())
        src = re.sub(r'"[^"]*"', '""', src)
        for m in FORBIDDEN.finditer(src):
            # `Variable/Hypothesis` are only allowed inside sections; checked separately
            bad.append(f"{os.path.relpath(p, VERIF)}: {m.group(0)}")
        # Variable / Hypothesis / Context outside a section
        depth = 0
        for line in src.split("\n"):
            s = line.strip()
            if re.match(r"Section\s+\w+", s):
                depth += 1
            elif re.match(r"End\s+\w+", s) and depth > 0:
                depth -= 1
            elif depth == 0 and re.match(r"(Variable|Variables|Hypothesis|Hypotheses|Context)\b", s):
                bad.append(f"{os.path.relpath(p, VERIF)}: `{s[:40]}` outside a section")
    with open(os.path.join(COQ, "_CoqProject")) as f:
        cp = f.read()
    for w in ("-type-in-type", "-impredicative-set", "-native-compiler yes", "-vos", "-vok"):
        if w in cp:
            bad.append("_CoqProject: " + w)
    return bad


ALLOWED_AXIOMS = set()   # none: every property theorem must be closed under the global context


def assumptions(prop, theorems, module):
    """run Print Assumptions on each pinned theorem; returns {thm: 'closed' | [axioms]} or error text"""
    os.makedirs(WORK, exist_ok=True)
    src = "From NW Require Import %s.\n" % module
    for t in theorems:
        src += 'Goal True. idtac "@@ %s". exact I. Qed.\nPrint Assumptions %s.\n' % (t, t)
    p = os.path.join(WORK, "assm_%s.v" % prop)
    with open(p, "w") as f:
        f.write(src)
    rc, out = sh(["coqc", "-noglob", "-Q", COQ, "NW", p], cwd=WORK, timeout=600)
    if rc != 0:
        return None, out
    res = {}
    parts = re.split(r"@@ (\S+)", out)
    for i in range(1, len(parts), 2):
        name, body = parts[i], parts[i + 1]
        if "Closed under the global context" in body:
            res[name] = "closed"
        else:
            ax = re.findall(r"^(\S+)\s*:", body, flags=re.M)
            res[name] = ax or ["<unparsed>"]
    return res, out


# ------------------------------------------------------------------ harness

def harness_lock():
    src = os.path.join(REPO, "Cargo.lock")
    dst = os.path.join(HARNESS, "Cargo.lock")
    if os.path.exists(src):
        a = open(src, "rb").read()
        if not os.path.exists(dst):
            open(dst, "wb").write(a)


_built = {}


def harness_build(profile="debug", timeout=1500):
    if profile in _built:
        return _built[profile]
    harness_lock()
    cmd = ["cargo", "build", "--offline"] + (["--release"] if profile == "release" else [])
    rc, out = sh(cmd, cwd=HARNESS, timeout=timeout)
    if rc != 0 and "Cargo.lock" in out:
        # lock file out of date w.r.t. /repo: refresh from /repo and retry once
        shutil.copy(os.path.join(REPO, "Cargo.lock"), os.path.join(HARNESS, "Cargo.lock"))
        rc, out = sh(cmd, cwd=HARNESS, timeout=timeout)
    _built[profile] = (rc == 0, out)
    return _built[profile]


def harness_bin(profile):
    return os.path.join(HARNESS, "target", "release" if profile == "release" else "debug", "nwv")


def run_harness(driver, cases, profile="debug", timeout=600, tag=""):
    os.makedirs(WORK, exist_ok=True)
    cin = os.path.join(WORK, f"h_{driver}_{tag}_{profile}_in.json")
    cout = os.path.join(WORK, f"h_{driver}_{tag}_{profile}_out.json")
    with open(cin, "w") as f:
        json.dump(cases, f)
    if os.path.exists(cout):
        os.remove(cout)
    rc, out = sh([harness_bin(profile), driver, cin, cout], timeout=timeout)
    if rc != 0 or not os.path.exists(cout):
        return None, f"harness {driver} exited {rc}: {out[-2000:]}"
    with open(cout) as f:
        return json.load(f), out


# ------------------------------------------------------------------ Coq-side evaluation

def coq_bytes(b):
    return "[" + ";".join(str(x) for x in b) + "]"


def _run_shard(args):
    idx, prelude, terms, kind, tag = args
    p = os.path.join(WORK, f"cases_{tag}_{idx}.v")
    with open(p, "w") as f:
        f.write(prelude + "\n")
        if kind == "bool":
            f.write("Definition cases : list bool := [\n" + ";\n".join(terms) + "\n].\n")
            f.write("Eval vm_compute in (failing cases).\n")
        else:
            f.write("Definition cases : list N := [\n" + ";\n".join(terms) + "\n].\n")
            f.write("Eval vm_compute in cases.\n")
    rc, out = sh("ulimit -s unlimited 2>/dev/null || ulimit -s 1000000 2>/dev/null; exec coqc -noglob -Q %s NW %s" % (COQ, p), cwd=WORK, timeout=900)
    if rc != 0:
        return idx, None, out
    m = re.search(r"=\s*\[(.*?)\]\s*(%N)?\s*:\s*list N", out, flags=re.S)
    if not m:
        m2 = re.search(r"=\s*nil\s*:\s*list N", out)
        if m2:
            return idx, [], out
        return idx, None, out
    nums = [int(x) for x in re.findall(r"\d+", m.group(1))]
    return idx, nums, out


def coq_eval(prelude, terms, kind="bool", tag="x", shards=16):
    """kind=bool: terms are Coq booleans; returns the list of indices that evaluate to false.
       kind=N: terms are Coq N values; returns the list of values.  (None, log) on a Coq error."""
    os.makedirs(WORK, exist_ok=True)
    n = len(terms)
    if n == 0:
        return [], ""
    # round-robin over the shards: neighbouring terms (e.g. the few very long histories a generator emits one after the other)
    # land in different coqc processes
    nsh = max(1, min(shards, n)) if n <= 400 * shards else (n + 399) // 400
    chunks = [(k, [terms[i] for i in range(k, n, nsh)]) for k in range(nsh)]
    jobs = [(k, prelude, ch, kind, tag) for k, (_, ch) in enumerate(chunks)]
    results = {}
    with concurrent.futures.ThreadPoolExecutor(max_workers=16) as ex:
        for idx, nums, out in ex.map(_run_shard, jobs):
            if nums is None:
                return None, out
            results[idx] = nums
    if kind == "bool":
        bad = []
        for k, (base, _) in enumerate(chunks):
            bad += [base + j * nsh for j in results[k]]
        return sorted(bad), ""
    vals = [None] * n
    for k, (base, ch) in enumerate(chunks):
        if len(results[k]) != len(ch):
            return None, f"shard {k}: expected {len(ch)} values, got {len(results[k])}"
        for j, v in enumerate(results[k]):
            vals[base + j * nsh] = v
    return vals, ""


# ------------------------------------------------------------------ verdicts / evidence

def load_known(prop):
    p = os.path.join(VERIF, "known_findings.json")
    if not os.path.exists(p):
        return []
    with open(p) as f:
        data = json.load(f)
    return [k for k in data.get("findings", []) if k.get("property") == prop and k.get("status") == "known"]


def write_replay(prop, name, obj):
    os.makedirs(REPLAYS, exist_ok=True)
    p = os.path.join(REPLAYS, f"{prop}_{name}.json")
    with open(p, "w") as f:
        json.dump(obj, f, indent=1)
    return p


def write_evidence(prop, tier, coverage, assumptions_list, violations, level="proof"):
    os.makedirs(EVID, exist_ok=True)
    ev = {
        "property_id": prop, "tier": tier, "seed": seed(), "level": level,
        "coverage": coverage, "assumptions": assumptions_list,
        "wall_s": round(time.time() - T0, 2), "violations": violations,
    }
    with open(os.path.join(EVID, f"{prop}.json"), "w") as f:
        json.dump(ev, f, indent=1)


TRUSTED_BASE = [
    "Coq 8.16.1 kernel (coqc, full .vo builds via coq_makefile; vm_compute used for finite-table obligations, witnesses and the correspondence; no native_compute)",
    "no axioms: Print Assumptions of every pinned theorem must report 'Closed under the global context' (checked on every run)",
    "translator/gen.py (regex transcription of message.rs/error.rs/acl.rs/event.rs/qos.rs tables and of listed constants; shape assertions fail loudly)",
    "correspondence harness /verif/harness (Rust, path deps on /repo/crates/*) and lib/*.py which feed the same inputs to model and implementation; agreement decided inside coqc",
    "no extraction is used",
]


def coqchk(prop, timeout=1500):
    """independent re-check of the compiled closure of Props/<prop>.vo; returns (ok, summary)"""
    rc, out = sh(["coqchk", "-o", "-silent", "-Q", COQ, "NW", "NW.Props.%s" % prop], cwd=COQ, timeout=timeout)
    m = re.search(r"\* Axioms:\s*(.*?)\n\s*\n", out, flags=re.S)
    axioms = m.group(1).strip() if m else "<unparsed>"
    return rc == 0 and axioms == "<none>", "coqchk rc=%d axioms=%s" % (rc, axioms)
