"""Modulator-link correspondence and monitors (C06 link part, C08/C09 client part, C17 M2S part):
 - driver "link": the real S2M / M2S dispatchers behind the real connection engine, fed raw bytes;
   compared chunk by chunk with Model/Link.v (Conf/LinkConf.link_conf), plus property monitors;
 - driver "s2mclient": the real S2mClient against a scripted wire peer; each call's result compared
   with Model/Link.v's reply mapping (Conf/LinkConf.client_conf), plus property monitors."""
import json

import codecgen as cg
import serverlib as sl
from common import coq_bytes, coq_eval, run_harness

PRELUDE = ("From NW Require Import Base.Bytes Model.SchemaTypes Gen.Schema Model.Codec Model.Ids Model.Server Model.Link Model.LinkConc "
           "Conf.CodecConf Conf.ServerConf Conf.LinkConf.\n")

OPS = ["auth", "fwd-broadcast-payload", "fwd-event", "send-private-payload", "recv-private-payload"]
SECRETS = ["", "", "s3cret", "a b", "x"]


def link_cfg(r):
    ops = [o for o in OPS if r.random() < 0.7] or [r.choice(OPS)]      # S2M_CONNECT_ACK needs a non-empty list
    return {"secret": r.choice(SECRETS), "keepalive_ms": r.choice([3600000, 5000000]), "min_keepalive_ms": r.choice([1000, 3600000]),
            "max_message": r.choice([256, 1024]), "max_payload": r.choice([256, 1024]), "max_inflight": r.choice([1, 2, 10, 10]),
            "max_conns": 4, "budget": 1 << 22, "ops": ops, "proto": r.choice(["TEST/1.0", "P/2"])}


def lcfg_term(c):
    b = lambda x: "true" if x else "false"
    o = c["ops"]
    return ("{| l_secret := %s; l_keepalive := %d; l_min_keepalive := %d; l_max_message := %d; l_max_payload := %d; "
            "l_max_inflight := %d; l_max_conns := %d; l_budget := %d; l_proto := bs \"%s\"; lop_auth := %s; lop_fbp := %s; "
            "lop_fev := %s; lop_spp := %s; lop_rpp := %s |}") % (
        coq_bytes(c["secret"].encode()), c["keepalive_ms"], c["min_keepalive_ms"], c["max_message"], c["max_payload"],
        c["max_inflight"], c["max_conns"], c["budget"], c["proto"], b("auth" in o), b("fwd-broadcast-payload" in o),
        b("fwd-event" in o), b("send-private-payload" in o), b("recv-private-payload" in o))


# ------------------------------------------------------------------ link (server side) histories
def connect_frame(r, kind, cfg, good):
    name = "S2M_CONNECT" if kind == "s2m" else "M2S_CONNECT"
    hb = r.choice([0, 1, 999, 1000, 5000, 3600000, 3600001, 4294967295])
    if good:
        sec = cfg["secret"] if cfg["secret"] else r.choice([None, None, "whatever"])
        return sl.frame(name, [("version", 1), ("secret", sec), ("heartbeat_interval", hb)])
    k = r.random()
    if k < 0.3:
        return sl.frame(name, [("version", r.choice([2, 65535, 3])), ("secret", cfg["secret"] or None), ("heartbeat_interval", hb)])
    if k < 0.55:
        return sl.frame(name, [("version", 1), ("heartbeat_interval", hb)])              # secret omitted
    if k < 0.8:
        return sl.frame(name, [("version", 1), ("secret", r.choice(["wrong", cfg["secret"] + "x", "S3CRET", " "])), ("heartbeat_interval", hb)])
    other = "M2S_CONNECT" if kind == "s2m" else "S2M_CONNECT"
    return sl.frame(other, [("version", 1), ("secret", cfg["secret"] or None), ("heartbeat_interval", hb)])


def rand_payload(r, cfg):
    n = r.choice([1, 2, 5, 255, 256, 257, cfg["max_payload"], cfg["max_payload"] + 1])
    if r.random() < 0.5:
        return bytes(r.randrange(256) for _ in range(n))
    return (b"S2M_AUTH id=9 token=x\nPING id=1\n" * (n // 10 + 1))[:n]


def request_frame(r, kind, cfg, rid):
    """one frame of the whole three-link vocabulary, mostly the link's own requests"""
    k = r.random()
    pl = rand_payload(r, cfg)
    if kind == "s2m" and k < 0.75:
        q = r.random()
        if q < 0.25:
            return sl.frame("S2M_AUTH", [("id", rid), ("token", r.choice(["tok", "a b", "x" * 40, "tok-2"]))])
        if q < 0.5:
            frm = r.choice(["alice@localhost", "bob@localhost", "localhost", "bad nid", "a@b@c", "@x", "x@"])
            return sl.frame("S2M_FORWARD_BROADCAST_PAYLOAD", [("id", rid), ("from", frm), ("channel", r.choice(["c1", "c2"])), ("length", len(pl))], pl)
        if q < 0.75:
            kindv = r.choice(["MEMBER_JOINED", "MEMBER_LEFT", "MEMBER_LEFT", "BOGUS", "member_left"])
            return sl.frame("S2M_FORWARD_EVENT", [("id", rid), ("channel", r.choice(["!c1@localhost", None])), ("kind", kindv),
                                                   ("nid", r.choice(["alice@localhost", None])), ("owner", r.choice([True, False, None]))])
        return sl.frame("S2M_MOD_DIRECT", [("id", rid), ("from", r.choice(["alice@localhost", "x"])), ("length", len(pl))], pl)
    if kind == "m2s" and k < 0.75:
        tg = r.choice([["alice"], ["alice", "bob"], ["alice", "alice"], ["nobody"], ["a b", "carol"]])
        return sl.frame("M2S_MOD_DIRECT", [("id", rid), ("targets", tg), ("length", len(pl))], pl)
    q = r.random()
    if q < 0.12:
        return sl.frame("PONG", [("id", r.choice([1, 7]))])
    if q < 0.22:
        return sl.frame("PING", [("id", 5)])
    if q < 0.32:
        return connect_frame(r, kind, cfg, True)                      # repeated handshake step
    if q < 0.42:
        return sl.frame("CONNECT", [("version", 1), ("heartbeat_interval", 0)])
    if q < 0.5:
        return sl.frame("IDENTIFY", [("username", "alice")])
    if q < 0.58:
        return sl.frame("BROADCAST", [("id", rid), ("channel", "!c1@localhost"), ("length", len(pl))], pl)
    if q < 0.66:
        return sl.frame("JOIN", [("id", rid), ("channel", "!c1@localhost")])
    if q < 0.74:
        other = "M2S_MOD_DIRECT" if kind == "s2m" else "S2M_MOD_DIRECT"
        extra = [("targets", ["alice"])] if kind == "s2m" else [("from", "x")]
        return sl.frame(other, [("id", rid)] + extra + [("length", len(pl))], pl)
    if q < 0.8:
        return sl.frame("S2M_AUTH_ACK", [("id", rid), ("username", "root"), ("succeeded", True)])
    if q < 0.86:
        return sl.frame("S2M_FORWARD_BROADCAST_PAYLOAD_ACK", [("id", rid), ("valid", True), ("altered_payload", False), ("altered_payload_length", 0)])
    if q < 0.9:
        return b"GARBAGE \xff\xfe\n"
    if q < 0.94:
        return b"S2M_AUTH id=0 token=x\n"
    if q < 0.97:
        return b"A" * (cfg["max_message"] + 5) + b"\n"
    return sl.frame("MOD_DIRECT", [("id", rid), ("from", "x"), ("length", len(pl))], pl)


def rand_outcome(r, first):
    k = r.random()
    if first == b"S2M_AUTH":
        if k < 0.4:
            return {"auth_success": r.choice([b"alice", b"bob", b"a b", b"x" * 300]).hex()}
        if k < 0.6:
            return {"auth_continue": r.choice([b"nonce-1", b"c d"]).hex()}
        if k < 0.8:
            return "auth_fail"
        return "err"
    if k < 0.4:
        return "ok"
    if k < 0.6:
        return "invalid"
    if k < 0.75:
        return "err"
    ln = r.choice([1, 5, 255, 256, 257, 1024, 1025])
    return {"altered": bytes(r.randrange(256) for _ in range(ln)).hex()}


def gen_link_histories(r, n):
    cases = []
    for _ in range(n):
        kind = r.choice(["s2m", "s2m", "m2s"])
        cfg = link_cfg(r)
        ops = []
        rid = 0
        # pre-handshake probing, then (mostly) a good handshake, then traffic
        for _ in range(r.choice([0, 0, 0, 1, 1, 2])):
            rid += 1
            data = request_frame(r, kind, cfg, rid) if r.random() < 0.6 else connect_frame(r, kind, cfg, False)
            ops.append({"t": "send", "bytes": data.hex(), "script": [rand_outcome(r, data.split(b" ")[0])]})
        if r.random() < 0.85:
            ops.append({"t": "send", "bytes": connect_frame(r, kind, cfg, True).hex(), "script": []})
        for _ in range(r.randint(1, 7)):
            rid += 1
            data = request_frame(r, kind, cfg, rid)
            if r.random() < 0.15 and cfg["max_inflight"] >= 10:      # two frames in one write
                rid += 1
                d2 = request_frame(r, kind, cfg, rid)
                ops.append({"t": "send", "bytes": (data + d2).hex(),
                            "script": [rand_outcome(r, data.split(b" ")[0]), rand_outcome(r, d2.split(b" ")[0])]})
            else:
                ops.append({"t": "send", "bytes": data.hex(), "script": [rand_outcome(r, data.split(b" ")[0])]})
        cases.append({"kind": kind, "cfg": cfg, "ops": ops})
    return cases


def run_link(cases, tag="link"):
    return run_harness("link", cases, "debug", tag=tag, timeout=1200)


def mods_term(log):
    mods = []
    for c in log:
        if c["call"] == "auth":
            mods.append("McAuth %s" % sl.hx(c["token"]))
        elif c["call"] == "fbp":
            mods.append("McFbp %s %s %s" % (sl.hx(c["from"]), sl.hx(c["channel"]), sl.hx(c["payload"])))
        elif c["call"] == "event":
            mods.append("McEvent %s %s %s %s" % (sl.hx(c["kind"]), sl.hx(c["channel"] or ""), sl.hx(c["nid"] or ""), "true" if c["owner"] else "false"))
        elif c["call"] == "spp":
            mods.append("McSpp %s %s" % (sl.hx(c["from"]), sl.hx(c["payload"])))
    return "[" + ";".join(mods) + "]"


def frames_term(frames):
    fl, ok = [], True
    for f in frames:
        if "undecodable" in f:
            ok = False
            continue
        nf = sl.normalise_frame(f)
        pl = "None" if f["payload"] is None else "(Some %s)" % sl.hx(f["payload"])
        if f["payload"] is not None and not f.get("payload_nl", True):
            ok = False
        fl.append("(%s, %s)" % (cg.coq_msg(nf), pl))
    return "[" + ";".join(fl) + "]", ok


def link_conf_terms(cases, obs):
    terms = []
    for c, ob in zip(cases, obs):
        if "ops" not in ob:
            terms.append("false")
            continue
        chunks, obts, good = [], [], True
        for op, o in zip(c["ops"], ob["ops"]):
            if o["closed"] and bytes.fromhex(op["bytes"]).count(b"\n") > 1 and len(op.get("script") or []) > 1:
                # several frames in one write and the link ended: how many of the frames queued behind the failing
                # one are still dispatched depends on task scheduling (the close travels through a channel); stop here
                break
            ft, ok = frames_term(o["frames"])
            good = good and ok and not o.get("leftover") and o.get("ended_panicked") is not True
            chunks.append("(%s, %s)" % (sl.hx(op["bytes"]), sl.script_term(op.get("script"))))
            routed = ";".join("([%s], %s)" % (";".join(sl.hx(t) for t in x["targets"]), sl.hx(x["payload"])) for x in o["routed"])
            obts.append("lob %s %s %s [%s]" % (ft, "true" if o["closed"] else "false", mods_term(o["mod"]), routed))
        terms.append("link_conf %s %s [%s] [%s]" % ("KS2m" if c["kind"] == "s2m" else "KM2s", lcfg_term(c["cfg"]),
                                                    ";".join(chunks), ";".join(obts)) if good else "false")
    return terms


def decode_line(raw):
    """(name, {param: value-bytes}) of a header line written by the test itself (well-formed)"""
    parts = raw.rstrip(b"\n").split(b" ")
    return parts[0], parts


def link_monitor(case, ob):
    """property-level checks on the implementation's trace, independent of the model.
    C06: until the link's CONNECT was acknowledged nothing reaches the modulator and nothing is routed; an
         acknowledgement is only ever given to a CONNECT of this link type with version=1 and (when a secret is
         configured) exactly that secret; any other first frame is answered with an ERROR and the link is closed;
         the phase never goes back (no second *_CONNECT_ACK)."""
    v = []
    if "ops" not in ob:
        return [("C06", "setup error " + str(ob)[:200], 0)]
    kind, cfg = case["kind"], case["cfg"]
    ackname = "S2M_CONNECT_ACK" if kind == "s2m" else "M2S_CONNECT_ACK"
    conname = (b"S2M_CONNECT" if kind == "s2m" else b"M2S_CONNECT")
    established = False
    closed = False
    for t, (op, o) in enumerate(zip(case["ops"], ob["ops"])):
        data = bytes.fromhex(op["bytes"])
        first = data.split(b"\n")[0]
        names = [sl.frame_name(f) for f in o["frames"] if "undecodable" not in f]
        if o.get("ended_panicked") is True:
            v.append(("PANIC", "link connection task panicked", t))
        acks = names.count(ackname)
        if acks:
            good = first.split(b" ")[0] == conname and b" version=1" in first
            if cfg["secret"]:
                want = b"secret=" + sl.enc_val(cfg["secret"])
                good = good and any(p == want for p in first.split(b" ")) if b" " not in cfg["secret"].encode() else good and want in first
            if established or acks > 1:
                v.append(("C06", "handshake acknowledged twice on one link", t))
            if not good:
                v.append(("C06", f"{ackname} given to a CONNECT that is not version=1 with the configured secret: {first[:80]!r}", t))
            established = True
        if not established or (acks and len(o["mod"]) + len(o["routed"]) > 0 and first.split(b" ")[0] == conname and b"\n" not in data[:-1]):
            if not established and (o["mod"] or o["routed"]):
                v.append(("C06", "a frame sent before the link handshake reached the modulator / the router", t))
        if not established and not closed and data and not acks:
            if "ERROR" not in names and not o["closed"]:
                v.append(("C06", f"pre-handshake frame neither refused nor the link closed: {first[:60]!r}", t))
            elif not o["closed"]:
                v.append(("C06", f"pre-handshake frame answered but the link stays open: {first[:60]!r}", t))
        closed = closed or o["closed"]
    return v


# ------------------------------------------------------------------ several requests in flight on one S2M link
def gen_conc_link_histories(r, n):
    """an established S2M link; 2-4 requests (distinct ids, distinct payloads) are written while the modulator
    implementation keeps every call suspended; the calls are then answered in a random order with random verdicts.
    Each reply must carry the id of the request whose call was answered (Model/LinkConc.v: replies in completion order)."""
    cases = []
    for _ in range(n):
        cfg = link_cfg(r)
        cfg.update({"ops": list(OPS), "max_inflight": 10, "max_message": 1024, "max_payload": 1024})
        ops = [{"t": "send", "bytes": sl.frame("S2M_CONNECT", [("version", 1), ("secret", cfg["secret"] or None), ("heartbeat_interval", 0)]).hex(), "script": []}]
        reqs = []
        k = r.randint(2, 4)
        for j in range(1, k + 1):
            rid = r.choice([3, 10, 77, 1000, 65000]) + j * 100000
            kindq = r.choice(["fbp", "fbp", "fbp", "auth", "spp", "event"])
            if kindq == "fbp":
                pl = bytes([64 + j]) * r.choice([1, 5, 40])
                frm, ch = "user%d@localhost" % j, "c%d" % j
                data = sl.frame("S2M_FORWARD_BROADCAST_PAYLOAD", [("id", rid), ("from", frm), ("channel", ch), ("length", len(pl))], pl)
                call = "McFbp %s %s %s" % (coq_bytes(frm.encode()), coq_bytes(ch.encode()), coq_bytes(pl))
                outcome = r.choice(["ok", "invalid", "err", {"altered": (b"ALT%d" % j).hex()}])
            elif kindq == "auth":
                tok = "tok-%d" % j
                data = sl.frame("S2M_AUTH", [("id", rid), ("token", tok)])
                call = "McAuth %s" % coq_bytes(tok.encode())
                outcome = r.choice([{"auth_success": (b"user%d" % j).hex()}, "auth_fail", {"auth_continue": (b"nonce%d" % j).hex()}, "err"])
            elif kindq == "spp":
                pl = bytes([96 + j]) * 3
                frm = "user%d@localhost" % j
                data = sl.frame("S2M_MOD_DIRECT", [("id", rid), ("from", frm), ("length", len(pl))], pl)
                call = "McSpp %s %s" % (coq_bytes(frm.encode()), coq_bytes(pl))
                outcome = r.choice(["ok", "invalid", "err"])
            else:
                nid = "user%d@localhost" % j
                data = sl.frame("S2M_FORWARD_EVENT", [("id", rid), ("channel", "!c1@localhost"), ("kind", "MEMBER_LEFT"), ("nid", nid), ("owner", False)])
                call = "McEvent %s %s %s false" % (coq_bytes(b"MEMBER_LEFT"), coq_bytes(b"!c1@localhost"), coq_bytes(nid.encode()))
                outcome = r.choice(["ok", "err"])
            ops.append({"t": "send", "bytes": data.hex(), "script": [{"park": j}], "req": j})
            reqs.append({"j": j, "id": rid, "call": call, "outcome": outcome, "kind": kindq})
        order = r.sample(reqs, len(reqs))
        for q in order:
            ops.append({"t": "release", "id": q["j"], "outcome": q["outcome"], "rel": q["j"]})
        cases.append({"kind": "s2m", "cfg": cfg, "ops": ops, "reqs": reqs, "order": [q["j"] for q in order], "conc": True})
    return cases


def conc_conf_terms(cases, obs):
    terms = []
    for c, ob in zip(cases, obs):
        if "ops" not in ob:
            terms.append("false")
            continue
        byj = {q["j"]: q for q in c["reqs"]}
        evs = ["LReq %d (%s)" % (q["id"], q["call"]) for q in c["reqs"]]
        evs += ["LAns %d (%s)" % (byj[j]["id"], sl.script_term([byj[j]["outcome"]])[1:-1]) for j in c["order"]]
        frames, good = [], True
        for op, o in list(zip(c["ops"], ob["ops"]))[1:]:
            ft, ok = frames_term(o["frames"])
            good = good and ok and not o.get("leftover") and o.get("ended_panicked") is not True
            frames.append(ft[1:-1])
        wire = ";".join(f for f in frames if f)
        closed = ob["ops"][-1]["closed"]
        terms.append("conc_conf %s 0 [%s] [%s] %s" % (lcfg_term(c["cfg"]), ";".join(evs), wire, "true" if closed else "false") if good else "false")
    return terms


def conc_monitor(case, ob):
    """C08/C09/C17 on the implementation alone: the frame written when call j is answered carries the id of request j and
    the verdict given for request j (a verdict must never travel under another request's id)"""
    v = []
    if "ops" not in ob:
        return [("C08", "setup error " + str(ob)[:200], 0)]
    byj = {q["j"]: q for q in case["reqs"]}
    for t, (op, o) in enumerate(zip(case["ops"], ob["ops"])):
        if o.get("ended_panicked") is True:
            v.append(("PANIC", "link connection task panicked", t))
        if "rel" not in op:
            continue
        q = byj[op["rel"]]
        tag = {"fbp": "C08", "auth": "C09", "spp": "C17", "event": "C18"}[q["kind"]]
        ids = [sl.frame_get(f, "id") for f in o["frames"] if "undecodable" not in f and sl.frame_get(f, "id") is not None]
        others = [i for i in ids if i != q["id"]]
        if others:
            v.append((tag, "the answer to request id=%d (%s, verdict %s) was written under the id of another request in flight: %s" % (
                q["id"], q["kind"], q["outcome"] if isinstance(q["outcome"], str) else sorted(q["outcome"])[0], others), t))
        elif not ids and not o["closed"]:
            v.append((tag, "the modulator answered request id=%d but nothing was written back" % q["id"], t))
        for f in o["frames"]:
            if "undecodable" in f or sl.frame_get(f, "id") != q["id"]:
                continue
            n = sl.frame_name(f)
            if q["kind"] == "fbp" and n == "S2M_FORWARD_BROADCAST_PAYLOAD_ACK":
                valid = sl.frame_get(f, "valid")
                want = q["outcome"] == "ok" or isinstance(q["outcome"], dict)
                if bool(valid) != want:
                    v.append(("C08", "request id=%d was answered valid=%s although the modulator said %s" % (q["id"], valid, q["outcome"]), t))
            if q["kind"] == "auth" and n == "S2M_AUTH_ACK":
                if bool(sl.frame_get(f, "succeeded")) != (isinstance(q["outcome"], dict) and "auth_success" in q["outcome"]):
                    v.append(("C09", "authentication request id=%d answered succeeded=%s although the modulator said %s" % (q["id"], sl.frame_get(f, "succeeded"), q["outcome"]), t))
    return v


# ------------------------------------------------------------------ S2mClient cases
def handshake_bytes(ops, max_message=1024, max_payload=1024, proto="TEST/1.0"):
    return sl.frame("S2M_CONNECT_ACK", [("application_protocol", proto), ("operations", ops or None), ("heartbeat_interval", 3600000),
                                        ("max_inflight_requests", 10), ("max_message_size", max_message), ("max_payload_size", max_payload)])


def client_reply(r, call):
    """(reply bytes or None, close flag): the wire peer's answer, mostly sensible, often contradictory"""
    k = r.random()
    pl = bytes(r.randrange(256) for _ in range(r.choice([1, 5, 64, 255])))
    if k < 0.08:
        return None, r.random() < 0.5
    if k < 0.14:
        return sl.frame("ERROR", [("id", "@ID@"), ("reason", "INTERNAL_SERVER_ERROR")]), False
    if k < 0.18:
        return sl.frame("ERROR", [("reason", "INTERNAL_SERVER_ERROR")]), True
    if k < 0.22:
        return b"GARBAGE\n", False
    wrong_id = r.random() < 0.06
    idv = "7777" if wrong_id else "@ID@"
    kind = call if r.random() < 0.9 else r.choice(["auth", "fbp", "event", "spp"])
    if kind == "auth":
        succ = r.random() < 0.5
        user = r.choice([None, "alice", "victim", "a b"]) if r.random() < 0.7 else None
        if succ and r.random() < 0.8:
            user = user or "alice"
        chal = r.choice([None, None, "nonce"])
        return sl.frame("S2M_AUTH_ACK", [("id", idv), ("challenge", chal), ("username", user), ("succeeded", succ)]), False
    if kind == "fbp":
        valid = r.random() < 0.6
        alt = r.random() < 0.5
        ln = len(pl) if alt else r.choice([0, 0, 3])
        if alt and r.random() < 0.1:
            ln = 5000                          # announces more than the session's max_payload_size
            return sl.frame("S2M_FORWARD_BROADCAST_PAYLOAD_ACK", [("id", idv), ("valid", valid), ("altered_payload", True), ("altered_payload_length", ln)]) + pl + b"\n", False
        full = sl.frame("S2M_FORWARD_BROADCAST_PAYLOAD_ACK", [("id", idv), ("valid", valid), ("altered_payload", alt), ("altered_payload_length", ln)],
                        pl if alt else None)
        if alt and len(pl) > 1 and r.random() < 0.2:
            # the reply is cut inside the altered payload and the link drops there (a modulator that merely goes silent would
            # leave the reader inside that payload and make the NEXT call's reply part of it: not judged call by call)
            head = full.index(b"\n") + 1
            return full[:head + r.randrange(0, len(pl))], True
        return full, False
    if kind == "event":
        return sl.frame("S2M_FORWARD_EVENT_ACK", [("id", idv)]), False
    return sl.frame("S2M_MOD_DIRECT_ACK", [("id", idv), ("valid", r.random() < 0.6)]), False


def gen_client_cases(r, n):
    cases = []
    for _ in range(n):
        ops = [o for o in OPS if r.random() < 0.93]
        calls = []
        for _ in range(r.randint(2, 6)):
            call = r.choice(["auth", "fbp", "fbp", "event", "spp"])
            reply, close = client_reply(r, call)
            c = {"call": call, "reply": reply.hex() if reply is not None else None, "close": close}
            if call == "auth":
                c["token"] = b"tok".hex()
            elif call == "fbp":
                c.update({"payload": bytes(r.randrange(256) for _ in range(r.choice([1, 10, 200]))).hex(), "from": b"alice@localhost".hex(), "channel": b"c1".hex()})
            elif call == "event":
                c.update({"kind": r.choice(["MEMBER_JOINED", "MEMBER_LEFT"]), "channel": b"!c1@localhost".hex(), "nid": b"alice@localhost".hex(), "owner": r.random() < 0.5})
            else:
                c.update({"payload": b"hello".hex(), "from": b"alice@localhost".hex()})
            calls.append(c)
        cases.append({"cfg": {"client_timeout_ms": 50, "backoff_initial_ms": 1, "backoff_max_ms": 2}, "ops": ops,
                      "handshake": handshake_bytes(ops).hex(), "calls": calls})
    return cases


def run_client(cases, tag="s2mc"):
    return run_harness("s2mclient", cases, "debug", tag=tag, timeout=1200)


TAG = {"auth": 0, "fbp": 1, "event": 2, "spp": 3}
OPNAME = {"auth": "auth", "fbp": "fwd-broadcast-payload", "event": "fwd-event", "spp": "send-private-payload"}


def result_term(res):
    if res == "ok":
        return "RValid"
    if res == "invalid":
        return "RInvalid"
    if res == "auth_fail":
        return "RAuthFail"
    if res == "err":
        return "RErr"
    if res == "panic":
        return "RPanic"
    if isinstance(res, dict) and "altered" in res:
        return "(RAltered %s)" % sl.hx(res["altered"])
    if isinstance(res, dict) and "auth_success" in res:
        return "(RAuthSuccess %s)" % sl.hx(res["auth_success"])
    if isinstance(res, dict) and "auth_continue" in res:
        return "(RAuthContinue %s)" % sl.hx(res["auth_continue"])
    return None


def seen_id(o):
    """correlation id of the request the peer received for this call (None when none arrived)"""
    for f in o["seen"]:
        if "handshake" in f or "undecodable" in f:
            continue
        v = sl.frame_get(f, "id")
        if v is not None:
            return v
    return None


def client_conf_terms(cases, obs):
    """one term per call; returns (terms, index) with index[i] = (case#, call#)"""
    terms, index = [], []
    for ci, (c, ob) in enumerate(zip(cases, obs)):
        if "calls" not in ob:
            terms.append("false")
            index.append((ci, -1))
            continue
        for j, (call, o) in enumerate(zip(c["calls"], ob["calls"])):
            rt = result_term(o["result"])
            declared = OPNAME[call["call"]] in c["ops"]
            rid = seen_id(o)
            if rt is None:
                terms.append("false")
            else:
                reply = "None"
                if call["reply"] is not None and rid is not None:
                    reply = "(Some %s)" % coq_bytes(bytes.fromhex(call["reply"]).replace(b"@ID@", str(rid).encode()))
                terms.append("client_conf %d %s 1024 1024 %d %s %s" % (TAG[call["call"]], "true" if declared else "false", rid or 0, reply, rt))
            index.append((ci, j))
    return terms, index


def client_monitor(case, ob):
    """C08: a payload is accepted (ok / altered) only when the peer's reply to THIS request is a
            S2M_FORWARD_BROADCAST_PAYLOAD_ACK saying valid=true, and an alteration is exactly the reply's bytes;
       C09: authentication succeeds only on an S2M_AUTH_ACK for THIS request with succeeded=true, and the name is
            the one in that reply; a challenge is only reported when succeeded=false.
       Both: an undeclared operation never reaches the wire."""
    v = []
    if "calls" not in ob:
        return [("C08", "setup error " + str(ob)[:200], 0)]
    for j, (call, o) in enumerate(zip(case["calls"], ob["calls"])):
        res = o["result"]
        declared = OPNAME[call["call"]] in case["ops"]
        rid = seen_id(o)
        reply = bytes.fromhex(call["reply"]) if call["reply"] is not None else b""
        line = reply.split(b"\n")[0].replace(b"@ID@", str(rid).encode() if rid is not None else b"@")
        toks = line.split(b" ")
        if not declared and rid is not None:
            v.append(("C06", f"undeclared operation {call['call']} was sent to the modulator", j))
        mine = rid is not None and (b"id=%d" % rid) in toks
        if call["call"] == "fbp":
            accepted = res == "ok" or (isinstance(res, dict) and "altered" in res)
            good = declared and mine and toks[0] == b"S2M_FORWARD_BROADCAST_PAYLOAD_ACK" and b"valid=true" in toks
            if accepted and not good:
                v.append(("C08", f"payload accepted although the modulator's reply was {line[:90]!r}", j))
            if res == "ok" and good and b"altered_payload=true" in toks:
                v.append(("C08", f"the modulator's verdict was 'valid, altered' ({line[:90]!r}) but the ORIGINAL payload was accepted", j))
            if isinstance(res, dict) and "altered" in res:
                body = reply.split(b"\n", 1)[1] if b"\n" in reply else b""
                if bytes.fromhex(res["altered"]) != body[:len(bytes.fromhex(res['altered']))] or b"altered_payload=true" not in toks:
                    v.append(("C08", "altered payload differs from the bytes the modulator sent", j))
        if call["call"] == "auth":
            if isinstance(res, dict) and "auth_success" in res:
                good = declared and mine and toks[0] == b"S2M_AUTH_ACK" and b"succeeded=true" in toks
                if not good:
                    v.append(("C09", f"authentication succeeded although the modulator's reply was {line[:90]!r}", j))
                elif (b"username=" + sl.enc_val(bytes.fromhex(res["auth_success"]))) not in line:
                    v.append(("C09", "authenticated name is not the one the modulator returned", j))
            if isinstance(res, dict) and "auth_continue" in res:
                if not (declared and mine and toks[0] == b"S2M_AUTH_ACK" and b"succeeded=false" in toks):
                    v.append(("C09", f"challenge reported although the reply was {line[:90]!r}", j))
        if call["call"] == "spp" and res == "ok":
            # C17: a client's direct message counts as accepted only on an S2M_MOD_DIRECT_ACK for THIS request saying valid=true
            if not (declared and mine and toks[0] == b"S2M_MOD_DIRECT_ACK" and b"valid=true" in toks):
                v.append(("C17", f"direct message reported as accepted although the modulator's reply was {line[:90]!r}", j))
        if call["call"] == "event" and res == "ok":
            if not (declared and mine and toks[0] == b"S2M_FORWARD_EVENT_ACK"):
                v.append(("C18", f"event reported as forwarded although the modulator's reply was {line[:90]!r}", j))
    return v


# ------------------------------------------------------------------ the handshake reply in several segments (C10)
def split_handshake_cases(r, n):
    """the peer's S2M_CONNECT_ACK arrives in one piece, and the very same bytes cut at 1-3 random offsets (also right
    before the newline and after the first bytes): the client must negotiate the same session and answer the same calls
    in the same way — a byte stream means the same however it is segmented, on the client's handshake path too."""
    cases = []
    for _ in range(n):
        ops = list(OPS)
        mm, mp = r.choice([1024, 4096, 8192]), r.choice([1024, 65536, 262144])
        hs = handshake_bytes(ops, mm, mp)
        calls = []
        for call in ("auth", "fbp"):
            if call == "auth":
                calls.append({"call": "auth", "token": b"tok".hex(), "close": False,
                              "reply": sl.frame("S2M_AUTH_ACK", [("id", "@ID@"), ("username", "alice"), ("succeeded", True)]).replace(b"id=@ID@", b"id=@ID@").hex()})
            else:
                calls.append({"call": "fbp", "payload": b"hello".hex(), "from": b"alice@localhost".hex(), "channel": b"c1".hex(), "close": False,
                              "reply": sl.frame("S2M_FORWARD_BROADCAST_PAYLOAD_ACK", [("id", "@ID@"), ("valid", True), ("altered_payload", False), ("altered_payload_length", 0)]).hex()})
        base = {"cfg": {"client_timeout_ms": 50, "backoff_initial_ms": 1, "backoff_max_ms": 2}, "ops": ops, "handshake": hs.hex(), "calls": calls}
        k = r.choice([1, 1, 2, 3])
        cuts = sorted(set(r.choice([1, 2, 3, 7, len(hs) // 2, len(hs) - 2, len(hs) - 1, r.randrange(1, len(hs))]) for _ in range(k)))
        cut = dict(base)
        cut["handshake_cut"] = cuts
        cases.append(base)
        cases.append(cut)
    return cases


def split_handshake_monitor(cases, obs):
    v = []
    for i in range(0, len(cases), 2):
        a, b = obs[i], obs[i + 1]
        ra = [o["result"] for o in a.get("calls", [])] if "calls" in a else a
        rb = [o["result"] for o in b.get("calls", [])] if "calls" in b else b
        if ra != rb:
            v.append(("the same handshake reply cut at offsets %s changes what the client does: whole %s, cut %s" % (cases[i + 1]["handshake_cut"], ra, rb), cases[i + 1]))
    return v


# ------------------------------------------------------------------ start-up negotiation of the size limits (C14)
def init_cases(r, n):
    """narwhal_modulator::init_modulator against a peer advertising arbitrary limits: the limits the server goes on to
    run with are the smaller of its own configuration and the modulator's (Model/Link.adjust_limit)"""
    cases = []
    vals = [256, 1024, 4096, 8192, 65536, 262144, 1 << 20]
    for _ in range(n):
        mm, mp = r.choice(vals[:5]), r.choice(vals)
        cm, cp = r.choice(vals[:5]), r.choice(vals)
        cases.append({"cfg": {"client_timeout_ms": 50, "backoff_initial_ms": 1, "backoff_max_ms": 2}, "ops": list(OPS),
                      "handshake": handshake_bytes(list(OPS), mm, mp).hex(), "calls": [],
                      "init": {"c2s_max_message": cm, "c2s_max_payload": cp}, "advertised": {"max_message": mm, "max_payload": mp}})
    return cases


def init_monitor(case, ob):
    if "init" not in ob:
        return ["the start-up negotiation failed against a healthy modulator: " + str(ob)[:200]]
    v = []
    for k, ck, ak in (("adjusted_max_message", "c2s_max_message", "max_message"), ("adjusted_max_payload", "c2s_max_payload", "max_payload")):
        got, conf, adv = ob["init"][k], case["init"][ck], case["advertised"][ak]
        if got > conf:
            v.append("the server configured with %s=%d runs with %d after negotiating with a modulator that advertises %d" % (ck, conf, got, adv))
        elif got != min(conf, adv):
            v.append("negotiated %s=%d, configured %d, modulator advertises %d" % (k, got, conf, adv))
    return v


def init_conf_terms(cases, obs):
    terms = []
    for c, ob in zip(cases, obs):
        if "init" not in ob:
            terms.append("false")
            continue
        terms.append("(adjust_limit %d %d =? %d) && (adjust_limit %d %d =? %d)" % (
            c["init"]["c2s_max_message"], c["advertised"]["max_message"], ob["init"]["adjusted_max_message"],
            c["init"]["c2s_max_payload"], c["advertised"]["max_payload"], ob["init"]["adjusted_max_payload"]))
    return terms


# ------------------------------------------------------------------ reconnection back-off with the peer away (C16)
def unreachable_cases(r, n):
    cases = []
    for _ in range(n):
        retries = r.choice([3, 5, 20, 30, 40])
        ini, mx = r.choice([(1, 2), (10, 100), (100, 1000)])
        cases.append({"cfg": {"client_timeout_ms": 50, "backoff_initial_ms": ini, "backoff_max_ms": mx, "backoff_retries": retries, "client_connect_timeout_ms": 100},
                      "unreachable": True, "ops": list(OPS), "handshake": None, "calls": [{"call": "auth"}, {"call": "auth"}]})
    return cases


def unreachable_monitor(case, ob):
    v = []
    cfg = case["cfg"]
    # every wait is the capped delay plus a jitter of at most the capped delay
    bound = cfg["backoff_retries"] * 2 * cfg["backoff_max_ms"] + (cfg["backoff_retries"] + 1) * cfg["client_connect_timeout_ms"] + 100
    for j, o in enumerate(ob.get("calls", [])):
        if o["result"] != "err":
            v.append("a request issued while the peer is away ended as %s (expected a failure)" % o["result"])
        elif o["elapsed_ms"] > bound:
            v.append("a request issued while the peer is away failed only after %d ms; %d reconnection attempts with delays capped at %d ms allow for at most %d ms" % (
                o["elapsed_ms"], cfg["backoff_retries"], cfg["backoff_max_ms"], bound))
    return v


# ------------------------------------------------------------------ C10 on the client's read path
def opacity_cases(r, n):
    """replies whose payload bytes look like protocol lines (PINGs, acks for other requests), with every combination of
    the verdict flags; a second call follows on the same link"""
    cases = []
    for _ in range(n):
        body = r.choice([b"PING id=77\nPING id=78\n", b"S2M_FORWARD_EVENT_ACK id=@ID2@\nPING id=5\n", b"PING id=9\n" + bytes(r.randrange(256) for _ in range(20)),
                         b"\n\n\nPING id=3\n", bytes(r.randrange(256) for _ in range(40))])
        valid = r.random() < 0.5
        reply = sl.frame("S2M_FORWARD_BROADCAST_PAYLOAD_ACK", [("id", "@ID@"), ("valid", valid), ("altered_payload", True), ("altered_payload_length", len(body))], body)
        calls = [{"call": "fbp", "reply": reply.hex(), "close": False, "payload": b"orig".hex(), "from": b"alice@localhost".hex(), "channel": b"c1".hex(),
                  "opaque_body": body.hex(), "valid": valid},
                 {"call": "event", "reply": sl.frame("S2M_FORWARD_EVENT_ACK", [("id", "@ID@")]).hex(), "close": False, "kind": "MEMBER_LEFT",
                  "channel": b"!c1@localhost".hex(), "nid": b"alice@localhost".hex(), "owner": False}]
        cases.append({"cfg": {"client_timeout_ms": 50, "backoff_initial_ms": 1, "backoff_max_ms": 2}, "ops": list(OPS),
                      "handshake": handshake_bytes(list(OPS)).hex(), "calls": calls})
    return cases


def opacity_monitor(case, ob):
    """payload bytes are opaque: whatever they look like, the client answers none of them, keeps the link, and hands an
    accepted alteration over byte for byte"""
    v = []
    if "calls" not in ob:
        return [("setup error " + str(ob)[:200], 0)]
    c0, o0 = case["calls"][0], ob["calls"][0]
    body = bytes.fromhex(c0["opaque_body"])
    for j, o in enumerate(ob["calls"]):
        for f in o["seen"]:
            if "handshake" in f or "undecodable" in f:
                continue
            if sl.frame_name(f) not in ("S2M_FORWARD_BROADCAST_PAYLOAD", "S2M_FORWARD_EVENT"):
                v.append((f"the client wrote a {sl.frame_name(f)} frame although it had only been sent a reply whose PAYLOAD contains such lines", j))
        if o["connects"] != 1:
            v.append((f"the link was dropped and re-dialled ({o['connects']} connects) after a well-formed reply with an opaque payload", j))
    want = {"altered": body.hex()} if c0["valid"] else "invalid"
    if o0["result"] != want:
        v.append((f"reply valid={c0['valid']} with a {len(body)}-byte payload was mapped to {str(o0['result'])[:60]}", 0))
    if ob["calls"][1]["result"] != "ok":
        v.append((f"the call that followed on the same link failed: {ob['calls'][1]['result']}", 1))
    return v


# ------------------------------------------------------------------ C20 on the modulator links
def keepalive_cases(r, n):
    """an S2M / M2S peer completes the handshake asking for some heartbeat and then stays silent: it must be pinged at the
    ANNOUNCED interval (not sooner, and within two intervals) and, not answering, closed three intervals after the PING"""
    cases = []
    for _ in range(n):
        kind = r.choice(["s2m", "m2s"])
        cfg = link_cfg(r)
        cfg.update({"keepalive_ms": r.choice([2000, 3000]), "min_keepalive_ms": r.choice([100, 200]), "secret": "", "settle_ms": 1,
                    "max_inflight": 10, "connect_timeout_ms": 3600000})
        req = r.choice([0, 50, 150, 200, 400, 1000, cfg["keepalive_ms"], cfg["keepalive_ms"] + 500])
        name = "S2M_CONNECT" if kind == "s2m" else "M2S_CONNECT"
        ops = [{"t": "send", "bytes": sl.frame(name, [("version", 1), ("heartbeat_interval", req)]).hex(), "script": []}]
        h = cfg["keepalive_ms"] if req == 0 else max(cfg["min_keepalive_ms"], min(cfg["keepalive_ms"], req))
        step = max(h // 4, 10)
        for _ in range(4 * 6 + 4):
            ops.append({"t": "advance", "ms": step})
        cases.append({"kind": kind, "cfg": cfg, "ops": ops, "hb_expected": h, "req": req})
    return cases


def keepalive_monitor(case, ob):
    v = []
    if "ops" not in ob:
        return [("setup error " + str(ob)[:200], 0)]
    h = case["hb_expected"]
    ackname = "S2M_CONNECT_ACK" if case["kind"] == "s2m" else "M2S_CONNECT_ACK"
    now = 0
    t_ack = t_ping = t_closed = None
    announced = None
    for t, (op, o) in enumerate(zip(case["ops"], ob["ops"])):
        now += op.get("ms", 0) + case["cfg"]["settle_ms"]
        for f in o["frames"]:
            if "undecodable" in f:
                continue
            n = sl.frame_name(f)
            if n == ackname and t_ack is None:
                t_ack = now
                announced = sl.frame_get(f, "heartbeat_interval")
            if n == "PING" and t_ping is None:
                t_ping = now
        if o["closed"] and t_closed is None:
            t_closed = now
    if t_ack is None:
        return [("the handshake was not acknowledged", 0)]
    if announced != h:
        v.append((f"announced heartbeat {announced} ms, requested {case['req']} clamped to [{case['cfg']['min_keepalive_ms']},{case['cfg']['keepalive_ms']}] is {h}", 0))
    slack = max(h // 4, 10) + 10
    if t_ping is None or t_ping - t_ack > 2 * h + slack:
        v.append((f"silent link (announced heartbeat {announced} ms) was not pinged within two intervals (first PING after {None if t_ping is None else t_ping - t_ack} ms)", 0))
    elif t_ping - t_ack < h - 5:
        v.append((f"PING after {t_ping - t_ack} ms, sooner than the announced {announced} ms", 0))
    if t_ping is not None:
        if t_closed is None or t_closed - t_ping > 3 * h + slack:
            v.append((f"PING unanswered but the link was not closed three intervals later (closed after {None if t_closed is None else t_closed - t_ping} ms)", 0))
        elif t_closed - t_ping < 3 * h - slack:
            v.append((f"link closed {t_closed - t_ping} ms after the PING, sooner than three intervals of {announced} ms", 0))
    return v
